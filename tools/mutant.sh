#!/bin/sh
# usage: tools/mutant.sh <patch.diff> <Cxx> [tier]
# Applies the patch in a throw-away worktree of /repo (never in /repo itself), runs the check against
# that tree (VERIF_REPO), removes the worktree. Exit code = the check's.
set -u
P=$(readlink -f "$1"); PROP=$2; TIER=${3:-quick}
WT=$(mktemp -d /tmp/wt-mut-XXXXXX)
git -C /repo worktree add -q --detach "$WT" HEAD || exit 2
( cd "$WT" && git apply "$P" ) || { echo "patch does not apply"; git -C /repo worktree remove --force "$WT"; exit 2; }
cd /verif
VERIF_REPO="$WT" ./check $PROP $TIER; rc=$?
git -C /repo worktree remove --force "$WT"
TAG=$(printf %s "$WT" | sha256sum | cut -c1-8)
rm -rf /verif/out/mod-$TAG /verif/out/bin/*-$TAG.test /verif/out/bin/*-$TAG.race.test /verif/out/run-$TAG 2>/dev/null
echo "mutant $(basename $P) on $PROP: exit $rc"
exit $rc
