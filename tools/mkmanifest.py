#!/usr/bin/env python3
"""Regenerates MANIFEST.json from checks.json (single source of truth for per-property metadata)."""
import json, os
ROOT = os.path.dirname(os.path.dirname(os.path.abspath(__file__)))
import glob
cfg = {}
for f in sorted(glob.glob(os.path.join(ROOT, "props", "*", "check.json"))):
    c = json.load(open(f)); cfg[c["id"]] = c
ready = set(json.load(open(os.path.join(ROOT, "ready.json"))))
props = [json.loads(l)["id"] for l in open(os.path.join(ROOT, "properties.jsonl"))]
na = json.load(open(os.path.join(ROOT, "not_applicable.json"))) if os.path.exists(os.path.join(ROOT, "not_applicable.json")) else {}
checks = []
for p in props:
    if p not in cfg or p not in ready:
        continue
    c = cfg[p]
    checks.append({
        "property_id": p,
        "quick_cmd": "./check %s quick" % p,
        "thorough_cmd": "./check %s thorough" % p,
        "evidence_file": "/verif/evidence/%s.json" % p,
        "replay_cmd_template": "./check --replay {path}",
        "engine": "rapid+gofuzz",
        "level_claimed": {"category": c.get("level", "exploration"), "text": c["level_text"], "design_ref": c.get("design_ref", "DESIGN.md section 4, " + p)},
        "level_note": c.get("level_note", "Decided relative to the pure-Go stand-in for Themis (same API contract and sizes; DESIGN 1.1); generated-input search, no absence proof."),
        "technique": c.get("technique", "property-based testing (rapid) against an explicit oracle"),
    })
claimed = {c["property_id"] for c in checks}
m = {
    "version": 1,
    "setup_cmd": "./setup.sh",
    "hooks": {"guard": "verif", "enable": "go test -tags verif (no hook files exist: every seam used is exported API, DESIGN 1.3)",
              "baseline_off_cmd": "cd /repo && GOFLAGS=-mod=mod GOPROXY=off GOSUMDB=off go test -json -vet=off -count=1 -timeout 25m ./...",
              "source_commits": [], "add_only": True},
    "engines": [{"name": "rapid+gofuzz", "path": "/verif/check", "serves_properties": sorted(claimed),
                 "kind_free_text": "Go property-based testing (pgregory.net/rapid v1.3.0: structured and stateful generators, shrinking, cases saved as JSON replay files) plus Go native coverage-guided fuzzing in the thorough tier; harness module replaces gothemis by a pure-Go stand-in"}],
    "checks": checks,
    "notes": "All checks rebuild the property test binary against /repo's working tree (go test -c, build cache). Exit 2 = inconclusive (harness build failure, time-out), never a violation. known_findings.json lists open findings (printed as KNOWN-FINDING) and fixed ones.",
    "not_applicable": [{"property_id": p, "reason": na.get(p, "check not built yet in this session (see DESIGN.md section 4 for the planned check)")} for p in props if p not in claimed],
}
json.dump(m, open(os.path.join(ROOT, "MANIFEST.json"), "w"), indent=1)
print("claimed:", sorted(claimed))
