#!/usr/bin/env python3
"""usage: tools/cover.py Cxx [tier]   (run after: VERIF_COVER=1 ./check Cxx quick)
Merges the statement-coverage profiles of a VERIF_COVER run and prints, for the files the property is
anchored in (properties.jsonl anchors.files) and for any other file given with --file, the share of
statements of /repo the generated cases executed and the functions below --below percent.
Coverage of acra by a check is a map of where the generators do not go; it is not evidence of correctness."""
import sys, os, json, glob, re, subprocess, collections
ROOT = os.path.dirname(os.path.dirname(os.path.abspath(__file__)))
prop = sys.argv[1]; tier = sys.argv[2] if len(sys.argv) > 2 and not sys.argv[2].startswith("-") else "quick"
below = 60
extra = []
for i, a in enumerate(sys.argv):
    if a == "--below": below = int(sys.argv[i + 1])
    if a == "--file": extra.append(sys.argv[i + 1])
run = os.path.join(ROOT, "out", "run", "%s-%s-cover" % (prop, tier))
blocks = {}
for f in glob.glob(os.path.join(run, "cover-*.out")):
    for line in open(f):
        if line.startswith("mode:"): continue
        m = re.match(r"(.+):(\d+)\.(\d+),(\d+)\.(\d+) (\d+) (\d+)$", line.strip())
        if not m: continue
        k = (m.group(1), int(m.group(2)), int(m.group(3)), int(m.group(4)), int(m.group(5)), int(m.group(6)))
        blocks[k] = blocks.get(k, 0) + int(m.group(7))
merged = os.path.join(run, "merged.out")
with open(merged, "w") as o:
    o.write("mode: count\n")
    for k, c in sorted(blocks.items()):
        o.write("%s:%d.%d,%d.%d %d %d\n" % (k + (c,)))
anchors = []
for l in open(os.path.join(ROOT, "properties.jsonl")):
    p = json.loads(l)
    if p["id"] == prop: anchors = p["anchors"]["files"]
anchors += extra
pre = "github.com/cossacklabs/acra/"
perfile = collections.defaultdict(lambda: [0, 0])
for k, c in blocks.items():
    perfile[k[0]][1] += k[5]
    if c: perfile[k[0]][0] += k[5]
print("== %s %s: statement coverage of anchored files" % (prop, tier))
for a in anchors:
    names = [f for f in perfile if f == pre + a or f.startswith(pre + a.rstrip("/") + "/")]
    if not names: print("  %-60s (not in profile)" % a)
    for f in sorted(names):
        c, t = perfile[f]
        print("  %-70s %5d/%-5d %3d%%" % (f[len(pre):], c, t, 100 * c // max(t, 1)))
e = dict(os.environ); e.update({"GOFLAGS": "-mod=mod", "GOPROXY": "off", "GOSUMDB": "off", "GOTOOLCHAIN": "local"})
out = subprocess.run(["go", "tool", "cover", "-func", merged], cwd=ROOT, env=e, stdout=subprocess.PIPE, stderr=subprocess.STDOUT, text=True).stdout
print("== functions of anchored files below %d%%" % below)
for line in out.splitlines():
    m = re.match(r"(\S+):(\d+):\s+(\S+)\s+([\d.]+)%", line)
    if not m: continue
    f = m.group(1)
    if not any(f == pre + a or f.startswith(pre + a.rstrip("/") + "/") for a in anchors): continue
    if f.endswith("_test.go"): continue
    if float(m.group(4)) < below:
        print("  %-60s %-40s %5s%%" % (f[len(pre):] + ":" + m.group(2), m.group(3), m.group(4)))
