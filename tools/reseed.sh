#!/bin/sh
# usage: tools/reseed.sh [ID ...]     (default: every directory under seeded/)
# Re-runs the quick check of each seeded change's property against a throw-away worktree with the change
# applied and prints one line per seed: DETECTED (exit 1), MISSED (exit 0), INCONCLUSIVE (exit 2),
# STALE (patch no longer applies on /repo HEAD - later fix commits touched the same lines).
cd "$(dirname "$0")/.."
IDS="$*"; [ -n "$IDS" ] || IDS=$(ls seeded)
for id in $IDS; do
  prop=${id%%-*}
  out=$(tools/mutant.sh seeded/$id/patch.diff $prop quick 2>&1); rc=$?
  if echo "$out" | grep -q "patch does not apply"; then echo "$id STALE"; continue; fi
  sig=$(echo "$out" | grep VIOLATION | head -1 | cut -c1-160)
  case $rc in 1) echo "$id DETECTED $sig";; 0) echo "$id MISSED";; *) echo "$id INCONCLUSIVE rc=$rc";; esac
done
