#!/bin/sh
# usage: tools/seedcheck.sh /tmp/seeds/<ID>-X <Cxx>
# Confirms a seeded change independently: patch applies; demo fails with it and passes without it;
# pinned baseline still passes with it; then runs our quick check against the patched tree.
set -u
D=$(readlink -f "$1"); PROP=$2
export GOFLAGS=-mod=mod GOPROXY=off GOSUMDB=off GOTOOLCHAIN=local
PLACE=$(python3 -c "import json;print(json.load(open('$D/meta.json'))['demo_place'])")
WT=$(mktemp -d /tmp/wt-seed-XXXXXX)
git -C /repo worktree add -q --detach "$WT" HEAD || exit 2
cd "$WT"
mkdir -p "$(dirname "$PLACE")"; cp "$D/demo_test.go" "$PLACE"
PKG=./$(dirname "$PLACE")
echo "== demo WITHOUT the change (must pass)"
go test -modfile=/verif/conform/acra.mod -vet=off -count=1 -run 'Seed|Demo' "$PKG" 2>&1 | tail -4
git apply "$D/patch.diff" || { echo "PATCH DOES NOT APPLY"; cd /; git -C /repo worktree remove --force "$WT"; exit 2; }
echo "== demo WITH the change (must fail)"
go test -modfile=/verif/conform/acra.mod -vet=off -count=1 -run 'Seed|Demo' "$PKG" 2>&1 | tail -6
rm -f "$PLACE"
echo "== pinned baseline with the change"
go test -vet=off -count=1 ./sqlparser/... ./keystore/v2/keystore/filesystem/backend/... ./keystore/v2/keystore/signature/... 2>&1 | grep -v "no test files" | grep -v "^ok" | tail -5
echo "== acra tests of touched packages with the change"
for f in $(git diff --name-only | xargs -n1 dirname | sort -u); do go test -modfile=/verif/conform/acra.mod -vet=off -count=1 ./$f/ 2>&1 | tail -1; done
echo "== our check"
cd /verif
VERIF_REPO="$WT" ./check $PROP quick 2>&1 | grep -v "^KNOWN" | cut -c1-300 | tail -8; rc=$?
TAG=$(printf %s "$WT" | sha256sum | cut -c1-8)
git -C /repo worktree remove --force "$WT"
rm -rf /verif/out/mod-$TAG /verif/out/bin/*-$TAG.test /verif/out/bin/*-$TAG.race.test /verif/out/run-$TAG 2>/dev/null
