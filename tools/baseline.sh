#!/bin/sh
# usage: tools/baseline.sh [tree]   -- runs the pinned test suite (/root/.vp/BASELINE.json: stable_pass) in the tree
# (default /repo) and reports how many of the pinned tests pass.
T=${1:-/repo}
export GOPROXY=off GOSUMDB=off GOTOOLCHAIN=local
cd "$T" && go test -mod=mod -json -vet=off -count=1 -timeout 25m ./... 2>/dev/null > /tmp/baseline.$$.json
python3 - /tmp/baseline.$$.json <<'PY'
import json,sys
want=set(json.load(open('/root/.vp/BASELINE.json'))['stable_pass'])
got={}
for l in open(sys.argv[1]):
    try: e=json.loads(l)
    except Exception: continue
    if e.get('Test') and e.get('Action') in('pass','fail','skip'):
        got[e['Package']+'::'+e['Test']]=e['Action']
ok=[t for t in want if got.get(t)=='pass']
bad=sorted(t for t in want if got.get(t)!='pass')
print(f"pinned tests passing: {len(ok)}/{len(want)}")
for b in bad[:20]: print("  NOT PASSING:", b, got.get(b))
sys.exit(0 if not bad else 1)
PY
rc=$?; rm -f /tmp/baseline.$$.json; git -C "$T" status --short | head -5; exit $rc
