#!/bin/sh
# usage: tools/seedsum.sh    one line per out/seed-<ID>.log written by tools/seedcheck.sh
cd "$(dirname "$0")/.."
for f in out/seed-*.log; do id=$(basename $f .log); id=${id#seed-}
 if sed -n '/== our check/,$p' $f | grep -q "quick seed\|INCONCLUSIVE"; then
  v=$(grep -c "^VIOLATION" $f); inc=$(grep -c "^INCONCLUSIVE" $f)
  d1=$(sed -n '/== demo WITHOUT/,/== demo WITH the/p' $f | grep -c "^ok"); d2=$(sed -n '/== demo WITH the/,/== pinned/p' $f | grep -c "^FAIL\|^--- FAIL\|panic")
  b=$(sed -n '/== pinned/,/== acra tests/p' $f | grep -c "FAIL"); a=$(sed -n '/== acra tests/,/== our check/p' $f | grep -c "FAIL")
  st=MISSED; [ $v -gt 0 ] && st=DETECTED; [ $inc -gt 0 ] && [ $v -eq 0 ] && st=INCONCLUSIVE
  echo "$id $st demo_ok_without=$d1 demo_fail_with=$d2 baselineFAIL=$b acraFAIL=$a"
 else echo "$id running"; fi
done
