#!/usr/bin/env python3
"""usage: tools/keepseed.py <ID-X> <detected_by text> [--first-missed "<what was strengthened>"]
Copies a confirmed seeded change from /tmp/seeds/<ID-X> into /verif/seeded/<ID-X> and completes its meta.json."""
import json, shutil, subprocess, sys, os
sid = sys.argv[1]; detected = sys.argv[2]
missed = None
if '--first-missed' in sys.argv: missed = sys.argv[sys.argv.index('--first-missed')+1]
src = f'/tmp/seeds/{sid}'; dst = f'/verif/seeded/{sid}'
os.makedirs(dst, exist_ok=True)
for f in ('patch.diff', 'demo_test.go'): shutil.copy(f'{src}/{f}', f'{dst}/{f}')
m = json.load(open(f'{src}/meta.json'))
if 'tests_run' in m: m['author_tests_run'] = m.pop('tests_run')
m.pop('demo_cmd', None)
prop = sid.split('-')[0]
m['author'] = 'fresh sub-agent given only the property text and a scratch worktree (no access to /verif)'
m['confirmed_by'] = f'tools/seedcheck.sh seeded/{sid} {prop}: patch applies on /repo HEAD; demo passes without and fails with the change; pinned baseline and acra\'s tests of the touched packages pass with the change'
m['detected_by'] = detected
if missed: m['first_run'] = 'MISSED by the check as it was; ' + missed
m['confirmed_at_repo_commit'] = subprocess.check_output(['git','-C','/repo','rev-parse','--short','HEAD'], text=True).strip()
json.dump(m, open(f'{dst}/meta.json','w'), indent=1, ensure_ascii=False)
print('kept', dst)
