package kshist

import (
	"fmt"
	"regexp"
	"sort"
	"strings"
	"time"

	"github.com/cossacklabs/acra/keystore"

	"verif/internal/hx"
)

// SigNoCurrent is the signature class of the one deviation Run adapts to instead of stopping at:
// after the current key was destroyed, the keystore has no current key (reads of the current key
// fail and the newest surviving generation is still listed as rotated) until a new key is
// generated, whereas the property text makes the newest survivor the current key. The fixture's
// format is appended: "no-current-after-destroy-current:v1".
const SigNoCurrent = "no-current-after-destroy-current"

// Hooks let a property observe the run (all optional).
type Hooks struct {
	// AfterGenerate is called once the value of a new generation has been learnt.
	AfterGenerate func(step int, h *History, g *Gen)
	// OnAllKeys is called after every successful all-keys read with the keys returned and the
	// generations that read was required to offer (all survivors for an exact read, the surviving
	// previously offered ones for a read through a possibly stale cache). via names the handle.
	OnAllKeys func(step int, h *History, keys [][]byte, required []*Gen, via string, vs *hx.Vs)
	// OnCurrent is called after every successful exact current-key read that returned the expected generation.
	OnCurrent func(step int, h *History, val KeyVal, g *Gen, via string, vs *hx.Vs)
	// AfterStep is called after every operation (and its comparison).
	AfterStep func(step int, op Op, r *Runner)
}

// Result is what Run returns.
type Result struct {
	Trace   []string       // one line per step (and per observer sweep finding)
	Vs      hx.Vs          // violations, in order of detection
	Discard string         // non-empty: inconclusive case (v1 history-name collision), not a violation
	Classes map[string]int // generator/behaviour classes reached by this run
	// NonTrivial: the history contains a rotation followed by a read-all of that key, or a
	// destruction followed by any read operation.
	NonTrivial bool
	Model      *Model
	Steps      int // operations executed before the run stopped
}

// Runner is the state of one run; exported for hooks.
type Runner struct {
	Fx    Fixture
	Obs   Fixture
	M     *Model
	Hooks Hooks
	Res   *Result

	stale     bool               // cached handle: a write happened since the last reset/reopen
	offered   map[K]map[int]bool // generations the handle under test returned so far
	warm      map[K]bool         // keys read through the handle under test since the last reset/reopen
	rotated   map[K]bool         // keys that had a rotation
	destroyed bool               // some destroy operation was executed
	times     map[int64]int      // distinct listing creation times, numbered in order of first sight
	stop      bool
	step      int
	op        Op
}

// Run applies ops to the fixture and to the reference model in lock-step and compares after every
// step. Reads through the handle under test are exact when the handle has no cache or no write
// happened since the last reset/reopen, otherwise they are held to the cache clause only (nothing
// foreign, never lose a surviving key offered earlier). After every write, a cache-less observer
// handle on the same storage reads every key and both listings, exactly. Key values are learnt by
// reading the current key through the observer right after generating it. The run stops at the first
// violation other than SigNoCurrent, to which the model adapts (History.NoCurrent).
func Run(fx Fixture, ops []Op, hooks Hooks) *Result {
	res := &Result{Classes: map[string]int{}, Model: NewModel()}
	r := &Runner{Fx: fx, M: res.Model, Hooks: hooks, Res: res, offered: map[K]map[int]bool{}, warm: map[K]bool{}, rotated: map[K]bool{}, times: map[int64]int{}}
	obs, err := fx.Observer()
	if err != nil {
		res.Vs.Add("harness:observer", "cannot open observer handle on %s: %v", fx.Name(), errs(err))
		return res
	}
	defer obs.Close()
	r.Obs = obs
	for i, op := range ops {
		if r.stop || res.Discard != "" {
			break
		}
		r.step, r.op = i, op
		r.apply(op)
		res.Steps = i + 1
		if hooks.AfterStep != nil && !r.stop {
			hooks.AfterStep(i, op, r)
		}
	}
	return res
}

func (r *Runner) tracef(format string, args ...any) {
	r.Res.Trace = append(r.Res.Trace, fmt.Sprintf("%d %s: ", r.step, r.op)+fmt.Sprintf(format, args...))
}

// Violate records a violation; fatal ones stop the run.
func (r *Runner) Violate(fatal bool, sig, format string, args ...any) {
	msg := fmt.Sprintf(format, args...)
	tr := strings.Join(r.Res.Trace, " | ")
	if len(tr) > 1800 {
		tr = "…" + tr[len(tr)-1800:]
	}
	r.Res.Vs.Add(sig, "%s step %d %s: %s || model: %s || trace: %s", r.Fx.Name(), r.step, r.op, msg, r.M.Snapshot(), tr)
	if fatal {
		r.stop = true
	}
}

func (r *Runner) guard(what string, f func()) bool {
	n := len(r.Res.Vs)
	if hx.Guard(&r.Res.Vs, what+"/"+r.Fx.Format(), f) {
		v := &r.Res.Vs[n]
		v.Msg = fmt.Sprintf("%s step %d %s: %s || model: %s || trace: %s", r.Fx.Name(), r.step, r.op, scratchPath.ReplaceAllString(v.Msg, "<keystore>"), r.M.Snapshot(), strings.Join(r.Res.Trace, " | "))
		r.stop = true
		return true
	}
	return false
}

func (r *Runner) exact() bool { return !r.Fx.Cached() || !r.stale }

func (r *Runner) shape(h *History) string {
	if h.HeadDestroyed() {
		return "current-destroyed"
	}
	for _, g := range h.Gens {
		if g.Destroyed {
			return "rotated-destroyed"
		}
	}
	return "intact"
}

func (r *Runner) offer(k K, g *Gen) {
	if r.offered[k] == nil {
		r.offered[k] = map[int]bool{}
	}
	r.offered[k][g.N] = true
}

func (r *Runner) noCurrent(h *History, what string) {
	sig := SigNoCurrent + ":" + r.Fx.Format()
	already := false
	for _, v := range r.Res.Vs {
		if v.Sig == sig {
			already = true
		}
	}
	h.NoCurrent = true
	r.Res.Classes["excluded:no-current-after-destroy-current"]++
	if !already {
		r.Violate(false, sig, "%s: the current key of %s was destroyed and generation %s survives, so the property makes %s the current key; %s", h.K, h.K, h.NewestSurvivor().Label(), h.NewestSurvivor().Label(), what)
	}
}

func (r *Runner) apply(op Op) {
	k := K{op.Key, op.ID}
	fx := r.Fx
	switch op.Kind {
	case OpGen:
		h := r.M.H(k)
		hadCurrent := h.NewestSurvivor() != nil && !h.HeadDestroyed()
		var err error
		if fx.Format() == "v1" && hadCurrent && !r.clockPastHistory(k) {
			return
		}
		if r.guard("generate", func() { err = fx.Generate(k.Kind, k.ID) }) {
			return
		}
		if err != nil {
			r.Violate(true, "generate-error:"+r.shape(h)+"@"+fx.Format(), "generating %s failed: %v", k, errs(err))
			return
		}
		if len(h.Gens) > 0 {
			r.rotated[k] = true
			r.Res.Classes["rotation"]++
		}
		if fx.Cached() && r.warm[k] && hadCurrent {
			r.Res.Classes["warm-cache-then-rotate"]++
		}
		g := h.Generate()
		r.stale = true
		var val KeyVal
		if r.guard("current-after-generate", func() { val, err = r.Obs.Current(k.Kind, k.ID) }) {
			return
		}
		if err != nil {
			r.tracef("generated %s, fresh handle cannot read it: %v", g.Label(), errs(err))
			r.Violate(true, "current-unreadable-after-generate:"+k.Kind+"@"+fx.Format(), "%s was generated without error but a fresh handle cannot read the current key: %v", k, errs(err))
			return
		}
		if oh, og := r.M.Owner(val.Secret); og != nil {
			r.tracef("generated %s, fresh handle reads %s/%s as current", g.Label(), oh.K, og.Label())
			r.Violate(true, "current-not-the-generated-key:"+fx.Format(), "after generating %s a fresh handle reads the older key %s/%s as the current key", k, oh.K, og.Label())
			return
		}
		g.Val, g.Learnt = val, true
		r.tracef("-> %s", g.Label())
		if r.Hooks.AfterGenerate != nil {
			r.Hooks.AfterGenerate(r.step, h, g)
		}
		r.sweep()
	case OpReadCurrent:
		r.noteRead()
		r.checkCurrent(fx, r.exact(), k, "handle")
	case OpReadAll:
		r.noteRead()
		if r.rotated[k] {
			r.Res.NonTrivial = true
			r.Res.Classes["rotation-then-readall"]++
		}
		r.checkAll(fx, r.exact(), k, "handle")
	case OpList:
		r.noteRead()
		r.checkListKeys(fx, "handle")
	case OpListRotated:
		r.noteRead()
		r.checkListRotated(fx, "handle")
	case OpDestroyCurrent:
		r.destroyCurrent(k)
	case OpDestroyRotated:
		r.destroyRotated(k, op.Index)
	case OpReset:
		if r.guard("reset", func() { fx.Reset() }) {
			return
		}
		r.stale = false
		r.warm = map[K]bool{}
		r.Res.Classes["reset"]++
		r.tracef("ok")
	case OpReopen:
		var err error
		if r.guard("reopen", func() { err = fx.Reopen() }) {
			return
		}
		if err != nil {
			r.Violate(true, "reopen-error@"+fx.Format(), "reopening the keystore failed: %v", errs(err))
			return
		}
		r.stale = false
		r.warm = map[K]bool{}
		r.Res.Classes["reopen"]++
		r.tracef("ok")
	default:
		r.Violate(true, "harness:op", "unknown operation %q", op.Kind)
	}
}

// clockPastHistory guards a v1 rotation: the old key file is backed up under the name "current
// time in nanoseconds", so a backup could only collide with (and overwrite) an earlier one if the
// clock has not moved past the newest name already in the key's history directory. That is
// checked by observation before rotating; if it ever is the case the run is discarded as
// inconclusive (the clock is not used as an oracle).
func (r *Runner) clockPastHistory(k K) bool {
	var ds []keystore.KeyDescription
	var err error
	if r.guard("list-rotated", func() { ds, err = r.Obs.ListRotatedKeys() }) || err != nil {
		return !r.stop // a failing listing is reported by the next comparison
	}
	rows, _ := r.rows(r.Obs, ds)
	now := time.Now()
	for _, x := range rows {
		if x.K == k && x.Time != nil && !now.After(*x.Time) {
			r.Res.Discard = "collision: the clock has not advanced past the newest history file of " + k.String()
			return false
		}
	}
	return true
}

func (r *Runner) noteRead() {
	if r.destroyed {
		r.Res.NonTrivial = true
		r.Res.Classes["destroy-then-read"]++
	}
}

func (r *Runner) destroyCurrent(k K) {
	fx := r.Fx
	h := r.M.H(k)
	if !Destroyable(k.Kind) {
		r.tracef("not offered for this kind; skipped")
		return
	}
	exp := h.Current()
	var err error
	if r.guard("destroy-current", func() { err = fx.DestroyCurrent(k.Kind, k.ID) }) {
		return
	}
	r.stale = true
	if exp == nil {
		// nothing to destroy (never generated, nothing survives, or the implementation has no current
		// key after an earlier destroy-current): an error or a silent no-op, and no change
		r.tracef("no current key; returned %v", errs(err))
		r.sweep()
		return
	}
	if err != nil {
		r.Violate(true, "destroy-current-error:"+r.shape(h)+"@"+fx.Format(), "destroying the current key %s of %s failed: %v", exp.Label(), k, errs(err))
		return
	}
	exp.Destroyed = true
	r.destroyed = true
	r.Res.Classes["destroy-current"]++
	if h.NewestSurvivor() != nil {
		r.Res.Classes["destroy-current-with-survivors"]++
	}
	r.tracef("destroyed %s", exp.Label())
	r.sweep()
}

// Row is one listing row attributed to a key.
type Row struct {
	K     K
	Part  string
	Index int
	State keystore.KeyState
	Time  *time.Time
	KeyID string
}

func (r *Runner) rows(via Fixture, ds []keystore.KeyDescription) (rows []Row, unknown []string) {
	for _, d := range ds {
		k, part, ok := via.Classify(d)
		if !ok {
			unknown = append(unknown, d.KeyID)
			continue
		}
		rows = append(rows, Row{K: k, Part: part, Index: d.Index, State: d.State, Time: d.CreationTime, KeyID: d.KeyID})
	}
	return rows, unknown
}

func rowsOf(rows []Row, k K, part string) []Row {
	var out []Row
	for _, x := range rows {
		if x.K == k && x.Part == part {
			out = append(out, x)
		}
	}
	sort.SliceStable(out, func(i, j int) bool { return out[i].Index < out[j].Index })
	return out
}

// chronological orders the rotated rows of one key oldest first, using the rows' creation times
// and, among rows whose times are equal, the listing order in the fixture's calibrated direction.
// tie reports whether some times were equal.
func chronological(rows []Row, tieOldestFirst bool) (out []Row, tie bool) {
	out = append(out, rows...) // sorted by Index ascending
	if !tieOldestFirst {
		for i, j := 0, len(out)-1; i < j; i, j = i+1, j-1 {
			out[i], out[j] = out[j], out[i]
		}
	}
	for i := range out {
		for j := i + 1; j < len(out); j++ {
			if out[i].Time == nil || out[j].Time == nil || out[i].Time.Equal(*out[j].Time) {
				tie = true
			}
		}
	}
	sort.SliceStable(out, func(i, j int) bool {
		if out[i].Time == nil || out[j].Time == nil {
			return false
		}
		return out[i].Time.Before(*out[j].Time)
	})
	return out, tie
}

// timesOf renders listing rows as "#index@tN", where tN numbers the distinct creation times in the
// order this run first saw them (messages must not depend on the clock).
func (r *Runner) timesOf(rows []Row) string {
	s := make([]string, len(rows))
	for i, x := range rows {
		if x.Time == nil {
			s[i] = fmt.Sprintf("#%d", x.Index)
			continue
		}
		key := x.Time.UnixNano()
		n, ok := r.times[key]
		if !ok {
			n = len(r.times)
			r.times[key] = n
		}
		s[i] = fmt.Sprintf("#%d@t%d", x.Index, n)
	}
	return "[" + strings.Join(s, " ") + "]"
}

var scratchPath = regexp.MustCompile(`[^\s:"']*kshist-(v[12]|cli)-[0-9]+(/keys)?`)

// errs renders an error without the per-case scratch directory (messages must be reproducible).
func errs(err error) string {
	if err == nil {
		return "<nil>"
	}
	return scratchPath.ReplaceAllString(err.Error(), "<keystore>")
}

func (r *Runner) destroyRotated(k K, index int) {
	fx := r.Fx
	h := r.M.H(k)
	if !Destroyable(k.Kind) {
		r.tracef("not offered for this kind; skipped")
		return
	}
	// the listing the operator picks the index from
	rows, ok := r.checkListRotated(fx, "handle")
	if !ok || r.stop || r.Res.Discard != "" {
		return
	}
	krows := rowsOf(rows, k, "")
	if len(krows) == 0 {
		r.tracef("no rotated key listed; skipped")
		return
	}
	chrono, tie := chronological(krows, fx.TieOldestFirst())
	if tie && fx.Format() == "v1" {
		r.Res.Discard = "collision: two v1 history files of " + k.String() + " carry the same timestamp " + r.timesOf(krows)
		return
	}
	row := krows[index%len(krows)]
	pos := -1
	for i := range chrono {
		if chrono[i].Index == row.Index {
			pos = i
		}
	}
	rot := h.Rotated()
	target := rot[pos] // checkListRotated made sure len(rot) == len(krows)
	var before map[string][]Row
	if IsPair(k.Kind) {
		before = map[string][]Row{"": chrono}
		pubChrono, _ := chronological(rowsOf(rows, k, "pub"), fx.TieOldestFirst())
		before["pub"] = pubChrono
	} else {
		before = map[string][]Row{"": chrono}
	}
	if len(krows) == 1 {
		r.Res.Classes["destroy-rotated:1"]++
	} else {
		r.Res.Classes["destroy-rotated:2+"]++
	}
	r.tracef("listing %s, chose index %d = %s", r.timesOf(krows), row.Index, target.Label())
	var err error
	if r.guard("destroy-rotated", func() { err = fx.DestroyRotated(k.Kind, k.ID, row.Index) }) {
		return
	}
	r.stale = true
	if err != nil {
		r.Violate(true, "destroy-rotated-error:"+r.shape(h)+"@"+fx.Format(), "destroying rotated key of %s by listed index %d (%d rotated keys listed) failed: %v", k, row.Index, len(krows), errs(err))
		return
	}
	target.Destroyed = true
	r.destroyed = true
	// the rotated listing must now be the previous one minus the chosen row
	ds, lerr := r.Obs.ListRotatedKeys()
	if lerr == nil {
		after, _ := r.rows(r.Obs, ds)
		for part, b := range before {
			if len(b) == 0 {
				continue
			}
			a, _ := chronological(rowsOf(after, k, part), fx.TieOldestFirst())
			var want []Row
			for i := range b {
				if i != pos {
					want = append(want, b[i])
				}
			}
			same := len(a) == len(want)
			for i := 0; same && i < len(a); i++ {
				same = (a[i].Time == nil && want[i].Time == nil) || (a[i].Time != nil && want[i].Time != nil && a[i].Time.Equal(*want[i].Time))
			}
			if !same {
				r.Violate(true, "destroy-rotated-wrong-key:listing@"+fx.Format(), "destroyed %s by listed index %d; rotated listing%s before %s, after %s, expected the chosen row (and no other) to be gone: %s", k, row.Index, partName(part), r.timesOf(b), r.timesOf(a), r.timesOf(want))
				return
			}
		}
	}
	r.sweep()
}

func partName(p string) string {
	if p == "" {
		return ""
	}
	return " (" + p + ")"
}

// sweep compares, through the cache-less observer, every key and both listings with the model.
func (r *Runner) sweep() {
	if r.stop || r.Res.Discard != "" {
		return
	}
	for _, k := range r.M.Keys() {
		r.checkCurrent(r.Obs, true, k, "fresh")
		if r.stop {
			return
		}
		if HasAllKeys(k.Kind) {
			r.checkAll(r.Obs, true, k, "fresh")
			if r.stop {
				return
			}
		}
	}
	r.checkListKeys(r.Obs, "fresh")
	if r.stop {
		return
	}
	r.checkListRotated(r.Obs, "fresh")
}

func (r *Runner) checkCurrent(via Fixture, exact bool, k K, who string) {
	h := r.M.H(k)
	var got KeyVal
	var err error
	if r.guard("read-current", func() { got, err = via.Current(k.Kind, k.ID) }) {
		return
	}
	onHandle := who == "handle"
	if err != nil {
		if onHandle {
			r.tracef("error %v", errs(err))
		}
		if !exact {
			return
		}
		exp := h.Current()
		switch {
		case exp == nil:
		case h.HeadDestroyed():
			r.noCurrent(h, fmt.Sprintf("%s handle: reading the current key fails: %v", who, errs(err)))
		default:
			r.Violate(true, "current-read-error:"+r.shape(h)+"@"+r.Fx.Format(), "%s handle: reading the current key of %s failed (%v), expected %s", who, k, errs(err), exp.Label())
		}
		return
	}
	g := h.ByValue(got.Secret)
	if onHandle {
		r.tracef("-> %s", r.M.Describe(h, [][]byte{got.Secret}))
		r.warm[k] = true
	}
	if g == nil {
		r.Violate(true, "foreign-key:current@"+r.Fx.Format(), "%s handle: current key of %s is %s, which is no generation of that key", who, k, r.M.Describe(h, [][]byte{got.Secret}))
		return
	}
	if onHandle {
		r.offer(k, g)
	}
	if !exact {
		return
	}
	exp := h.Current()
	if exp == nil && h.NoCurrent && g == h.NewestSurvivor() {
		exp = g // the newest survivor is what the property asks for
	}
	if g != exp {
		want := "no key"
		if exp != nil {
			want = exp.Label()
		}
		r.Violate(true, "wrong-current:"+r.shape(h)+"@"+r.Fx.Format(), "%s handle: current key of %s is %s, expected %s", who, k, r.M.Describe(h, [][]byte{got.Secret}), want)
		return
	}
	if IsPair(k.Kind) && string(got.Public) != string(exp.Val.Public) {
		r.Violate(true, "wrong-public-key:"+r.shape(h)+"@"+r.Fx.Format(), "%s handle: current private key of %s is %s but the public key is not the one generated with it", who, k, exp.Label())
		return
	}
	if r.Hooks.OnCurrent != nil {
		r.Hooks.OnCurrent(r.step, h, got, exp, who, &r.Res.Vs)
		r.stopIfNew()
	}
}

func (r *Runner) stopIfNew() {
	for _, v := range r.Res.Vs {
		if !strings.HasPrefix(v.Sig, SigNoCurrent+":") {
			r.stop = true
		}
	}
}

func (r *Runner) checkAll(via Fixture, exact bool, k K, who string) {
	h := r.M.H(k)
	if !HasAllKeys(k.Kind) {
		r.tracef("not offered for this kind; skipped")
		return
	}
	var got [][]byte
	var err error
	if r.guard("read-all", func() { got, err = via.All(k.Kind, k.ID) }) {
		return
	}
	onHandle := who == "handle"
	fmtv := r.Fx.Format()
	var required []*Gen
	if exact {
		required = h.Survivors()
	} else {
		for _, g := range h.Survivors() {
			if r.offered[k][g.N] {
				required = append(required, g)
			}
		}
	}
	if err != nil {
		if onHandle {
			r.tracef("error %v", errs(err))
		}
		if len(required) == 0 {
			return
		}
		if exact {
			r.Violate(true, "all-keys-error:"+r.shape(h)+"@"+fmtv, "%s handle: reading all keys of %s failed (%v), expected %s", who, k, errs(err), Labels(required))
		} else {
			r.Violate(true, "cache-lost-offered-key:"+fmtv, "%s (cache not reset since the last write): reading all keys of %s failed (%v), although the surviving %s were offered earlier", r.Fx.Name(), k, errs(err), Labels(required))
		}
		return
	}
	if onHandle {
		r.tracef("-> %s", r.M.Describe(h, got))
		r.warm[k] = true
	}
	var gens []*Gen
	for _, v := range got {
		g := h.ByValue(v)
		if g == nil {
			r.Violate(true, "foreign-key:all@"+fmtv, "%s handle: all keys of %s = %s contains a value that is no generation of that key", who, k, r.M.Describe(h, got))
			return
		}
		gens = append(gens, g)
	}
	if exact {
		same := len(gens) == len(required)
		for i := 0; same && i < len(gens); i++ {
			same = gens[i] == required[i]
		}
		if !same {
			sig := "all-keys-mismatch"
			set := map[*Gen]int{}
			for _, g := range gens {
				set[g]++
			}
			missing, extra := false, false
			for _, g := range required {
				if set[g] == 0 {
					missing = true
				}
			}
			for _, g := range gens {
				if g.Destroyed {
					extra = true
				}
			}
			switch {
			case missing:
				sig = "all-keys-missing-survivor"
			case extra:
				sig = "all-keys-offers-destroyed"
			case len(gens) == len(required):
				sig = "all-keys-order"
			}
			r.Violate(true, sig+":"+r.shape(h)+"@"+fmtv, "%s handle: all keys of %s = %s, expected the survivors newest first %s", who, k, r.M.Describe(h, got), Labels(required))
			return
		}
	} else {
		have := map[*Gen]bool{}
		for _, g := range gens {
			have[g] = true
		}
		for _, g := range required {
			if !have[g] {
				r.Violate(true, "cache-lost-offered-key:"+fmtv, "%s (cache not reset since the last write): all keys of %s = %s no longer offers the surviving %s, which this handle offered earlier", r.Fx.Name(), k, r.M.Describe(h, got), g.Label())
				return
			}
		}
	}
	if onHandle {
		for _, g := range gens {
			r.offer(k, g)
		}
	}
	if r.Hooks.OnAllKeys != nil {
		r.Hooks.OnAllKeys(r.step, h, got, required, who, &r.Res.Vs)
		r.stopIfNew()
	}
}

func (r *Runner) checkListKeys(via Fixture, who string) {
	var ds []keystore.KeyDescription
	var err error
	if r.guard("list-keys", func() { ds, err = via.ListKeys() }) {
		return
	}
	fmtv := r.Fx.Format()
	if err != nil {
		if len(r.M.Keys()) == 0 {
			if who == "handle" {
				r.tracef("error %v (empty keystore)", errs(err))
			}
			return
		}
		r.Violate(true, "list-keys-error@"+fmtv, "%s handle: ListKeys failed: %v", who, errs(err))
		return
	}
	rows, unknown := r.rows(via, ds)
	if who == "handle" {
		r.tracef("%d rows", len(ds))
	}
	if len(unknown) > 0 {
		r.Violate(true, "list-keys-unknown-row@"+fmtv, "%s handle: ListKeys shows rows that belong to no key: %v", who, unknown)
		return
	}
	for _, x := range rows {
		if !r.M.Has(x.K) {
			r.Violate(true, "list-keys-phantom-row@"+fmtv, "%s handle: ListKeys shows %q although %s was never generated", who, x.KeyID, x.K)
			return
		}
	}
	for _, k := range r.M.Keys() {
		h := r.M.H(k)
		if h.Current() == nil {
			continue // no current key expected: whether the (empty) key set is still listed is not decided by the property
		}
		parts := []string{""}
		if IsPair(k.Kind) && fmtv == "v1" {
			parts = append(parts, "pub")
		}
		for _, p := range parts {
			kr := rowsOf(rows, k, p)
			if len(kr) != 1 || kr[0].Index != 1 || kr[0].State != keystore.StateCurrent {
				r.Violate(true, "list-keys-current-row:"+r.shape(h)+"@"+fmtv, "%s handle: ListKeys must show exactly one row (index 1, state current) for %s%s, got %+v", who, k, partName(p), kr)
				return
			}
		}
	}
}

func (r *Runner) checkListRotated(via Fixture, who string) ([]Row, bool) {
	var ds []keystore.KeyDescription
	var err error
	if r.guard("list-rotated", func() { ds, err = via.ListRotatedKeys() }) {
		return nil, false
	}
	fmtv := r.Fx.Format()
	if err != nil {
		if len(r.M.Keys()) == 0 {
			if who == "handle" {
				r.tracef("error %v (empty keystore)", errs(err))
			}
			return nil, false
		}
		r.Violate(true, "list-rotated-error@"+fmtv, "%s handle: ListRotatedKeys failed: %v", who, errs(err))
		return nil, false
	}
	rows, unknown := r.rows(via, ds)
	if len(unknown) > 0 {
		r.Violate(true, "list-rotated-unknown-row@"+fmtv, "%s handle: ListRotatedKeys shows rows that belong to no key: %v", who, unknown)
		return nil, false
	}
	for _, x := range rows {
		if !r.M.Has(x.K) {
			r.Violate(true, "list-rotated-phantom-row@"+fmtv, "%s handle: ListRotatedKeys shows %q although %s was never generated", who, x.KeyID, x.K)
			return nil, false
		}
	}
	for _, k := range r.M.Keys() {
		h := r.M.H(k)
		parts := []string{""}
		if IsPair(k.Kind) && fmtv == "v1" {
			parts = append(parts, "pub")
		}
		for _, p := range parts {
			kr := rowsOf(rows, k, p)
			if h.HeadDestroyed() && !h.NoCurrent && len(kr) == len(h.Survivors()) {
				r.noCurrent(h, fmt.Sprintf("%s handle: the rotated listing%s still shows all %d survivors as rotated", who, partName(p), len(kr)))
			}
			want := h.Rotated()
			if len(kr) != len(want) {
				r.Violate(true, "rotated-listing-count:"+r.shape(h)+"@"+fmtv, "%s handle: rotated listing%s of %s shows %d rows %s, expected the %d surviving non-current generations %s", who, partName(p), k, len(kr), r.timesOf(kr), len(want), Labels(want))
				return nil, false
			}
			for i, x := range kr {
				if x.Index != i+2 || x.State != keystore.StateRotated {
					r.Violate(true, "rotated-listing-index@"+fmtv, "%s handle: rotated listing%s of %s must number its rows 2..%d with state rotated, got %+v", who, partName(p), k, len(kr)+1, kr)
					return nil, false
				}
			}
			if fmtv == "v1" {
				if _, tie := chronological(kr, true); tie {
					r.Res.Discard = "collision: two v1 history files of " + k.String() + " carry the same timestamp " + r.timesOf(kr)
					return nil, false
				}
			}
		}
	}
	if who == "handle" && r.op.Kind == OpListRotated {
		r.tracef("%d rows", len(ds))
	}
	return rows, true
}
