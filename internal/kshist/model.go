package kshist

import (
	"fmt"
	"sort"
	"strings"

	"verif/internal/gen"
)

// KeyVal is the value of one key generation as the keystore API returns it: Secret is the private
// key (pairs) or the symmetric key; Public is set for pairs only.
type KeyVal struct {
	Secret gen.Hex `json:"secret"`
	Public gen.Hex `json:"public,omitempty"`
}

// Gen is one generation of a key history.
type Gen struct {
	N         int    // 0 = first generated
	Val       KeyVal // learnt by reading the current key right after generating it
	Learnt    bool
	Destroyed bool
}

// Label is the short name used in traces and messages: g0, g1, ...
func (g *Gen) Label() string { return fmt.Sprintf("g%d", g.N) }

// History is the reference state of one key (kind, id): its generations in order of generation.
//
// Reference semantics, from the property text: the current key is the newest surviving generation;
// the all-keys read offers all surviving generations newest first; the rotated listing shows the
// surviving non-current generations; destroying listing row i removes the generation that row stands for.
//
// NoCurrent is the one tolerated deviation (recorded as a finding by Run, not decided here): after
// the current key was destroyed the implementation was observed to have *no* current key instead of
// falling back to the newest survivor. While it is set, Current() is nil and every survivor counts
// as rotated; it is cleared by the next Generate.
type History struct {
	K         K
	Gens      []*Gen
	NoCurrent bool
}

// Survivors returns the surviving generations, newest first.
func (h *History) Survivors() []*Gen {
	var out []*Gen
	for i := len(h.Gens) - 1; i >= 0; i-- {
		if !h.Gens[i].Destroyed {
			out = append(out, h.Gens[i])
		}
	}
	return out
}

// NewestSurvivor is the current key according to the property text (nil if nothing survives).
func (h *History) NewestSurvivor() *Gen {
	if s := h.Survivors(); len(s) > 0 {
		return s[0]
	}
	return nil
}

// Current is the expected current key: the newest survivor, or nil in NoCurrent mode.
func (h *History) Current() *Gen {
	if h.NoCurrent {
		return nil
	}
	return h.NewestSurvivor()
}

// Rotated returns the generations the rotated listing must show, oldest first:
// the survivors other than the current key.
func (h *History) Rotated() []*Gen {
	s := h.Survivors()
	if !h.NoCurrent && len(s) > 0 {
		s = s[1:]
	}
	out := make([]*Gen, len(s))
	for i := range s {
		out[len(s)-1-i] = s[i]
	}
	return out
}

// HeadDestroyed tells whether the most recently generated generation is destroyed while an older
// one survives, i.e. the state "current destroyed, not yet regenerated".
func (h *History) HeadDestroyed() bool {
	return len(h.Gens) > 0 && h.Gens[len(h.Gens)-1].Destroyed && h.NewestSurvivor() != nil
}

// Generate appends a generation (which becomes current).
func (h *History) Generate() *Gen {
	g := &Gen{N: len(h.Gens)}
	h.Gens = append(h.Gens, g)
	h.NoCurrent = false
	return g
}

// DestroyCurrent marks the current key destroyed; returns it (nil if there is none).
func (h *History) DestroyCurrent() *Gen {
	g := h.Current()
	if g != nil {
		g.Destroyed = true
	}
	return g
}

// ByValue finds the generation with the given secret.
func (h *History) ByValue(secret []byte) *Gen {
	for _, g := range h.Gens {
		if g.Learnt && string(g.Val.Secret) == string(secret) {
			return g
		}
	}
	return nil
}

// Model is the reference state of a whole keystore.
type Model struct {
	hist  map[K]*History
	order []K
}

// NewModel makes an empty model.
func NewModel() *Model { return &Model{hist: map[K]*History{}} }

// H returns (creating it) the history of a key.
func (m *Model) H(k K) *History {
	h := m.hist[k]
	if h == nil {
		h = &History{K: k}
		m.hist[k] = h
		m.order = append(m.order, k)
	}
	return h
}

// Has tells whether a key was ever generated.
func (m *Model) Has(k K) bool { h := m.hist[k]; return h != nil && len(h.Gens) > 0 }

// Keys returns the keys that were ever generated, in order of first use.
func (m *Model) Keys() []K {
	var out []K
	for _, k := range m.order {
		if len(m.hist[k].Gens) > 0 {
			out = append(out, k)
		}
	}
	return out
}

// Owner finds which key and generation a secret belongs to (nil if it is no key of this keystore).
func (m *Model) Owner(secret []byte) (*History, *Gen) {
	for _, k := range m.order {
		if g := m.hist[k].ByValue(secret); g != nil {
			return m.hist[k], g
		}
	}
	return nil, nil
}

// Labels renders a list of generations as "[g2 g0]".
func Labels(gs []*Gen) string {
	s := make([]string, len(gs))
	for i, g := range gs {
		s[i] = g.Label()
	}
	return "[" + strings.Join(s, " ") + "]"
}

// Describe renders secrets as generation labels of h ("?abcd" for unknown values, "other:k/gN" for
// values of another key).
func (m *Model) Describe(h *History, secrets [][]byte) string {
	s := make([]string, len(secrets))
	for i, v := range secrets {
		if g := h.ByValue(v); g != nil {
			s[i] = g.Label()
			if g.Destroyed {
				s[i] += "(destroyed)"
			}
		} else if oh, og := m.Owner(v); og != nil {
			s[i] = "other:" + oh.K.String() + "/" + og.Label()
		} else {
			s[i] = fmt.Sprintf("?unknown(%d bytes)", len(v))
		}
	}
	return "[" + strings.Join(s, " ") + "]"
}

// Snapshot renders the whole model, for traces.
func (m *Model) Snapshot() string {
	var parts []string
	for _, k := range m.Keys() {
		h := m.hist[k]
		var gs []string
		for _, g := range h.Gens {
			l := g.Label()
			if g.Destroyed {
				l = "x" + l
			}
			gs = append(gs, l)
		}
		p := k.String() + "=" + strings.Join(gs, ",")
		if h.NoCurrent {
			p += "(no current)"
		}
		parts = append(parts, p)
	}
	sort.Strings(parts)
	return strings.Join(parts, " ")
}
