package kshist

import (
	"fmt"
	"os"
	"path/filepath"
	"strings"

	"github.com/cossacklabs/acra/keystore"
	"github.com/cossacklabs/acra/keystore/filesystem"

	"verif/internal/fix"
)

// Public-key-directory fixtures: keystore v1 configured with a directory of its own for the public
// keys (filesystem.NewFilesystemKeyStoreTwoPath / KeyStoreBuilder.KeyDirectories, what the services
// and tools build from --keys_dir + --keys_dir_public). Every public half of a key pair, and the
// history directory of its rotated versions, then lives under another root than the private half.
// Keystore v2 has no such configuration (one key ring holds both halves).
//
//	v1/pubdir/cache=off|inf  the keystore API on a handle built with KeyDirectories(private, public)
//	v1/pubdir/cmd            writes and listings through the acra-keys subcommands, in-process, on such a handle
//	v1/pubdir/bin            the real acra-keys binary with --keys_dir=<private> --keys_dir_public=<public>
//
// Open does not know these names and FixtureNames / CLIFixtureNames do not contain them: only the
// packages that ask for them by OpenPubDir run them.
var PubDirFixtureNames = []string{"v1/pubdir/cache=off", "v1/pubdir/cache=inf", "v1/pubdir/cmd", "v1/pubdir/bin"}

// IsPubDir tells whether the fixture name is one of PubDirFixtureNames.
func IsPubDir(name string) bool {
	for _, n := range PubDirFixtureNames {
		if n == name {
			return true
		}
	}
	return false
}

// OpenPubDir makes a fresh, empty public-key-directory fixture by name on per-case temp storage
// (<root>/keys for the private keys, <root>/pub for the public keys; removed by Close).
func OpenPubDir(name string) (Fixture, error) {
	if !IsPubDir(name) {
		return nil, fmt.Errorf("kshist: unknown public-key-directory fixture %q", name)
	}
	variant := strings.TrimPrefix(name, "v1/pubdir/")
	prefix, cache := "kshist-v1-", CacheOff
	switch variant {
	case "cmd", "bin":
		prefix = "kshist-cli-"
	default:
		cache = strings.TrimPrefix(variant, "cache=")
	}
	root := fix.TempDir(prefix)
	priv, pub := filepath.Join(root, "keys"), filepath.Join(root, "pub")
	for _, d := range []string{priv, pub} {
		if err := os.MkdirAll(d, 0o700); err != nil {
			os.RemoveAll(root)
			return nil, err
		}
	}
	inner, err := NewV1TwoDirs(priv, pub, cache)
	if err != nil {
		os.RemoveAll(root)
		return nil, err
	}
	inner.(*ksFixture).name = name
	inner.(*ksFixture).cleanup = func() { os.RemoveAll(root) }
	if variant != "cmd" && variant != "bin" {
		return inner, nil
	}
	f := &cliFixture{Fixture: inner, name: name, dir: priv, pubDir: pub, binary: variant == "bin"}
	if f.binary {
		if _, err := acraKeysBinary(); err != nil {
			inner.Close()
			return nil, err
		}
	}
	return f, nil
}

// NewV1TwoDirs makes a v1 keystore fixture with the private keys in priv and the public keys in pub
// (the caller owns both directories). Reopen and Observer build their handles the same way.
func NewV1TwoDirs(priv, pub string, cache string) (Fixture, error) {
	fix.Quiet()
	openWith := func(size int) func() (handle, error) {
		return func() (handle, error) {
			ks, err := filesystem.NewCustomFilesystemKeyStore().KeyDirectories(priv, pub).Encryptor(fix.V1Encryptor()).CacheSize(size).Build()
			if err != nil {
				return handle{}, err
			}
			return handle{ks: ks}, nil
		}
	}
	f := &ksFixture{name: "v1/pubdir/cache=" + cache, format: "v1", cached: cache != CacheOff,
		open: openWith(CacheSize(cache)), openPlain: openWith(keystore.WithoutCache), oldestFirst: true}
	h, err := f.open()
	if err != nil {
		return nil, err
	}
	f.h = h
	return f, nil
}
