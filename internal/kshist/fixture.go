package kshist

import (
	"errors"
	"fmt"
	"os"
	"strings"
	"sync"
	"time"

	"github.com/cossacklabs/themis/gothemis/keys"

	"github.com/cossacklabs/acra/keystore"
	"github.com/cossacklabs/acra/keystore/filesystem"
	v2api "github.com/cossacklabs/acra/keystore/v2/keystore/api"
	"github.com/cossacklabs/acra/keystore/v2/keystore/filesystem/backend"
	backendapi "github.com/cossacklabs/acra/keystore/v2/keystore/filesystem/backend/api"

	"verif/internal/fix"
)

// ErrUnsupported is returned by Fixture methods for operations the keystore API does not have for
// a key kind (all-keys read of HMAC / audit-log keys, destruction of the audit-log key).
var ErrUnsupported = errors.New("kshist: operation not offered by the keystore API for this key kind")

// KeyStore is the union of the keystore interfaces the histories exercise. Both
// *filesystem.KeyStore (v1) and *v2 keystore.ServerKeyStore implement it.
type KeyStore interface {
	keystore.ServerKeyStore
	keystore.StorageKeyDestruction
	keystore.StorageRotatedKeyDestruction
	keystore.PoisonKeyGenerator
	keystore.AuditLogKeyGenerator
}

// Fixture is one keystore under test, both formats behind one interface. Methods call straight into
// acra and do not recover panics (Run guards them). Returned key bytes are private copies.
type Fixture interface {
	// Name is e.g. "v1/cache=off", "v1/cache=1", "v1/cache=inf", "v2/mem", "v2/dir".
	Name() string
	// Format is "v1" or "v2".
	Format() string
	// Cached tells whether the handle under test has an in-memory key cache.
	Cached() bool
	// KS is the current handle (changes on Reopen).
	KS() KeyStore

	// Generate generates the key of the kind for the id, rotating an existing one.
	Generate(kind, id string) error
	// Current reads the current key: private key (+ public key) for pairs, symmetric key otherwise.
	Current(kind, id string) (KeyVal, error)
	// All reads all keys offered for decryption, newest first (private keys for pairs).
	All(kind, id string) ([][]byte, error)
	// ListKeys / ListRotatedKeys are the listings of the acra-keys tool.
	ListKeys() ([]keystore.KeyDescription, error)
	ListRotatedKeys() ([]keystore.KeyDescription, error)
	// Classify tells which key a listing row describes; part is "" or "pub" (v1 lists the public
	// half of a pair as a row of its own).
	Classify(d keystore.KeyDescription) (k K, part string, ok bool)
	// DestroyCurrent destroys the current key, as `acra-keys destroy --index 1` does.
	DestroyCurrent(kind, id string) error
	// DestroyRotated destroys a rotated key by the Index its listing row shows, as
	// `acra-keys destroy --index N` (N > 1) does.
	DestroyRotated(kind, id string, index int) error
	// Reset clears the key cache.
	Reset()
	// Reopen replaces the handle under test by a new one on the same storage (same cache size).
	Reopen() error
	// Observer opens an independent, cache-less handle on the same storage. Closing it releases the
	// handle only.
	Observer() (Fixture, error)
	// TieOldestFirst is the order of rotated-listing rows whose creation times do not tell them
	// apart (v2 stores times at one-second granularity): true = index 2 is the oldest rotated key.
	// It is observed, not assumed: see calibrateV2.
	TieOldestFirst() bool
	// Close releases the handle and, for the fixture that created it, removes the storage.
	Close()
}

type handle struct {
	ks    KeyStore
	close func()
}

type ksFixture struct {
	name, format string
	cached       bool
	h            handle
	open         func() (handle, error) // new handle of the configuration under test
	openPlain    func() (handle, error) // new cache-less handle
	cleanup      func()
	oldestFirst  bool
}

func (f *ksFixture) Name() string         { return f.name }
func (f *ksFixture) Format() string       { return f.format }
func (f *ksFixture) Cached() bool         { return f.cached }
func (f *ksFixture) KS() KeyStore         { return f.h.ks }
func (f *ksFixture) TieOldestFirst() bool { return f.oldestFirst }
func (f *ksFixture) Reset()               { f.h.ks.Reset() }

func (f *ksFixture) Reopen() error {
	if f.h.close != nil {
		f.h.close()
	}
	h, err := f.open()
	if err != nil {
		return err
	}
	f.h = h
	return nil
}

func (f *ksFixture) Observer() (Fixture, error) {
	h, err := f.openPlain()
	if err != nil {
		return nil, err
	}
	return &ksFixture{name: f.name + "+observer", format: f.format, h: h, open: f.openPlain, openPlain: f.openPlain, oldestFirst: f.oldestFirst}, nil
}

func (f *ksFixture) Close() {
	if f.h.close != nil {
		f.h.close()
		f.h.close = nil
	}
	if f.cleanup != nil {
		f.cleanup()
		f.cleanup = nil
	}
}

func cp(b []byte) []byte { return append([]byte(nil), b...) }

func (f *ksFixture) Generate(kind, id string) error {
	ks := f.h.ks
	switch kind {
	case StoragePair:
		return ks.GenerateDataEncryptionKeys([]byte(id))
	case StorageSym:
		return ks.GenerateClientIDSymmetricKey([]byte(id))
	case HMAC:
		return ks.GenerateHmacKey([]byte(id))
	case PoisonPair:
		return ks.GeneratePoisonKeyPair()
	case PoisonSym:
		return ks.GeneratePoisonSymmetricKey()
	case AuditLog:
		return ks.GenerateLogKey()
	}
	return fmt.Errorf("kshist: unknown key kind %q", kind)
}

// WipeReturnedKeys makes the fixtures zeroise every symmetric key the keystore hands out once they have copied
// it, as acra's own callers do (hmac.GenerateHMAC, HashData.IsEqual, the AcraBlock and token encryptors wipe the
// key they were given): a keystore has to hand every caller a private copy. Off by default; the property
// packages that read through one handle from several goroutines switch it on.
var WipeReturnedKeys bool

func (f *ksFixture) Current(kind, id string) (KeyVal, error) {
	ks := f.h.ks
	sym := func(b []byte, err error) (KeyVal, error) {
		if err != nil {
			return KeyVal{}, err
		}
		v := KeyVal{Secret: cp(b)}
		if WipeReturnedKeys {
			for i := range b {
				b[i] = 0
			}
		}
		return v, nil
	}
	switch kind {
	case StoragePair:
		priv, err := ks.GetServerDecryptionPrivateKey([]byte(id))
		if err != nil {
			return KeyVal{}, err
		}
		pub, err := ks.GetClientIDEncryptionPublicKey([]byte(id))
		if err != nil {
			return KeyVal{}, fmt.Errorf("public key: %w", err)
		}
		return KeyVal{Secret: cp(priv.Value), Public: cp(pub.Value)}, nil
	case StorageSym:
		return sym(ks.GetClientIDSymmetricKey([]byte(id)))
	case HMAC:
		return sym(ks.GetHMACSecretKey([]byte(id)))
	case PoisonPair:
		kp, err := ks.GetPoisonKeyPair()
		if err != nil {
			return KeyVal{}, err
		}
		return KeyVal{Secret: cp(kp.Private.Value), Public: cp(kp.Public.Value)}, nil
	case PoisonSym:
		return sym(ks.GetPoisonSymmetricKey())
	case AuditLog:
		return sym(ks.GetLogSecretKey())
	}
	return KeyVal{}, fmt.Errorf("kshist: unknown key kind %q", kind)
}

func (f *ksFixture) All(kind, id string) ([][]byte, error) {
	ks := f.h.ks
	privs := func(p []*keys.PrivateKey, err error) ([][]byte, error) {
		if err != nil {
			return nil, err
		}
		out := make([][]byte, len(p))
		for i := range p {
			out[i] = cp(p[i].Value)
		}
		return out, nil
	}
	syms := func(s [][]byte, err error) ([][]byte, error) {
		if err != nil {
			return nil, err
		}
		out := make([][]byte, len(s))
		for i := range s {
			out[i] = cp(s[i])
		}
		return out, nil
	}
	switch kind {
	case StoragePair:
		return privs(ks.GetServerDecryptionPrivateKeys([]byte(id)))
	case StorageSym:
		return syms(ks.GetClientIDSymmetricKeys([]byte(id)))
	case PoisonPair:
		return privs(ks.GetPoisonPrivateKeys())
	case PoisonSym:
		return syms(ks.GetPoisonSymmetricKeys())
	}
	return nil, ErrUnsupported
}

func (f *ksFixture) ListKeys() ([]keystore.KeyDescription, error) { return f.h.ks.ListKeys() }
func (f *ksFixture) ListRotatedKeys() ([]keystore.KeyDescription, error) {
	return f.h.ks.ListRotatedKeys()
}

func (f *ksFixture) DestroyCurrent(kind, id string) error {
	ks := f.h.ks
	switch kind {
	case StoragePair:
		return ks.DestroyClientIDEncryptionKeyPair([]byte(id))
	case StorageSym:
		return ks.DestroyClientIDSymmetricKey([]byte(id))
	case HMAC:
		return ks.DestroyHmacSecretKey([]byte(id))
	case PoisonPair:
		return ks.DestroyPoisonKeyPair()
	case PoisonSym:
		return ks.DestroyPoisonSymmetricKey()
	}
	return ErrUnsupported
}

func (f *ksFixture) DestroyRotated(kind, id string, index int) error {
	ks := f.h.ks
	switch kind {
	case StoragePair:
		return ks.DestroyRotatedClientIDEncryptionKeyPair([]byte(id), index)
	case StorageSym:
		return ks.DestroyRotatedClientIDSymmetricKey([]byte(id), index)
	case HMAC:
		return ks.DestroyRotatedHmacSecretKey([]byte(id), index)
	case PoisonPair:
		return ks.DestroyRotatedPoisonKeyPair(index)
	case PoisonSym:
		return ks.DestroyRotatedPoisonSymmetricKey(index)
	}
	return ErrUnsupported
}

func (f *ksFixture) Classify(d keystore.KeyDescription) (K, string, bool) {
	if f.format == "v1" {
		return classifyV1(d.KeyID)
	}
	return classifyV2(d.KeyID)
}

// classifyV1 maps a v1 key file name to the key it holds.
func classifyV1(name string) (K, string, bool) {
	switch name {
	case "poison_key":
		return K{Kind: PoisonPair}, "", true
	case "poison_key.pub":
		return K{Kind: PoisonPair}, "pub", true
	case "poison_key_sym":
		return K{Kind: PoisonSym}, "", true
	case "secure_log_key":
		return K{Kind: AuditLog}, "", true
	}
	for _, s := range []struct{ suffix, kind, part string }{
		{"_storage_sym", StorageSym, ""}, {"_storage.pub", StoragePair, "pub"}, {"_storage", StoragePair, ""}, {"_hmac", HMAC, ""},
	} {
		if strings.HasSuffix(name, s.suffix) && len(name) > len(s.suffix) {
			return K{Kind: s.kind, ID: strings.TrimSuffix(name, s.suffix)}, s.part, true
		}
	}
	return K{}, "", false
}

// classifyV2 maps a v2 key ring path to the key it holds.
func classifyV2(path string) (K, string, bool) {
	switch path {
	case "poison-record":
		return K{Kind: PoisonPair}, "", true
	case "poison-record-sym":
		return K{Kind: PoisonSym}, "", true
	case "audit-log":
		return K{Kind: AuditLog}, "", true
	}
	c := strings.Split(path, string(os.PathSeparator))
	if len(c) == 3 && c[0] == "client" {
		switch c[2] {
		case "storage":
			return K{Kind: StoragePair, ID: c[1]}, "", true
		case "storage-sym":
			return K{Kind: StorageSym, ID: c[1]}, "", true
		case "hmac-sym":
			return K{Kind: HMAC, ID: c[1]}, "", true
		}
	}
	return K{}, "", false
}

// Cache sizes of the v1 fixtures, as named in case files.
const (
	CacheOff = "off"
	CacheOne = "1"
	CacheInf = "inf"
)

// CacheSize translates a cache name to the keystore constant.
func CacheSize(name string) int {
	switch name {
	case CacheOne:
		return 1
	case CacheInf:
		return keystore.InfiniteCacheSize
	}
	return keystore.WithoutCache
}

// FixtureNames lists the fixtures Open knows, in the order the property packages iterate them.
var FixtureNames = []string{"v1/cache=off", "v1/cache=1", "v1/cache=inf", "v2/mem", "v2/dir"}

// Open makes a fresh, empty fixture by name on per-case temp storage under os.TempDir().
func Open(name string) (Fixture, error) {
	switch name {
	case "v1/cache=off":
		return NewV1(CacheOff)
	case "v1/cache=1":
		return NewV1(CacheOne)
	case "v1/cache=inf":
		return NewV1(CacheInf)
	case "v2/mem":
		return NewV2Mem(), nil
	case "v2/dir":
		return NewV2Dir()
	}
	for _, n := range CLIFixtureNames {
		if n == name {
			return OpenCLI(name)
		}
	}
	return nil, fmt.Errorf("kshist: unknown fixture %q", name)
}

// NewV1 makes a v1 filesystem keystore on a fresh temp directory (removed by Close).
func NewV1(cache string) (Fixture, error) {
	dir := fix.TempDir("kshist-v1-")
	f, err := NewV1On(dir, nil, cache)
	if err != nil {
		os.RemoveAll(dir)
		return nil, err
	}
	f.(*ksFixture).cleanup = func() { os.RemoveAll(dir) }
	return f, nil
}

// NewV1On makes a v1 keystore fixture on dir over a custom Storage (nil = the real filesystem);
// the caller owns dir. Used by the fault-injection and capture properties.
func NewV1On(dir string, st filesystem.Storage, cache string) (Fixture, error) {
	fix.Quiet()
	openWith := func(size int) func() (handle, error) {
		return func() (handle, error) {
			if st == nil {
				ks, err := filesystem.NewFileSystemKeyStoreWithCacheSize(dir, fix.V1Encryptor(), size)
				if err != nil {
					return handle{}, err
				}
				return handle{ks: ks}, nil
			}
			ks, err := fix.V1WithStorage(dir, st, size)
			if err != nil {
				return handle{}, err
			}
			return handle{ks: ks}, nil
		}
	}
	f := &ksFixture{name: "v1/cache=" + cache, format: "v1", cached: cache != CacheOff,
		open: openWith(CacheSize(cache)), openPlain: openWith(keystore.WithoutCache), oldestFirst: true}
	h, err := f.open()
	if err != nil {
		return nil, err
	}
	f.h = h
	return f, nil
}

// NewV2Mem makes a v2 keystore on a fresh in-memory back end.
func NewV2Mem() Fixture {
	b := backend.NewInMemory()
	f, err := NewV2On("v2/mem", func() (backendapi.Backend, error) { return b, nil })
	if err != nil {
		panic(err)
	}
	return f
}

// NewV2Dir makes a v2 keystore on a directory back end in a fresh temp directory (removed by Close).
func NewV2Dir() (Fixture, error) {
	root := fix.TempDir("kshist-v2-")
	f, err := NewV2On("v2/dir", func() (backendapi.Backend, error) {
		if _, serr := os.Stat(root + "/version"); serr == nil {
			return backend.OpenDirectoryBackend(root)
		}
		return backend.CreateDirectoryBackend(root)
	})
	if err != nil {
		os.RemoveAll(root)
		return nil, err
	}
	f.(*ksFixture).cleanup = func() { os.RemoveAll(root) }
	return f, nil
}

// NewV2On makes a v2 keystore fixture; every handle (Reopen, Observer) asks backendFor for its back
// end, which may return a shared instance (in-memory, wrappers) or a new one on the same storage.
func NewV2On(name string, backendFor func() (backendapi.Backend, error)) (Fixture, error) {
	fix.Quiet()
	open := func() (handle, error) {
		b, err := backendFor()
		if err != nil {
			return handle{}, err
		}
		ks, ms := fix.V2OnBackend(b)
		return handle{ks: ks, close: func() { ms.Close() }}, nil
	}
	f := &ksFixture{name: name, format: "v2", open: open, openPlain: open, oldestFirst: calibrateV2()}
	h, err := open()
	if err != nil {
		return nil, err
	}
	f.h = h
	return f, nil
}

var (
	calOnce   sync.Once
	calOldest bool
)

// calibrateV2 observes, once per process, in which order the v2 rotated listing shows keys: v2
// stores creation times in whole seconds, so the keys of one case all carry the same time and the
// listing's own data cannot tell which row is which generation. Here three keys with creation
// times years apart are added through the public key-ring API and the listing is read back.
func calibrateV2() bool {
	calOnce.Do(func() {
		ks, ms := fix.V2OnBackend(backend.NewInMemory())
		defer ms.Close()
		ring, err := ms.OpenKeyRingRW("client/calibration/storage-sym")
		if err != nil {
			panic("kshist calibration: " + err.Error())
		}
		base := time.Date(2001, 1, 1, 0, 0, 0, 0, time.UTC)
		for i := 0; i < 3; i++ {
			key := make([]byte, 32)
			key[0] = byte(i + 1)
			n, err := ring.AddKey(v2api.KeyDescription{ValidSince: base.AddDate(i, 0, 0), ValidUntil: base.AddDate(40, 0, 0),
				Data: []v2api.KeyData{{Format: v2api.ThemisSymmetricKeyFormat, SymmetricKey: key}}})
			if err == nil {
				err = ring.SetCurrent(n)
			}
			if err != nil {
				panic("kshist calibration: " + err.Error())
			}
		}
		rows, err := ks.ListRotatedKeys()
		if err != nil || len(rows) != 2 || rows[0].CreationTime == nil || rows[1].CreationTime == nil || rows[0].CreationTime.Equal(*rows[1].CreationTime) {
			panic(fmt.Sprintf("kshist calibration: unexpected rotated listing %+v (%v)", rows, err))
		}
		first, second := rows[0], rows[1]
		if first.Index > second.Index {
			first, second = second, first
		}
		calOldest = first.CreationTime.Before(*second.CreationTime)
	})
	return calOldest
}
