// Package kshist is the shared machinery of the keystore-history properties (C06, and reused by
// C07, C08, C17, C18): operation lists as data (G-history), one Fixture interface over both
// keystore formats (H-keystore), the reference Model of key histories written from the property
// text, and Run, which applies an operation list to a fixture and the model in lock-step.
package kshist

import (
	"fmt"

	"pgregory.net/rapid"
)

// Operation kinds.
const (
	OpGen            = "gen"            // generate, or rotate when a key of that kind/id exists
	OpReadCurrent    = "readCurrent"    // read the current key through the handle under test
	OpReadAll        = "readAll"        // read all keys (newest first) through the handle under test
	OpList           = "list"           // ListKeys
	OpListRotated    = "listRotated"    // ListRotatedKeys
	OpDestroyCurrent = "destroyCurrent" // destroy the current key
	OpDestroyRotated = "destroyRotated" // destroy a rotated key by the index its listing row shows
	OpReset          = "reset"          // Reset (cache)
	OpReopen         = "reopen"         // new handle on the same storage
)

// Key kinds.
const (
	StoragePair = "storagePair"
	StorageSym  = "storageSym"
	HMAC        = "hmac"
	PoisonPair  = "poisonPair"
	PoisonSym   = "poisonSym"
	AuditLog    = "auditLog"
)

// Kinds lists all key kinds.
var Kinds = []string{StoragePair, StorageSym, HMAC, PoisonPair, PoisonSym, AuditLog}

// PerClient tells whether keys of the kind exist per client id.
func PerClient(kind string) bool { return kind == StoragePair || kind == StorageSym || kind == HMAC }

// IsPair tells whether the kind is an asymmetric key pair.
func IsPair(kind string) bool { return kind == StoragePair || kind == PoisonPair }

// HasAllKeys tells whether the keystore API offers an all-keys read for the kind
// (HMAC and audit-log keys can only be read as the current key).
func HasAllKeys(kind string) bool { return kind != HMAC && kind != AuditLog }

// Destroyable tells whether the keystore API can destroy keys of the kind (not the audit-log key).
func Destroyable(kind string) bool { return kind != AuditLog }

// Op is one operation of a keystore history.
type Op struct {
	Kind  string `json:"op"`              // gen|readCurrent|readAll|list|listRotated|destroyCurrent|destroyRotated|reset|reopen
	Key   string `json:"key,omitempty"`   // key kind: storagePair|storageSym|hmac|poisonPair|poisonSym|auditLog
	ID    string `json:"id,omitempty"`    // client id for per-client kinds
	Index int    `json:"index,omitempty"` // destroyRotated: position in the key's rotated listing (mod its length), resolved at run time
}

func (o Op) String() string {
	switch o.Kind {
	case OpReset, OpReopen, OpList, OpListRotated:
		return o.Kind
	case OpDestroyRotated:
		return fmt.Sprintf("%s(%s#%d)", o.Kind, K{o.Key, o.ID}, o.Index)
	}
	return fmt.Sprintf("%s(%s)", o.Kind, K{o.Key, o.ID})
}

// Mutates tells whether the operation writes to the keystore.
func (o Op) Mutates() bool {
	return o.Kind == OpGen || o.Kind == OpDestroyCurrent || o.Kind == OpDestroyRotated
}

// K identifies one key history: kind plus client id ("" for the global kinds).
type K struct {
	Kind string
	ID   string
}

func (k K) String() string {
	if k.ID == "" {
		return k.Kind
	}
	return k.Kind + "/" + k.ID
}

// shadow is the generator's own rough bookkeeping, used only to bias choices.
type shadow struct {
	total, rotated int
	current        bool
}

// GenOps constructs an operation list of length 1..maxLen over the given client ids. Choices are
// weighted on a rough shadow state so that rotations, destroy-rotated with >= 2 rotated keys,
// destroy-current, reset and reopen all occur often; most operations work on one focus key so that
// histories get deep, the rest on any kind/id (including keys that were never generated). About a
// third of the list comes from short motifs "read, write, read" (a warm cache around a rotation or
// a destruction, optionally with a reset/reopen before the second read), where the reads may
// address the sibling kind of the same owner (pair <-> symmetric).
func GenOps(t *rapid.T, maxLen int, ids []string) []Op {
	if len(ids) == 0 {
		ids = []string{"client"}
	}
	n := rapid.IntRange(1, maxLen).Draw(t, "nops")
	drawKey := func(label string) K {
		k := K{Kind: rapid.SampledFrom(Kinds).Draw(t, label+".kind")}
		if PerClient(k.Kind) {
			k.ID = rapid.SampledFrom(ids).Draw(t, label+".id")
		}
		return k
	}
	focus := drawKey("focus")
	sh := map[K]*shadow{}
	get := func(k K) *shadow {
		if sh[k] == nil {
			sh[k] = &shadow{}
		}
		return sh[k]
	}
	ops := make([]Op, 0, n)
	var last K
	haveLast := false
	emit := func(kind string, k K) {
		if len(ops) >= n {
			return
		}
		s := get(k)
		if kind == OpReadAll && !HasAllKeys(k.Kind) {
			kind = OpReadCurrent
		}
		if (kind == OpDestroyCurrent || kind == OpDestroyRotated) && !Destroyable(k.Kind) {
			kind = OpListRotated
		}
		op := Op{Kind: kind}
		switch kind {
		case OpGen:
			op.Key, op.ID = k.Kind, k.ID
			if s.current {
				s.rotated++
			}
			s.total++
			s.current = true
		case OpReadCurrent, OpReadAll:
			op.Key, op.ID = k.Kind, k.ID
		case OpDestroyCurrent:
			op.Key, op.ID = k.Kind, k.ID
			s.current = false
		case OpDestroyRotated:
			op.Key, op.ID = k.Kind, k.ID
			op.Index = rapid.IntRange(0, 5).Draw(t, "index")
			if s.rotated > 0 {
				s.rotated--
			}
		}
		ops = append(ops, op)
		if op.Key != "" {
			last, haveLast = k, true
		}
	}
	sibling := func(k K) K {
		switch k.Kind {
		case StoragePair:
			return K{StorageSym, k.ID}
		case StorageSym:
			return K{StoragePair, k.ID}
		case PoisonPair:
			return K{Kind: PoisonSym}
		case PoisonSym:
			return K{Kind: PoisonPair}
		}
		return k
	}
	type w struct {
		op string
		n  int
	}
	pick := func(label string, ws []w) string {
		sum := 0
		for _, x := range ws {
			sum += x.n
		}
		r := rapid.IntRange(0, sum-1).Draw(t, label)
		for _, x := range ws {
			if r < x.n {
				return x.op
			}
			r -= x.n
		}
		return ws[len(ws)-1].op
	}
	for len(ops) < n {
		var k K
		switch c := rapid.IntRange(0, 9).Draw(t, "which"); {
		case c < 6:
			k = focus
		case c < 8 && haveLast:
			k = last
		default:
			k = drawKey("other")
		}
		s := get(k)
		if s.total > 0 && rapid.IntRange(0, 9).Draw(t, "motif") < 3 {
			// read, write, read
			rk := k
			if rapid.IntRange(0, 3).Draw(t, "cross") == 0 {
				rk = sibling(k)
				if get(rk).total == 0 {
					emit(OpGen, rk)
				}
			}
			reads := []w{{OpReadAll, 3}, {OpReadCurrent, 1}}
			dr := 1
			if s.rotated > 0 {
				dr = 3
			}
			emit(pick("m.read1", reads), rk)
			emit(pick("m.write", []w{{OpGen, 4}, {OpDestroyCurrent, 3}, {OpDestroyRotated, dr}}), k)
			// sometimes the cache is reset (or the keystore reopened) before the second read: the
			// point where a cached keystore must show exactly the state on storage again
			if between := pick("m.between", []w{{"", 4}, {OpReset, 2}, {OpReopen, 1}}); between != "" {
				emit(between, K{})
			}
			emit(pick("m.read2", reads), rk)
			continue
		}
		var ws []w
		if s.total == 0 {
			ws = []w{{OpGen, 30}, {OpReadCurrent, 2}, {OpReadAll, 2}, {OpList, 1}, {OpListRotated, 1}, {OpDestroyCurrent, 1}, {OpDestroyRotated, 1}, {OpReset, 1}, {OpReopen, 1}}
		} else {
			dr := 2
			if s.rotated == 1 {
				dr = 9
			} else if s.rotated >= 2 {
				dr = 16
			}
			ws = []w{{OpGen, 30}, {OpReadCurrent, 9}, {OpReadAll, 16}, {OpList, 4}, {OpListRotated, 5}, {OpDestroyCurrent, 7}, {OpDestroyRotated, dr}, {OpReset, 8}, {OpReopen, 5}}
		}
		emit(pick("op", ws), k)
	}
	return ops
}
