package kshist

import (
	"bytes"
	"encoding/base64"
	"encoding/json"
	"fmt"
	"os"
	"os/exec"
	"path/filepath"
	"strconv"
	"strings"
	"sync"

	"github.com/cossacklabs/acra/cmd/acra-keys/keys"
	"github.com/cossacklabs/acra/keystore"
	kv2 "github.com/cossacklabs/acra/keystore/v2/keystore"
	"github.com/cossacklabs/acra/keystore/v2/keystore/filesystem/backend"
	backendapi "github.com/cossacklabs/acra/keystore/v2/keystore/filesystem/backend/api"

	"verif/internal/fix"
)

// Command-layer fixtures: the writes and listings of a history go through the code of the acra-keys
// tool instead of the keystore API, reads stay on an in-process cache-less handle on the same directory.
//
//	v1/cmd, v2/cmd  in-process: the subcommand structs parse the same argument lists the tool gets
//	                (`destroy --index N client/<id>/storage`, `generate --client_id=.. --client_storage_key`,
//	                `list --rotated-keys --json`) and keys.DestroyKey / keys.GenerateAcraKeys / keys.PrintKeys
//	                run on the handle under test
//	v1/bin, v2/bin  the real acra-keys binary, built from the tree under test, one process per command
//
// The poison keys are generated through the API in both (the tool only generates both kinds at once,
// which the operation lists do not express); they are destroyed and listed through the tool.
var CLIFixtureNames = []string{"v1/cmd", "v2/cmd", "v1/bin", "v2/bin"}

type cliFixture struct {
	Fixture
	name   string
	dir    string
	binary bool
	pubDir string // optional: directory of the public keys (--keys_dir_public), see pubdir.go
}

// dirArgs are the arguments that tell the tool where the keystore is.
func (f *cliFixture) dirArgs() []string {
	if f.pubDir != "" {
		return []string{"--keys_dir=" + f.dir, "--keys_dir_public=" + f.pubDir}
	}
	return []string{"--keys_dir=" + f.dir}
}

func (f *cliFixture) Name() string { return f.name }

// OpenCLI makes a command-layer fixture by name on a fresh temp directory.
func OpenCLI(name string) (Fixture, error) {
	parts := strings.SplitN(name, "/", 2)
	if len(parts) != 2 || (parts[1] != "cmd" && parts[1] != "bin") {
		return nil, fmt.Errorf("kshist: unknown command-layer fixture %q", name)
	}
	root := fix.TempDir("kshist-cli-")
	dir := filepath.Join(root, "keys")
	var inner Fixture
	var err error
	switch parts[0] {
	case "v1":
		if err = os.MkdirAll(dir, 0o700); err == nil {
			inner, err = NewV1On(dir, nil, CacheOff)
		}
	case "v2":
		inner, err = NewV2On("v2/dir", func() (backendapi.Backend, error) {
			if _, serr := os.Stat(dir + "/version"); serr == nil {
				return backend.OpenDirectoryBackend(dir)
			}
			return backend.CreateDirectoryBackend(dir)
		})
	default:
		err = fmt.Errorf("kshist: unknown command-layer fixture %q", name)
	}
	if err != nil {
		os.RemoveAll(root)
		return nil, err
	}
	inner.(*ksFixture).cleanup = func() { os.RemoveAll(root) }
	f := &cliFixture{Fixture: inner, name: name, dir: dir, binary: parts[1] == "bin"}
	if f.binary {
		if _, err := acraKeysBinary(); err != nil {
			inner.Close()
			return nil, err
		}
	}
	return f, nil
}

// keyArg is the key id the tool takes for a key of the kind.
func keyArg(kind, id string) (string, bool) {
	switch kind {
	case StoragePair:
		return "client/" + id + "/storage", true
	case StorageSym:
		return "client/" + id + "/symmetric", true
	case HMAC:
		return "client/" + id + "/searchable", true
	case PoisonPair:
		return "poison-record", true
	case PoisonSym:
		return "poison-record-symmetric", true
	}
	return "", false
}

func (f *cliFixture) Generate(kind, id string) error {
	args := append(f.dirArgs(), "--keystore="+f.Format())
	switch kind {
	case StoragePair:
		args = append(args, "--client_id="+id, "--client_storage_key")
	case StorageSym:
		args = append(args, "--client_id="+id, "--client_storage_symmetric_key")
	case HMAC:
		args = append(args, "--client_id="+id, "--search_hmac_symmetric_key")
	case AuditLog:
		args = append(args, "--audit_log_symmetric_key")
	default:
		return f.Fixture.Generate(kind, id)
	}
	if f.binary {
		return f.run(append([]string{"generate"}, args...)...)
	}
	g := &keys.GenerateKeySubcommand{}
	g.RegisterFlags()
	if err := g.Parse(args); err != nil {
		return fmt.Errorf("acra-keys generate: arguments refused: %v", err)
	}
	km, ok := f.KS().(keystore.KeyMaking)
	if !ok {
		return fmt.Errorf("kshist: handle is no keystore.KeyMaking")
	}
	did, err := keys.GenerateAcraKeys(g, km, keys.GenerateOnInitialize)
	if err == nil && !did {
		err = fmt.Errorf("acra-keys generate: nothing generated for %v", args)
	}
	return err
}

func (f *cliFixture) destroy(kind, id string, index int) error {
	arg, ok := keyArg(kind, id)
	if !ok {
		return ErrUnsupported
	}
	args := append(f.dirArgs(), "--index", strconv.Itoa(index), arg)
	if f.binary {
		return f.run(append([]string{"destroy"}, args...)...)
	}
	p := &keys.DestroyKeySubcommand{}
	p.RegisterFlags()
	if err := p.Parse(args); err != nil {
		return fmt.Errorf("acra-keys destroy: arguments refused: %v", err)
	}
	km, ok := f.KS().(keystore.KeyMaking)
	if !ok {
		return fmt.Errorf("kshist: handle is no keystore.KeyMaking")
	}
	return keys.DestroyKey(p, km)
}

func (f *cliFixture) DestroyCurrent(kind, id string) error { return f.destroy(kind, id, 1) }
func (f *cliFixture) DestroyRotated(kind, id string, index int) error {
	return f.destroy(kind, id, index)
}

// list returns the rows of `acra-keys list --rotated-keys --json` (current keys first, then rotated ones).
func (f *cliFixture) list() ([]keystore.KeyDescription, error) {
	args := append(f.dirArgs(), "--rotated-keys", "--json")
	var out []byte
	if f.binary {
		o, err := f.output(append([]string{"list"}, args...)...)
		if err != nil {
			return nil, err
		}
		out = o
	} else {
		l := &keys.ListKeySubcommand{}
		l.RegisterFlags()
		if err := l.Parse(args); err != nil {
			return nil, fmt.Errorf("acra-keys list: arguments refused: %v", err)
		}
		if !l.UseJSON() || !l.ListRotatedKeys() {
			return nil, fmt.Errorf("acra-keys list: --json / --rotated-keys not taken from %v", args)
		}
		cur, err := f.KS().ListKeys()
		if err != nil {
			return nil, err
		}
		rot, err := f.KS().ListRotatedKeys()
		if err != nil {
			return nil, err
		}
		var buf bytes.Buffer
		if err := keys.PrintKeys(append(cur, rot...), &buf, l); err != nil {
			return nil, err
		}
		out = buf.Bytes()
	}
	var rows []keystore.KeyDescription
	if err := json.Unmarshal(bytes.TrimSpace(out), &rows); err != nil {
		return nil, fmt.Errorf("acra-keys list --json printed no JSON list: %v: %.200q", err, out)
	}
	return rows, nil
}

func (f *cliFixture) ListKeys() ([]keystore.KeyDescription, error) {
	rows, err := f.list()
	var out []keystore.KeyDescription
	for _, r := range rows {
		if r.State == keystore.StateCurrent {
			out = append(out, r)
		}
	}
	return out, err
}

func (f *cliFixture) ListRotatedKeys() ([]keystore.KeyDescription, error) {
	rows, err := f.list()
	var out []keystore.KeyDescription
	for _, r := range rows {
		if r.State != keystore.StateCurrent {
			out = append(out, r)
		}
	}
	return out, err
}

// ---- the real binary ---------------------------------------------------------------------------

var (
	binOnce sync.Once
	binPath string
	binErr  error
)

// acraKeysBinary builds acra-keys once per process from the tree under test (the module graph of
// /verif replaces github.com/cossacklabs/acra by that tree; VERIF_MODFILE when it is not /repo).
func acraKeysBinary() (string, error) {
	binOnce.Do(func() {
		root := os.Getenv("VERIF_ROOT")
		if root == "" {
			root = "/verif"
		}
		dir, err := os.MkdirTemp("", "kshist-bin-")
		if err != nil {
			binErr = err
			return
		}
		bin := filepath.Join(dir, "acra-keys")
		args := []string{"build", "-o", bin}
		if mf := os.Getenv("VERIF_MODFILE"); mf != "" {
			args = append(args, "-modfile="+mf)
		}
		args = append(args, "github.com/cossacklabs/acra/cmd/acra-keys")
		c := exec.Command("go", args...)
		c.Dir = root
		c.Env = append(os.Environ(), "GOFLAGS=-mod=mod", "GOPROXY=off", "GOSUMDB=off", "GOTOOLCHAIN=local")
		if out, err := c.CombinedOutput(); err != nil {
			binErr = fmt.Errorf("harness: building acra-keys: %v: %s", err, out)
			return
		}
		binPath = bin
	})
	return binPath, binErr
}

func (f *cliFixture) masterKeyEnv() string {
	if f.Format() == "v2" {
		enc, sig := make([]byte, 32), make([]byte, 32)
		for i := range enc {
			enc[i], sig[i] = byte(i+1), byte(0xA0+i)
		}
		b, _ := (&kv2.SerializedKeys{Encryption: enc, Signature: sig}).Marshal()
		return "ACRA_MASTER_KEY=" + base64.StdEncoding.EncodeToString(b)
	}
	return "ACRA_MASTER_KEY=" + base64.StdEncoding.EncodeToString(fix.MasterKey)
}

func (f *cliFixture) exec(args ...string) (stdout, all []byte, err error) {
	bin, err := acraKeysBinary()
	if err != nil {
		return nil, nil, err
	}
	work, err := os.MkdirTemp("", "kshist-cli-run-")
	if err != nil {
		return nil, nil, err
	}
	defer os.RemoveAll(work)
	c := exec.Command(bin, args...)
	c.Dir = work // no configs/ directory: flags and defaults only
	c.Env = []string{"PATH=" + os.Getenv("PATH"), f.masterKeyEnv()}
	var so, se bytes.Buffer
	c.Stdout, c.Stderr = &so, &se
	err = c.Run()
	if _, exited := err.(*exec.ExitError); err != nil && !exited {
		err = fmt.Errorf("harness: cannot run acra-keys: %v", err) // spawn failure: not a verdict on the tool
	}
	return so.Bytes(), append(so.Bytes(), se.Bytes()...), err
}

func (f *cliFixture) run(args ...string) error {
	_, all, err := f.exec(args...)
	if err != nil {
		return fmt.Errorf("acra-keys %s: %v: %s", args[0], err, errorLines(string(all)))
	}
	return nil
}

func (f *cliFixture) output(args ...string) ([]byte, error) {
	out, all, err := f.exec(args...)
	if err != nil {
		return nil, fmt.Errorf("acra-keys %s: %v: %s", args[0], err, errorLines(string(all)))
	}
	return out, nil
}

// errorLines keeps the error entries of the tool's output without their time stamps.
func errorLines(s string) string {
	var keep []string
	for _, l := range strings.Split(strings.TrimSpace(s), "\n") {
		if strings.Contains(l, "level=error") || strings.Contains(l, "level=fatal") || strings.Contains(l, "panic") {
			if i := strings.Index(l, "level="); i >= 0 {
				l = l[i:]
			}
			keep = append(keep, l)
		}
	}
	if len(keep) > 3 {
		keep = keep[len(keep)-3:]
	}
	return strings.Join(keep, " | ")
}
