// Package sqlgen generates SQL text for acra's own parser (sqlparser, a vitess fork) in the MySQL
// and PostgreSQL dialects. Generation is sound by construction (it follows the productions of
// sql.y, keeping the expression / value_expression sorts apart) and every random choice is drawn
// from the *rapid.T passed in, so cases shrink and replay.
//
// Three sources of statements are offered:
//
//	Statement/Select/Insert/Update/Delete/Expr  recursive grammar generator (text, varied spellings)
//	Corpus/DMLCorpus                            the `input:` strings of sqlparser/parse_test.go
//	Splice                                      sub-expressions / clauses of corpus statements grafted into each other
package sqlgen

import (
	"fmt"
	"strings"

	"pgregory.net/rapid"
)

// Opts configures generation.
type Opts struct {
	// Dialect is "mysql" or "postgresql" (default mysql).
	Dialect string
	// MaxDepth bounds expression / sub-select nesting (default 3).
	MaxDepth int
	// Literal, when set, is asked for the spelling of every literal. kind is one of
	// "string", "int", "float", "hex", "bit". It must return valid literal text of that kind for
	// the dialect (e.g. a marker literal); returning "" keeps the generator's own spelling.
	Literal func(t *rapid.T, kind string) string
	// NoPlaceholders suppresses ?, :name and $n.
	NoPlaceholders bool
	// RawByteNames adds quoted identifiers that are not valid UTF-8.
	RawByteNames bool
}

func (o Opts) depth() int {
	if o.MaxDepth <= 0 {
		return 3
	}
	return o.MaxDepth
}

type gen struct {
	t     *rapid.T
	o     Opts
	pg    bool
	style int // keyword spelling: 0 lower, 1 upper, 2 per keyword
	wide  bool
	nArg  int
}

func newGen(t *rapid.T, o Opts) *gen {
	g := &gen{t: t, o: o, pg: o.Dialect == PostgreSQL}
	g.style = g.weighted("kwstyle", 6, 2, 1)
	g.wide = g.chance("widespace", 10)
	return g
}

// ---- drawing helpers ----

func (g *gen) n(label string, lo, hi int) int { return rapid.IntRange(lo, hi).Draw(g.t, label) }

// chance is true with probability pct/100; false is the shrink target.
func (g *gen) chance(label string, pct int) bool { return rapid.IntRange(0, 99).Draw(g.t, label) >= 100-pct }

// weighted draws an index with the given weights. Index 0 is the shrink target.
func (g *gen) weighted(label string, w ...int) int {
	total := 0
	for _, x := range w {
		total += x
	}
	r := rapid.IntRange(0, total-1).Draw(g.t, label)
	for i, x := range w {
		if r < x {
			return i
		}
		r -= x
	}
	return len(w) - 1
}

func (g *gen) oneOf(label string, xs ...string) string {
	return xs[rapid.IntRange(0, len(xs)-1).Draw(g.t, label)]
}

// kw spells a keyword (or keyword phrase) in the statement's keyword style.
func (g *gen) kw(s string) string {
	switch g.style {
	case 0:
		return s
	case 1:
		return strings.ToUpper(s)
	}
	switch g.n("kwcase", 0, 2) {
	case 0:
		return s
	case 1:
		return strings.ToUpper(s)
	}
	b := []byte(s)
	for i := range b {
		if i%2 == 0 && b[i] >= 'a' && b[i] <= 'z' {
			b[i] -= 32
		}
	}
	return string(b)
}

// sp is inter-token white space.
func (g *gen) sp() string {
	if !g.wide {
		return " "
	}
	return g.oneOf("ws", " ", " ", "  ", "\n", "\t", " \n ")
}

// join joins non-empty parts with white space.
func (g *gen) join(parts ...string) string {
	var b strings.Builder
	for _, p := range parts {
		if p == "" {
			continue
		}
		if b.Len() > 0 {
			b.WriteString(g.sp())
		}
		b.WriteString(p)
	}
	return b.String()
}

func (g *gen) list(label string, lo, hi int, f func() string) string {
	k := g.n(label, lo, hi)
	parts := make([]string, k)
	for i := range parts {
		parts[i] = f()
	}
	sep := ", "
	if g.wide && g.chance("tightcomma", 30) {
		sep = ","
	}
	return strings.Join(parts, sep)
}

// ---- identifiers ----

var plainNames = []string{"a", "b", "c", "id", "col1", "t1", "user_id", "Abc", "X", "data_2", "_x", "tbl", "name1", "zz9"}

// non-reserved keywords: accepted bare as identifiers, printed quoted
var softKeywords = []string{"status", "date", "text", "time", "offset", "view", "comment", "begin", "names", "json", "bit", "level", "only", "query", "share", "mode", "start", "timestamp", "bool", "int", "char", "trigger", "session", "global", "duplicate", "read", "write", "local", "signed", "unsigned", "zerofill", "language", "with", "truncate", "primary", "point", "real", "double", "decimal", "enum"}

// reserved words: need quoting (or a preceding dot)
var hardKeywords = []string{"select", "from", "where", "order", "group", "key", "table", "index", "by", "limit", "values", "set", "join", "on", "and", "or", "not", "null", "true", "case", "default", "desc", "in", "is", "like", "union", "update", "delete", "insert", "into", "as", "div", "mod", "interval", "exists", "match", "left", "right", "if", "replace", "database", "schema", "current_date", "to", "use", "using", "for", "lock", "all", "returning", "year", "day", "hour", "partition", "xor", "sql", "range"}

// names that only exist quoted
var oddNames = []string{`a\b`, "a b", "a-b", "1a", "a.b", "Ünï", "a'b", "a(b)", "x;y", "$1", "a?b", "select 1", " lead", "trail "}

// latin1Names are names that are not valid UTF-8 (what a latin1 connection sends); only with Opts.RawByteNames,
// because not every consumer can carry them (a YAML firewall configuration cannot)
var latin1Names = []string{"\xf7", "n\xe9e"}

// quoteIdent spells name as a quoted identifier of the dialect, escaping the quote by doubling.
func (g *gen) quoteIdent(name string) string {
	q := "`"
	if g.pg {
		q = `"`
	}
	return q + strings.ReplaceAll(name, q, q+q) + q
}

// otherQuote is the quote character of the other dialect: an ordinary character inside a quoted name.
func (g *gen) otherQuote() string {
	if g.pg {
		return "`"
	}
	return `"`
}

// ident draws an identifier usable as sql_id / table_id (column, table, alias, function qualifier).
func (g *gen) ident(label string) string {
	switch g.weighted(label+".cls", 12, 3, 3, 2, 2, 1, 1) {
	case 0:
		return g.oneOf(label+".plain", plainNames...)
	case 1:
		return g.oneOf(label+".soft", softKeywords...)
	case 2:
		return g.quoteIdent(g.oneOf(label+".qplain", plainNames...))
	case 3:
		return g.quoteIdent(g.kwAny(label))
	case 4:
		names := oddNames
		if g.o.RawByteNames {
			names = append(append([]string{}, oddNames...), latin1Names...)
		}
		return g.quoteIdent(g.oneOf(label+".odd", names...))
	case 5:
		// the dialect's own quote character inside the name
		q := "`"
		if g.pg {
			q = `"`
		}
		return g.quoteIdent(g.oneOf(label+".qq", "a"+q+"a", q+"x", "x"+q, q, q+q))
	default:
		return g.quoteIdent("a" + g.otherQuote() + "b")
	}
}

func (g *gen) kwAny(label string) string {
	if g.chance(label+".hard", 60) {
		w := g.oneOf(label+".hardkw", hardKeywords...)
		if g.chance(label+".up", 25) {
			return strings.ToUpper(w[:1]) + w[1:]
		}
		return w
	}
	return g.oneOf(label+".softkw", softKeywords...)
}

// afterDot draws an identifier for a position following a dot (reserved_sql_id): reserved words are legal bare.
func (g *gen) afterDot(label string) string {
	if g.chance(label+".kw", 8) {
		return g.oneOf(label+".hard", "key", "order", "group", "table", "index", "select", "values", "left", "desc", "default")
	}
	return g.ident(label)
}

// plainIdent is a bare name (function names, charsets, index names, partitions).
func (g *gen) plainIdent(label string) string { return g.oneOf(label, plainNames...) }

func (g *gen) tableName() string {
	switch g.weighted("tn", 10, 3, 1) {
	case 0:
		return g.ident("tbl")
	case 1:
		return g.ident("db") + "." + g.afterDot("tbl")
	default:
		// single-quoted table identifier (table_id: SINGLE_QUOTE_STRING)
		return "'" + g.oneOf("sqt", "tq", "My Table", "t1") + "'"
	}
}

func (g *gen) colName() string {
	switch g.weighted("cn", 10, 5, 2) {
	case 0:
		return g.ident("col")
	case 1:
		return g.ident("tq") + "." + g.afterDot("col")
	default:
		return g.ident("dbq") + "." + g.afterDot("tq") + "." + g.afterDot("col")
	}
}

// alias spells "[AS] alias" for a select expression (col_alias accepts every quoting).
func (g *gen) colAlias() string {
	var a string
	switch g.weighted("alias.cls", 8, 2, 2) {
	case 0:
		a = g.ident("alias")
	case 1:
		a = "'" + g.oneOf("alias.sq", "x", "My Col", "a''b", "sum", `a\\b`, `tab\t`) + "'"
	default:
		a = `"` + g.oneOf("alias.dq", "x", "My Col", `a""b`, "count", `a\\b`) + `"`
	}
	if g.chance("alias.as", 60) {
		return g.kw("as") + " " + a
	}
	return a
}

func (g *gen) tableAlias() string {
	a := g.ident("talias")
	if g.chance("talias.as", 50) {
		return g.kw("as") + " " + a
	}
	return a
}

// ---- literals ----

func (g *gen) hook(kind, def string) string {
	if g.o.Literal != nil {
		if s := g.o.Literal(g.t, kind); s != "" {
			return s
		}
	}
	return def
}

var strBodies = []string{"", "a", "abc", "hello world", "O''Reilly", `it\'s`, `back\\slash`, `tab\tnl\n`, `dq"inside`, "%a_%", "Ünïcödé ✓", `\x41`, `nul\0z`, "a`b", "--not a comment", "/* nor this */", "select * from t", "?", ":v1", "$1", "''", `\Z`, "  pad  "}

func (g *gen) stringLit() string {
	def := ""
	switch {
	case g.pg:
		switch g.weighted("str.style", 7, 3) {
		case 0:
			def = "'" + g.oneOf("str.body", strBodies...) + "'"
		default:
			def = g.oneOf("str.e", "E", "e") + "'" + g.oneOf("str.ebody", "a", `a\nb`, `it\'s`, "O''Reilly", `\\`, `tab\t`, `\x41\x42`, `q"q`, "") + "'"
		}
	default:
		switch g.weighted("str.style", 7, 3) {
		case 0:
			def = "'" + g.oneOf("str.body", strBodies...) + "'"
		default:
			def = `"` + g.oneOf("str.dbody", "", "a", "abc def", `say ""hi""`, `it's`, `esc\"aped`, `back\\slash`, "Ünï", "%x%", "`bt`") + `"`
		}
	}
	return g.hook("string", def)
}

func (g *gen) intLit() string {
	def := ""
	switch g.weighted("int.cls", 8, 2, 2, 1, 1) {
	case 0:
		def = fmt.Sprint(g.n("int.small", 0, 20))
	case 1:
		def = fmt.Sprint(g.n("int.med", 21, 100000))
	case 2:
		def = "-" + fmt.Sprint(g.n("int.neg", 1, 1000))
	case 3:
		def = g.oneOf("int.big", "2147483648", "9223372036854775807", "18446744073709551616", "340282366920938463463374607431768211456")
	default:
		def = g.oneOf("int.lead0", "007", "00", "0")
	}
	return g.hook("int", def)
}

func (g *gen) floatLit() string {
	return g.hook("float", g.oneOf("float", "1.5", ".5", "0.25", "3.", "1e10", "1.5e-3", "2E5", "08.3", "1.2e+1", "-1.5", "-.5e2", "123456789.123456789"))
}

func (g *gen) hexLit() string {
	return g.hook("hex", g.oneOf("hex", "X'4142'", "x'4142'", "X''", "x'deadBEEF'", "0x4142", "0xdeadBEEF", "0X1f", "0x0"))
}

func (g *gen) bitLit() string {
	return g.hook("bit", g.oneOf("bit", "b'0101'", "B'1'", "b''", "b'11111111'"))
}

func (g *gen) placeholder() string {
	if g.o.NoPlaceholders {
		return g.intLit()
	}
	if g.pg {
		switch g.weighted("ph.pg", 8, 1, 1) {
		case 0:
			g.nArg++
			return fmt.Sprintf("$%d", g.nArg)
		case 1:
			return fmt.Sprintf("$%d", g.n("ph.n", 1, 120))
		default:
			return "?"
		}
	}
	switch g.weighted("ph.my", 8, 2) {
	case 0:
		return "?"
	default:
		return ":" + g.oneOf("ph.name", "a", "name", "v1", "v7", "user.id", "X_1")
	}
}

var castTypes = []string{"int", "text", "integer", "bigint", "numeric", "bytea", "varchar", "date", "timestamp", "bool", "uuid", "jsonb", "float8"}

// value draws a literal (`value` of sql.y, plus booleans).
func (g *gen) value() string {
	var v string
	castable := true
	switch g.weighted("val.cls", 8, 8, 3, 3, 1, 2, 2, 4) {
	case 0:
		v = g.stringLit()
	case 1:
		v = g.intLit()
	case 2:
		v = g.floatLit()
	case 3:
		v = g.hexLit()
	case 4:
		v = g.bitLit()
	case 5:
		v = g.kw("null")
	case 6:
		v = g.kw(g.oneOf("bool", "true", "false"))
		castable = false // boolean_value is not a `value`
	default:
		v = g.placeholder()
	}
	// `value typecast`: PostgreSQL style cast, accepted by the grammar in both dialects
	pct := 2
	if g.pg {
		pct = 18
	}
	if castable && g.chance("val.cast", pct) {
		v += "::" + g.oneOf("val.casttype", castTypes...)
		if g.chance("val.cast2", 15) {
			v += "::" + g.oneOf("val.casttype2", castTypes...)
		}
	}
	return v
}

// ---- expressions ----

// Expr generates an `expression` of sql.y with nesting at most depth.
func Expr(t *rapid.T, o Opts, depth int) string {
	return newGen(t, o).expr(depth)
}

// paren wraps text in parentheses (optionally padded).
func (g *gen) paren(s string) string {
	if g.wide && g.chance("padparen", 30) {
		return "( " + s + " )"
	}
	return "(" + s + ")"
}

// expr: expression (boolean level).
func (g *gen) expr(d int) string {
	if d <= 0 {
		return g.vexpr(0)
	}
	switch g.weighted("e.cls", 5, 6, 3, 3, 2, 2, 1) {
	case 0:
		return g.vexpr(d)
	case 1:
		return g.cond(d)
	case 2:
		return g.join(g.exprOperand(d-1), g.oneOf("e.and", g.kw("and"), g.kw("and"), "&&"), g.exprOperand(d-1))
	case 3:
		return g.join(g.exprOperand(d-1), g.oneOf("e.or", g.kw("or"), g.kw("or"), "||"), g.exprOperand(d-1))
	case 4:
		return g.join(g.kw("not"), g.exprOperand(d-1))
	case 5:
		return g.join(g.exprOperand(d-1), g.kw("is"), g.kw(g.oneOf("e.is", "null", "not null", "true", "not true", "false", "not false")))
	default:
		return g.paren(g.expr(d - 1))
	}
}

// exprOperand is an operand of AND/OR/NOT/IS: any expression, often parenthesised so that the
// grouping differs from what precedence alone would give.
func (g *gen) exprOperand(d int) string {
	if g.chance("eo.paren", 30) {
		return g.paren(g.expr(d))
	}
	return g.expr(d)
}

var cmpOps = []string{"=", "<", ">", "<=", ">=", "!=", "<>", "<=>"}

// cond: condition.
func (g *gen) cond(d int) string {
	switch g.weighted("c.cls", 8, 3, 2, 3, 2, 3, 2) {
	case 0:
		return g.binop(g.vexpr(d-1), g.oneOf("c.cmp", cmpOps...), g.vexpr(d-1))
	case 1:
		not := ""
		if g.chance("c.notin", 40) {
			not = g.kw("not")
		}
		return g.join(g.vexpr(d-1), not, g.kw("in"), g.colTuple(d-1))
	case 2:
		op := g.kw("like")
		if g.pg && g.chance("c.ilike", 40) {
			op = g.kw("ilike")
		}
		if g.chance("c.notlike", 35) {
			op = g.kw("not") + " " + op
		}
		esc := ""
		if g.chance("c.escape", 35) {
			esc = g.join(g.kw("escape"), g.oneOf("c.esc", "'!'", `'\\'`, "'|'", "'#'"))
		}
		return g.join(g.vexpr(d-1), op, g.vexpr(d-1), esc)
	case 3:
		not := ""
		if g.chance("c.notbetween", 45) {
			not = g.kw("not")
		}
		return g.join(g.vexpr(d-1), not, g.kw("between"), g.vexpr(d-1), g.kw("and"), g.vexpr(d-1))
	case 4:
		op := g.kw(g.oneOf("c.re", "regexp", "rlike"))
		if g.chance("c.notre", 35) {
			op = g.kw("not") + " " + op
		}
		return g.join(g.vexpr(d-1), op, g.vexpr(d-1))
	case 5:
		return g.join(g.kw("exists"), g.subquery(d-1))
	default:
		return g.paren(g.cond(d))
	}
}

func (g *gen) colTuple(d int) string {
	switch g.weighted("ct.cls", 7, 3, 1) {
	case 0:
		return g.paren(g.list("ct.n", 1, 4, func() string { return g.expr(d) }))
	case 1:
		return g.subquery(d)
	default:
		if g.o.NoPlaceholders {
			return g.paren(g.value())
		}
		return "::" + g.oneOf("ct.list", "list", "ids", "v1")
	}
}

// binop joins two operands with a symbolic operator, sometimes without white space.
func (g *gen) binop(l, op, r string) string {
	if g.chance("tight", 12) && tightOK(l, op, r) {
		return l + op + r
	}
	return g.join(l, op, r)
}

func tightOK(l, op, r string) bool {
	if l == "" || r == "" {
		return false
	}
	for _, c := range op {
		if c >= 'a' && c <= 'z' || c >= 'A' && c <= 'Z' {
			return false
		}
	}
	first, last := r[0], l[len(l)-1]
	okFirst := first == '(' || first == '\'' || first == '`' || first == '"' || first >= '0' && first <= '9' || first >= 'a' && first <= 'z' && first != 'x' && first != 'b' && first != 'e' || first == '?'
	okLast := last == ')' || last == '\'' || last == '`' || last == '"' || last >= '0' && last <= '9' || last >= 'a' && last <= 'z'
	return okFirst && okLast
}

var arithOps = []string{"+", "-", "*", "/", "%", "&", "|", "^", "<<", ">>"}

// vexpr: value_expression.
func (g *gen) vexpr(d int) string {
	if d <= 0 {
		return g.atom()
	}
	switch g.weighted("v.cls", 8, 8, 3, 3, 4, 2, 2, 1, 1) {
	case 0:
		return g.atom()
	case 1:
		op := g.oneOf("v.op", arithOps...)
		if g.chance("v.kwop", 15) {
			return g.join(g.vexpr(d-1), g.kw(g.oneOf("v.kwopn", "div", "mod")), g.vexpr(d-1))
		}
		return g.binop(g.vexpr(d-1), op, g.vexpr(d-1))
	case 2:
		// unary
		op := g.oneOf("v.unary", "-", "~", "!", "+", "-", "~")
		inner := g.vexpr(d - 1)
		if (op == "-" && strings.HasPrefix(inner, "-")) || (op == "+" && strings.HasPrefix(inner, "+")) || g.chance("v.unsp", 20) {
			return op + " " + inner
		}
		return op + inner
	case 3:
		// parenthesised expression (any sort) or row tuple
		if g.chance("v.tuple", 25) {
			return g.paren(g.list("v.tuplen", 2, 3, func() string { return g.expr(d - 1) }))
		}
		return g.paren(g.expr(d - 1))
	case 4:
		return g.funcCall(d)
	case 5:
		return g.caseExpr(d)
	case 6:
		return g.subquery(d - 1)
	case 7:
		if g.chance("v.binary", 50) {
			return g.join(g.kw(g.oneOf("v.bin", "binary", "_binary")), g.vexpr(d-1))
		}
		cs := g.oneOf("v.collate", "utf8_bin", "utf8mb4_general_ci", "latin1_swedish_ci", "'utf8_bin'", "C", "''", "'utf8 bin'", "'1x'", "'a''b'")
		return g.join(g.vexprTight(d-1), g.kw("collate"), cs)
	default:
		return g.intervalExpr(d)
	}
}

// vexprTight is an operand that binds tighter than any operator (atom or parenthesised).
func (g *gen) vexprTight(d int) string {
	if g.chance("vt.atom", 60) {
		return g.atom()
	}
	return g.paren(g.vexpr(d))
}

func (g *gen) intervalExpr(d int) string {
	if g.pg {
		return g.join(g.kw("interval"), "'"+g.oneOf("iv.pg", "1 day", "2 hours 30 minutes", "1 year 2 mons", "3")+"'")
	}
	unit := g.oneOf("iv.unit", "microsecond", "second", "minute", "hour", "day", "week", "month", "quarter", "year", "second_microsecond", "minute_microsecond", "minute_second", "hour_microsecond", "hour_second", "hour_minute", "day_microsecond", "day_second", "day_minute", "day_hour", "year_month")
	// the operand must not start with a single-quoted string: the parser then commits to the
	// PostgreSQL form INTERVAL 'string' and rejects it in the MySQL dialect
	var operand string
	switch g.weighted("iv.operand", 5, 2, 2, 2) {
	case 0:
		operand = fmt.Sprint(g.n("iv.n", 0, 90))
	case 1:
		operand = g.colName()
	case 2:
		operand = g.placeholder()
	default:
		operand = g.paren(g.vexpr(d - 1))
	}
	return g.join(g.kw("interval"), operand, g.kw(unit))
}

func (g *gen) atom() string {
	switch g.weighted("a.cls", 10, 10, 1, 1) {
	case 0:
		return g.colName()
	case 1:
		return g.value()
	case 2:
		if g.pg {
			return g.colName()
		}
		return g.oneOf("a.var", "@a", "@@version", "@@global.max_connections", "@@session.sql_mode", "@Var_1")
	default:
		// JSON extraction: column_name -> value
		return g.join(g.colName(), g.oneOf("a.json", "->", "->>"), g.oneOf("a.jsonpath", "'$.a'", "'$[0]'", "'$.a.b'"))
	}
}

var genericFuncs = []string{"f", "concat", "lower", "coalesce", "now", "abs", "length", "ifnull", "my_func", "rand", "Upper", "date_add", "nullif", "greatest", "char_length"}
var aggFuncs = []string{"count", "sum", "min", "max", "avg", "COUNT", "bit_or"}

func (g *gen) funcArg(d int) string {
	// select_expression_list: *, expressions with optional alias (aliases in calls are legal in the grammar)
	if g.chance("fa.star", 6) {
		return "*"
	}
	return g.expr(d)
}

func (g *gen) convertType() string {
	switch g.weighted("cvt.cls", 3, 3, 2, 2, 2, 2, 1, 1, 2, 2, 1, 1, 1) {
	case 0:
		return g.kw("char") + g.lengthOpt()
	case 1:
		return g.kw("signed") + g.kwOpt(" integer")
	case 2:
		return g.kw("unsigned") + g.kwOpt(" integer")
	case 3:
		return g.kw("binary") + g.lengthOpt()
	case 4:
		return g.kw("decimal") + g.oneOf("cvt.dec", "", "(10)", "(10, 2)", "(5,0)")
	case 5:
		return g.kw("date")
	case 6:
		return g.kw("datetime") + g.lengthOpt()
	case 7:
		return g.kw("time") + g.lengthOpt()
	case 8:
		return g.kw("json")
	case 9:
		return g.kw("nchar") + g.lengthOpt()
	case 10:
		return g.kw("char") + g.lengthOpt() + " " + g.kw("character set") + " " + g.oneOf("cvt.cs", "utf8", "latin1", "binary", "utf8mb4")
	case 11:
		return g.kw("char") + g.lengthOpt() + " " + g.oneOf("cvt.cs2", "utf8", "latin1", "ascii")
	default:
		return g.kw("varchar") + "(" + fmt.Sprint(g.n("cvt.vlen", 1, 255)) + ")"
	}
}

func (g *gen) lengthOpt() string {
	if g.chance("len", 45) {
		return "(" + fmt.Sprint(g.n("len.n", 1, 64)) + ")"
	}
	return ""
}

func (g *gen) kwOpt(s string) string {
	if g.chance("kwopt", 40) {
		return g.kw(s)
	}
	return ""
}

func (g *gen) funcCall(d int) string {
	switch g.weighted("f.cls", 8, 4, 3, 3, 2, 1, 1, 1, 1, 1) {
	case 0:
		name := g.oneOf("f.name", genericFuncs...)
		if g.chance("f.quoted", 6) {
			// quoted function name: case-sensitive in PostgreSQL
			if g.pg {
				name = `"` + g.oneOf("f.qname", "MyFunc", "f", "Upper") + `"`
			} else {
				name = "`" + g.oneOf("f.qname", "f", "my_func", "Upper") + "`"
			}
		}
		if g.chance("f.qual", 8) {
			name = g.plainIdent("f.q") + "." + name
		}
		return name + "(" + g.list("f.n", 0, 3, func() string { return g.funcArg(d - 1) }) + ")"
	case 1:
		name := g.oneOf("f.agg", aggFuncs...)
		if g.chance("f.distinct", 45) {
			return name + "(" + g.kw("distinct") + " " + g.list("f.dn", 1, 2, func() string { return g.expr(d - 1) }) + ")"
		}
		if g.chance("f.countstar", 30) {
			return name + "(*)"
		}
		return name + "(" + g.expr(d-1) + ")"
	case 2:
		// CAST / CONVERT
		switch g.weighted("f.cast", 4, 4, 2) {
		case 0:
			return g.kw("cast") + "(" + g.join(g.expr(d-1), g.kw("as"), g.convertType()) + ")"
		case 1:
			return g.kw("convert") + "(" + g.expr(d-1) + ", " + g.convertType() + ")"
		default:
			return g.kw("convert") + "(" + g.join(g.expr(d-1), g.kw("using"), g.oneOf("f.cs", "utf8", "latin1", "utf8mb4", "'utf8'", "''", "'utf 8'")) + ")"
		}
	case 3:
		// keyword functions with ordinary call syntax
		name := g.oneOf("f.kwname", "left", "right", "if", "mod", "replace", "database", "schema")
		switch name {
		case "database", "schema":
			return g.kw(name) + "()"
		case "if", "replace":
			return g.kw(name) + "(" + g.expr(d-1) + ", " + g.expr(d-1) + ", " + g.expr(d-1) + ")"
		}
		return g.kw(name) + "(" + g.expr(d-1) + ", " + g.expr(d-1) + ")"
	case 4:
		name := g.oneOf("f.now", "current_timestamp", "current_date", "current_time", "utc_timestamp", "utc_date", "utc_time", "localtime", "localtimestamp")
		if g.chance("f.nowparen", 50) {
			return g.kw(name) + "()"
		}
		return g.kw(name)
	case 5:
		name := g.kw(g.oneOf("f.substr", "substr", "substring"))
		switch g.n("f.substrform", 0, 2) {
		case 0:
			return name + "(" + g.colName() + ", " + g.vexpr(d-1) + ")"
		case 1:
			return name + "(" + g.colName() + ", " + g.vexpr(d-1) + ", " + g.vexpr(d-1) + ")"
		default:
			return name + "(" + g.join(g.colName(), g.kw("from"), g.vexpr(d-1), g.kw("for"), g.vexpr(d-1)) + ")"
		}
	case 6:
		opt := g.oneOf("f.matchopt", "", " in boolean mode", " in natural language mode", " in natural language mode with query expansion", " with query expansion")
		return g.kw("match") + "(" + g.list("f.matchn", 1, 2, func() string { return g.colName() }) + ") " + g.kw("against") + " (" + g.vexpr(d-1) + g.kw(opt) + ")"
	case 7:
		s := g.kw("group_concat") + "("
		if g.chance("f.gcd", 40) {
			s += g.kw("distinct") + " "
		}
		s += g.list("f.gcn", 1, 2, func() string { return g.expr(d - 1) })
		if g.chance("f.gco", 50) {
			s += " " + g.orderBy(d-1)
		}
		if g.chance("f.gcs", 50) {
			s += " " + g.kw("separator") + " " + g.oneOf("f.gcsep", "','", "'; '", "' '", `"|"`, "''", "'a''b'", `'\\'`, `'\n'`, "'\t'")
		}
		return s + ")"
	case 8:
		return g.kw("values") + "(" + g.colName() + ")"
	default:
		return g.caseExpr(d)
	}
}

func (g *gen) caseExpr(d int) string {
	parts := []string{g.kw("case")}
	if g.chance("case.operand", 40) {
		parts = append(parts, g.expr(d-1))
	}
	k := g.n("case.whens", 1, 3)
	for i := 0; i < k; i++ {
		parts = append(parts, g.kw("when"), g.expr(d-1), g.kw("then"), g.expr(d-1))
	}
	if g.chance("case.else", 50) {
		parts = append(parts, g.kw("else"), g.expr(d-1))
	}
	parts = append(parts, g.kw("end"))
	return g.join(parts...)
}

func (g *gen) subquery(d int) string {
	if d < 0 {
		d = 0
	}
	return g.paren(g.selectStmt(d, false))
}

// ---- clauses ----

func (g *gen) orderBy(d int) string {
	return g.join(g.kw("order by"), g.list("ob.n", 1, 3, func() string {
		e := g.expr(d)
		switch g.weighted("ob.dir", 4, 2, 3, 1) {
		case 0:
			return e
		case 1:
			return e + " " + g.kw("asc")
		case 2:
			return e + " " + g.kw("desc")
		default:
			return e + " " + g.kw(g.oneOf("ob.nulls", "asc nulls first", "asc nulls last", "desc nulls first", "desc nulls last"))
		}
	}))
}

func (g *gen) limitArg() string {
	if g.chance("lim.ph", 20) {
		return g.placeholder()
	}
	return fmt.Sprint(g.n("lim.n", 0, 1000))
}

func (g *gen) limit() string {
	forms := []int{5, 3, 3, 0, 0}
	if g.pg {
		forms = []int{5, 0, 3, 1, 1}
	}
	switch g.weighted("lim.form", forms...) {
	case 0:
		return g.join(g.kw("limit"), g.limitArg())
	case 1:
		return g.join(g.kw("limit"), g.limitArg()+",", g.limitArg())
	case 2:
		return g.join(g.kw("limit"), g.limitArg(), g.kw("offset"), g.limitArg())
	case 3:
		return g.kw("limit all")
	default:
		return g.join(g.kw("limit all offset"), g.limitArg())
	}
}

func (g *gen) where(d int) string { return g.join(g.kw("where"), g.expr(d)) }

func (g *gen) comment() string {
	if g.chance("cmt", 6) {
		return g.oneOf("cmt.text", "/* c */", "/* two words */", "/*+ hint */", "/**/")
	}
	return ""
}

func (g *gen) selectExprs(d int) string {
	return g.list("se.n", 1, 4, func() string {
		switch g.weighted("se.cls", 2, 1, 1, 10) {
		case 0:
			return "*"
		case 1:
			return g.ident("se.t") + ".*"
		case 2:
			return g.ident("se.db") + "." + g.afterDot("se.t") + ".*"
		}
		e := g.expr(d)
		if g.chance("se.alias", 30) {
			return e + " " + g.colAlias()
		}
		return e
	})
}

func (g *gen) indexHint() string {
	if g.pg || !g.chance("hint", 8) {
		return ""
	}
	return g.join(g.kw(g.oneOf("hint.kind", "use", "ignore", "force")), g.kw("index"), g.paren(g.list("hint.n", 1, 2, func() string { return g.plainIdent("hint.idx") })))
}

func (g *gen) partitionOpt() string {
	if g.pg || !g.chance("part", 5) {
		return ""
	}
	return g.join(g.kw("partition"), g.paren(g.list("part.n", 1, 2, func() string { return g.plainIdent("part.p") })))
}

// aliasedTable: table_name [partition] [[AS] alias] [index hints]
func (g *gen) aliasedTable() string {
	alias := ""
	if g.chance("at.alias", 40) {
		alias = g.tableAlias()
	}
	return g.join(g.tableName(), g.partitionOpt(), alias, g.indexHint())
}

func (g *gen) tableFactor(d int) string {
	switch g.weighted("tf.cls", 12, 3, 1) {
	case 0:
		return g.aliasedTable()
	case 1:
		if d <= 0 {
			return g.aliasedTable()
		}
		return g.join(g.subquery(d-1), g.tableAlias())
	default:
		return g.paren(g.tableRefs(d - 1))
	}
}

func (g *gen) joinCond(d int) string {
	if g.chance("jc.using", 30) {
		return g.join(g.kw("using"), g.paren(g.list("jc.n", 1, 2, func() string { return g.ident("jc.col") })))
	}
	return g.join(g.kw("on"), g.expr(d))
}

func (g *gen) tableRef(d int) string {
	s := g.tableFactor(d)
	if d <= 0 {
		return s
	}
	joins := g.weighted("tr.joins", 10, 5, 2)
	for i := 0; i < joins; i++ {
		switch g.weighted("tr.kind", 4, 4, 2, 1) {
		case 0:
			j := g.kw(g.oneOf("tr.inner", "join", "inner join", "cross join"))
			c := ""
			if g.chance("tr.cond", 75) {
				c = g.joinCond(d - 1)
			}
			s = g.join(s, j, g.tableFactor(d-1), c)
		case 1:
			j := g.kw(g.oneOf("tr.outer", "left join", "right join", "left outer join", "right outer join"))
			s = g.join(s, j, g.tableFactor(d-1), g.joinCond(d-1))
		case 2:
			j := g.kw(g.oneOf("tr.natural", "natural join", "natural left join", "natural right join", "natural left outer join", "natural right outer join"))
			s = g.join(s, j, g.tableFactor(d-1))
		default:
			c := ""
			if g.chance("tr.sjcond", 60) {
				c = g.join(g.kw("on"), g.expr(d-1))
			}
			s = g.join(s, g.kw("straight_join"), g.tableFactor(d-1), c)
		}
	}
	return s
}

func (g *gen) tableRefs(d int) string {
	if d < 0 {
		d = 0
	}
	return g.list("trs.n", 1, 2, func() string { return g.tableRef(d) })
}

// ---- statements ----

// baseSelect: SELECT ... [FROM ...] [WHERE] [GROUP BY] [HAVING]
func (g *gen) baseSelect(d int) string {
	parts := []string{g.kw("select"), g.comment()}
	if !g.pg && g.chance("sel.cache", 4) {
		parts = append(parts, g.kw(g.oneOf("sel.cachekw", "sql_no_cache", "sql_cache")))
	}
	if g.chance("sel.distinct", 18) {
		parts = append(parts, g.kw("distinct"))
	}
	if !g.pg && g.chance("sel.sj", 3) {
		parts = append(parts, g.kw("straight_join"))
	}
	parts = append(parts, g.selectExprs(d))
	if g.chance("sel.from", 88) {
		parts = append(parts, g.kw("from"), g.tableRefs(d))
	}
	if g.chance("sel.where", 55) {
		parts = append(parts, g.where(d))
	}
	if g.chance("sel.group", 22) {
		parts = append(parts, g.kw("group by"), g.list("gb.n", 1, 3, func() string { return g.expr(d - 1) }))
		if g.chance("sel.having", 55) {
			parts = append(parts, g.kw("having"), g.expr(d))
		}
	} else if g.chance("sel.having2", 4) {
		parts = append(parts, g.kw("having"), g.expr(d))
	}
	return g.join(parts...)
}

func (g *gen) tail(d int) string {
	var parts []string
	if g.chance("tail.order", 35) {
		parts = append(parts, g.orderBy(d-1))
	}
	if g.chance("tail.limit", 35) {
		parts = append(parts, g.limit())
	}
	if g.chance("tail.lock", 6) {
		parts = append(parts, g.kw(g.oneOf("tail.lockkw", "for update", "lock in share mode")))
	}
	return g.join(parts...)
}

// selectStmt: select_statement (a base select with order/limit/lock, or a union).
func (g *gen) selectStmt(d int, top bool) string {
	unionPct := 12
	if top {
		unionPct = 22
	}
	if d <= 0 || !g.chance("sel.union", unionPct) {
		return g.join(g.baseSelect(d), g.tail(d))
	}
	// union_lhs union_op union_rhs [order by] [limit] [lock]
	lhs := g.unionSide(d-1, true)
	k := g.weighted("un.more", 6, 2, 1)
	for i := 0; i <= k; i++ {
		op := g.kw(g.oneOf("un.op", "union", "union all", "union", "union distinct"))
		lhs = g.join(lhs, op, g.unionSide(d-1, false))
	}
	return g.join(lhs, g.tail(d))
}

// unionSide: lhs may be any select_statement or a parenthesised one; rhs a base select or a parenthesised one.
func (g *gen) unionSide(d int, left bool) string {
	switch g.weighted("us.cls", 6, 4) {
	case 0:
		return g.baseSelect(d)
	default:
		// a parenthesised side may itself be a union with its own ORDER BY / LIMIT
		return g.paren(g.selectStmt(d, false))
	}
}

// Select generates a SELECT statement (possibly a UNION).
func Select(t *rapid.T, o Opts) string { g := newGen(t, o); return g.finish(g.selectStmt(o.depth(), true)) }

// Insert generates an INSERT / REPLACE statement.
func Insert(t *rapid.T, o Opts) string { g := newGen(t, o); return g.finish(g.insertStmt(o.depth())) }

// Update generates an UPDATE statement.
func Update(t *rapid.T, o Opts) string { g := newGen(t, o); return g.finish(g.updateStmt(o.depth())) }

// Delete generates a DELETE statement.
func Delete(t *rapid.T, o Opts) string { g := newGen(t, o); return g.finish(g.deleteStmt(o.depth())) }

// Statement generates a data-manipulation statement of any kind.
func Statement(t *rapid.T, o Opts) string {
	g := newGen(t, o)
	d := o.depth()
	switch g.weighted("stmt.kind", 5, 3, 2, 2) {
	case 0:
		return g.finish(g.selectStmt(d, true))
	case 1:
		return g.finish(g.insertStmt(d))
	case 2:
		return g.finish(g.updateStmt(d))
	default:
		return g.finish(g.deleteStmt(d))
	}
}

// finish adds statement margins: a trailing semicolon, margin comments, surrounding white space.
func (g *gen) finish(s string) string {
	if g.chance("fin.semi", 8) {
		s += ";"
	}
	if g.chance("fin.lead", 3) {
		s = "/* lead */ " + s
	}
	if g.chance("fin.trail", 3) {
		s += " /* trail */"
	}
	if g.wide && g.chance("fin.ws", 30) {
		s = " \n" + s + " \t"
	}
	return s
}

func (g *gen) valuesRow(d, width int) string {
	parts := make([]string, width)
	for i := range parts {
		if g.chance("row.default", 5) {
			parts[i] = g.kw("default")
		} else if g.chance("row.simple", 60) {
			parts[i] = g.value()
		} else {
			parts[i] = g.expr(d - 1)
		}
	}
	return "(" + strings.Join(parts, ", ") + ")"
}

func (g *gen) insColumn() string {
	// column_id: sql_id or a string in any quotes; optionally qualified (qualifier is dropped by the parser)
	var c string
	switch g.weighted("ic.cls", 12, 1, 1) {
	case 0:
		c = g.ident("ic.col")
	case 1:
		c = "'" + g.oneOf("ic.sq", "c1", "my col") + "'"
	default:
		c = `"` + g.oneOf("ic.dq", "c1", "My Col") + `"`
	}
	if g.chance("ic.qual", 6) {
		return g.ident("ic.t") + "." + c
	}
	return c
}

func (g *gen) updateList(d int) string {
	return g.list("ul.n", 1, 4, func() string {
		v := ""
		switch g.weighted("ul.v", 6, 4, 1) {
		case 0:
			v = g.value()
		case 1:
			v = g.expr(d - 1)
		default:
			v = g.kw("default")
		}
		return g.binop(g.colName(), "=", v)
	})
}

func (g *gen) returning(d int) string {
	return g.join(g.kw("returning"), g.selectExprs(d-1))
}

func (g *gen) insertStmt(d int) string {
	action := "insert"
	if !g.pg && g.chance("ins.replace", 12) {
		action = "replace"
	}
	parts := []string{g.kw(action), g.comment()}
	if !g.pg && g.chance("ins.ignore", 8) {
		parts = append(parts, g.kw("ignore"))
	}
	if g.chance("ins.into", 92) {
		parts = append(parts, g.kw("into"))
	}
	parts = append(parts, g.tableName())
	form := g.weighted("ins.form", 8, 4, 2, 1)
	if g.pg && form == 2 {
		form = 0
	}
	if form != 3 {
		parts = append(parts, g.partitionOpt())
	}
	fromSelect := false
	switch form {
	case 0:
		// [(cols)] VALUES (...), (...)
		width := g.n("ins.width", 1, 4)
		if g.chance("ins.cols", 70) {
			cols := make([]string, width)
			for i := range cols {
				cols[i] = g.insColumn()
			}
			parts = append(parts, "("+strings.Join(cols, ", ")+")")
		}
		rows := g.n("ins.rows", 1, 3)
		rs := make([]string, rows)
		for i := range rs {
			if g.chance("ins.emptyrow", 2) {
				rs[i] = "()"
			} else {
				rs[i] = g.valuesRow(d, width)
			}
		}
		parts = append(parts, g.kw("values"), strings.Join(rs, ", "))
	case 1:
		// [(cols)] select | (select)
		fromSelect = true
		if g.chance("ins.selcols", 60) {
			parts = append(parts, g.paren(g.list("ins.selcoln", 1, 3, func() string { return g.insColumn() })))
		}
		sel := g.selectStmt(d-1, true)
		if g.chance("ins.selparen", 20) {
			sel = g.paren(sel)
		}
		parts = append(parts, sel)
	case 2:
		// INSERT ... SET a = 1, b = 2 (MySQL)
		parts = append(parts, g.kw("set"), g.updateList(d))
	default:
		parts = append(parts, g.kw("default values"))
		return g.join(parts...)
	}
	// INSERT .. SELECT .. ON DUPLICATE is ambiguous after a join without condition (see sql.y); the
	// select generator may end with one, so the clause is only added after VALUES / SET.
	if !g.pg && !fromSelect && g.chance("ins.ondup", 25) {
		parts = append(parts, g.kw("on duplicate key update"), g.updateList(d))
	}
	if form != 2 && g.chance("ins.returning", map[bool]int{true: 30, false: 4}[g.pg]) {
		parts = append(parts, g.returning(d))
	}
	return g.join(parts...)
}

func (g *gen) updateStmt(d int) string {
	parts := []string{g.kw("update"), g.comment()}
	if g.pg {
		parts = append(parts, g.aliasedTable())
	} else {
		parts = append(parts, g.tableRefs(d-1))
	}
	parts = append(parts, g.kw("set"), g.updateList(d))
	if g.pg && g.chance("upd.from", 25) {
		parts = append(parts, g.kw("from"), g.tableRefs(d-1))
	}
	if g.chance("upd.where", 75) {
		parts = append(parts, g.where(d))
	}
	if !g.pg {
		if g.chance("upd.order", 20) {
			parts = append(parts, g.orderBy(d-1))
		}
		if g.chance("upd.limit", 25) {
			parts = append(parts, g.join(g.kw("limit"), g.limitArg()))
		}
	} else if g.chance("upd.returning", 30) {
		parts = append(parts, g.returning(d))
	}
	return g.join(parts...)
}

func (g *gen) deleteStmt(d int) string {
	parts := []string{g.kw("delete"), g.comment()}
	form := g.weighted("del.form", 8, 2, 2)
	if g.pg && form == 2 {
		form = 0
	}
	switch form {
	case 0:
		alias := ""
		if g.chance("del.alias", 20) {
			alias = g.tableAlias()
		}
		parts = append(parts, g.kw("from"), g.tableName(), g.partitionOpt(), alias)
		if g.chance("del.where", 80) {
			parts = append(parts, g.where(d))
		}
		if !g.pg {
			if g.chance("del.order", 20) {
				parts = append(parts, g.orderBy(d-1))
			}
			if g.chance("del.limit", 25) {
				parts = append(parts, g.join(g.kw("limit"), g.limitArg()))
			}
		}
	case 1:
		// DELETE FROM t1 [, t2] USING table_references [WHERE]
		parts = append(parts, g.kw("from"), g.list("del.targets", 1, 2, func() string { return g.tableName() }), g.kw("using"), g.tableRefs(d-1))
		if g.chance("del.where", 80) {
			parts = append(parts, g.where(d))
		}
	default:
		// DELETE t1 [, t2] FROM table_references [WHERE] (MySQL multi-table)
		parts = append(parts, g.list("del.targets", 1, 2, func() string { return g.tableName() }), g.kw("from"), g.tableRefs(d-1))
		if g.chance("del.where", 80) {
			parts = append(parts, g.where(d))
		}
	}
	if g.chance("del.returning", map[bool]int{true: 30, false: 4}[g.pg]) {
		parts = append(parts, g.returning(d))
	}
	return g.join(parts...)
}
