package sqlgen

import (
	"reflect"

	"github.com/cossacklabs/acra/sqlparser"
	"pgregory.net/rapid"
)

var (
	exprType   = reflect.TypeOf((*sqlparser.Expr)(nil)).Elem()
	intervalTy = reflect.TypeOf(&sqlparser.IntervalExpr{})
)

// slot is a place in a tree that holds an Expr.
type slot struct {
	v     reflect.Value // settable, of interface type sqlparser.Expr
	depth int
}

// exprSlots collects every settable Expr-typed position below v (struct fields and slice
// elements), skipping positions whose grammar is narrower than `expression`.
func exprSlots(v reflect.Value, depth int, out *[]slot) {
	if depth > 200 {
		return
	}
	switch v.Kind() {
	case reflect.Interface:
		if v.IsNil() {
			return
		}
		if v.Type() == exprType && v.CanSet() {
			*out = append(*out, slot{v, depth})
		}
		exprSlots(v.Elem(), depth+1, out)
	case reflect.Ptr:
		if v.IsNil() {
			return
		}
		if v.Type() == intervalTy {
			return // INTERVAL operand: string only in PostgreSQL, tight operand in MySQL
		}
		if v.CanInterface() {
			switch n := v.Interface().(type) {
			case *sqlparser.BinaryExpr:
				if n.Operator == sqlparser.JSONExtractOp || n.Operator == sqlparser.JSONUnquoteExtractOp {
					return // column_name -> value: both operands are fixed sorts
				}
			case *sqlparser.ComparisonExpr:
				if n.Operator == sqlparser.InStr || n.Operator == sqlparser.NotInStr {
					// the right operand must stay a col_tuple: only its inside is open for grafting
					ev := v.Elem()
					exprSlots(ev.FieldByName("Left"), depth+1, out)
					r := ev.FieldByName("Right")
					if !r.IsNil() {
						exprSlots(r.Elem(), depth+1, out)
					}
					return
				}
			}
		}
		exprSlots(v.Elem(), depth+1, out)
	case reflect.Struct:
		for i := 0; i < v.NumField(); i++ {
			if v.Type().Field(i).PkgPath != "" {
				continue // unexported
			}
			exprSlots(v.Field(i), depth+1, out)
		}
	case reflect.Slice:
		if v.Type().Elem().Kind() == reflect.Uint8 {
			return
		}
		for i := 0; i < v.Len(); i++ {
			exprSlots(v.Index(i), depth+1, out)
		}
	}
}

func slotsOf(st sqlparser.Statement) []slot {
	var out []slot
	exprSlots(reflect.ValueOf(&st).Elem(), 0, &out)
	return out
}

// atomic reports whether e can stand anywhere an expression can without parentheses.
func atomic(e sqlparser.Expr) bool {
	switch e.(type) {
	case *sqlparser.ColName, *sqlparser.SQLVal, *sqlparser.NullVal, sqlparser.BoolVal, *sqlparser.FuncExpr, *sqlparser.ParenExpr,
		*sqlparser.Subquery, *sqlparser.CaseExpr, *sqlparser.ConvertExpr, *sqlparser.SubstrExpr, *sqlparser.ValuesFuncExpr, *sqlparser.GroupConcatExpr:
		return true
	}
	return false
}

// graftable reports whether e may be moved to another expression position at all.
func graftable(e sqlparser.Expr) bool {
	switch e.(type) {
	case sqlparser.ListArg, *sqlparser.Default, sqlparser.ValTuple, *sqlparser.StarExpr:
		return false
	}
	return true
}

func selectOf(st sqlparser.Statement) *sqlparser.Select {
	switch s := st.(type) {
	case *sqlparser.Select:
		return s
	case *sqlparser.ParenSelect:
		return selectOf(s.Select)
	case *sqlparser.Union:
		if l := selectOf(s.Left); l != nil {
			return l
		}
		return selectOf(s.Right)
	case *sqlparser.Insert:
		if sel, ok := s.Rows.(sqlparser.SelectStatement); ok {
			return selectOf(sel)
		}
	}
	return nil
}

func whereOf(st sqlparser.Statement) **sqlparser.Where {
	switch s := st.(type) {
	case *sqlparser.Update:
		return &s.Where
	case *sqlparser.Delete:
		return &s.Where
	}
	if sel := selectOf(st); sel != nil {
		return &sel.Where
	}
	return nil
}

func isNextval(sel *sqlparser.Select) bool {
	if sel == nil {
		return false
	}
	for _, e := range sel.SelectExprs {
		if _, ok := e.(sqlparser.Nextval); ok {
			return true
		}
	}
	return false
}

// Splice grafts a sub-expression or a clause of one statement (donor) into another (recipient).
// Both are drawn from the DML corpus of the dialect, or, one time in four, from the grammar
// generator. The result is printed with acra's printer from the edited tree, so it is the text
// of a statement "obtained by splicing sub-expressions of accepted statements into each other".
// Splice sets the default dialect. It returns "" when the drawn pair offers nothing to graft.
func Splice(t *rapid.T, o Opts) string {
	d := SetDialect(o.Dialect)
	pool := DMLCorpus(o.Dialect)
	pick := func(label string) string {
		if rapid.IntRange(0, 3).Draw(t, label+".gen") == 0 {
			return Statement(t, o)
		}
		return pool[rapid.IntRange(0, len(pool)-1).Draw(t, label+".idx")]
	}
	parse := func(s string) sqlparser.Statement {
		st, err := safeParse(d, s)
		if err != nil || st == nil || !IsDML(st) || isNextval(selectOf(st)) {
			return nil
		}
		return st
	}
	recText, donText := pick("recipient"), pick("donor")
	rec := parse(recText)
	if rec == nil || parse(donText) == nil {
		return ""
	}
	rounds := rapid.IntRange(1, 3).Draw(t, "rounds")
	for r := 0; r < rounds; r++ {
		// a fresh donor tree per round: grafted nodes must never be shared between trees
		rec = spliceOnce(t, rec, parse(donText))
		if rec == nil {
			return ""
		}
	}
	return safeString(rec)
}

func safeString(st sqlparser.Statement) (s string) {
	defer func() {
		if recover() != nil {
			s = ""
		}
	}()
	return sqlparser.String(st)
}

func spliceOnce(t *rapid.T, rec, don sqlparser.Statement) sqlparser.Statement {
	op := rapid.SampledFrom([]string{"expr", "expr", "expr", "where", "and-where", "order", "limit", "union", "subquery-in", "subquery-from", "select-expr"}).Draw(t, "op")
	switch op {
	case "expr":
		rs, ds := slotsOf(rec), slotsOf(don)
		var donors []sqlparser.Expr
		for _, s := range ds {
			if e, ok := s.v.Interface().(sqlparser.Expr); ok && graftable(e) {
				donors = append(donors, e)
			}
		}
		var targets []slot
		for _, s := range rs {
			if e, ok := s.v.Interface().(sqlparser.Expr); ok && graftable(e) {
				targets = append(targets, s)
			}
		}
		if len(targets) == 0 || len(donors) == 0 {
			return rec
		}
		target := targets[rapid.IntRange(0, len(targets)-1).Draw(t, "target")]
		e := donors[rapid.IntRange(0, len(donors)-1).Draw(t, "donorExpr")]
		if !atomic(e) {
			e = &sqlparser.ParenExpr{Expr: e}
		}
		target.v.Set(reflect.ValueOf(e))
		return rec
	case "where", "and-where":
		rw, dw := whereOf(rec), whereOf(don)
		if rw == nil || dw == nil || *dw == nil || (*dw).Expr == nil {
			return rec
		}
		de := (*dw).Expr
		if op == "where" || *rw == nil || (*rw).Expr == nil {
			*rw = sqlparser.NewWhere(sqlparser.WhereStr, de)
			return rec
		}
		l, r := (*rw).Expr, de
		if !atomic(l) {
			l = &sqlparser.ParenExpr{Expr: l}
		}
		if !atomic(r) {
			r = &sqlparser.ParenExpr{Expr: r}
		}
		if rapid.Bool().Draw(t, "or") {
			(*rw).Expr = &sqlparser.OrExpr{Left: l, Right: r}
		} else {
			(*rw).Expr = &sqlparser.AndExpr{Left: l, Right: r}
		}
		return rec
	case "order", "limit":
		var ob sqlparser.OrderBy
		var lim *sqlparser.Limit
		switch s := don.(type) {
		case *sqlparser.Select:
			ob, lim = s.OrderBy, s.Limit
		case *sqlparser.Union:
			ob, lim = s.OrderBy, s.Limit
		case *sqlparser.Update:
			ob, lim = s.OrderBy, s.Limit
		case *sqlparser.Delete:
			ob, lim = s.OrderBy, s.Limit
		}
		switch s := rec.(type) {
		case *sqlparser.Select:
			if op == "order" && ob != nil {
				s.OrderBy = ob
			}
			if op == "limit" && lim != nil {
				s.Limit = lim
			}
		case *sqlparser.Union:
			if op == "order" && ob != nil {
				s.OrderBy = ob
			}
			if op == "limit" && lim != nil {
				s.Limit = lim
			}
		}
		return rec
	case "union":
		ls, ok1 := rec.(sqlparser.SelectStatement)
		rs, ok2 := don.(sqlparser.SelectStatement)
		if !ok1 || !ok2 {
			return rec
		}
		typ := rapid.SampledFrom([]string{sqlparser.UnionStr, sqlparser.UnionAllStr, sqlparser.UnionDistinctStr}).Draw(t, "unionType")
		return &sqlparser.Union{Type: typ, Left: &sqlparser.ParenSelect{Select: ls}, Right: &sqlparser.ParenSelect{Select: rs}}
	case "subquery-in", "subquery-from":
		ds, ok := don.(sqlparser.SelectStatement)
		if !ok {
			return rec
		}
		if _, isParen := ds.(*sqlparser.ParenSelect); isParen {
			return rec
		}
		sub := &sqlparser.Subquery{Select: ds}
		if op == "subquery-from" {
			if sel := selectOf(rec); sel != nil {
				sel.From = append(sel.From, &sqlparser.AliasedTableExpr{Expr: sub, As: sqlparser.NewTableIdent("sq")})
			}
			return rec
		}
		rw := whereOf(rec)
		if rw == nil {
			return rec
		}
		var c sqlparser.Expr
		if rapid.Bool().Draw(t, "exists") {
			c = &sqlparser.ExistsExpr{Subquery: sub}
		} else {
			c = &sqlparser.ComparisonExpr{Operator: rapid.SampledFrom([]string{sqlparser.InStr, sqlparser.NotInStr}).Draw(t, "inop"),
				Left: &sqlparser.ColName{Name: sqlparser.NewColIdent("spliced")}, Right: sub}
		}
		if *rw == nil || (*rw).Expr == nil {
			*rw = sqlparser.NewWhere(sqlparser.WhereStr, c)
		} else {
			l := (*rw).Expr
			if !atomic(l) {
				l = &sqlparser.ParenExpr{Expr: l}
			}
			(*rw).Expr = &sqlparser.AndExpr{Left: l, Right: c}
		}
		return rec
	case "select-expr":
		rsel, dsel := selectOf(rec), selectOf(don)
		if rsel == nil || dsel == nil || len(dsel.SelectExprs) == 0 {
			return rec
		}
		e := dsel.SelectExprs[rapid.IntRange(0, len(dsel.SelectExprs)-1).Draw(t, "selExpr")]
		rsel.SelectExprs = append(rsel.SelectExprs, e)
		return rec
	}
	return rec
}
