package sqlgen

import (
	"go/ast"
	"go/parser"
	"go/token"
	"os"
	"path/filepath"
	"strconv"
	"sync"

	"github.com/cossacklabs/acra/sqlparser"
	"github.com/cossacklabs/acra/sqlparser/dialect"
	"github.com/cossacklabs/acra/sqlparser/dialect/mysql"
	"github.com/cossacklabs/acra/sqlparser/dialect/postgresql"
)

// Dialect names accepted in Opts.Dialect.
const (
	MySQL      = "mysql"
	PostgreSQL = "postgresql"
)

// Dialects lists the dialect names.
var Dialects = []string{MySQL, PostgreSQL}

// DialectOf maps a dialect name to acra's dialect object (MySQL for anything unknown).
func DialectOf(name string) dialect.Dialect {
	if name == PostgreSQL {
		return postgresql.NewPostgreSQLDialect()
	}
	return mysql.NewMySQLDialect()
}

// SetDialect sets acra's process-global default dialect. Parsing (double-quoted literals) and
// printing (identifier quoting) both depend on it, so every check calls this first.
func SetDialect(name string) dialect.Dialect {
	d := DialectOf(name)
	sqlparser.SetDefaultDialect(d)
	return d
}

// RepoDir is the acra tree the corpus is read from: $VERIF_REPO, default /repo.
func RepoDir() string {
	if d := os.Getenv("VERIF_REPO"); d != "" {
		return d
	}
	return "/repo"
}

var (
	corpusOnce sync.Once
	corpus     []string
	corpusErr  error
)

// Corpus returns every `input:` string of the tables in <repo>/sqlparser/parse_test.go, extracted
// with go/parser at run time (so it tracks the working tree), de-duplicated, in file order. It
// contains valid and invalid statements of every kind; see DMLCorpus for the filtered view.
func Corpus() []string {
	corpusOnce.Do(func() {
		corpus, corpusErr = extractInputs(filepath.Join(RepoDir(), "sqlparser", "parse_test.go"))
	})
	if corpusErr != nil {
		panic("sqlgen: cannot extract corpus: " + corpusErr.Error())
	}
	return corpus
}

func extractInputs(path string) ([]string, error) {
	fset := token.NewFileSet()
	f, err := parser.ParseFile(fset, path, nil, 0)
	if err != nil {
		return nil, err
	}
	var out []string
	seen := map[string]bool{}
	ast.Inspect(f, func(n ast.Node) bool {
		kv, ok := n.(*ast.KeyValueExpr)
		if !ok {
			return true
		}
		id, ok := kv.Key.(*ast.Ident)
		if !ok || id.Name != "input" {
			return true
		}
		if s, ok := constString(kv.Value); ok && s != "" && !seen[s] {
			seen[s] = true
			out = append(out, s)
		}
		return true
	})
	return out, nil
}

// constString evaluates string literals and their concatenations.
func constString(e ast.Expr) (string, bool) {
	switch v := e.(type) {
	case *ast.BasicLit:
		if v.Kind != token.STRING {
			return "", false
		}
		s, err := strconv.Unquote(v.Value)
		return s, err == nil
	case *ast.BinaryExpr:
		if v.Op != token.ADD {
			return "", false
		}
		a, ok1 := constString(v.X)
		b, ok2 := constString(v.Y)
		return a + b, ok1 && ok2
	case *ast.ParenExpr:
		return constString(v.X)
	}
	return "", false
}

// IsDML tells whether a parsed statement is inside the data-manipulation domain
// (SELECT incl. UNION, INSERT/REPLACE, UPDATE, DELETE).
func IsDML(st sqlparser.Statement) bool {
	switch st.(type) {
	case *sqlparser.Select, *sqlparser.Union, *sqlparser.ParenSelect, *sqlparser.Insert, *sqlparser.Update, *sqlparser.Delete:
		return true
	}
	return false
}

var (
	dmlMu    sync.Mutex
	dmlCache = map[string][]string{}
)

// DMLCorpus returns the corpus statements that the parser accepts in the given dialect as
// data-manipulation statements. It sets the default dialect to that dialect.
func DMLCorpus(dialectName string) []string {
	dmlMu.Lock()
	defer dmlMu.Unlock()
	if c, ok := dmlCache[dialectName]; ok {
		return c
	}
	d := SetDialect(dialectName)
	var out []string
	for _, s := range Corpus() {
		st, err := safeParse(d, s)
		if err != nil || st == nil || !IsDML(st) {
			continue
		}
		out = append(out, s)
	}
	dmlCache[dialectName] = out
	return out
}

// safeParse parses in strict mode and converts a parser panic into an error.
func safeParse(d dialect.Dialect, s string) (st sqlparser.Statement, err error) {
	defer func() {
		if p := recover(); p != nil {
			st, err = nil, errPanic
		}
	}()
	return sqlparser.ParseWithDialect(d, s)
}

type panicErr struct{}

func (panicErr) Error() string { return "parser panicked" }

var errPanic error = panicErr{}
