package sqlgen

import (
	"flag"
	"os"
	"sort"
	"testing"

	"pgregory.net/rapid"
)

// TestAcceptance measures how much of the generated text the parser accepts in strict mode
// (soundness of the generator); SQLGEN_SHOW=1 prints the rejected statements.
func TestAcceptance(t *testing.T) {
	flag.Set("rapid.checks", "3000")
	for _, dn := range Dialects {
		for _, kind := range []string{"statement", "splice"} {
			total, ok, empty := 0, 0, 0
			rejected := map[string]int{}
			rapid.Check(t, func(rt *rapid.T) {
				o := Opts{Dialect: dn}
				d := SetDialect(dn)
				var s string
				if kind == "statement" {
					s = Statement(rt, o)
				} else {
					s = Splice(rt, o)
					if s == "" {
						empty++
						return
					}
					SetDialect(dn)
				}
				total++
				st, err := safeParse(d, s)
				if err == nil && st != nil && IsDML(st) {
					ok++
				} else {
					rejected[s]++
				}
			})
			rate := 100 * float64(ok) / float64(total)
			t.Logf("%s/%s: %d/%d accepted (%.2f%%), %d empty", dn, kind, ok, total, rate, empty)
			if os.Getenv("SQLGEN_SHOW") != "" {
				var keys []string
				for k := range rejected {
					keys = append(keys, k)
				}
				sort.Slice(keys, func(i, j int) bool { return len(keys[i]) < len(keys[j]) })
				for i, k := range keys {
					if i >= 40 {
						break
					}
					t.Logf("REJECTED: %s", k)
				}
			}
			// Splice prints the grafted tree with acra's own printer; while the printer mis-escapes
			// quoted identifiers (C13 finding) some of its output does not parse, hence the lower bar.
			min := 95.0
			if kind == "splice" {
				min = 90
			}
			if rate < min {
				t.Errorf("%s/%s: acceptance %.2f%% below %.0f%%", dn, kind, rate, min)
			}
		}
	}
}

func TestCorpus(t *testing.T) {
	c := Corpus()
	if len(c) < 500 {
		t.Fatalf("corpus too small: %d", len(c))
	}
	for _, dn := range Dialects {
		t.Logf("%s: %d of %d corpus statements are DML accepted by the parser", dn, len(DMLCorpus(dn)), len(c))
	}
}

// TestShrinkReject (SQLGEN_SHRINK=<dialect>) fails on the first rejected statement so that rapid
// shrinks it: a development aid for making the generator sound.
func TestShrinkReject(t *testing.T) {
	dn := os.Getenv("SQLGEN_SHRINK")
	if dn == "" {
		t.Skip("development aid")
	}
	flag.Set("rapid.checks", "20000")
	rapid.Check(t, func(rt *rapid.T) {
		d := SetDialect(dn)
		var s string
		if os.Getenv("SQLGEN_KIND") == "splice" {
			s = Splice(rt, Opts{Dialect: dn})
			if s == "" {
				return
			}
			SetDialect(dn)
		} else {
			s = Statement(rt, Opts{Dialect: dn})
		}
		st, err := safeParse(d, s)
		if err != nil || st == nil || !IsDML(st) {
			rt.Fatalf("rejected (%v): %s", err, s)
		}
	})
}
