// Package fix holds fixtures shared by the property packages: keystores of both formats,
// the registry, access contexts, the replicated column chain and the translator service.
package fix

import (
	"context"
	"fmt"
	"io"
	"os"
	"path/filepath"

	"github.com/sirupsen/logrus"

	"github.com/cossacklabs/acra/cmd/acra-translator/common"
	"github.com/cossacklabs/acra/crypto"
	"github.com/cossacklabs/acra/decryptor/base"
	"github.com/cossacklabs/acra/hmac"
	"github.com/cossacklabs/acra/keystore"
	"github.com/cossacklabs/acra/keystore/filesystem"
	kv2 "github.com/cossacklabs/acra/keystore/v2/keystore"
	v2api "github.com/cossacklabs/acra/keystore/v2/keystore/api"
	v2crypto "github.com/cossacklabs/acra/keystore/v2/keystore/crypto"
	v2fs "github.com/cossacklabs/acra/keystore/v2/keystore/filesystem"
	"github.com/cossacklabs/acra/keystore/v2/keystore/filesystem/backend"
	backendapi "github.com/cossacklabs/acra/keystore/v2/keystore/filesystem/backend/api"
	"github.com/cossacklabs/acra/poison"
	"github.com/cossacklabs/acra/pseudonymization"
	tokencommon "github.com/cossacklabs/acra/pseudonymization/common"
	"github.com/cossacklabs/acra/pseudonymization/storage"
)

// MasterKey is the fixed v1 master key of all fixtures.
var MasterKey = []byte("0123456789abcdef0123456789abcdef")

// Quiet silences acra's logging (properties that observe logs install their own hook).
func Quiet() {
	logrus.SetLevel(logrus.PanicLevel)
	logrus.SetOutput(io.Discard)
}

// TempDir makes a 0700 scratch directory under $TMPDIR.
func TempDir(prefix string) string {
	d, err := os.MkdirTemp("", prefix)
	if err != nil {
		panic(err)
	}
	os.Chmod(d, 0o700)
	return d
}

// V1Encryptor is the key encryptor for MasterKey.
func V1Encryptor() keystore.KeyEncryptor {
	e, err := keystore.NewSCellKeyEncryptor(MasterKey)
	if err != nil {
		panic(err)
	}
	return e
}

// V1 opens a filesystem (v1) keystore on dir with the given cache size
// (keystore.WithoutCache, keystore.InfiniteCacheSize or a positive size).
func V1(dir string, cache int) *filesystem.KeyStore {
	ks, err := filesystem.NewFileSystemKeyStoreWithCacheSize(dir, V1Encryptor(), cache)
	if err != nil {
		panic(err)
	}
	return ks
}

// V1WithStorage opens a v1 keystore over a custom Storage.
func V1WithStorage(dir string, st filesystem.Storage, cache int) (*filesystem.KeyStore, error) {
	return filesystem.NewCustomFilesystemKeyStore().KeyDirectory(dir).Encryptor(V1Encryptor()).Storage(st).CacheSize(cache).Build()
}

// V2Suite is the fixed crypto suite of v2 fixtures.
func V2Suite() *v2crypto.KeyStoreSuite {
	enc, sig := make([]byte, 32), make([]byte, 32)
	for i := range enc {
		enc[i], sig[i] = byte(i+1), byte(0xA0+i)
	}
	s, err := kv2.NewSCellSuite(enc, sig)
	if err != nil {
		panic(err)
	}
	return s
}

// V2OnBackend opens a v2 keystore handle over a back end.
func V2OnBackend(b backendapi.Backend) (*kv2.ServerKeyStore, v2api.MutableKeyStore) {
	ms, err := v2fs.CustomKeyStore(b, V2Suite())
	if err != nil {
		panic(err)
	}
	return kv2.NewServerKeyStore(ms), ms
}

// V2Mem opens a v2 keystore on a fresh in-memory back end.
func V2Mem() (*kv2.ServerKeyStore, backendapi.Backend) {
	b := backend.NewInMemory()
	s, _ := V2OnBackend(b)
	return s, b
}

// V2Dir opens a v2 keystore on a directory back end rooted at root (created if absent).
func V2Dir(root string) (*kv2.ServerKeyStore, backendapi.Backend) {
	var b *backend.DirectoryBackend
	var err error
	if _, serr := os.Stat(filepath.Join(root, "version")); serr == nil {
		b, err = backend.OpenDirectoryBackend(root)
	} else {
		b, err = backend.CreateDirectoryBackend(root)
	}
	if err != nil {
		panic(err)
	}
	s, _ := V2OnBackend(b)
	return s, b
}

// GenClientKeys makes the three per-client key kinds.
func GenClientKeys(ks keystore.ServerKeyStore, id []byte) {
	must(ks.GenerateDataEncryptionKeys(id))
	must(ks.GenerateClientIDSymmetricKey(id))
	must(ks.GenerateHmacKey(id))
}

func must(err error) {
	if err != nil {
		panic(err)
	}
}

// Ctx is a context carrying the access context of a client.
func Ctx(clientID []byte) context.Context {
	return base.SetAccessContextToContext(context.Background(), base.NewAccessContext(base.WithClientID(clientID)))
}

// CountingCallback counts poison callback invocations.
type CountingCallback struct{ N int }

// Call implements base.PoisonRecordCallback.
func (c *CountingCallback) Call() error { c.N++; return nil }

// Chain is the transparent column chain assembled, in the proxies' order, from exported parts:
// [poison detector] -> decrypt handler, behind the old-container wrapper.
type Chain struct {
	Wrapper *crypto.OldContainerDetectorWrapper
}

// NewChain replicates the wiring of proxyFactory.New for a column without special settings.
func NewChain(ks keystore.ServerKeyStore, callbacks base.PoisonRecordCallbackStorage) *Chain {
	det := crypto.NewEnvelopeDetector()
	wrapper := crypto.NewOldContainerDetectorWrapper(det)
	reg := crypto.NewRegistryHandler(ks)
	if callbacks != nil && callbacks.HasCallbacks() {
		pd := crypto.NewPoisonRecordsRecognizer(ks, reg)
		pd.SetPoisonRecordCallbacks(callbacks)
		det.AddCallback(pd)
	}
	det.AddCallback(crypto.NewDecryptHandler(ks, reg))
	return &Chain{Wrapper: wrapper}
}

// OnColumn runs one column value through the chain under the client's access context.
func (c *Chain) OnColumn(clientID, col []byte) ([]byte, error) {
	_, out, err := c.Wrapper.OnColumn(Ctx(clientID), col)
	return out, err
}

// Callbacks returns a callback storage with one counting callback.
func Callbacks() (base.PoisonRecordCallbackStorage, *CountingCallback) {
	st := poison.NewCallbackStorage()
	cb := &CountingCallback{}
	st.AddCallback(cb)
	return st, cb
}

// translatorKS adapts a server keystore to keystore.TranslationKeyStore.
type translatorKS struct{ keystore.ServerKeyStore }

// Translator builds the AcraTranslator service over a keystore and an in-memory token store.
func Translator(ks keystore.ServerKeyStore, callbacks base.PoisonRecordCallbackStorage, tok tokencommon.Pseudoanonymizer) *common.TranslatorService {
	if tok == nil {
		ts, err := storage.NewMemoryTokenStorage()
		must(err)
		tok, err = pseudonymization.NewPseudoanonymizer(ts)
		must(err)
	}
	svc, err := common.NewTranslatorService(TranslatorData(ks, callbacks, tok))
	must(err)
	return svc
}

// TranslatorData is the configuration object shared by the translator's services.
func TranslatorData(ks keystore.ServerKeyStore, callbacks base.PoisonRecordCallbackStorage, tok tokencommon.Pseudoanonymizer) *common.TranslatorData {
	if tok == nil {
		ts, err := storage.NewMemoryTokenStorage()
		must(err)
		tok, err = pseudonymization.NewPseudoanonymizer(ts)
		must(err)
	}
	return &common.TranslatorData{Keystorage: translatorKS{ks}, PoisonRecordCallbacks: callbacks, Tokenizer: tok}
}

// Describe formats an error for messages.
func Describe(err error) string {
	if err == nil {
		return "<nil>"
	}
	return fmt.Sprintf("%v", err)
}

// SearchChain is the column chain of a searchable column in the proxies' order:
// HMAC processor (strip hash) -> container detector (decrypt) -> HMAC processor (verify).
type SearchChain struct {
	Hmac  *hmac.Processor
	Chain *Chain
}

// NewSearchChain builds it.
func NewSearchChain(ks keystore.ServerKeyStore, callbacks base.PoisonRecordCallbackStorage) *SearchChain {
	return &SearchChain{Hmac: hmac.NewHMACProcessor(ks), Chain: NewChain(ks, callbacks)}
}

// OnColumn runs one column value through the three subscribers.
func (c *SearchChain) OnColumn(clientID, col []byte) ([]byte, error) {
	ctx := Ctx(clientID)
	ctx, out, err := c.Hmac.OnColumn(ctx, col)
	if err != nil {
		return out, err
	}
	ctx, out, err = c.Chain.Wrapper.OnColumn(ctx, out)
	if err != nil {
		return out, err
	}
	_, out, err = c.Hmac.OnColumn(ctx, out)
	return out, err
}
