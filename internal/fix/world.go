package fix

import (
	"sync"

	"github.com/cossacklabs/themis/gothemis/keys"

	"github.com/cossacklabs/acra/acrablock"
	"github.com/cossacklabs/acra/acrastruct"
	"github.com/cossacklabs/acra/cmd/acra-translator/common"
	"github.com/cossacklabs/acra/crypto"
	"github.com/cossacklabs/acra/hmac"
	"github.com/cossacklabs/acra/keystore"
	"github.com/cossacklabs/acra/keystore/filesystem"
)

// World is a process-wide fixture: one v1 keystore with clients alice (three key generations),
// bobby (one generation) and carol (no keys), poison keys, the registry and a translator.
type World struct {
	Dir   string
	KS    keystore.ServerKeyStore
	Alice []byte
	Bobby []byte
	Carol []byte
	Reg   crypto.RegistryHandler
	Svc   *common.TranslatorService
	// AliceGen[i] are alice's keys of generation i (oldest first).
	AlicePub  []*keys.PublicKey
	AliceSym  [][]byte
	AliceHmac [][]byte
}

var (
	worldOnce sync.Once
	world     *World
)

// TheWorld returns the process-wide fixture.
func TheWorld() *World {
	worldOnce.Do(func() {
		Quiet()
		w := &World{Dir: TempDir("verif-world-"), Alice: []byte("alice"), Bobby: []byte("bobby"), Carol: []byte("carol")}
		var v1 *filesystem.KeyStore = V1(w.Dir, keystore.WithoutCache)
		w.KS = v1
		for gen := 0; gen < 3; gen++ {
			must(w.KS.GenerateDataEncryptionKeys(w.Alice))
			must(w.KS.GenerateClientIDSymmetricKey(w.Alice))
			pub, err := w.KS.GetClientIDEncryptionPublicKey(w.Alice)
			must(err)
			sym, err := w.KS.GetClientIDSymmetricKey(w.Alice)
			must(err)
			w.AlicePub = append(w.AlicePub, pub)
			w.AliceSym = append(w.AliceSym, sym)
		}
		must(w.KS.GenerateHmacKey(w.Alice))
		GenClientKeys(w.KS, w.Bobby)
		must(v1.GeneratePoisonKeyPair())
		must(v1.GeneratePoisonSymmetricKey())
		must(crypto.InitRegistry(w.KS))
		w.Reg = crypto.NewRegistryHandler(w.KS)
		w.Svc = Translator(w.KS, nil, nil)
		world = w
	})
	return world
}

// NewWorldOn wraps an existing keystore (keys are the caller's business): registry handler and
// translator over it. The registry itself is process-global and independent of the keystore.
func NewWorldOn(ks keystore.ServerKeyStore, alice, bobby, carol []byte) *World {
	Quiet()
	must(crypto.InitRegistry(ks))
	w := &World{KS: ks, Alice: alice, Bobby: bobby, Carol: carol}
	w.Reg = crypto.NewRegistryHandler(ks)
	w.Svc = Translator(ks, nil, nil)
	return w
}

// HmacKey returns a fresh copy of a client's HMAC key (GenerateHMAC zeroises its argument).
func (w *World) HmacKey(id []byte) []byte {
	k, err := w.KS.GetHMACSecretKey(id)
	must(err)
	return k
}

// Envelope kinds and forms of protected values.
const (
	KindStruct = "acrastruct"
	KindBlock  = "acrablock"

	FormRaw           = "raw"        // bare AcraStruct / AcraBlock
	FormContainer     = "container"  // serialized container around it
	FormSearchRaw     = "search-raw" // hash || bare envelope
	FormSearchWrapped = "search-container"
)

// Kinds and Forms enumerate them.
var (
	Kinds = []string{KindStruct, KindBlock}
	Forms = []string{FormRaw, FormContainer, FormSearchRaw, FormSearchWrapped}
)

// Protect makes a protected value of the given kind and form for a client, from library parts
// (an independent composition, not the code paths under test in the handlers), using the
// client's key generation gen (-1 = current).
func (w *World) Protect(id []byte, kind, form string, plain []byte, gen int) ([]byte, error) {
	var env []byte
	var err error
	switch kind {
	case KindStruct:
		var pub *keys.PublicKey
		if gen >= 0 && string(id) == "alice" && len(w.AlicePub) > gen {
			pub = w.AlicePub[gen]
		} else {
			pub, err = w.KS.GetClientIDEncryptionPublicKey(id)
			if err != nil {
				return nil, err
			}
		}
		env, err = acrastruct.CreateAcrastruct(plain, pub, nil)
	case KindBlock:
		var key []byte
		if gen >= 0 && string(id) == "alice" && len(w.AliceSym) > gen {
			key = append([]byte(nil), w.AliceSym[gen]...)
		} else {
			key, err = w.KS.GetClientIDSymmetricKey(id)
			if err != nil {
				return nil, err
			}
		}
		env, err = acrablock.CreateAcraBlock(plain, key, nil)
	default:
		panic("kind " + kind)
	}
	if err != nil {
		return nil, err
	}
	id8 := crypto.AcraStructEnvelopeID
	if kind == KindBlock {
		id8 = crypto.AcraBlockEnvelopeID
	}
	switch form {
	case FormRaw:
		return env, nil
	case FormContainer:
		return crypto.SerializeEncryptedData(env, byte(id8))
	case FormSearchRaw:
		return append(hmac.GenerateHMAC(w.HmacKey(id), plain), env...), nil
	case FormSearchWrapped:
		c, err := crypto.SerializeEncryptedData(env, byte(id8))
		if err != nil {
			return nil, err
		}
		return append(hmac.GenerateHMAC(w.HmacKey(id), plain), c...), nil
	}
	panic("form " + form)
}
