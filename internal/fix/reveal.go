package fix

import (
	"bytes"
	"fmt"

	"github.com/cossacklabs/themis/gothemis/keys"

	"github.com/cossacklabs/acra/acrablock"
	"github.com/cossacklabs/acra/acrastruct"
	"github.com/cossacklabs/acra/crypto"
	"github.com/cossacklabs/acra/decryptor/base"
	"github.com/cossacklabs/acra/hmac"
)

// Reveal is one reveal-type entry point. Column entry points return the whole column value
// (possibly unchanged); the others return the plaintext or an error.
type Reveal struct {
	Name         string
	Column       bool
	VerifiesHash bool
	// Accepts tells which forms the entry point is meant for.
	Accepts func(kind, form string) bool
	F       func(in []byte) ([]byte, error)
}

func isSearch(form string) bool { return form == FormSearchRaw || form == FormSearchWrapped }

// Reveals lists every reveal entry point for values of a kind, executed under identity id.
func (w *World) Reveals(id []byte, kind string) []Reveal {
	dctx := func() *base.DataProcessorContext {
		return &base.DataProcessorContext{Keystore: w.KS, Context: Ctx(id)}
	}
	anyForm := func(string, string) bool { return true }
	plainForms := func(_, form string) bool { return !isSearch(form) }
	rawOnly := func(_, form string) bool { return form == FormRaw }
	searchForms := func(_, form string) bool { return isSearch(form) }
	var out []Reveal
	add := func(r Reveal) { out = append(out, r) }
	if kind == KindStruct {
		privs := func() ([]*keys.PrivateKey, error) { return w.KS.GetServerDecryptionPrivateKeys(id) }
		add(Reveal{Name: "acrastruct.DecryptRotatedAcrastruct", Accepts: rawOnly, F: func(in []byte) ([]byte, error) {
			p, err := privs()
			if err != nil {
				return nil, err
			}
			return acrastruct.DecryptRotatedAcrastruct(in, p, nil)
		}})
		add(Reveal{Name: "hmac.DecryptRotatedSearchableAcraStruct", VerifiesHash: true, Accepts: func(_, f string) bool { return f == FormRaw || f == FormSearchRaw }, F: func(in []byte) ([]byte, error) {
			p, err := privs()
			if err != nil {
				return nil, err
			}
			hk, err := w.KS.GetHMACSecretKey(id)
			if err != nil {
				return nil, err
			}
			return hmac.DecryptRotatedSearchableAcraStruct(in, hk, p, nil)
		}})
	} else {
		syms := func() ([][]byte, error) { return w.KS.GetClientIDSymmetricKeys(id) }
		add(Reveal{Name: "acrablock.Decrypt", Accepts: rawOnly, F: func(in []byte) ([]byte, error) {
			k, err := syms()
			if err != nil {
				return nil, err
			}
			b, err := acrablock.NewAcraBlockFromData(in)
			if err != nil {
				return nil, err
			}
			return b.Decrypt(k, nil)
		}})
		add(Reveal{Name: "hmac.DecryptRotatedSearchableAcraBlock", VerifiesHash: true, Accepts: func(_, f string) bool { return f == FormRaw || f == FormSearchRaw }, F: func(in []byte) ([]byte, error) {
			k, err := syms()
			if err != nil {
				return nil, err
			}
			hk, err := w.KS.GetHMACSecretKey(id)
			if err != nil {
				return nil, err
			}
			return hmac.DecryptRotatedSearchableAcraBlock(in, hk, k, nil)
		}})
	}
	envID := byte(crypto.AcraStructEnvelopeID)
	if kind == KindBlock {
		envID = crypto.AcraBlockEnvelopeID
	}
	h, herr := crypto.GetHandlerByEnvelopeID(envID)
	if herr != nil {
		panic(herr)
	}
	add(Reveal{Name: "ContainerHandler.Decrypt", Accepts: rawOnly, F: func(in []byte) ([]byte, error) {
		if !h.MatchDataSignature(in) {
			return nil, fmt.Errorf("signature mismatch")
		}
		return h.Decrypt(in, dctx())
	}})
	add(Reveal{Name: "RegistryHandler.DecryptWithHandler", Accepts: plainForms, F: func(in []byte) ([]byte, error) { return w.Reg.DecryptWithHandler(h, in, dctx()) }})
	add(Reveal{Name: "RegistryHandler.Process", Accepts: plainForms, F: func(in []byte) ([]byte, error) { return w.Reg.Process(in, dctx()) }})
	add(Reveal{Name: "hmac.NewHashProcessor", VerifiesHash: true, Accepts: anyForm, F: func(in []byte) ([]byte, error) { return hmac.NewHashProcessor(w.Reg, w.KS).Process(in, dctx()) }})
	add(Reveal{Name: "DecryptHandler.OnCryptoEnvelope", Accepts: plainForms, F: func(in []byte) ([]byte, error) {
		out, err := crypto.NewDecryptHandler(w.KS, w.Reg).OnCryptoEnvelope(Ctx(id), in)
		if err == nil && bytes.Equal(out, in) {
			return nil, fmt.Errorf("unchanged")
		}
		return out, err
	}})
	if kind == KindStruct {
		add(Reveal{Name: "Translator.Decrypt", Accepts: plainForms, F: func(in []byte) ([]byte, error) { return w.Svc.Decrypt(Ctx(id), in, id, nil) }})
		add(Reveal{Name: "Translator.DecryptSearchable", VerifiesHash: true, Accepts: searchForms, F: func(in []byte) ([]byte, error) { return w.Svc.DecryptSearchable(Ctx(id), in, nil, id, nil) }})
		add(Reveal{Name: "Translator.DecryptSearchable/split", VerifiesHash: true, Accepts: searchForms, F: func(in []byte) ([]byte, error) {
			if len(in) <= 33 {
				return nil, fmt.Errorf("too short")
			}
			return w.Svc.DecryptSearchable(Ctx(id), in[33:], in[:33:33], id, nil)
		}})
	} else {
		add(Reveal{Name: "Translator.DecryptSym", Accepts: plainForms, F: func(in []byte) ([]byte, error) { return w.Svc.DecryptSym(Ctx(id), in, id, nil) }})
		add(Reveal{Name: "Translator.DecryptSymSearchable", VerifiesHash: true, Accepts: searchForms, F: func(in []byte) ([]byte, error) { return w.Svc.DecryptSymSearchable(Ctx(id), in, nil, id, nil) }})
		add(Reveal{Name: "Translator.DecryptSymSearchable/split", VerifiesHash: true, Accepts: searchForms, F: func(in []byte) ([]byte, error) {
			if len(in) <= 33 {
				return nil, fmt.Errorf("too short")
			}
			return w.Svc.DecryptSymSearchable(Ctx(id), in[33:], in[:33:33], id, nil)
		}})
	}
	add(Reveal{Name: "column", Column: true, Accepts: plainForms, F: func(in []byte) ([]byte, error) { return NewChain(w.KS, nil).OnColumn(id, in) }})
	add(Reveal{Name: "search-column", Column: true, VerifiesHash: true, Accepts: anyForm, F: func(in []byte) ([]byte, error) { return NewSearchChain(w.KS, nil).OnColumn(id, in) }})
	return out
}
