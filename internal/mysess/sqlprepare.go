package mysess

// SQL syntax for prepared statements (added for the MySQL twin of C11), sent with COM_QUERY:
//
//	PREPARE name FROM 'statement' | "statement" | @variable
//	EXECUTE name [USING @v1, @v2, ...]
//	{DEALLOCATE | DROP} PREPARE name
//	SET @v1 = value [, @v2 := value ...]        value: literal of any spelling, NULL, [-]integer, @variable
//
// as MySQL handles them: statement names and user variable names are not case sensitive and may be written in
// back-quotes (variables also in quotes); PREPARE under a name that exists replaces the statement; EXECUTE / DEALLOCATE
// of an unknown name is error 1243, a wrong number of USING variables error 1210; a variable that was never set is
// NULL; the result set of EXECUTE is sent in the text protocol. Statements and variables belong to the connection.
// Everything else is left to the store's own parser (handled = false).

import (
	"fmt"
	"strings"
)

type sqlSession struct {
	stmts map[string]*Prepared
	vars  map[string]rval
}

const userVarPrefix = "uservar__"

// liftUserVars rewrites the statement for the store's tokenizer, which knows no user variables: every @name outside
// quotes becomes the identifier uservar__<n>, `:=` becomes `=`. names[n] is the (lower-cased) variable name.
func liftUserVars(sql string) (string, []string, error) {
	var b strings.Builder
	var names []string
	s := sql
	for i := 0; i < len(s); {
		c := s[i]
		switch {
		case c == '\'' || c == '"' || c == '`':
			j := i + 1
			for ; j < len(s); j++ {
				if s[j] == '\\' && c != '`' && j+1 < len(s) {
					j++
					continue
				}
				if s[j] == c {
					if j+1 < len(s) && s[j+1] == c {
						j++
						continue
					}
					break
				}
			}
			if j >= len(s) {
				return "", nil, sqlErr("unterminated quoted text")
			}
			b.WriteString(s[i : j+1])
			i = j + 1
		case c == '@' && i+1 < len(s) && s[i+1] != '@':
			j := i + 1
			var name string
			if s[j] == '`' || s[j] == '\'' || s[j] == '"' {
				q := s[j]
				k := strings.IndexByte(s[j+1:], q)
				if k < 0 {
					return "", nil, sqlErr("unterminated variable name")
				}
				name = s[j+1 : j+1+k]
				j += k + 2
			} else {
				k := j
				for k < len(s) && (isIdentStart(s[k]) || isDigit(s[k]) || s[k] == '.') {
					k++
				}
				name = s[j:k]
				j = k
			}
			fmt.Fprintf(&b, " %s%d ", userVarPrefix, len(names))
			names = append(names, strings.ToLower(name))
			i = j
		case c == ':' && i+1 < len(s) && s[i+1] == '=':
			b.WriteString("=")
			i += 2
		default:
			b.WriteByte(c)
			i++
		}
	}
	return b.String(), names, nil
}

func firstWord(sql string) string {
	s := strings.TrimLeft(sql, " \t\r\n")
	i := 0
	for i < len(s) && isIdentStart(s[i]) {
		i++
	}
	return strings.ToLower(s[:i])
}

// sqlPrepared answers the statements listed above; handled = false leaves the statement to the caller.
func (f *FakeServer) sqlPrepared(sql string) (res *Result, handled bool, err error) {
	switch firstWord(sql) {
	case "prepare", "execute", "deallocate", "drop", "set":
	default:
		return nil, false, nil
	}
	lifted, names, err := liftUserVars(sql)
	if err != nil {
		return nil, false, nil
	}
	toks, err := tokenize(lifted)
	if err != nil {
		return nil, false, nil
	}
	p := &parser{toks: toks}
	if f.sqlSess == nil {
		f.sqlSess = &sqlSession{stmts: map[string]*Prepared{}, vars: map[string]rval{}}
	}
	ss := f.sqlSess
	// user variable behind a lifted identifier
	varOf := func(t token) (string, bool) {
		if t.kind != tIdent || t.q || !strings.HasPrefix(t.s, userVarPrefix) {
			return "", false
		}
		n := 0
		if _, err := fmt.Sscanf(t.s[len(userVarPrefix):], "%d", &n); err != nil || n < 0 || n >= len(names) {
			return "", false
		}
		return names[n], true
	}
	end := func() error {
		p.acceptSym(";")
		if p.peek().kind != tEOF {
			return sqlErr("You have an error in your SQL syntax near %q", p.peek().s)
		}
		return nil
	}
	unknown := func(name, what string) error {
		return &ErrSQL{Code: 1243, Msg: fmt.Sprintf("Unknown prepared statement handler (%s) given to %s", name, what)}
	}
	switch {
	case p.acceptKw("prepare"):
		name, err := p.ident()
		if err != nil {
			return nil, true, err
		}
		if err := p.expectKw("from"); err != nil {
			return nil, true, err
		}
		var text string
		t := p.next()
		if v, ok := varOf(t); ok {
			val := ss.vars[v]
			if val.null {
				return nil, true, sqlErr("You have an error in your SQL syntax near 'NULL'")
			}
			text = string(val.b)
		} else if t.kind == tStr {
			text = string(t.b)
		} else {
			return nil, true, sqlErr("You have an error in your SQL syntax near %q", t.s)
		}
		if err := end(); err != nil {
			return nil, true, err
		}
		switch firstWord(text) {
		case "prepare", "execute", "deallocate":
			return nil, true, &ErrSQL{Code: 1295, Msg: "This command is not supported in the prepared statement protocol yet"}
		}
		pr, err := f.Store.Prepare(text)
		if err != nil {
			return nil, true, err
		}
		ss.stmts[strings.ToLower(name)] = pr
		return &Result{Info: "Statement prepared"}, true, nil
	case p.acceptKw("execute"):
		name, err := p.ident()
		if err != nil {
			return nil, true, err
		}
		var params []Param
		if p.acceptKw("using") {
			for {
				v, ok := varOf(p.next())
				if !ok {
					return nil, true, sqlErr("You have an error in your SQL syntax: user variable expected after USING")
				}
				val, set := ss.vars[v]
				switch {
				case !set || val.null:
					params = append(params, Param{Type: TypeNull, Null: true})
				case val.isInt:
					var n int64
					fmt.Sscanf(string(val.b), "%d", &n)
					params = append(params, Param{Type: TypeLongLong, B: IntBytes(TypeLongLong, n)})
				default:
					params = append(params, Param{Type: TypeVarString, B: append([]byte{}, val.b...)})
				}
				if !p.acceptSym(",") {
					break
				}
			}
		}
		if err := end(); err != nil {
			return nil, true, err
		}
		pr := ss.stmts[strings.ToLower(name)]
		if pr == nil {
			return nil, true, unknown(name, "EXECUTE")
		}
		if len(params) != pr.NParams {
			return nil, true, &ErrSQL{Code: 1210, Msg: "Incorrect arguments to EXECUTE"}
		}
		res, err := f.Store.Exec(pr, params)
		return res, true, err
	case p.isKw("deallocate") || p.isKw("drop"):
		p.pos++
		if !p.acceptKw("prepare") {
			return nil, false, nil // DROP TABLE ...
		}
		name, err := p.ident()
		if err != nil {
			return nil, true, err
		}
		if err := end(); err != nil {
			return nil, true, err
		}
		if ss.stmts[strings.ToLower(name)] == nil {
			return nil, true, unknown(name, "DEALLOCATE PREPARE")
		}
		delete(ss.stmts, strings.ToLower(name))
		return &Result{}, true, nil
	case p.acceptKw("set"):
		if _, ok := varOf(p.peek()); !ok {
			return nil, false, nil // SET NAMES, SET autocommit, ...
		}
		type assign struct {
			name string
			val  rval
		}
		var todo []assign
		for {
			v, ok := varOf(p.next())
			if !ok {
				return nil, false, nil
			}
			if err := p.expectSym("="); err != nil {
				return nil, true, err
			}
			neg := p.acceptSym("-")
			t := p.next()
			var val rval
			switch {
			case t.kind == tInt:
				val = rval{b: []byte(t.s), isInt: true}
				if neg {
					val.b = append([]byte("-"), val.b...)
				}
			case neg:
				return nil, true, sqlErr("unsupported expression in SET")
			case t.kind == tStr || t.kind == tHex:
				val = rval{b: append([]byte{}, t.b...)}
			case t.kind == tIdent && !t.q && strings.EqualFold(t.s, "null"):
				val = rval{null: true}
			default:
				src, ok := varOf(t)
				if !ok {
					return nil, true, sqlErr("unsupported expression in SET near %q", t.s)
				}
				if cur, set := ss.vars[src]; set {
					val = cur
				} else {
					val = rval{null: true}
				}
			}
			todo = append(todo, assign{v, val})
			if !p.acceptSym(",") {
				break
			}
		}
		if err := end(); err != nil {
			return nil, true, err
		}
		for _, a := range todo {
			ss.vars[a.name] = a.val
		}
		return &Result{}, true, nil
	}
	return nil, false, nil
}
