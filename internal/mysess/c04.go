package mysess

// Additions for the MySQL session programs of property C04: the statement shapes INSERT ... SET, REPLACE and
// INSERT ... ON DUPLICATE KEY UPDATE over a table with a unique key column (TableDef.Key).

import (
	"bytes"
	"fmt"
)

// qualifiedStar accepts `alias.*` as the select list.
func (p *parser) qualifiedStar() bool {
	if p.pos+2 < len(p.toks) && p.toks[p.pos].kind == tIdent && p.toks[p.pos+1].kind == tSym && p.toks[p.pos+1].s == "." &&
		p.toks[p.pos+2].kind == tSym && p.toks[p.pos+2].s == "*" {
		p.pos += 3
		return true
	}
	return false
}

// assignments parses `c = v [, c = v]...` (values: literals and placeholders).
func (p *parser) assignments() ([]string, []operand, error) {
	var cols []string
	var vals []operand
	for {
		c, err := p.qident()
		if err != nil {
			return nil, nil, err
		}
		if err := p.expectSym("="); err != nil {
			return nil, nil, err
		}
		o, err := p.operand()
		if err != nil {
			return nil, nil, err
		}
		if o.kind != "lit" {
			return nil, nil, sqlErr("only literals and placeholders are supported in assignments")
		}
		cols = append(cols, c)
		vals = append(vals, o)
		if !p.acceptSym(",") {
			return cols, vals, nil
		}
	}
}

// onDuplicate parses an optional ON DUPLICATE KEY UPDATE clause.
func (p *parser) onDuplicate(st *parsedStmt) error {
	if !p.acceptKw("on") {
		return nil
	}
	for _, kw := range []string{"duplicate", "key", "update"} {
		if err := p.expectKw(kw); err != nil {
			return err
		}
	}
	if st.replace {
		return sqlErr("REPLACE does not take ON DUPLICATE KEY UPDATE")
	}
	var err error
	st.onDup, st.onDupVals, err = p.assignments()
	return err
}

// insertKeyed adds rows to a table with a unique key column. A row whose key exists already is an error
// (1062) for a plain INSERT, replaces the stored row in place for REPLACE, and applies the ON DUPLICATE KEY
// UPDATE assignments to the stored row when the statement has them. Affected rows are counted as MySQL does
// (insert 1, replace of an existing row 2, update through ON DUPLICATE KEY 2).
func (s *Store) insertKeyed(e *evalCtx, t *table, st *parsedStmt, added [][]Value) (*Result, error) {
	k := t.col(t.def.Key)
	if k < 0 {
		return nil, sqlErr("key column %q does not exist", t.def.Key)
	}
	rows := append([][]Value(nil), t.rows...)
	var affected uint64
	for _, row := range added {
		at := -1
		if !row[k].Null {
			for i, old := range rows {
				if !old[k].Null && bytes.Equal(old[k].B, row[k].B) {
					at = i
					break
				}
			}
		}
		switch {
		case at < 0:
			rows = append(rows, row)
			affected++
		case st.replace:
			rows[at] = row
			affected += 2
		case len(st.onDup) > 0:
			nr := append([]Value(nil), rows[at]...)
			for i, c := range st.onDup {
				ci := t.col(c)
				if ci < 0 {
					return nil, &ErrSQL{Code: 1054, Msg: fmt.Sprintf("Unknown column '%s' in 'field list'", c)}
				}
				rv, err := e.resolve(st.onDupVals[i])
				if err != nil {
					return nil, err
				}
				v, err := toColumn(rv, t.def.Cols[ci].Type)
				if err != nil {
					return nil, err
				}
				nr[ci] = v
			}
			rows[at] = nr
			affected += 2
		default:
			return nil, &ErrSQL{Code: 1062, Msg: fmt.Sprintf("Duplicate entry '%s' for key '%s.PRIMARY'", row[k].B, t.def.Name)}
		}
	}
	t.rows = rows
	return &Result{Affected: affected}, nil
}

// InspectUpsert returns the ON DUPLICATE KEY UPDATE assignments of an INSERT and whether it is a REPLACE (for
// oracles that need the meaning of a forwarded statement; the rest is in Inspect).
func InspectUpsert(sql string) (replace bool, cols []string, vals []Lit, err error) {
	st, err := parseSQL(sql)
	if err != nil {
		return false, nil, nil, err
	}
	for _, o := range st.onDupVals {
		vals = append(vals, litOf(o))
	}
	return st.replace, st.onDup, vals, nil
}

// ExecuteWith runs COM_STMT_EXECUTE with or without the new-params-bound flag: without it the packet carries
// no parameter types and the server uses those of the previous execution (params must have the same types).
func (s *Session) ExecuteWith(st *Stmt, params []Param, newParams bool) (*Reply, error) {
	e := Execute{StmtID: st.ID, NewParams: newParams, Params: params}
	if err := s.SendCommand(e.Encode()); err != nil {
		return nil, err
	}
	return s.readResult(true)
}
