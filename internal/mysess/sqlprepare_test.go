package mysess

import "testing"

func TestSQLPrepared(t *testing.T) {
	f := &FakeServer{Store: NewStore([]TableDef{{Name: "t", Key: "id", Cols: []ColumnSpec{{Name: "id", Type: Int}, {Name: "b", Type: Blob}}}})}
	run := func(sql string) (*Result, error) {
		res, handled, err := f.sqlPrepared(sql)
		if !handled {
			t.Fatalf("%q not handled", sql)
		}
		return res, err
	}
	must := func(sql string) *Result {
		res, err := run(sql)
		if err != nil {
			t.Fatalf("%q: %v", sql, err)
		}
		return res
	}
	must("SET @a = 1, @`B` := X'4142', @c = _binary'x\\'y', @d = -5")
	must("PREPARE `Ins` FROM 'INSERT INTO t (id, b) VALUES (?, ?)'")
	must("execute INS using @a, @b")
	must("EXECUTE ins USING @d, @C")
	if _, err := run("EXECUTE ins USING @a"); err == nil {
		t.Fatal("wrong number of variables accepted")
	}
	must(`PREPARE Sel FROM "SELECT b, id FROM t WHERE id <> ?"`)
	res := must("EXECUTE sel USING @nothing")
	if len(res.Rows) != 0 {
		t.Fatalf("comparison with NULL matched %d rows", len(res.Rows))
	}
	must("SET @z = 0")
	res = must("EXECUTE `SEL` USING @Z;")
	if len(res.Rows) != 2 || string(res.Rows[0][0].B) != "AB" || string(res.Rows[1][0].B) != "x'y" || string(res.Rows[1][1].B) != "-5" {
		t.Fatalf("rows %q", res.Rows)
	}
	must("SET @s = 'SELECT id FROM t'")
	must("PREPARE sel FROM @s") // replaces
	if res = must("EXECUTE sel"); len(res.Rows) != 2 || len(res.Fields) != 1 {
		t.Fatalf("replaced statement: %d fields", len(res.Fields))
	}
	must("DEALLOCATE PREPARE Sel")
	if _, err := run("EXECUTE sel"); err == nil {
		t.Fatal("deallocated statement executed")
	}
	if _, err := run("DROP PREPARE sel"); err == nil {
		t.Fatal("deallocated twice")
	}
	for _, sql := range []string{"SET NAMES utf8mb4", "DROP TABLE t", "SELECT 1", "SET autocommit = 1"} {
		if _, handled, _ := f.sqlPrepared(sql); handled {
			t.Fatalf("%q handled", sql)
		}
	}
}
