// Package mysess runs acra's MySQL proxy in-process between a scripted client and a fake MySQL
// server (DESIGN 3, H-mysql-session); it is the twin of internal/pgsess. Nothing in here is under
// test: the wire codec below is written from the MySQL client/server protocol documentation and
// does not use any acra code (G-wire), so it doubles as the independent re-parser of C12.
package mysess

import (
	"encoding/binary"
	"errors"
	"fmt"
	"io"
)

// Capability flags (MySQL: include/mysql_com.h, documented under "Capabilities Flags").
const (
	CapLongPassword               uint32 = 1 << 0
	CapFoundRows                  uint32 = 1 << 1
	CapLongFlag                   uint32 = 1 << 2
	CapConnectWithDB              uint32 = 1 << 3
	CapNoSchema                   uint32 = 1 << 4
	CapCompress                   uint32 = 1 << 5
	CapODBC                       uint32 = 1 << 6
	CapLocalFiles                 uint32 = 1 << 7
	CapIgnoreSpace                uint32 = 1 << 8
	CapProtocol41                 uint32 = 1 << 9
	CapInteractive                uint32 = 1 << 10
	CapSSL                        uint32 = 1 << 11
	CapIgnoreSigpipe              uint32 = 1 << 12
	CapTransactions               uint32 = 1 << 13
	CapReserved                   uint32 = 1 << 14
	CapSecureConnection           uint32 = 1 << 15
	CapMultiStatements            uint32 = 1 << 16
	CapMultiResults               uint32 = 1 << 17
	CapPSMultiResults             uint32 = 1 << 18
	CapPluginAuth                 uint32 = 1 << 19
	CapConnectAttrs               uint32 = 1 << 20
	CapPluginAuthLenencClientData uint32 = 1 << 21
	CapCanHandleExpiredPasswords  uint32 = 1 << 22
	CapSessionTrack               uint32 = 1 << 23
	CapDeprecateEOF               uint32 = 1 << 24
	CapOptionalResultsetMetadata  uint32 = 1 << 25
	CapZstdCompression            uint32 = 1 << 26
	CapQueryAttributes            uint32 = 1 << 27
	CapMultiFactorAuth            uint32 = 1 << 28
	CapCapabilityExtension        uint32 = 1 << 29
	CapSSLVerifyServerCert        uint32 = 1 << 30
	CapRememberOptions            uint32 = 1 << 31
)

// DefaultCaps is what a typical modern client/server pair negotiates (no DEPRECATE_EOF).
const DefaultCaps = CapLongPassword | CapFoundRows | CapLongFlag | CapConnectWithDB | CapLocalFiles | CapProtocol41 |
	CapTransactions | CapSecureConnection | CapMultiStatements | CapMultiResults | CapPSMultiResults | CapPluginAuth |
	CapConnectAttrs | CapPluginAuthLenencClientData

// Server status flags.
const (
	StatusInTrans             uint16 = 0x0001
	StatusAutocommit          uint16 = 0x0002
	StatusMoreResultsExists   uint16 = 0x0008
	StatusNoGoodIndexUsed     uint16 = 0x0010
	StatusNoIndexUsed         uint16 = 0x0020
	StatusCursorExists        uint16 = 0x0040
	StatusLastRowSent         uint16 = 0x0080
	StatusDBDropped           uint16 = 0x0100
	StatusNoBackslashEscapes  uint16 = 0x0200
	StatusMetadataChanged     uint16 = 0x0400
	StatusQueryWasSlow        uint16 = 0x0800
	StatusPSOutParams         uint16 = 0x1000
	StatusInTransReadonly     uint16 = 0x2000
	StatusSessionStateChanged uint16 = 0x4000
)

// Command bytes.
const (
	ComQuit         byte = 0x01
	ComInitDB       byte = 0x02
	ComQuery        byte = 0x03
	ComFieldList    byte = 0x04
	ComStatistics   byte = 0x09
	ComPing         byte = 0x0e
	ComStmtPrepare  byte = 0x16
	ComStmtExecute  byte = 0x17
	ComStmtSendLong byte = 0x18
	ComStmtClose    byte = 0x19
	ComStmtReset    byte = 0x1a
	ComSetOption    byte = 0x1b
	ComResetConn    byte = 0x1f
)

// Column types on the wire.
const (
	TypeDecimal    byte = 0x00
	TypeTiny       byte = 0x01
	TypeShort      byte = 0x02
	TypeLong       byte = 0x03
	TypeFloat      byte = 0x04
	TypeDouble     byte = 0x05
	TypeNull       byte = 0x06
	TypeTimestamp  byte = 0x07
	TypeLongLong   byte = 0x08
	TypeInt24      byte = 0x09
	TypeDate       byte = 0x0a
	TypeTime       byte = 0x0b
	TypeDatetime   byte = 0x0c
	TypeYear       byte = 0x0d
	TypeVarchar    byte = 0x0f
	TypeBit        byte = 0x10
	TypeJSON       byte = 0xf5
	TypeNewDecimal byte = 0xf6
	TypeEnum       byte = 0xf7
	TypeSet        byte = 0xf8
	TypeTinyBlob   byte = 0xf9
	TypeMediumBlob byte = 0xfa
	TypeLongBlob   byte = 0xfb
	TypeBlob       byte = 0xfc
	TypeVarString  byte = 0xfd
	TypeString     byte = 0xfe
	TypeGeometry   byte = 0xff
)

// Column definition flags.
const (
	FlagNotNull  uint16 = 0x0001
	FlagPriKey   uint16 = 0x0002
	FlagBlob     uint16 = 0x0010
	FlagUnsigned uint16 = 0x0020
	FlagBinary   uint16 = 0x0080
)

// MaxFrame is the largest payload of one physical packet; a payload of this size or more is split.
const MaxFrame = 1<<24 - 1

// ErrMalformed is returned by the decoders for anything the protocol does not allow.
var ErrMalformed = errors.New("malformed MySQL protocol data")

func malformed(f string, a ...any) error {
	return fmt.Errorf("%w: %s", ErrMalformed, fmt.Sprintf(f, a...))
}

// ---------------------------------------------------------------------------------------------
// framing

// AppendPacket appends payload framed as one logical packet (split into physical packets of 2^24-1 bytes,
// the last one shorter - possibly empty) starting at sequence id seq; it returns the next sequence id.
func AppendPacket(dst []byte, seq byte, payload []byte) ([]byte, byte) {
	for {
		n := len(payload)
		if n > MaxFrame {
			n = MaxFrame
		}
		dst = append(dst, byte(n), byte(n>>8), byte(n>>16), seq)
		dst = append(dst, payload[:n]...)
		seq++
		payload = payload[n:]
		if n < MaxFrame {
			return dst, seq
		}
	}
}

// Frame is one physical packet.
type Frame struct {
	Seq     byte
	Payload []byte
}

// ReadFrame reads one physical packet.
func ReadFrame(r io.Reader) (Frame, error) {
	var h [4]byte
	if _, err := io.ReadFull(r, h[:]); err != nil {
		return Frame{}, err
	}
	n := int(h[0]) | int(h[1])<<8 | int(h[2])<<16
	p := make([]byte, n)
	if _, err := io.ReadFull(r, p); err != nil {
		if err == io.EOF {
			err = io.ErrUnexpectedEOF
		}
		return Frame{}, err
	}
	return Frame{Seq: h[3], Payload: p}, nil
}

// Packet is one logical packet: the joined payload of 1..n physical packets.
type Packet struct {
	Seq     byte // sequence id of the first physical packet
	Frames  int
	Payload []byte
}

// ReadPacket reads one logical packet; continuation frames must carry consecutive sequence ids.
func ReadPacket(r io.Reader) (Packet, error) {
	f, err := ReadFrame(r)
	if err != nil {
		return Packet{}, err
	}
	p := Packet{Seq: f.Seq, Frames: 1, Payload: f.Payload}
	last := f
	for len(last.Payload) == MaxFrame {
		nf, err := ReadFrame(r)
		if err != nil {
			if err == io.EOF {
				err = io.ErrUnexpectedEOF
			}
			return p, err
		}
		if nf.Seq != last.Seq+1 {
			return p, malformed("continuation frame has sequence id %d after %d", nf.Seq, last.Seq)
		}
		p.Payload = append(p.Payload, nf.Payload...)
		p.Frames++
		last = nf
	}
	return p, nil
}

// SplitStream cuts a byte stream into logical packets. rest holds the bytes after the last complete packet
// (empty for a well-formed stream); err reports a sequence error inside a multi-frame packet.
func SplitStream(b []byte) (pkts []Packet, rest []byte, err error) {
	for len(b) > 0 {
		start := b
		var p Packet
		first := true
		var lastSeq byte
		for {
			if len(b) < 4 {
				return pkts, start, nil
			}
			n := int(b[0]) | int(b[1])<<8 | int(b[2])<<16
			if len(b) < 4+n {
				return pkts, start, nil
			}
			if first {
				p.Seq = b[3]
			} else if b[3] != lastSeq+1 {
				return pkts, start, malformed("continuation frame has sequence id %d after %d", b[3], lastSeq)
			}
			lastSeq = b[3]
			first = false
			if p.Frames == 0 && n < MaxFrame {
				p.Payload = b[4 : 4+n] // common case: no copy
			} else {
				p.Payload = append(p.Payload[:len(p.Payload):len(p.Payload)], b[4:4+n]...)
			}
			p.Frames++
			b = b[4+n:]
			if n < MaxFrame {
				break
			}
		}
		pkts = append(pkts, p)
	}
	return pkts, nil, nil
}

// ---------------------------------------------------------------------------------------------
// length-encoded integers and strings

// AppendLenEncInt appends v as a length-encoded integer (the unique encoding the protocol defines).
func AppendLenEncInt(dst []byte, v uint64) []byte {
	switch {
	case v < 251:
		return append(dst, byte(v))
	case v < 1<<16:
		return append(dst, 0xfc, byte(v), byte(v>>8))
	case v < 1<<24:
		return append(dst, 0xfd, byte(v), byte(v>>8), byte(v>>16))
	}
	return append(dst, 0xfe, byte(v), byte(v>>8), byte(v>>16), byte(v>>24), byte(v>>32), byte(v>>40), byte(v>>48), byte(v>>56))
}

// LenEncIntSize is the encoded size of v.
func LenEncIntSize(v uint64) int {
	switch {
	case v < 251:
		return 1
	case v < 1<<16:
		return 3
	case v < 1<<24:
		return 4
	}
	return 9
}

// ReadLenEncInt decodes a length-encoded integer. null is true for the 0xFB marker (only meaningful where
// the protocol allows NULL, i.e. in text rows). canonical tells whether the shortest form was used.
func ReadLenEncInt(b []byte) (v uint64, null bool, n int, canonical bool, err error) {
	if len(b) == 0 {
		return 0, false, 0, false, malformed("length-encoded integer: no data")
	}
	switch b[0] {
	case 0xfb:
		return 0, true, 1, true, nil
	case 0xfc:
		if len(b) < 3 {
			return 0, false, 0, false, malformed("length-encoded integer: 0xfc needs 2 bytes, have %d", len(b)-1)
		}
		v = uint64(binary.LittleEndian.Uint16(b[1:]))
		return v, false, 3, v >= 251, nil
	case 0xfd:
		if len(b) < 4 {
			return 0, false, 0, false, malformed("length-encoded integer: 0xfd needs 3 bytes, have %d", len(b)-1)
		}
		v = uint64(b[1]) | uint64(b[2])<<8 | uint64(b[3])<<16
		return v, false, 4, v >= 1<<16, nil
	case 0xfe:
		if len(b) < 9 {
			return 0, false, 0, false, malformed("length-encoded integer: 0xfe needs 8 bytes, have %d", len(b)-1)
		}
		v = binary.LittleEndian.Uint64(b[1:])
		return v, false, 9, v >= 1<<24, nil
	case 0xff:
		return 0, false, 0, false, malformed("length-encoded integer: 0xff is not a valid first byte")
	}
	return uint64(b[0]), false, 1, true, nil
}

// AppendLenEncStr appends a length-encoded string.
func AppendLenEncStr(dst, s []byte) []byte {
	dst = AppendLenEncInt(dst, uint64(len(s)))
	return append(dst, s...)
}

// ReadLenEncStr decodes a length-encoded string (or the NULL marker).
func ReadLenEncStr(b []byte) (s []byte, null bool, n int, canonical bool, err error) {
	l, null, n, canonical, err := ReadLenEncInt(b)
	if err != nil || null {
		return nil, null, n, canonical, err
	}
	if l > uint64(len(b)-n) {
		return nil, false, 0, canonical, malformed("length-encoded string: declared %d bytes, %d remain", l, len(b)-n)
	}
	return b[n : n+int(l)], false, n + int(l), canonical, nil
}

type reader struct {
	b   []byte
	pos int
	err error
	// nonCanonical counts length prefixes that were not in their shortest form
	nonCanonical int
}

func (r *reader) fail(f string, a ...any) {
	if r.err == nil {
		r.err = malformed(f, a...)
	}
}

func (r *reader) remaining() int { return len(r.b) - r.pos }

func (r *reader) take(n int, what string) []byte {
	if r.err != nil {
		return nil
	}
	if n < 0 || r.remaining() < n {
		r.fail("%s: need %d bytes, %d remain", what, n, r.remaining())
		return nil
	}
	out := r.b[r.pos : r.pos+n]
	r.pos += n
	return out
}

func (r *reader) u8(what string) byte {
	b := r.take(1, what)
	if b == nil {
		return 0
	}
	return b[0]
}

func (r *reader) u16(what string) uint16 {
	b := r.take(2, what)
	if b == nil {
		return 0
	}
	return binary.LittleEndian.Uint16(b)
}

func (r *reader) u32(what string) uint32 {
	b := r.take(4, what)
	if b == nil {
		return 0
	}
	return binary.LittleEndian.Uint32(b)
}

func (r *reader) lenenc(what string) uint64 {
	if r.err != nil {
		return 0
	}
	v, null, n, canon, err := ReadLenEncInt(r.b[r.pos:])
	if err != nil {
		r.fail("%s: %v", what, err)
		return 0
	}
	if null {
		r.fail("%s: NULL marker where an integer is required", what)
		return 0
	}
	if !canon {
		r.nonCanonical++
	}
	r.pos += n
	return v
}

func (r *reader) lenencStr(what string) []byte {
	l := r.lenenc(what)
	if r.err != nil {
		return nil
	}
	if l > uint64(r.remaining()) {
		r.fail("%s: declared %d bytes, %d remain", what, l, r.remaining())
		return nil
	}
	return r.take(int(l), what)
}

func (r *reader) nulStr(what string) []byte {
	if r.err != nil {
		return nil
	}
	for i := r.pos; i < len(r.b); i++ {
		if r.b[i] == 0 {
			out := r.b[r.pos:i]
			r.pos = i + 1
			return out
		}
	}
	r.fail("%s: missing NUL terminator", what)
	return nil
}

func (r *reader) rest() []byte {
	out := r.b[r.pos:]
	r.pos = len(r.b)
	return out
}

func (r *reader) end(what string) error {
	if r.err != nil {
		return r.err
	}
	if r.remaining() != 0 {
		return malformed("%s: %d trailing bytes", what, r.remaining())
	}
	return nil
}

// ---------------------------------------------------------------------------------------------
// connection phase

// Handshake is the initial handshake packet (protocol version 10).
type Handshake struct {
	ServerVersion string
	ConnID        uint32
	AuthData      []byte // 8 + 12 bytes of scramble (SECURE_CONNECTION); only the first 8 otherwise
	Caps          uint32
	Charset       byte
	Status        uint16
	AuthPlugin    string
	// MariaDBExt are MariaDB's extended capabilities (sent in the reserved area when the server does
	// not set CLIENT_LONG_PASSWORD, which MariaDB re-uses as "CLIENT_MYSQL").
	MariaDBExt uint32
}

// Encode renders the handshake payload.
func (h Handshake) Encode() []byte {
	auth := h.AuthData
	for len(auth) < 8 {
		auth = append(auth, 'x')
	}
	out := []byte{10}
	out = append(out, h.ServerVersion...)
	out = append(out, 0)
	out = binary.LittleEndian.AppendUint32(out, h.ConnID)
	out = append(out, auth[:8]...)
	out = append(out, 0)
	out = binary.LittleEndian.AppendUint16(out, uint16(h.Caps))
	out = append(out, h.Charset)
	out = binary.LittleEndian.AppendUint16(out, h.Status)
	out = binary.LittleEndian.AppendUint16(out, uint16(h.Caps>>16))
	if h.Caps&CapPluginAuth != 0 {
		out = append(out, byte(len(auth)+1))
	} else {
		out = append(out, 0)
	}
	out = append(out, 0, 0, 0, 0, 0, 0)
	out = binary.LittleEndian.AppendUint32(out, h.MariaDBExt)
	if h.Caps&CapSecureConnection != 0 {
		rest := auth[8:]
		out = append(out, rest...)
		for i := len(rest); i < 12; i++ {
			out = append(out, 'y')
		}
		out = append(out, 0)
	}
	if h.Caps&CapPluginAuth != 0 {
		out = append(out, h.AuthPlugin...)
		out = append(out, 0)
	}
	return out
}

// DecodeHandshake parses a handshake v10 payload.
func DecodeHandshake(b []byte) (Handshake, error) {
	r := &reader{b: b}
	var h Handshake
	if v := r.u8("protocol version"); r.err == nil && v != 10 {
		return h, malformed("handshake protocol version %d", v)
	}
	h.ServerVersion = string(r.nulStr("server version"))
	h.ConnID = r.u32("connection id")
	h.AuthData = append([]byte(nil), r.take(8, "auth-plugin-data-1")...)
	r.u8("filler")
	lo := r.u16("capabilities low")
	h.Charset = r.u8("charset")
	h.Status = r.u16("status")
	hi := r.u16("capabilities high")
	h.Caps = uint32(lo) | uint32(hi)<<16
	alen := r.u8("auth data length")
	r.take(6, "reserved")
	h.MariaDBExt = r.u32("reserved/mariadb capabilities")
	if h.Caps&CapSecureConnection != 0 {
		n := 13
		if int(alen)-8 > n {
			n = int(alen) - 8
		}
		d := r.take(n, "auth-plugin-data-2")
		if len(d) > 0 {
			h.AuthData = append(h.AuthData, d[:len(d)-1]...)
		}
	}
	if h.Caps&CapPluginAuth != 0 {
		h.AuthPlugin = string(r.nulStr("auth plugin name"))
	}
	return h, r.end("handshake")
}

// HandshakeResponse is HandshakeResponse41.
type HandshakeResponse struct {
	Caps       uint32
	MaxPacket  uint32
	Charset    byte
	MariaDBExt uint32 // last 4 bytes of the 23-byte filler (MariaDB extended client capabilities)
	User       string
	Auth       []byte
	Database   string
	AuthPlugin string
	Attrs      [][2]string
	ZstdLevel  byte
}

// Encode renders the payload.
func (h HandshakeResponse) Encode() []byte {
	out := binary.LittleEndian.AppendUint32(nil, h.Caps)
	out = binary.LittleEndian.AppendUint32(out, h.MaxPacket)
	out = append(out, h.Charset)
	out = append(out, make([]byte, 19)...)
	out = binary.LittleEndian.AppendUint32(out, h.MariaDBExt)
	out = append(out, h.User...)
	out = append(out, 0)
	switch {
	case h.Caps&CapPluginAuthLenencClientData != 0:
		out = AppendLenEncStr(out, h.Auth)
	case h.Caps&CapSecureConnection != 0:
		out = append(out, byte(len(h.Auth)))
		out = append(out, h.Auth...)
	default:
		out = append(out, h.Auth...)
		out = append(out, 0)
	}
	if h.Caps&CapConnectWithDB != 0 {
		out = append(out, h.Database...)
		out = append(out, 0)
	}
	if h.Caps&CapPluginAuth != 0 {
		out = append(out, h.AuthPlugin...)
		out = append(out, 0)
	}
	if h.Caps&CapConnectAttrs != 0 {
		var kv []byte
		for _, a := range h.Attrs {
			kv = AppendLenEncStr(kv, []byte(a[0]))
			kv = AppendLenEncStr(kv, []byte(a[1]))
		}
		out = AppendLenEncStr(out, kv)
	}
	if h.Caps&CapZstdCompression != 0 {
		out = append(out, h.ZstdLevel)
	}
	return out
}

// DecodeHandshakeResponse parses a HandshakeResponse41 payload.
func DecodeHandshakeResponse(b []byte) (HandshakeResponse, error) {
	r := &reader{b: b}
	var h HandshakeResponse
	h.Caps = r.u32("client capabilities")
	h.MaxPacket = r.u32("max packet size")
	h.Charset = r.u8("charset")
	r.take(19, "filler")
	h.MariaDBExt = r.u32("filler/mariadb capabilities")
	h.User = string(r.nulStr("user"))
	switch {
	case h.Caps&CapPluginAuthLenencClientData != 0:
		h.Auth = r.lenencStr("auth response")
	case h.Caps&CapSecureConnection != 0:
		h.Auth = r.take(int(r.u8("auth response length")), "auth response")
	default:
		h.Auth = r.nulStr("auth response")
	}
	if h.Caps&CapConnectWithDB != 0 {
		h.Database = string(r.nulStr("database"))
	}
	if h.Caps&CapPluginAuth != 0 {
		h.AuthPlugin = string(r.nulStr("auth plugin"))
	}
	if h.Caps&CapConnectAttrs != 0 {
		kv := &reader{b: r.lenencStr("connection attributes")}
		for r.err == nil && kv.remaining() > 0 && kv.err == nil {
			k := kv.lenencStr("attribute key")
			v := kv.lenencStr("attribute value")
			h.Attrs = append(h.Attrs, [2]string{string(k), string(v)})
		}
		if kv.err != nil {
			r.fail("%v", kv.err)
		}
	}
	if h.Caps&CapZstdCompression != 0 {
		h.ZstdLevel = r.u8("zstd level")
	}
	return h, r.end("handshake response")
}

// ---------------------------------------------------------------------------------------------
// generic response packets

// OK is an OK packet (header 0x00, or 0xFE when it ends a result set under CLIENT_DEPRECATE_EOF).
type OK struct {
	Header       byte
	AffectedRows uint64
	LastInsertID uint64
	Status       uint16
	Warnings     uint16
	Info         []byte
	SessionState []byte // only with CLIENT_SESSION_TRACK and StatusSessionStateChanged
}

// Encode renders the packet for the negotiated capabilities.
func (o OK) Encode(caps uint32) []byte {
	out := []byte{o.Header}
	out = AppendLenEncInt(out, o.AffectedRows)
	out = AppendLenEncInt(out, o.LastInsertID)
	if caps&CapProtocol41 != 0 {
		out = binary.LittleEndian.AppendUint16(out, o.Status)
		out = binary.LittleEndian.AppendUint16(out, o.Warnings)
	} else if caps&CapTransactions != 0 {
		out = binary.LittleEndian.AppendUint16(out, o.Status)
	}
	if caps&CapSessionTrack != 0 {
		changed := o.Status&StatusSessionStateChanged != 0
		if changed || len(o.Info) > 0 {
			out = AppendLenEncStr(out, o.Info)
		}
		if changed {
			out = AppendLenEncStr(out, o.SessionState)
		}
	} else {
		out = append(out, o.Info...)
	}
	return out
}

// DecodeOK parses an OK packet.
func DecodeOK(b []byte, caps uint32) (OK, error) {
	r := &reader{b: b}
	var o OK
	o.Header = r.u8("header")
	if r.err == nil && o.Header != 0x00 && o.Header != 0xfe {
		return o, malformed("OK packet header 0x%02x", o.Header)
	}
	o.AffectedRows = r.lenenc("affected rows")
	o.LastInsertID = r.lenenc("last insert id")
	if caps&CapProtocol41 != 0 {
		o.Status = r.u16("status")
		o.Warnings = r.u16("warnings")
	} else if caps&CapTransactions != 0 {
		o.Status = r.u16("status")
	}
	if caps&CapSessionTrack != 0 {
		if r.remaining() > 0 {
			o.Info = r.lenencStr("info")
		}
		if o.Status&StatusSessionStateChanged != 0 {
			o.SessionState = r.lenencStr("session state")
		}
	} else {
		o.Info = r.rest()
	}
	return o, r.end("OK packet")
}

// Err is an ERR packet.
type Err struct {
	Code    uint16
	State   string // 5 characters (CLIENT_PROTOCOL_41)
	Message string
}

// Encode renders the packet.
func (e Err) Encode(caps uint32) []byte {
	out := []byte{0xff}
	out = binary.LittleEndian.AppendUint16(out, e.Code)
	if caps&CapProtocol41 != 0 {
		out = append(out, '#')
		st := e.State
		for len(st) < 5 {
			st += "0"
		}
		out = append(out, st[:5]...)
	}
	return append(out, e.Message...)
}

// DecodeErr parses an ERR packet.
func DecodeErr(b []byte, caps uint32) (Err, error) {
	r := &reader{b: b}
	var e Err
	if h := r.u8("header"); r.err == nil && h != 0xff {
		return e, malformed("ERR packet header 0x%02x", h)
	}
	e.Code = r.u16("error code")
	if caps&CapProtocol41 != 0 {
		if m := r.u8("state marker"); r.err == nil && m != '#' {
			return e, malformed("ERR packet: state marker %q", m)
		}
		e.State = string(r.take(5, "sql state"))
	}
	e.Message = string(r.rest())
	return e, r.end("ERR packet")
}

// EOF is the legacy EOF packet.
type EOF struct {
	Warnings uint16
	Status   uint16
}

// Encode renders the packet.
func (e EOF) Encode(caps uint32) []byte {
	out := []byte{0xfe}
	if caps&CapProtocol41 != 0 {
		out = binary.LittleEndian.AppendUint16(out, e.Warnings)
		out = binary.LittleEndian.AppendUint16(out, e.Status)
	}
	return out
}

// DecodeEOF parses an EOF packet.
func DecodeEOF(b []byte, caps uint32) (EOF, error) {
	r := &reader{b: b}
	var e EOF
	if h := r.u8("header"); r.err == nil && h != 0xfe {
		return e, malformed("EOF packet header 0x%02x", h)
	}
	if caps&CapProtocol41 != 0 {
		e.Warnings = r.u16("warnings")
		e.Status = r.u16("status")
	}
	return e, r.end("EOF packet")
}

// IsEOFPacket applies the protocol's rule for telling an EOF packet from a row: header 0xFE and a payload
// shorter than 9 bytes.
func IsEOFPacket(b []byte) bool { return len(b) > 0 && b[0] == 0xfe && len(b) < 9 }

// IsResultSetEnd tells whether payload ends the row section of a result set: an ERR packet, a legacy EOF
// packet, or (CLIENT_DEPRECATE_EOF) an OK packet with header 0xFE, which the protocol distinguishes from a
// row by its length being below 2^24-1.
func IsResultSetEnd(b []byte, caps uint32) bool {
	if len(b) == 0 {
		return false
	}
	if b[0] == 0xff {
		return true
	}
	if caps&CapDeprecateEOF != 0 {
		return b[0] == 0xfe && len(b) < MaxFrame
	}
	return IsEOFPacket(b)
}

// ---------------------------------------------------------------------------------------------
// column definitions and rows

// ColumnDef is ColumnDefinition41.
type ColumnDef struct {
	Catalog  string
	Schema   string
	Table    string
	OrgTable string
	Name     string
	OrgName  string
	Charset  uint16
	Length   uint32
	Type     byte
	Flags    uint16
	Decimals byte
}

// Encode renders the packet.
func (c ColumnDef) Encode() []byte {
	cat := c.Catalog
	if cat == "" {
		cat = "def"
	}
	var out []byte
	for _, s := range []string{cat, c.Schema, c.Table, c.OrgTable, c.Name, c.OrgName} {
		out = AppendLenEncStr(out, []byte(s))
	}
	out = append(out, 0x0c)
	out = binary.LittleEndian.AppendUint16(out, c.Charset)
	out = binary.LittleEndian.AppendUint32(out, c.Length)
	out = append(out, c.Type)
	out = binary.LittleEndian.AppendUint16(out, c.Flags)
	out = append(out, c.Decimals, 0, 0)
	return out
}

// DecodeColumnDef parses ColumnDefinition41 strictly (no trailing bytes, canonical length prefixes).
func DecodeColumnDef(b []byte) (ColumnDef, error) {
	r := &reader{b: b}
	var c ColumnDef
	c.Catalog = string(r.lenencStr("catalog"))
	c.Schema = string(r.lenencStr("schema"))
	c.Table = string(r.lenencStr("table"))
	c.OrgTable = string(r.lenencStr("org_table"))
	c.Name = string(r.lenencStr("name"))
	c.OrgName = string(r.lenencStr("org_name"))
	if l := r.lenenc("length of fixed fields"); r.err == nil && l != 0x0c {
		return c, malformed("column definition: fixed-length marker %d", l)
	}
	c.Charset = r.u16("charset")
	c.Length = r.u32("column length")
	c.Type = r.u8("type")
	c.Flags = r.u16("flags")
	c.Decimals = r.u8("decimals")
	if f := r.u16("filler"); r.err == nil && f != 0 {
		return c, malformed("column definition: filler 0x%04x", f)
	}
	if err := r.end("column definition"); err != nil {
		return c, err
	}
	if r.nonCanonical > 0 {
		return c, malformed("column definition: %d length prefix(es) not in the shortest form", r.nonCanonical)
	}
	return c, nil
}

// Value is one column value of a row. For text rows B is the text; for binary rows B is the value's wire
// encoding without a length prefix (fixed-width little-endian integers, the bytes of a string, ...).
type Value struct {
	Null bool
	B    []byte
}

// EncodeTextRow renders a text-protocol row.
func EncodeTextRow(row []Value) []byte {
	var out []byte
	for _, v := range row {
		if v.Null {
			out = append(out, 0xfb)
		} else {
			out = AppendLenEncStr(out, v.B)
		}
	}
	return out
}

// DecodeTextRow parses a text row of n columns strictly: no trailing bytes, declared lengths inside the
// packet, canonical length prefixes.
func DecodeTextRow(b []byte, n int) ([]Value, error) {
	out := make([]Value, 0, n)
	pos := 0
	for i := 0; i < n; i++ {
		s, null, used, canon, err := ReadLenEncStr(b[pos:])
		if err != nil {
			return out, fmt.Errorf("column %d: %w", i, err)
		}
		if !canon {
			return out, malformed("column %d: length prefix not in the shortest form (% x)", i, b[pos:pos+used-len(s)])
		}
		pos += used
		out = append(out, Value{Null: null, B: s})
	}
	if pos != len(b) {
		return out, malformed("text row: %d trailing bytes after %d columns", len(b)-pos, n)
	}
	return out, nil
}

// BinaryWidth returns the fixed width of a type in the binary protocol; -1 = length-encoded string,
// -2 = date/time (1 length byte + that many bytes), -3 = unknown type.
func BinaryWidth(t byte) int {
	switch t {
	case TypeNull:
		return 0
	case TypeTiny:
		return 1
	case TypeShort, TypeYear:
		return 2
	case TypeLong, TypeInt24, TypeFloat:
		return 4
	case TypeLongLong, TypeDouble:
		return 8
	case TypeDate, TypeDatetime, TypeTimestamp, TypeTime:
		return -2
	case TypeDecimal, TypeNewDecimal, TypeVarchar, TypeBit, TypeJSON, TypeEnum, TypeSet, TypeTinyBlob, TypeMediumBlob,
		TypeLongBlob, TypeBlob, TypeVarString, TypeString, TypeGeometry:
		return -1
	}
	return -3
}

func appendBinaryValue(out []byte, t byte, v Value) []byte {
	switch w := BinaryWidth(t); {
	case w >= 0:
		b := v.B
		for len(b) < w {
			b = append(b[:len(b):len(b)], 0)
		}
		return append(out, b[:w]...)
	case w == -2:
		out = append(out, byte(len(v.B)))
		return append(out, v.B...)
	}
	return AppendLenEncStr(out, v.B)
}

// EncodeBinaryRow renders a binary-protocol result row (NULL bitmap with offset 2).
func EncodeBinaryRow(types []byte, row []Value) []byte {
	n := len(row)
	out := make([]byte, 1+(n+7+2)/8)
	for i, v := range row {
		if v.Null {
			out[1+(i+2)/8] |= 1 << uint((i+2)%8)
		}
	}
	for i, v := range row {
		if !v.Null {
			out = appendBinaryValue(out, types[i], v)
		}
	}
	return out
}

// DecodeBinaryRow parses a binary row for the given column types strictly.
func DecodeBinaryRow(b []byte, types []byte) ([]Value, error) {
	n := len(types)
	r := &reader{b: b}
	if h := r.u8("header"); r.err == nil && h != 0 {
		return nil, malformed("binary row header 0x%02x", h)
	}
	bm := r.take((n+7+2)/8, "NULL bitmap")
	if r.err != nil {
		return nil, r.err
	}
	// bits 0,1 and the bits past the last column must be zero
	for bit := 0; bit < len(bm)*8; bit++ {
		if bit >= 2 && bit < n+2 {
			continue
		}
		if bm[bit/8]&(1<<uint(bit%8)) != 0 {
			return nil, malformed("binary row: NULL bitmap has unused bit %d set", bit)
		}
	}
	out := make([]Value, n)
	for i, t := range types {
		if bm[(i+2)/8]&(1<<uint((i+2)%8)) != 0 {
			out[i].Null = true
			continue
		}
		switch w := BinaryWidth(t); {
		case w >= 0:
			out[i].B = r.take(w, fmt.Sprintf("column %d (type 0x%02x)", i, t))
		case w == -2:
			l := int(r.u8(fmt.Sprintf("column %d temporal length", i)))
			out[i].B = r.take(l, fmt.Sprintf("column %d temporal value", i))
		case w == -1:
			out[i].B = r.lenencStr(fmt.Sprintf("column %d", i))
		default:
			return out, malformed("column %d: unknown type 0x%02x", i, t)
		}
		if r.err != nil {
			return out, r.err
		}
		if out[i].B == nil {
			out[i].B = []byte{}
		}
	}
	if err := r.end("binary row"); err != nil {
		return out, err
	}
	if r.nonCanonical > 0 {
		return out, malformed("binary row: %d length prefix(es) not in the shortest form", r.nonCanonical)
	}
	return out, nil
}

// ---------------------------------------------------------------------------------------------
// prepared statements

// PrepareOK is the first packet of a COM_STMT_PREPARE response.
type PrepareOK struct {
	StmtID   uint32
	Columns  uint16
	Params   uint16
	Warnings uint16
}

// Encode renders the packet.
func (p PrepareOK) Encode() []byte {
	out := []byte{0}
	out = binary.LittleEndian.AppendUint32(out, p.StmtID)
	out = binary.LittleEndian.AppendUint16(out, p.Columns)
	out = binary.LittleEndian.AppendUint16(out, p.Params)
	out = append(out, 0)
	return binary.LittleEndian.AppendUint16(out, p.Warnings)
}

// DecodePrepareOK parses it.
func DecodePrepareOK(b []byte) (PrepareOK, error) {
	r := &reader{b: b}
	var p PrepareOK
	if h := r.u8("status"); r.err == nil && h != 0 {
		return p, malformed("COM_STMT_PREPARE_OK status 0x%02x", h)
	}
	p.StmtID = r.u32("statement id")
	p.Columns = r.u16("num columns")
	p.Params = r.u16("num params")
	r.u8("reserved")
	p.Warnings = r.u16("warnings")
	return p, r.end("COM_STMT_PREPARE_OK")
}

// Param is one COM_STMT_EXECUTE parameter.
type Param struct {
	Type     byte
	Unsigned bool
	Null     bool
	B        []byte // wire encoding without length prefix, as for Value
}

// Execute is COM_STMT_EXECUTE.
type Execute struct {
	StmtID    uint32
	Flags     byte
	NewParams bool
	Params    []Param
}

// Encode renders the command payload.
func (e Execute) Encode() []byte {
	out := []byte{ComStmtExecute}
	out = binary.LittleEndian.AppendUint32(out, e.StmtID)
	out = append(out, e.Flags)
	out = binary.LittleEndian.AppendUint32(out, 1)
	n := len(e.Params)
	if n == 0 {
		return out
	}
	bm := make([]byte, (n+7)/8)
	for i, p := range e.Params {
		if p.Null {
			bm[i/8] |= 1 << uint(i%8)
		}
	}
	out = append(out, bm...)
	if !e.NewParams {
		out = append(out, 0)
	} else {
		out = append(out, 1)
		for _, p := range e.Params {
			f := byte(0)
			if p.Unsigned {
				f = 0x80
			}
			out = append(out, p.Type, f)
		}
	}
	for _, p := range e.Params {
		if !p.Null {
			out = appendBinaryValue(out, p.Type, Value{B: p.B})
		}
	}
	return out
}

// DecodeExecute parses COM_STMT_EXECUTE for a statement with n parameters. When the packet does not carry
// types (new-params-bound flag 0) types must be given by the caller (those of the previous execution).
func DecodeExecute(b []byte, n int, types []Param) (Execute, error) {
	r := &reader{b: b}
	var e Execute
	if c := r.u8("command"); r.err == nil && c != ComStmtExecute {
		return e, malformed("not COM_STMT_EXECUTE: 0x%02x", c)
	}
	e.StmtID = r.u32("statement id")
	e.Flags = r.u8("flags")
	if it := r.u32("iteration count"); r.err == nil && it != 1 {
		return e, malformed("COM_STMT_EXECUTE iteration count %d", it)
	}
	if n == 0 {
		return e, r.end("COM_STMT_EXECUTE")
	}
	bm := r.take((n+7)/8, "NULL bitmap")
	flag := r.u8("new-params-bound flag")
	if r.err != nil {
		return e, r.err
	}
	if flag > 1 {
		return e, malformed("COM_STMT_EXECUTE new-params-bound flag %d", flag)
	}
	for bit := n; bit < len(bm)*8; bit++ {
		if bm[bit/8]&(1<<uint(bit%8)) != 0 {
			return e, malformed("COM_STMT_EXECUTE: NULL bitmap has unused bit %d set", bit)
		}
	}
	e.Params = make([]Param, n)
	if flag == 1 {
		e.NewParams = true
		for i := range e.Params {
			e.Params[i].Type = r.u8("parameter type")
			f := r.u8("parameter flag")
			if r.err == nil && f != 0 && f != 0x80 {
				return e, malformed("COM_STMT_EXECUTE: parameter %d flag byte 0x%02x", i, f)
			}
			e.Params[i].Unsigned = f == 0x80
		}
	} else {
		if len(types) != n {
			return e, malformed("COM_STMT_EXECUTE without types and no previous types known")
		}
		for i := range e.Params {
			e.Params[i].Type, e.Params[i].Unsigned = types[i].Type, types[i].Unsigned
		}
	}
	for i := range e.Params {
		if bm[i/8]&(1<<uint(i%8)) != 0 {
			e.Params[i].Null = true
			continue
		}
		t := e.Params[i].Type
		switch w := BinaryWidth(t); {
		case w >= 0:
			e.Params[i].B = r.take(w, fmt.Sprintf("parameter %d (type 0x%02x)", i, t))
		case w == -2:
			l := int(r.u8("temporal length"))
			e.Params[i].B = r.take(l, "temporal value")
		case w == -1:
			e.Params[i].B = r.lenencStr(fmt.Sprintf("parameter %d", i))
		default:
			return e, malformed("parameter %d: unknown type 0x%02x", i, t)
		}
		if r.err != nil {
			return e, r.err
		}
		if e.Params[i].B == nil {
			e.Params[i].B = []byte{}
		}
	}
	if err := r.end("COM_STMT_EXECUTE"); err != nil {
		return e, err
	}
	if r.nonCanonical > 0 {
		return e, malformed("COM_STMT_EXECUTE: %d length prefix(es) not in the shortest form", r.nonCanonical)
	}
	return e, nil
}

// StmtIDCommand renders COM_STMT_CLOSE / COM_STMT_RESET.
func StmtIDCommand(cmd byte, id uint32) []byte {
	return binary.LittleEndian.AppendUint32([]byte{cmd}, id)
}

// ---------------------------------------------------------------------------------------------
// helpers for integers in the binary protocol

// IntBytes renders v as a little-endian integer of the width of type t.
func IntBytes(t byte, v int64) []byte {
	w := BinaryWidth(t)
	out := make([]byte, 8)
	binary.LittleEndian.PutUint64(out, uint64(v))
	if w < 0 || w > 8 {
		w = 8
	}
	return out[:w]
}

// IntFromBytes reads a little-endian signed integer of 1, 2, 4 or 8 bytes.
func IntFromBytes(b []byte) (int64, error) {
	switch len(b) {
	case 1:
		return int64(int8(b[0])), nil
	case 2:
		return int64(int16(binary.LittleEndian.Uint16(b))), nil
	case 4:
		return int64(int32(binary.LittleEndian.Uint32(b))), nil
	case 8:
		return int64(binary.LittleEndian.Uint64(b)), nil
	}
	return 0, malformed("integer of %d bytes", len(b))
}

// String shows a value for diagnostics.
func (v Value) String() string {
	if v.Null {
		return "NULL"
	}
	if len(v.B) > 48 {
		return fmt.Sprintf("%q…(%d bytes)", v.B[:48], len(v.B))
	}
	return fmt.Sprintf("%q", v.B)
}
