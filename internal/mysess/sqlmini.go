package mysess

// A tiny typed in-memory database for the statement shapes the session-level properties generate. It has
// its own tokenizer and recursive-descent parser (acra's sqlparser is code under test and is not used):
//
//	INSERT INTO t [(cols)] VALUES (..)[,(..)]
//	UPDATE t SET c=v[,..] [WHERE cond]
//	SELECT cols|* FROM t [WHERE cond]
//	DELETE FROM t [WHERE cond]
//	cond: c = v | c <> v | c != v | c IS [NOT] NULL | substr(c, 1, n) = v | convert(substr(c, 1, n), binary) = v |
//	      (cond) | cond AND cond | cond OR cond
//	values: NULL, [-]integers, '...' / "..." strings with MySQL escapes, X'hex' / 0xhex / _binary'..' literals, ?
//
// Anything else (SET, BEGIN, COMMIT, USE ...) is answered with OK.

import (
	"bytes"
	"encoding/hex"
	"fmt"
	"strconv"
	"strings"
	"sync"
)

// ColType is the database-side type of a column.
type ColType int

// Column types the fake database knows.
const (
	Blob ColType = iota
	VarBinary
	Varchar
	Text
	Int
	BigInt
)

// IsInt tells whether the type is an integer type.
func (t ColType) IsInt() bool { return t == Int || t == BigInt }

// WireType returns the protocol type, charset, flags and display length of the column type.
func (t ColType) WireType() (typ byte, charset uint16, flags uint16, length uint32) {
	switch t {
	case Blob:
		return TypeBlob, 63, FlagBlob | FlagBinary, 65535
	case VarBinary:
		return TypeVarString, 63, FlagBinary, 255
	case Varchar:
		return TypeVarString, 45, 0, 1020
	case Text:
		return TypeBlob, 45, FlagBlob, 262140
	case Int:
		return TypeLong, 63, 0x8000, 11
	case BigInt:
		return TypeLongLong, 63, 0x8000, 20
	}
	return TypeVarString, 63, 0, 255
}

// ColumnSpec / TableDef describe the fake database's schema.
type ColumnSpec struct {
	Name string
	Type ColType
}

// TableDef is a table.
type TableDef struct {
	Name string
	Cols []ColumnSpec
	// Key, when set, names the unique key column: INSERT of an existing key fails with 1062 unless the statement
	// is REPLACE or carries ON DUPLICATE KEY UPDATE (c04.go)
	Key string
}

type table struct {
	def  TableDef
	rows [][]Value // canonical: strings/blobs = raw bytes, integers = decimal text
}

func (t *table) col(name string) int {
	for i, c := range t.def.Cols {
		if strings.EqualFold(c.Name, name) {
			return i
		}
	}
	return -1
}

// Store is the typed in-memory database.
type Store struct {
	mu     sync.Mutex
	tables map[string]*table
	Schema string // database name used in column definitions
	// AliasInFields makes column definitions carry the table alias of the statement in their table field (org_table
	// keeps the real name), as MySQL does; off by default
	AliasInFields bool
}

// NewStore creates the store with the given tables.
func NewStore(defs []TableDef) *Store {
	s := &Store{tables: map[string]*table{}, Schema: "verif"}
	for _, d := range defs {
		s.tables[strings.ToLower(d.Name)] = &table{def: d}
	}
	return s
}

// Rows returns a copy of a table's rows.
func (s *Store) Rows(name string) [][]Value {
	s.mu.Lock()
	defer s.mu.Unlock()
	t := s.tables[strings.ToLower(name)]
	if t == nil {
		return nil
	}
	out := make([][]Value, len(t.rows))
	for i, r := range t.rows {
		out[i] = append([]Value(nil), r...)
	}
	return out
}

// SetRows replaces a table's rows (to plant stored values directly).
func (s *Store) SetRows(name string, rows [][]Value) {
	s.mu.Lock()
	defer s.mu.Unlock()
	s.tables[strings.ToLower(name)].rows = rows
}

// ErrSQL is an error the fake database reports to the client as an ERR packet.
type ErrSQL struct {
	Code uint16
	Msg  string
}

func (e *ErrSQL) Error() string { return e.Msg }

func sqlErr(f string, a ...any) error { return &ErrSQL{Code: 1064, Msg: fmt.Sprintf(f, a...)} }

// ---------------------------------------------------------------------------------------------
// tokenizer

type tokKind int

const (
	tEOF tokKind = iota
	tIdent
	tInt
	tStr // string literal (unescaped bytes)
	tHex // X'..' / 0x.. (decoded bytes)
	tPlaceholder
	tSym
)

type token struct {
	kind tokKind
	s    string // identifier (as written, unquoted), symbol, integer text
	b    []byte // literal bytes
	q    bool   // identifier was quoted
}

func isIdentStart(c byte) bool {
	return c == '_' || c == '$' || (c >= 'a' && c <= 'z') || (c >= 'A' && c <= 'Z') || c >= 0x80
}
func isDigit(c byte) bool { return c >= '0' && c <= '9' }

func unescapeMySQL(s []byte, quote byte) ([]byte, int, error) {
	// s starts after the opening quote; returns the bytes and the index after the closing quote
	var out []byte
	for i := 0; i < len(s); i++ {
		c := s[i]
		switch {
		case c == quote:
			if i+1 < len(s) && s[i+1] == quote {
				out = append(out, quote)
				i++
				continue
			}
			if out == nil {
				out = []byte{}
			}
			return out, i + 1, nil
		case c == '\\' && i+1 < len(s):
			i++
			switch s[i] {
			case '0':
				out = append(out, 0)
			case 'b':
				out = append(out, 8)
			case 'n':
				out = append(out, '\n')
			case 'r':
				out = append(out, '\r')
			case 't':
				out = append(out, '\t')
			case 'Z':
				out = append(out, 26)
			case '%', '_':
				out = append(out, '\\', s[i])
			default:
				out = append(out, s[i])
			}
		default:
			out = append(out, c)
		}
	}
	return nil, 0, sqlErr("unterminated string literal")
}

func tokenize(sql string) ([]token, error) {
	s := []byte(sql)
	var out []token
	for i := 0; i < len(s); {
		c := s[i]
		switch {
		case c == ' ' || c == '\t' || c == '\n' || c == '\r':
			i++
		case c == '-' && i+1 < len(s) && s[i+1] == '-':
			for i < len(s) && s[i] != '\n' {
				i++
			}
		case c == '/' && i+1 < len(s) && s[i+1] == '*':
			j := bytes.Index(s[i+2:], []byte("*/"))
			if j < 0 {
				return nil, sqlErr("unterminated comment")
			}
			i += j + 4
		case c == '\'' || c == '"':
			b, n, err := unescapeMySQL(s[i+1:], c)
			if err != nil {
				return nil, err
			}
			out = append(out, token{kind: tStr, b: b})
			i += 1 + n
		case c == '`':
			j := i + 1
			var id []byte
			for ; j < len(s); j++ {
				if s[j] == '`' {
					if j+1 < len(s) && s[j+1] == '`' {
						id = append(id, '`')
						j++
						continue
					}
					break
				}
				id = append(id, s[j])
			}
			if j >= len(s) {
				return nil, sqlErr("unterminated identifier")
			}
			out = append(out, token{kind: tIdent, s: string(id), q: true})
			i = j + 1
		case (c == 'x' || c == 'X') && i+1 < len(s) && s[i+1] == '\'':
			j := bytes.IndexByte(s[i+2:], '\'')
			if j < 0 {
				return nil, sqlErr("unterminated hex literal")
			}
			b, err := hex.DecodeString(string(s[i+2 : i+2+j]))
			if err != nil {
				return nil, sqlErr("bad hex literal")
			}
			out = append(out, token{kind: tHex, b: b})
			i += j + 3
		case c == '0' && i+1 < len(s) && (s[i+1] == 'x') && i+2 < len(s) && isHexDigit(s[i+2]):
			j := i + 2
			for j < len(s) && isHexDigit(s[j]) {
				j++
			}
			h := string(s[i+2 : j])
			if len(h)%2 == 1 {
				h = "0" + h
			}
			b, _ := hex.DecodeString(h)
			out = append(out, token{kind: tHex, b: b})
			i = j
		case isDigit(c):
			j := i
			for j < len(s) && isDigit(s[j]) {
				j++
			}
			out = append(out, token{kind: tInt, s: string(s[i:j])})
			i = j
		case isIdentStart(c):
			j := i
			for j < len(s) && (isIdentStart(s[j]) || isDigit(s[j])) {
				j++
			}
			word := string(s[i:j])
			// introducer: _binary 'str' / _utf8mb4 'str'
			if word[0] == '_' {
				k := j
				for k < len(s) && (s[k] == ' ' || s[k] == '\t') {
					k++
				}
				if k < len(s) && (s[k] == '\'' || s[k] == '"') {
					b, n, err := unescapeMySQL(s[k+1:], s[k])
					if err != nil {
						return nil, err
					}
					if strings.EqualFold(word, "_binary") {
						out = append(out, token{kind: tHex, b: b})
					} else {
						out = append(out, token{kind: tStr, b: b})
					}
					i = k + 1 + n
					continue
				}
				// introducer before a hex literal: _binary X'4142'
				if k+1 < len(s) && (s[k] == 'x' || s[k] == 'X') && s[k+1] == '\'' {
					if j := bytes.IndexByte(s[k+2:], '\''); j >= 0 {
						if b, err := hex.DecodeString(string(s[k+2 : k+2+j])); err == nil {
							out = append(out, token{kind: tHex, b: b})
							i = k + j + 3
							continue
						}
					}
				}
			}
			out = append(out, token{kind: tIdent, s: word})
			i = j
		case c == '?':
			out = append(out, token{kind: tPlaceholder})
			i++
		case c == '<' && i+1 < len(s) && s[i+1] == '>':
			out = append(out, token{kind: tSym, s: "<>"})
			i += 2
		case c == '!' && i+1 < len(s) && s[i+1] == '=':
			out = append(out, token{kind: tSym, s: "<>"})
			i += 2
		case strings.IndexByte("(),=*.;-+", c) >= 0:
			out = append(out, token{kind: tSym, s: string(c)})
			i++
		default:
			return nil, sqlErr("unexpected character %q", c)
		}
	}
	return append(out, token{kind: tEOF}), nil
}

func isHexDigit(c byte) bool {
	return isDigit(c) || (c >= 'a' && c <= 'f') || (c >= 'A' && c <= 'F')
}

// ---------------------------------------------------------------------------------------------
// parser

type litKind int

const (
	lNull litKind = iota
	lInt
	lStr
	lBytes
	lParam
)

// operand of an expression
type operand struct {
	kind   string // "lit", "col", "substr"
	lit    litKind
	b      []byte // literal bytes / integer text
	param  int    // placeholder index
	col    string
	from   int // substr start (1-based)
	length int // substr length
}

type cond struct {
	op   string // "and", "or", "=", "<>", "isnull", "notnull"
	l, r *cond
	a, b operand
}

type selItem struct {
	col   string
	alias string
}

// Stmt is a parsed statement.
type parsedStmt struct {
	kind    string // insert, update, select, delete, other
	table   string
	cols    []string    // insert column list
	rows    [][]operand // insert tuples
	set     []string
	setVals []operand
	star    bool
	sel     []selItem
	where   *cond
	nParams int
	// c04.go: REPLACE, ON DUPLICATE KEY UPDATE assignments, table alias of a SELECT
	replace   bool
	onDup     []string
	onDupVals []operand
	alias     string
}

type parser struct {
	toks []token
	pos  int
	np   int
}

func (p *parser) peek() token { return p.toks[p.pos] }
func (p *parser) next() token {
	t := p.toks[p.pos]
	if t.kind != tEOF {
		p.pos++
	}
	return t
}
func (p *parser) isKw(kw string) bool {
	t := p.peek()
	return t.kind == tIdent && !t.q && strings.EqualFold(t.s, kw)
}
func (p *parser) acceptKw(kw string) bool {
	if p.isKw(kw) {
		p.pos++
		return true
	}
	return false
}
func (p *parser) expectKw(kw string) error {
	if !p.acceptKw(kw) {
		return sqlErr("expected %s near %q", kw, p.peek().s)
	}
	return nil
}
func (p *parser) acceptSym(s string) bool {
	t := p.peek()
	if t.kind == tSym && t.s == s {
		p.pos++
		return true
	}
	return false
}
func (p *parser) expectSym(s string) error {
	if !p.acceptSym(s) {
		return sqlErr("expected %q near %q", s, p.peek().s)
	}
	return nil
}
func (p *parser) ident() (string, error) {
	t := p.next()
	if t.kind != tIdent {
		return "", sqlErr("expected identifier near %q", t.s)
	}
	return t.s, nil
}

// qualified identifier: [schema.]name or [table.]column -> last part
func (p *parser) qident() (string, error) {
	id, err := p.ident()
	if err != nil {
		return "", err
	}
	for p.acceptSym(".") {
		id, err = p.ident()
		if err != nil {
			return "", err
		}
	}
	return id, nil
}

func (p *parser) operand() (operand, error) {
	t := p.peek()
	switch {
	case t.kind == tPlaceholder:
		p.pos++
		o := operand{kind: "lit", lit: lParam, param: p.np}
		p.np++
		return o, nil
	case t.kind == tStr:
		p.pos++
		return operand{kind: "lit", lit: lStr, b: t.b}, nil
	case t.kind == tHex:
		p.pos++
		return operand{kind: "lit", lit: lBytes, b: t.b}, nil
	case t.kind == tInt:
		p.pos++
		return operand{kind: "lit", lit: lInt, b: []byte(t.s)}, nil
	case t.kind == tSym && (t.s == "-" || t.s == "+"):
		p.pos++
		n := p.next()
		if n.kind != tInt {
			return operand{}, sqlErr("expected number after sign")
		}
		if t.s == "-" {
			return operand{kind: "lit", lit: lInt, b: []byte("-" + n.s)}, nil
		}
		return operand{kind: "lit", lit: lInt, b: []byte(n.s)}, nil
	case t.kind == tIdent && !t.q && strings.EqualFold(t.s, "null"):
		p.pos++
		return operand{kind: "lit", lit: lNull}, nil
	case t.kind == tIdent && !t.q && strings.EqualFold(t.s, "convert") && p.toks[p.pos+1].kind == tSym && p.toks[p.pos+1].s == "(":
		// convert(expr, binary): a change of type only, the bytes compared are those of expr
		p.pos += 2
		inner, err := p.operand()
		if err != nil {
			return operand{}, err
		}
		if err := p.expectSym(","); err != nil {
			return operand{}, err
		}
		if _, err := p.ident(); err != nil {
			return operand{}, err
		}
		return inner, p.expectSym(")")
	case t.kind == tIdent && !t.q && (strings.EqualFold(t.s, "substr") || strings.EqualFold(t.s, "substring")) && p.toks[p.pos+1].kind == tSym && p.toks[p.pos+1].s == "(":
		p.pos += 2
		col, err := p.qident()
		if err != nil {
			return operand{}, err
		}
		if err := p.expectSym(","); err != nil {
			return operand{}, err
		}
		from := p.next()
		if err := p.expectSym(","); err != nil {
			return operand{}, err
		}
		ln := p.next()
		if from.kind != tInt || ln.kind != tInt {
			return operand{}, sqlErr("substr needs integer arguments")
		}
		if err := p.expectSym(")"); err != nil {
			return operand{}, err
		}
		f, _ := strconv.Atoi(from.s)
		l, _ := strconv.Atoi(ln.s)
		return operand{kind: "substr", col: col, from: f, length: l}, nil
	case t.kind == tIdent:
		col, err := p.qident()
		if err != nil {
			return operand{}, err
		}
		return operand{kind: "col", col: col}, nil
	}
	return operand{}, sqlErr("unexpected token %q in expression", t.s)
}

func (p *parser) condOr() (*cond, error) {
	l, err := p.condAnd()
	if err != nil {
		return nil, err
	}
	for p.acceptKw("or") {
		r, err := p.condAnd()
		if err != nil {
			return nil, err
		}
		l = &cond{op: "or", l: l, r: r}
	}
	return l, nil
}

func (p *parser) condAnd() (*cond, error) {
	l, err := p.condPrim()
	if err != nil {
		return nil, err
	}
	for p.acceptKw("and") {
		r, err := p.condPrim()
		if err != nil {
			return nil, err
		}
		l = &cond{op: "and", l: l, r: r}
	}
	return l, nil
}

func (p *parser) condPrim() (*cond, error) {
	if p.acceptSym("(") {
		c, err := p.condOr()
		if err != nil {
			return nil, err
		}
		return c, p.expectSym(")")
	}
	a, err := p.operand()
	if err != nil {
		return nil, err
	}
	if p.acceptKw("is") {
		not := p.acceptKw("not")
		if err := p.expectKw("null"); err != nil {
			return nil, err
		}
		if not {
			return &cond{op: "notnull", a: a}, nil
		}
		return &cond{op: "isnull", a: a}, nil
	}
	t := p.next()
	if t.kind != tSym || (t.s != "=" && t.s != "<>") {
		return nil, sqlErr("expected comparison near %q", t.s)
	}
	b, err := p.operand()
	if err != nil {
		return nil, err
	}
	return &cond{op: t.s, a: a, b: b}, nil
}

func parseSQL(sql string) (*parsedStmt, error) {
	toks, err := tokenize(sql)
	if err != nil {
		return nil, err
	}
	p := &parser{toks: toks}
	st := &parsedStmt{kind: "other"}
	finish := func() (*parsedStmt, error) {
		p.acceptSym(";")
		if p.peek().kind != tEOF {
			return nil, sqlErr("unexpected %q after the statement", p.peek().s)
		}
		st.nParams = p.np
		return st, nil
	}
	switch {
	case p.isKw("insert") || p.isKw("replace"):
		st.replace = p.isKw("replace")
		p.pos++
		st.kind = "insert"
		p.acceptKw("into")
		if st.table, err = p.qident(); err != nil {
			return nil, err
		}
		if p.acceptSym("(") {
			for {
				c, err := p.qident()
				if err != nil {
					return nil, err
				}
				st.cols = append(st.cols, c)
				if !p.acceptSym(",") {
					break
				}
			}
			if err := p.expectSym(")"); err != nil {
				return nil, err
			}
		}
		if st.cols == nil && p.acceptKw("set") {
			// INSERT INTO t SET c = v, ... [ON DUPLICATE KEY UPDATE ...] (c04.go)
			var row []operand
			if st.cols, row, err = p.assignments(); err != nil {
				return nil, err
			}
			st.rows = [][]operand{row}
			if err := p.onDuplicate(st); err != nil {
				return nil, err
			}
			return finish()
		}
		if !p.acceptKw("values") && !p.acceptKw("value") {
			return nil, sqlErr("expected VALUES")
		}
		for {
			if err := p.expectSym("("); err != nil {
				return nil, err
			}
			var row []operand
			for {
				o, err := p.operand()
				if err != nil {
					return nil, err
				}
				if o.kind != "lit" {
					return nil, sqlErr("only literals and placeholders are supported in VALUES")
				}
				row = append(row, o)
				if !p.acceptSym(",") {
					break
				}
			}
			if err := p.expectSym(")"); err != nil {
				return nil, err
			}
			st.rows = append(st.rows, row)
			if !p.acceptSym(",") {
				break
			}
		}
		if err := p.onDuplicate(st); err != nil {
			return nil, err
		}
		return finish()
	case p.acceptKw("update"):
		st.kind = "update"
		if st.table, err = p.qident(); err != nil {
			return nil, err
		}
		if err := p.expectKw("set"); err != nil {
			return nil, err
		}
		for {
			c, err := p.qident()
			if err != nil {
				return nil, err
			}
			if err := p.expectSym("="); err != nil {
				return nil, err
			}
			o, err := p.operand()
			if err != nil {
				return nil, err
			}
			if o.kind != "lit" {
				return nil, sqlErr("only literals and placeholders are supported in SET")
			}
			st.set = append(st.set, c)
			st.setVals = append(st.setVals, o)
			if !p.acceptSym(",") {
				break
			}
		}
		if p.acceptKw("where") {
			if st.where, err = p.condOr(); err != nil {
				return nil, err
			}
		}
		return finish()
	case p.acceptKw("delete"):
		st.kind = "delete"
		if err := p.expectKw("from"); err != nil {
			return nil, err
		}
		if st.table, err = p.qident(); err != nil {
			return nil, err
		}
		if p.acceptKw("where") {
			if st.where, err = p.condOr(); err != nil {
				return nil, err
			}
		}
		return finish()
	case p.acceptKw("select"):
		st.kind = "select"
		if p.acceptSym("*") {
			st.star = true
		} else if p.qualifiedStar() {
			st.star = true
		} else {
			for {
				c, err := p.qident()
				if err != nil {
					return nil, err
				}
				it := selItem{col: c}
				if p.acceptKw("as") {
					if it.alias, err = p.ident(); err != nil {
						return nil, err
					}
				} else if t := p.peek(); t.kind == tIdent && !p.isKw("from") {
					it.alias = t.s
					p.pos++
				}
				st.sel = append(st.sel, it)
				if !p.acceptSym(",") {
					break
				}
			}
		}
		if !p.acceptKw("from") {
			// SELECT without FROM (SELECT 1, SELECT @@version ...) is not interpreted
			return &parsedStmt{kind: "other"}, nil
		}
		if st.table, err = p.qident(); err != nil {
			return nil, err
		}
		// optional table alias
		if t := p.peek(); t.kind == tIdent && !p.isKw("where") {
			p.acceptKw("as")
			st.alias = p.peek().s
			p.pos++
		}
		if p.acceptKw("where") {
			if st.where, err = p.condOr(); err != nil {
				return nil, err
			}
		}
		return finish()
	}
	return st, nil
}

// ---------------------------------------------------------------------------------------------
// evaluation

type evalCtx struct {
	params []Param
}

// resolved literal: null or (bytes, isInt)
type rval struct {
	null  bool
	b     []byte
	isInt bool
}

func (e *evalCtx) resolve(o operand) (rval, error) {
	switch o.lit {
	case lNull:
		return rval{null: true}, nil
	case lInt:
		return rval{b: o.b, isInt: true}, nil
	case lStr, lBytes:
		return rval{b: o.b}, nil
	case lParam:
		if o.param >= len(e.params) {
			return rval{}, sqlErr("no value for placeholder %d", o.param+1)
		}
		p := e.params[o.param]
		if p.Null || p.Type == TypeNull {
			return rval{null: true}, nil
		}
		switch p.Type {
		case TypeTiny, TypeShort, TypeYear, TypeLong, TypeInt24, TypeLongLong:
			v, err := IntFromBytes(p.B)
			if err != nil {
				return rval{}, sqlErr("placeholder %d: %v", o.param+1, err)
			}
			if p.Unsigned {
				switch len(p.B) {
				case 1:
					v = int64(uint8(v))
				case 2:
					v = int64(uint16(v))
				case 4:
					v = int64(uint32(v))
				case 8:
					return rval{b: []byte(strconv.FormatUint(uint64(v), 10)), isInt: true}, nil
				}
			}
			return rval{b: []byte(strconv.FormatInt(v, 10)), isInt: true}, nil
		}
		return rval{b: p.B}, nil
	}
	return rval{}, sqlErr("unsupported value")
}

// toColumn converts a resolved value to the canonical stored form of a column type.
func toColumn(v rval, t ColType) (Value, error) {
	if v.null {
		return Value{Null: true}, nil
	}
	if t.IsInt() {
		s := strings.TrimSpace(string(v.b))
		bits := 32
		if t == BigInt {
			bits = 64
		}
		n, err := strconv.ParseInt(s, 10, bits)
		if err != nil {
			return Value{}, &ErrSQL{Code: 1366, Msg: fmt.Sprintf("Incorrect integer value: '%.40s'", s)}
		}
		return Value{B: []byte(strconv.FormatInt(n, 10))}, nil
	}
	return Value{B: append([]byte{}, v.b...)}, nil
}

func (s *Store) evalOperand(e *evalCtx, t *table, row []Value, o operand, hint ColType, haveHint bool) (Value, ColType, bool, error) {
	switch o.kind {
	case "col":
		i := t.col(o.col)
		if i < 0 {
			return Value{}, 0, false, &ErrSQL{Code: 1054, Msg: fmt.Sprintf("Unknown column '%s' in 'where clause'", o.col)}
		}
		return row[i], t.def.Cols[i].Type, true, nil
	case "substr":
		i := t.col(o.col)
		if i < 0 {
			return Value{}, 0, false, &ErrSQL{Code: 1054, Msg: fmt.Sprintf("Unknown column '%s' in 'where clause'", o.col)}
		}
		v := row[i]
		if v.Null {
			return v, Blob, true, nil
		}
		b := v.B
		from := o.from - 1
		if from < 0 || from > len(b) {
			return Value{B: []byte{}}, Blob, true, nil
		}
		b = b[from:]
		if o.length < len(b) {
			b = b[:max(o.length, 0)]
		}
		return Value{B: b}, Blob, true, nil
	}
	rv, err := e.resolve(o)
	if err != nil {
		return Value{}, 0, false, err
	}
	if haveHint {
		v, err := toColumn(rv, hint)
		if err != nil {
			// a value that does not convert never equals
			return Value{Null: true}, hint, false, nil
		}
		return v, hint, false, nil
	}
	if rv.null {
		return Value{Null: true}, Blob, false, nil
	}
	return Value{B: rv.b}, Blob, false, nil
}

func (s *Store) evalCond(e *evalCtx, t *table, row []Value, c *cond) (bool, error) {
	if c == nil {
		return true, nil
	}
	switch c.op {
	case "and", "or":
		l, err := s.evalCond(e, t, row, c.l)
		if err != nil {
			return false, err
		}
		r, err := s.evalCond(e, t, row, c.r)
		if err != nil {
			return false, err
		}
		if c.op == "and" {
			return l && r, nil
		}
		return l || r, nil
	case "isnull", "notnull":
		v, _, _, err := s.evalOperand(e, t, row, c.a, 0, false)
		if err != nil {
			return false, err
		}
		return v.Null == (c.op == "isnull"), nil
	}
	// comparison: the column side (if any) gives the type the literal side is converted to
	var hint ColType
	haveHint := false
	for _, o := range []operand{c.a, c.b} {
		if o.kind == "col" {
			if i := t.col(o.col); i >= 0 {
				hint, haveHint = t.def.Cols[i].Type, true
			}
		} else if o.kind == "substr" {
			hint, haveHint = Blob, true
		}
	}
	a, _, _, err := s.evalOperand(e, t, row, c.a, hint, haveHint)
	if err != nil {
		return false, err
	}
	b, _, _, err := s.evalOperand(e, t, row, c.b, hint, haveHint)
	if err != nil {
		return false, err
	}
	if a.Null || b.Null {
		return false, nil
	}
	eq := bytes.Equal(a.B, b.B)
	if c.op == "=" {
		return eq, nil
	}
	return !eq, nil
}

// Field of a result.
type Field struct {
	Name    string // name shown to the client (alias)
	OrgName string
	Table   string
	Type    ColType
	// TableAlias, when set, is sent in the table field of the column definition (Table stays org_table)
	TableAlias string
}

// Result of executing one statement.
type Result struct {
	Fields       []Field
	Rows         [][]Value // canonical values
	Affected     uint64
	LastInsertID uint64
	Info         string
}

// Prepared is a parsed statement.
type Prepared struct {
	SQL     string
	st      *parsedStmt
	NParams int
}

// Prepare parses a statement.
func (s *Store) Prepare(sql string) (*Prepared, error) {
	st, err := parseSQL(sql)
	if err != nil {
		return nil, err
	}
	if st.kind != "other" {
		s.mu.Lock()
		_, ok := s.tables[strings.ToLower(st.table)]
		s.mu.Unlock()
		if !ok {
			return nil, &ErrSQL{Code: 1146, Msg: fmt.Sprintf("Table '%s.%s' doesn't exist", s.Schema, st.table)}
		}
	}
	return &Prepared{SQL: sql, st: st, NParams: st.nParams}, nil
}

// Describe returns the result fields of a prepared statement (nil when it returns no rows).
func (s *Store) Describe(p *Prepared) ([]Field, error) {
	if p.st.kind != "select" {
		return nil, nil
	}
	s.mu.Lock()
	defer s.mu.Unlock()
	t := s.tables[strings.ToLower(p.st.table)]
	_, fields, err := s.selection(t, p.st)
	return fields, err
}

func (s *Store) selection(t *table, st *parsedStmt) (idx []int, fields []Field, err error) {
	if s.AliasInFields && st.alias != "" {
		defer func() {
			for i := range fields {
				fields[i].TableAlias = st.alias
			}
		}()
	}
	if st.star {
		for i, c := range t.def.Cols {
			idx = append(idx, i)
			fields = append(fields, Field{Name: c.Name, OrgName: c.Name, Table: t.def.Name, Type: c.Type})
		}
		return idx, fields, nil
	}
	for _, it := range st.sel {
		i := t.col(it.col)
		if i < 0 {
			return nil, nil, &ErrSQL{Code: 1054, Msg: fmt.Sprintf("Unknown column '%s' in 'field list'", it.col)}
		}
		name := t.def.Cols[i].Name
		if it.alias != "" {
			name = it.alias
		}
		idx = append(idx, i)
		fields = append(fields, Field{Name: name, OrgName: t.def.Cols[i].Name, Table: t.def.Name, Type: t.def.Cols[i].Type})
	}
	return idx, fields, nil
}

// Exec runs a prepared statement with the given parameters.
func (s *Store) Exec(p *Prepared, params []Param) (*Result, error) {
	st := p.st
	if st.kind == "other" {
		return &Result{}, nil
	}
	if len(params) < st.nParams {
		return nil, sqlErr("statement needs %d parameters, %d given", st.nParams, len(params))
	}
	s.mu.Lock()
	defer s.mu.Unlock()
	t := s.tables[strings.ToLower(st.table)]
	if t == nil {
		return nil, &ErrSQL{Code: 1146, Msg: fmt.Sprintf("Table '%s.%s' doesn't exist", s.Schema, st.table)}
	}
	e := &evalCtx{params: params}
	switch st.kind {
	case "insert":
		var cols []int
		if st.cols == nil {
			for i := range t.def.Cols {
				cols = append(cols, i)
			}
		} else {
			for _, c := range st.cols {
				i := t.col(c)
				if i < 0 {
					return nil, &ErrSQL{Code: 1054, Msg: fmt.Sprintf("Unknown column '%s' in 'field list'", c)}
				}
				cols = append(cols, i)
			}
		}
		var added [][]Value
		for ri, tuple := range st.rows {
			if len(tuple) != len(cols) {
				return nil, &ErrSQL{Code: 1136, Msg: fmt.Sprintf("Column count doesn't match value count at row %d", ri+1)}
			}
			row := make([]Value, len(t.def.Cols))
			for i := range row {
				row[i] = Value{Null: true}
			}
			for i, o := range tuple {
				rv, err := e.resolve(o)
				if err != nil {
					return nil, err
				}
				v, err := toColumn(rv, t.def.Cols[cols[i]].Type)
				if err != nil {
					return nil, err
				}
				row[cols[i]] = v
			}
			added = append(added, row)
		}
		if t.def.Key != "" {
			return s.insertKeyed(e, t, st, added)
		}
		t.rows = append(t.rows, added...)
		return &Result{Affected: uint64(len(added))}, nil
	case "update":
		var n uint64
		for ri, row := range t.rows {
			ok, err := s.evalCond(e, t, row, st.where)
			if err != nil {
				return nil, err
			}
			if !ok {
				continue
			}
			nr := append([]Value(nil), row...)
			for i, c := range st.set {
				ci := t.col(c)
				if ci < 0 {
					return nil, &ErrSQL{Code: 1054, Msg: fmt.Sprintf("Unknown column '%s' in 'field list'", c)}
				}
				rv, err := e.resolve(st.setVals[i])
				if err != nil {
					return nil, err
				}
				v, err := toColumn(rv, t.def.Cols[ci].Type)
				if err != nil {
					return nil, err
				}
				nr[ci] = v
			}
			t.rows[ri] = nr
			n++
		}
		return &Result{Affected: n, Info: fmt.Sprintf("Rows matched: %d  Changed: %d  Warnings: 0", n, n)}, nil
	case "delete":
		var keep [][]Value
		var n uint64
		for _, row := range t.rows {
			ok, err := s.evalCond(e, t, row, st.where)
			if err != nil {
				return nil, err
			}
			if ok {
				n++
			} else {
				keep = append(keep, row)
			}
		}
		t.rows = keep
		return &Result{Affected: n}, nil
	case "select":
		idx, fields, err := s.selection(t, st)
		if err != nil {
			return nil, err
		}
		res := &Result{Fields: fields}
		for _, row := range t.rows {
			ok, err := s.evalCond(e, t, row, st.where)
			if err != nil {
				return nil, err
			}
			if !ok {
				continue
			}
			out := make([]Value, len(idx))
			for i, ci := range idx {
				out[i] = row[ci]
			}
			res.Rows = append(res.Rows, out)
		}
		return res, nil
	}
	return &Result{}, nil
}

// WireValue renders a canonical value of a column type for the text or the binary protocol.
func WireValue(v Value, t ColType, binaryProto bool) Value {
	if v.Null {
		return v
	}
	if binaryProto && t.IsInt() {
		n, _ := strconv.ParseInt(string(v.B), 10, 64)
		typ, _, _, _ := t.WireType()
		return Value{B: IntBytes(typ, n)}
	}
	return v
}

// ---------------------------------------------------------------------------------------------
// inspection (for oracles that need the meaning of a statement the database received)

// Lit is a literal or placeholder of an inspected statement.
type Lit struct {
	Kind string // null | int | str | bytes | param
	B    []byte // integer text / string bytes / decoded hex bytes
}

// Statement is the meaning of a parsed INSERT / UPDATE / SELECT / DELETE (Kind "other" for anything else).
type Statement struct {
	Kind    string
	Table   string
	Cols    []string // INSERT column list / SELECT items / UPDATE SET columns
	Star    bool
	Rows    [][]Lit // INSERT tuples; UPDATE: one row with the SET values
	NParams int
}

func litOf(o operand) Lit {
	switch o.lit {
	case lNull:
		return Lit{Kind: "null"}
	case lInt:
		return Lit{Kind: "int", B: o.b}
	case lStr:
		return Lit{Kind: "str", B: o.b}
	case lBytes:
		return Lit{Kind: "bytes", B: o.b}
	}
	return Lit{Kind: "param"}
}

// Inspect parses sql with the fake database's own parser and returns its meaning.
func Inspect(sql string) (*Statement, error) {
	st, err := parseSQL(sql)
	if err != nil {
		return nil, err
	}
	out := &Statement{Kind: st.kind, Table: st.table, Star: st.star, NParams: st.nParams}
	switch st.kind {
	case "insert":
		out.Cols = st.cols
		for _, r := range st.rows {
			var row []Lit
			for _, o := range r {
				row = append(row, litOf(o))
			}
			out.Rows = append(out.Rows, row)
		}
	case "update":
		out.Cols = st.set
		var row []Lit
		for _, o := range st.setVals {
			row = append(row, litOf(o))
		}
		out.Rows = [][]Lit{row}
	case "select":
		for _, it := range st.sel {
			out.Cols = append(out.Cols, it.col)
		}
	}
	return out, nil
}
