package mysess

import (
	"errors"
	"net"
	"sync"
)

// Received is one statement-carrying command the fake database got.
type Received struct {
	Kind   string // "Q" COM_QUERY, "P" COM_STMT_PREPARE, "X" COM_STMT_EXECUTE
	SQL    string
	StmtID uint32
	Params []Param
	Raw    []byte // the command payload as received
}

type srvStmt struct {
	p     *Prepared
	types []Param
}

// FakeServer speaks the server side of the protocol over the typed store.
type FakeServer struct {
	conn  net.Conn
	Store *Store
	Caps  uint32 // advertised capabilities
	// Effective are the capabilities after the handshake (what the client answered).
	Effective uint32

	mu       sync.Mutex
	received []Received
	stmts    map[uint32]*srvStmt
	nextID   uint32

	// Hook, when set, can replace the answer to a COM_QUERY / COM_STMT_EXECUTE (used to plant arbitrary result sets).
	Hook func(sql string) (*Result, bool)
	// PrepareHook, when set, can describe a statement of COM_STMT_PREPARE the store's own parser does not take (joins,
	// sub-queries: C09); its executions are then answered by Hook (the bound parameters are in Received()).
	PrepareHook func(sql string) (nparams int, fields []Field, ok bool)

	// sqlSess: statements of the SQL syntax for prepared statements and user variables of this connection (sqlprepare.go)
	sqlSess *sqlSession
}

func newFakeServer(conn net.Conn, store *Store, caps uint32) *FakeServer {
	return &FakeServer{conn: conn, Store: store, Caps: caps, stmts: map[uint32]*srvStmt{}, nextID: 1}
}

// Received returns the statement-carrying commands received so far.
func (f *FakeServer) Received() []Received {
	f.mu.Lock()
	defer f.mu.Unlock()
	return append([]Received(nil), f.received...)
}

func (f *FakeServer) note(r Received) {
	f.mu.Lock()
	f.received = append(f.received, r)
	f.mu.Unlock()
}

type pktWriter struct {
	conn net.Conn
	seq  byte
	buf  []byte
}

func (w *pktWriter) add(payload []byte) { w.buf, w.seq = AppendPacket(w.buf, w.seq, payload) }
func (w *pktWriter) flush() error {
	_, err := w.conn.Write(w.buf)
	w.buf = w.buf[:0]
	return err
}

// FieldDef renders the column definition of a result field.
func FieldDef(schema string, f Field) ColumnDef {
	typ, cs, fl, ln := f.Type.WireType()
	org := f.OrgName
	if org == "" {
		org = f.Name
	}
	tbl := f.Table
	if f.TableAlias != "" {
		tbl = f.TableAlias
	}
	return ColumnDef{Schema: schema, Table: tbl, OrgTable: f.Table, Name: f.Name, OrgName: org, Charset: cs, Length: ln, Type: typ, Flags: fl}
}

func (f *FakeServer) status() uint16 { return StatusAutocommit }

func (f *FakeServer) sendResult(w *pktWriter, res *Result, binaryProto bool) {
	caps := f.Effective
	if len(res.Fields) == 0 {
		w.add(OK{AffectedRows: res.Affected, LastInsertID: res.LastInsertID, Status: f.status(), Info: []byte(res.Info)}.Encode(caps))
		return
	}
	w.add(AppendLenEncInt(nil, uint64(len(res.Fields))))
	types := make([]byte, len(res.Fields))
	for i, fd := range res.Fields {
		cd := FieldDef(f.Store.Schema, fd)
		types[i] = cd.Type
		w.add(cd.Encode())
	}
	if caps&CapDeprecateEOF == 0 {
		w.add(EOF{Status: f.status()}.Encode(caps))
	}
	for _, row := range res.Rows {
		vals := make([]Value, len(row))
		for i, v := range row {
			vals[i] = WireValue(v, res.Fields[i].Type, binaryProto)
		}
		if binaryProto {
			w.add(EncodeBinaryRow(types, vals))
		} else {
			w.add(EncodeTextRow(vals))
		}
	}
	if caps&CapDeprecateEOF != 0 {
		w.add(OK{Header: 0xfe, Status: f.status()}.Encode(caps))
	} else {
		w.add(EOF{Status: f.status()}.Encode(caps))
	}
}

func (f *FakeServer) sendErr(w *pktWriter, err error) {
	e := Err{Code: 1064, State: "42000", Message: err.Error()}
	var se *ErrSQL
	if errors.As(err, &se) {
		e.Code = se.Code
		switch se.Code {
		case 1146:
			e.State = "42S02"
		case 1054:
			e.State = "42S22"
		case 1366:
			e.State = "HY000"
		case 1136:
			e.State = "21S01"
		}
	}
	w.add(e.Encode(f.Effective))
}

func (f *FakeServer) serve() {
	defer f.conn.Close()
	hs := Handshake{ServerVersion: "8.0.33-verif", ConnID: 4242, AuthData: []byte("abcdefghijklmnopqrst"), Caps: f.Caps, Charset: 45,
		Status: StatusAutocommit, AuthPlugin: "mysql_native_password"}
	b, _ := AppendPacket(nil, 0, hs.Encode())
	if _, err := f.conn.Write(b); err != nil {
		return
	}
	p, err := ReadPacket(f.conn)
	if err != nil {
		return
	}
	resp, err := DecodeHandshakeResponse(p.Payload)
	if err != nil {
		w := &pktWriter{conn: f.conn, seq: p.Seq + byte(p.Frames)}
		w.add(Err{Code: 1043, State: "08S01", Message: "Bad handshake: " + err.Error()}.Encode(f.Caps))
		w.flush()
		return
	}
	f.Effective = resp.Caps & (f.Caps | CapConnectWithDB)
	w := &pktWriter{conn: f.conn, seq: p.Seq + byte(p.Frames)}
	w.add(OK{Status: f.status()}.Encode(f.Effective))
	if w.flush() != nil {
		return
	}
	for {
		p, err := ReadPacket(f.conn)
		if err != nil {
			return
		}
		if len(p.Payload) == 0 {
			return
		}
		w := &pktWriter{conn: f.conn, seq: p.Seq + byte(p.Frames)}
		cmd, body := p.Payload[0], p.Payload[1:]
		switch cmd {
		case ComQuit:
			return
		case ComPing, ComInitDB, ComResetConn, ComSetOption:
			if cmd == ComSetOption {
				w.add(EOF{Status: f.status()}.Encode(f.Effective))
			} else {
				w.add(OK{Status: f.status()}.Encode(f.Effective))
			}
		case ComQuery:
			sql := string(body)
			f.note(Received{Kind: "Q", SQL: sql, Raw: p.Payload})
			if f.Hook != nil {
				if res, ok := f.Hook(sql); ok {
					f.sendResult(w, res, false)
					break
				}
			}
			// PREPARE / EXECUTE / DEALLOCATE PREPARE / SET @variable (sqlprepare.go)
			if res, handled, err := f.sqlPrepared(sql); handled {
				if err != nil {
					f.sendErr(w, err)
				} else {
					f.sendResult(w, res, false)
				}
				break
			}
			pr, err := f.Store.Prepare(sql)
			var res *Result
			if err == nil {
				res, err = f.Store.Exec(pr, nil)
			}
			if err != nil {
				f.sendErr(w, err)
			} else {
				f.sendResult(w, res, false)
			}
		case ComStmtPrepare:
			sql := string(body)
			f.note(Received{Kind: "P", SQL: sql, Raw: p.Payload})
			pr, err := f.Store.Prepare(sql)
			var fields []Field
			if err == nil {
				fields, err = f.Store.Describe(pr)
			}
			if f.PrepareHook != nil {
				if np, fds, ok := f.PrepareHook(sql); ok {
					pr, fields, err = &Prepared{SQL: sql, st: &parsedStmt{kind: "other", nParams: np}, NParams: np}, fds, nil
				}
			}
			if err != nil {
				f.sendErr(w, err)
				break
			}
			id := f.nextID
			f.nextID++
			f.stmts[id] = &srvStmt{p: pr}
			w.add(PrepareOK{StmtID: id, Columns: uint16(len(fields)), Params: uint16(pr.NParams)}.Encode())
			for i := 0; i < pr.NParams; i++ {
				w.add(ColumnDef{Name: "?", Charset: 63, Type: TypeVarString, Flags: FlagBinary}.Encode())
			}
			if pr.NParams > 0 && f.Effective&CapDeprecateEOF == 0 {
				w.add(EOF{Status: f.status()}.Encode(f.Effective))
			}
			for _, fd := range fields {
				w.add(FieldDef(f.Store.Schema, fd).Encode())
			}
			if len(fields) > 0 && f.Effective&CapDeprecateEOF == 0 {
				w.add(EOF{Status: f.status()}.Encode(f.Effective))
			}
		case ComStmtExecute:
			if len(body) < 4 {
				f.sendErr(w, sqlErr("malformed COM_STMT_EXECUTE"))
				break
			}
			id := uint32(body[0]) | uint32(body[1])<<8 | uint32(body[2])<<16 | uint32(body[3])<<24
			st := f.stmts[id]
			if st == nil {
				f.sendErr(w, &ErrSQL{Code: 1243, Msg: "Unknown prepared statement handler given to mysqld_stmt_execute"})
				break
			}
			ex, err := DecodeExecute(p.Payload, st.p.NParams, st.types)
			if err != nil {
				f.note(Received{Kind: "X", SQL: st.p.SQL, StmtID: id, Raw: p.Payload})
				f.sendErr(w, &ErrSQL{Code: 1210, Msg: "Incorrect arguments to mysqld_stmt_execute: " + err.Error()})
				break
			}
			st.types = ex.Params
			f.note(Received{Kind: "X", SQL: st.p.SQL, StmtID: id, Params: ex.Params, Raw: p.Payload})
			if f.Hook != nil {
				if res, ok := f.Hook(st.p.SQL); ok {
					f.sendResult(w, res, true)
					break
				}
			}
			res, err := f.Store.Exec(st.p, ex.Params)
			if err != nil {
				f.sendErr(w, err)
			} else {
				f.sendResult(w, res, true)
			}
		case ComStmtClose:
			if len(body) >= 4 {
				delete(f.stmts, uint32(body[0])|uint32(body[1])<<8|uint32(body[2])<<16|uint32(body[3])<<24)
			}
			continue // no response
		case ComStmtSendLong:
			continue // no response; long data is not interpreted
		case ComStmtReset:
			w.add(OK{Status: f.status()}.Encode(f.Effective))
		default:
			w.add(Err{Code: 1047, State: "08S01", Message: "Unknown command"}.Encode(f.Effective))
		}
		if w.flush() != nil {
			return
		}
	}
}
