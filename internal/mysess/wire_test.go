package mysess

import (
	"bytes"
	"encoding/hex"
	"strings"
	"testing"
)

func unhex(s string) []byte {
	b, err := hex.DecodeString(strings.ReplaceAll(s, " ", ""))
	if err != nil {
		panic(err)
	}
	return b
}

// byte vectors from the MySQL protocol documentation
func TestDocVectors(t *testing.T) {
	// OK packet of the documentation: 07 00 00 02 | 00 00 00 02 00 00 00
	ok, err := DecodeOK(unhex("00 00 00 02 00 00 00"), CapProtocol41)
	if err != nil || ok.Status != StatusAutocommit || ok.AffectedRows != 0 || ok.Warnings != 0 {
		t.Fatalf("OK: %+v %v", ok, err)
	}
	if got := (OK{Status: StatusAutocommit}).Encode(CapProtocol41); !bytes.Equal(got, unhex("00 00 00 02 00 00 00")) {
		t.Fatalf("OK encode: % x", got)
	}
	// EOF: 05 00 00 05 | fe 00 00 02 00
	eof, err := DecodeEOF(unhex("fe 00 00 02 00"), CapProtocol41)
	if err != nil || eof.Status != 2 || eof.Warnings != 0 {
		t.Fatalf("EOF: %+v %v", eof, err)
	}
	// ERR: ff 48 04 23 48 59 30 30 30 4e 6f 20 74 61 62 6c 65 73 20 75 73 65 64  ("#HY000No tables used", code 1096)
	e, err := DecodeErr(unhex("ff 48 04 23 48 59 30 30 30 4e 6f 20 74 61 62 6c 65 73 20 75 73 65 64"), CapProtocol41)
	if err != nil || e.Code != 1096 || e.State != "HY000" || e.Message != "No tables used" {
		t.Fatalf("ERR: %+v %v", e, err)
	}
	if got := e.Encode(CapProtocol41); !bytes.Equal(got, unhex("ff 48 04 23 48 59 30 30 30 4e 6f 20 74 61 62 6c 65 73 20 75 73 65 64")) {
		t.Fatalf("ERR encode: % x", got)
	}
	// handshake v10 of the documentation (5.5.2-m2, no CLIENT_PLUGIN_AUTH)
	hs := unhex("0a 35 2e 35 2e 32 2d 6d 32 00 0b 00 00 00 64 76 48 40 49 2d 43 4a 00 ff f7 08 02 00 00 00 00 00 00 00 00 00 00 00 00 00 00 2a 34 64 7c 63 5a 77 6b 34 5e 5d 3a 00")
	h, err := DecodeHandshake(hs)
	if err != nil || h.ServerVersion != "5.5.2-m2" || h.ConnID != 11 || h.Caps != 0xf7ff || h.Charset != 8 || h.Status != 2 || string(h.AuthData) != "dvH@I-CJ*4d|cZwk4^]:" {
		t.Fatalf("handshake: %+v %v", h, err)
	}
	if got := h.Encode(); !bytes.Equal(got, hs) {
		t.Fatalf("handshake encode:\n% x\n% x", got, hs)
	}
	// handshake with plugin name (5.6.4-m7-log)
	hs2 := unhex("0a 35 2e 36 2e 34 2d 6d 37 2d 6c 6f 67 00 56 0a 00 00 52 42 33 76 7a 26 47 72 00 ff ff 08 02 00 0f c0 15 00 00 00 00 00 00 00 00 00 00 2b 79 44 26 2f 5a 5a 33 30 35 5a 47 00 6d 79 73 71 6c 5f 6e 61 74 69 76 65 5f 70 61 73 73 77 6f 72 64 00")
	h2, err := DecodeHandshake(hs2)
	if err != nil || h2.AuthPlugin != "mysql_native_password" || h2.Caps != 0xc00fffff || len(h2.AuthData) != 20 {
		t.Fatalf("handshake2: %+v %v", h2, err)
	}
	if got := h2.Encode(); !bytes.Equal(got, hs2) {
		t.Fatalf("handshake2 encode:\n% x\n% x", got, hs2)
	}
	// handshake response 41 of the documentation (user "pam", plugin mysql_native_password, connection attributes)
	hr := unhex("85 a6 ff 01 00 00 00 01 21 00 00 00 00 00 00 00 00 00 00 00 00 00 00 00 00 00 00 00 00 00 00 00 72 6f 6f 74 00 14 00 00 00 00 00 00 00 00 00 00 00 00 00 00 00 00 00 00 00 00 6d 79 73 71 6c 5f 6e 61 74 69 76 65 5f 70 61 73 73 77 6f 72 64 00 12 03 5f 6f 73 05 4c 69 6e 75 78 03 66 6f 6f 03 62 61 72")
	r, err := DecodeHandshakeResponse(hr)
	if err != nil || r.User != "root" || r.AuthPlugin != "mysql_native_password" || len(r.Auth) != 20 || len(r.Attrs) != 2 || r.Attrs[0] != [2]string{"_os", "Linux"} {
		t.Fatalf("handshake response: %+v %v", r, err)
	}
	if got := r.Encode(); !bytes.Equal(got, hr) {
		t.Fatalf("handshake response encode:\n% x\n% x", got, hr)
	}
	// COM_STMT_PREPARE_OK of the documentation: 00 01 00 00 00 01 00 02 00 00 00 00
	p, err := DecodePrepareOK(unhex("00 01 00 00 00 01 00 02 00 00 00 00"))
	if err != nil || p.StmtID != 1 || p.Columns != 1 || p.Params != 2 {
		t.Fatalf("prepare ok: %+v %v", p, err)
	}
	// column definition of the documentation ("@@version_comment")
	cd := unhex("03 64 65 66 00 00 00 11 40 40 76 65 72 73 69 6f 6e 5f 63 6f 6d 6d 65 6e 74 00 0c 08 00 1c 00 00 00 fd 00 00 1f 00 00")
	c, err := DecodeColumnDef(cd)
	if err != nil || c.Name != "@@version_comment" || c.Type != TypeVarString || c.Charset != 8 || c.Length != 28 || c.Decimals != 0x1f {
		t.Fatalf("column def: %+v %v", c, err)
	}
	if got := c.Encode(); !bytes.Equal(got, cd) {
		t.Fatalf("column def encode:\n% x\n% x", got, cd)
	}
	// COM_STMT_EXECUTE of the documentation: 17 01 00 00 00 00 01 00 00 00 00 01 0f 00 03 66 6f 6f
	ex, err := DecodeExecute(unhex("17 01 00 00 00 00 01 00 00 00 00 01 0f 00 03 66 6f 6f"), 1, nil)
	if err != nil || ex.StmtID != 1 || !ex.NewParams || ex.Params[0].Type != TypeVarchar || string(ex.Params[0].B) != "foo" {
		t.Fatalf("execute: %+v %v", ex, err)
	}
	if got := ex.Encode(); !bytes.Equal(got, unhex("17 01 00 00 00 00 01 00 00 00 00 01 0f 00 03 66 6f 6f")) {
		t.Fatalf("execute encode: % x", got)
	}
	// binary row of the documentation: 00 00 03 66 6f 6f  (one VAR_STRING column "foo")... with a NULL first: 00 04 ...
	row, err := DecodeBinaryRow(unhex("00 04 03 66 6f 6f"), []byte{TypeLong, TypeVarString})
	if err != nil || !row[0].Null || string(row[1].B) != "foo" {
		t.Fatalf("binary row: %v %v", row, err)
	}
}

func TestLenEncBoundaries(t *testing.T) {
	for _, c := range []struct {
		v   uint64
		hex string
	}{{0, "00"}, {250, "fa"}, {251, "fc fb 00"}, {65535, "fc ff ff"}, {65536, "fd 00 00 01"}, {1<<24 - 1, "fd ff ff ff"}, {1 << 24, "fe 00 00 00 01 00 00 00 00"}, {1<<64 - 1, "fe ff ff ff ff ff ff ff ff"}} {
		got := AppendLenEncInt(nil, c.v)
		if !bytes.Equal(got, unhex(c.hex)) {
			t.Fatalf("%d: % x", c.v, got)
		}
		v, null, n, canon, err := ReadLenEncInt(append(got, 0xaa))
		if err != nil || null || v != c.v || n != len(got) || !canon {
			t.Fatalf("%d: read %d %v %d %v %v", c.v, v, null, n, canon, err)
		}
	}
	if _, _, _, canon, _ := ReadLenEncInt(unhex("fc fa 00")); canon {
		t.Fatal("fc fa 00 accepted as canonical")
	}
	if _, null, n, _, err := ReadLenEncInt([]byte{0xfb}); !null || n != 1 || err != nil {
		t.Fatal("fb")
	}
	if _, _, _, _, err := ReadLenEncInt([]byte{0xff}); err == nil {
		t.Fatal("ff accepted")
	}
}

func TestFraming(t *testing.T) {
	for _, n := range []int{0, 1, MaxFrame - 1, MaxFrame, MaxFrame + 1, 2*MaxFrame + 5} {
		payload := bytes.Repeat([]byte{7}, n)
		wire, next := AppendPacket(nil, 250, payload)
		frames := n/MaxFrame + 1
		if len(wire) != n+4*frames || next != byte(250+frames) {
			t.Fatalf("n=%d: %d wire bytes, next seq %d", n, len(wire), next)
		}
		p, err := ReadPacket(bytes.NewReader(wire))
		if err != nil || p.Seq != 250 || p.Frames != frames || !bytes.Equal(p.Payload, payload) {
			t.Fatalf("n=%d: read %d frames %v", n, p.Frames, err)
		}
		pk, rest, err := SplitStream(append(wire, 1, 2, 3))
		if err != nil || len(pk) != 1 || len(rest) != 3 || !bytes.Equal(pk[0].Payload, payload) {
			t.Fatalf("n=%d: split %d packets rest %d %v", n, len(pk), len(rest), err)
		}
	}
	// a continuation frame with a wrong sequence id is malformed
	wire, _ := AppendPacket(nil, 0, bytes.Repeat([]byte{1}, MaxFrame+3))
	wire[4+MaxFrame+3] = 9
	if _, err := ReadPacket(bytes.NewReader(wire)); err == nil {
		t.Fatal("wrong continuation sequence id accepted")
	}
}

func TestRowsStrict(t *testing.T) {
	row := []Value{{B: []byte("a")}, {Null: true}, {B: []byte{}}, {B: bytes.Repeat([]byte("x"), 251)}}
	enc := EncodeTextRow(row)
	got, err := DecodeTextRow(enc, 4)
	if err != nil || !got[1].Null || len(got[3].B) != 251 || got[2].Null || len(got[2].B) != 0 {
		t.Fatalf("%v %v", got, err)
	}
	if _, err := DecodeTextRow(append(enc, 0), 4); err == nil {
		t.Fatal("trailing byte accepted")
	}
	if _, err := DecodeTextRow(enc, 5); err == nil {
		t.Fatal("missing column accepted")
	}
	if _, err := DecodeTextRow(unhex("fc 01 00 61"), 1); err == nil {
		t.Fatal("non-canonical prefix accepted")
	}
	types := []byte{TypeLong, TypeBlob, TypeLongLong, TypeDatetime, TypeJSON, TypeTiny}
	brow := []Value{{B: IntBytes(TypeLong, -2)}, {Null: true}, {B: IntBytes(TypeLongLong, 1<<40)}, {B: []byte{0xe4, 7, 1, 2}}, {B: []byte(`{"a":1}`)}, {Null: true}}
	benc := EncodeBinaryRow(types, brow)
	if benc[1] != 1<<3|1<<7 {
		t.Fatalf("bitmap % x", benc[:3])
	}
	bgot, err := DecodeBinaryRow(benc, types)
	if err != nil || !bgot[1].Null || !bgot[5].Null || string(bgot[4].B) != `{"a":1}` {
		t.Fatalf("%v %v", bgot, err)
	}
	if n, _ := IntFromBytes(bgot[0].B); n != -2 {
		t.Fatal(n)
	}
	if _, err := DecodeBinaryRow(append(benc, 0), types); err == nil {
		t.Fatal("trailing byte accepted")
	}
	bad := append([]byte{}, benc...)
	bad[1] |= 1
	if _, err := DecodeBinaryRow(bad, types); err == nil {
		t.Fatal("reserved bitmap bit accepted")
	}
}
