package mysess

import (
	"bytes"
	"context"
	"errors"
	"fmt"
	"io"
	"net"
	"os"
	"runtime/debug"
	"sync"
	"syscall"
	"time"

	acracensor "github.com/cossacklabs/acra/acra-censor"
	"github.com/cossacklabs/acra/crypto"
	"github.com/cossacklabs/acra/decryptor/base"
	"github.com/cossacklabs/acra/decryptor/mysql"
	"github.com/cossacklabs/acra/encryptor/base/config"
	"github.com/cossacklabs/acra/keystore"
	"github.com/cossacklabs/acra/poison"
	"github.com/cossacklabs/acra/pseudonymization"
	tokencommon "github.com/cossacklabs/acra/pseudonymization/common"
	"github.com/cossacklabs/acra/pseudonymization/storage"
	"github.com/cossacklabs/acra/sqlparser"
	mysqldialect "github.com/cossacklabs/acra/sqlparser/dialect/mysql"
)

// clientSession implements base.ClientSession over two socket pairs.
type clientSession struct {
	ctx   context.Context
	c, d  net.Conn
	state interface{}
	mu    sync.Mutex
	data  map[string]interface{}
}

func (s *clientSession) Context() context.Context        { return s.ctx }
func (s *clientSession) ClientConnection() net.Conn      { return s.c }
func (s *clientSession) DatabaseConnection() net.Conn    { return s.d }
func (s *clientSession) ProtocolState() interface{}      { return s.state }
func (s *clientSession) SetProtocolState(st interface{}) { s.state = st }
func (s *clientSession) GetData(k string) (interface{}, bool) {
	s.mu.Lock()
	defer s.mu.Unlock()
	v, ok := s.data[k]
	return v, ok
}
func (s *clientSession) SetData(k string, v interface{}) {
	s.mu.Lock()
	s.data[k] = v
	s.mu.Unlock()
}
func (s *clientSession) DeleteData(k string) {
	s.mu.Lock()
	delete(s.data, k)
	s.mu.Unlock()
}
func (s *clientSession) HasData(k string) bool {
	s.mu.Lock()
	defer s.mu.Unlock()
	_, ok := s.data[k]
	return ok
}

// SocketPair returns two connected stream sockets.
func SocketPair() (net.Conn, net.Conn, error) {
	fds, err := syscall.Socketpair(syscall.AF_UNIX, syscall.SOCK_STREAM, 0)
	if err != nil {
		return nil, nil, err
	}
	f0, f1 := os.NewFile(uintptr(fds[0]), "a"), os.NewFile(uintptr(fds[1]), "b")
	defer f0.Close()
	defer f1.Close()
	c0, err := net.FileConn(f0)
	if err != nil {
		return nil, nil, err
	}
	c1, err := net.FileConn(f1)
	if err != nil {
		c0.Close()
		return nil, nil, err
	}
	return c0, c1, nil
}

// Config of one proxied session.
type Config struct {
	SchemaYAML string
	KeyStore   keystore.ServerKeyStore
	ClientID   []byte // identity of the connection
	Censor     *acracensor.AcraCensor
	Callbacks  base.PoisonRecordCallbackStorage
	Tokenizer  tokencommon.Pseudoanonymizer
	Tables     []TableDef
	Store      *Store // optional: reuse a store across sessions (reader with another identity)
	Timeout    time.Duration
	ParserMode sqlparser.Mode
	// DBHandler, when set, replaces the typed fake database: it is handed the database end of the proxy's
	// connection (already tapped) and plays the MySQL server itself, starting with the initial handshake.
	// Session.DB is nil then; use Session.DBStreams().
	DBHandler func(conn net.Conn)
	// ClientCaps are the capabilities the scripted client asks for (0 = DefaultCaps); it sends the
	// intersection with what the server advertised, as real clients do. ServerCaps are the capabilities the
	// typed fake database advertises (0 = DefaultCaps|DEPRECATE_EOF|SESSION_TRACK); ignored with DBHandler.
	ClientCaps uint32
	ServerCaps uint32
	// NoHandshake makes Start return right after wiring: the caller plays the connection phase itself with
	// ReadPacket / SendPacket (C12 generates it).
	NoHandshake bool
	User        string
	Database    string
	// Settle is a pause before every command of the typed client API. acra's MySQL proxy lets the tail of a
	// response overwrite the response handler of the next command (C12 finding, proposed fix
	// 10-mysql-response-handler-race): on a tree without that fix a client that sends its next command
	// immediately gets a result set relayed unprocessed now and then; a few milliseconds avoid it.
	Settle time.Duration
}

// ErrTimeout marks an I/O deadline hit: the case is inconclusive, never a violation by itself.
var ErrTimeout = errors.New("session i/o deadline exceeded (inconclusive)")

// ErrClosed is returned when the proxy closed the client connection.
var ErrClosed = errors.New("connection closed by the proxy")

type panics struct {
	mu   sync.Mutex
	list []string
	errs []string
}

func (p *panics) add(s string) {
	p.mu.Lock()
	p.list = append(p.list, s)
	p.mu.Unlock()
}

type tap struct {
	net.Conn
	mu   sync.Mutex
	sent bytes.Buffer
	recv bytes.Buffer
	off  bool
}

func (t *tap) Write(b []byte) (int, error) {
	n, err := t.Conn.Write(b)
	t.mu.Lock()
	if !t.off {
		t.sent.Write(b[:n])
	}
	t.mu.Unlock()
	return n, err
}

func (t *tap) Read(b []byte) (int, error) {
	n, err := t.Conn.Read(b)
	t.mu.Lock()
	if !t.off {
		t.recv.Write(b[:n])
	}
	t.mu.Unlock()
	return n, err
}

// Session is a running proxy between the scripted client and the fake database.
type Session struct {
	pan       *panics
	clientEnd net.Conn
	dbEnd     net.Conn
	acraC     net.Conn
	acraD     net.Conn
	DB        *FakeServer
	timeout   time.Duration
	closed    bool
	clientTap *tap
	dbTap     *tap
	// Caps are the capabilities in effect after the handshake (client's answer), ServerCaps what the
	// server advertised.
	Caps       uint32
	ServerCaps uint32
	Greeting   Handshake
	stmtTypes  map[uint32][]Param
	settle     time.Duration
}

var registryOnce sync.Once

// Start builds the proxy exactly as acra-server does (proxy factory, both loops under a recover that
// closes the session, the session closed on the first proxy error), connects both ends and - unless
// cfg.NoHandshake - performs the connection phase.
func Start(cfg Config) (*Session, error) {
	if cfg.Timeout == 0 {
		cfg.Timeout = 20 * time.Second
	}
	// process-global: the MySQL proxy parses with the default dialect
	sqlparser.SetDefaultDialect(mysqldialect.NewMySQLDialect())
	if cfg.KeyStore != nil {
		var rerr error
		registryOnce.Do(func() { rerr = crypto.InitRegistry(cfg.KeyStore) })
		if rerr != nil {
			return nil, rerr
		}
	}
	schema, err := config.MapTableSchemaStoreFromConfig([]byte(cfg.SchemaYAML), true)
	if err != nil {
		return nil, fmt.Errorf("schema config rejected: %w", err)
	}
	tok := cfg.Tokenizer
	if tok == nil {
		ts, err := storage.NewMemoryTokenStorage()
		if err != nil {
			return nil, err
		}
		tok, err = pseudonymization.NewPseudoanonymizer(ts)
		if err != nil {
			return nil, err
		}
	}
	censor := cfg.Censor
	if censor == nil {
		censor = acracensor.NewAcraCensor()
	}
	callbacks := cfg.Callbacks
	if callbacks == nil {
		callbacks = poison.NewCallbackStorage()
	}
	setting := base.NewProxySetting(sqlparser.New(cfg.ParserMode), schema, cfg.KeyStore, nil, censor, callbacks)
	factory, err := mysql.NewProxyFactory(setting, cfg.KeyStore, tok)
	if err != nil {
		return nil, err
	}
	clientEnd, acraClient, err := SocketPair()
	if err != nil {
		return nil, err
	}
	acraDB, dbEnd, err := SocketPair()
	if err != nil {
		return nil, err
	}
	cs := &clientSession{c: acraClient, d: acraDB, data: map[string]interface{}{}}
	cs.ctx = base.SetClientSessionToContext(context.Background(), cs)
	ac := base.NewAccessContext(base.WithClientID(cfg.ClientID))
	proxy, err := factory.New(cfg.ClientID, cs)
	if err != nil {
		return nil, err
	}
	proxy.AddClientIDObserver(ac)
	cs.ctx = base.SetAccessContextToContext(cs.ctx, ac)
	errCh := make(chan base.ProxyError)
	pan := &panics{}
	closeBoth := func() {
		acraClient.Close()
		acraDB.Close()
	}
	// acra-server runs both loops under recoverConnection: a panic is logged and the session closed
	guard := func(name string, f func()) {
		defer func() {
			if p := recover(); p != nil {
				pan.add(fmt.Sprintf("%s: %v\n%s", name, p, debug.Stack()))
				closeBoth()
			}
		}()
		f()
	}
	go guard("ProxyClientConnection", func() { proxy.ProxyClientConnection(cs.ctx, errCh) })
	go guard("ProxyDatabaseConnection", func() { proxy.ProxyDatabaseConnection(cs.ctx, errCh) })
	// ... and closes the session when the first of them reports an error (handleClientSession)
	go func() {
		for i := 0; i < 2; i++ {
			select {
			case pe := <-errCh:
				pan.mu.Lock()
				pan.errs = append(pan.errs, fmt.Sprintf("%s: %v", pe.InterruptSide(), errors.Unwrap(pe)))
				pan.mu.Unlock()
				closeBoth()
			case <-time.After(10 * time.Minute):
				return
			}
		}
	}()

	dbTap := &tap{Conn: dbEnd}
	ct := &tap{Conn: clientEnd}
	s := &Session{pan: pan, clientEnd: clientEnd, dbEnd: dbEnd, acraC: acraClient, acraD: acraDB, timeout: cfg.Timeout,
		clientTap: ct, dbTap: dbTap, stmtTypes: map[uint32][]Param{}, settle: cfg.Settle}
	if cfg.DBHandler != nil {
		go cfg.DBHandler(dbTap)
	} else {
		store := cfg.Store
		if store == nil {
			store = NewStore(cfg.Tables)
		}
		sc := cfg.ServerCaps
		if sc == 0 {
			sc = DefaultCaps | CapDeprecateEOF | CapSessionTrack
		}
		s.DB = newFakeServer(dbTap, store, sc)
		go s.DB.serve()
	}
	if cfg.NoHandshake {
		return s, nil
	}
	if err := s.handshake(cfg); err != nil {
		s.Close()
		return nil, fmt.Errorf("connection phase: %w", err)
	}
	return s, nil
}

func (s *Session) handshake(cfg Config) error {
	p, err := s.ReadPacket()
	if err != nil {
		return err
	}
	hs, err := DecodeHandshake(p.Payload)
	if err != nil {
		return err
	}
	s.Greeting = hs
	s.ServerCaps = hs.Caps
	want := cfg.ClientCaps
	if want == 0 {
		want = DefaultCaps
	}
	caps := want & hs.Caps
	if cfg.Database == "" {
		caps &^= CapConnectWithDB
	}
	user := cfg.User
	if user == "" {
		user = "verif"
	}
	resp := HandshakeResponse{Caps: caps, MaxPacket: 1 << 24, Charset: 45, User: user, Auth: bytes.Repeat([]byte{0x5a}, 20),
		Database: cfg.Database, AuthPlugin: "mysql_native_password", Attrs: [][2]string{{"_client_name", "verif"}}}
	if err := s.SendPacket(p.Seq+1, resp.Encode()); err != nil {
		return err
	}
	s.Caps = caps
	rp, err := s.ReadPacket()
	if err != nil {
		return err
	}
	if len(rp.Payload) == 0 || rp.Payload[0] != 0 {
		return fmt.Errorf("server answered the handshake response with % x", rp.Payload)
	}
	return nil
}

// Panics returns the panics recovered in the proxy's connection loops (acra-server's recoverConnection
// would have logged them and closed the session).
func (s *Session) Panics() []string {
	s.pan.mu.Lock()
	defer s.pan.mu.Unlock()
	return append([]string(nil), s.pan.list...)
}

// ProxyErrors returns the errors the proxy's loops reported (after the first one acra-server closes the
// session, and so does this harness).
func (s *Session) ProxyErrors() []string {
	s.pan.mu.Lock()
	defer s.pan.mu.Unlock()
	return append([]string(nil), s.pan.errs...)
}

// DBStreams returns the raw bytes the database end received from and sent to the proxy.
func (s *Session) DBStreams() (recv, sent []byte) {
	s.dbTap.mu.Lock()
	defer s.dbTap.mu.Unlock()
	return append([]byte(nil), s.dbTap.recv.Bytes()...), append([]byte(nil), s.dbTap.sent.Bytes()...)
}

// ClientStreams returns the raw bytes the client sent and received so far.
func (s *Session) ClientStreams() (sent, recv []byte) {
	s.clientTap.mu.Lock()
	defer s.clientTap.mu.Unlock()
	return append([]byte(nil), s.clientTap.sent.Bytes()...), append([]byte(nil), s.clientTap.recv.Bytes()...)
}

// StreamLens returns the lengths of the four tapped streams without copying them.
func (s *Session) StreamLens() (clientSent, clientRecv, dbRecv, dbSent int) {
	s.clientTap.mu.Lock()
	clientSent, clientRecv = s.clientTap.sent.Len(), s.clientTap.recv.Len()
	s.clientTap.mu.Unlock()
	s.dbTap.mu.Lock()
	dbRecv, dbSent = s.dbTap.recv.Len(), s.dbTap.sent.Len()
	s.dbTap.mu.Unlock()
	return
}

// StopTaps stops recording (for long-lived sessions, e.g. fuzz workers) and drops what was recorded.
func (s *Session) StopTaps() {
	for _, t := range []*tap{s.clientTap, s.dbTap} {
		t.mu.Lock()
		t.off = true
		t.sent.Reset()
		t.recv.Reset()
		t.mu.Unlock()
	}
}

// Close tears the session down.
func (s *Session) Close() {
	if s.closed {
		return
	}
	s.closed = true
	s.clientEnd.Close()
	s.dbEnd.Close()
	s.acraC.Close()
	s.acraD.Close()
}

func (s *Session) ioErr(err error) error {
	if err == nil {
		return nil
	}
	var ne net.Error
	if errors.As(err, &ne) && ne.Timeout() {
		return ErrTimeout
	}
	if errors.Is(err, io.EOF) || errors.Is(err, io.ErrUnexpectedEOF) || errors.Is(err, syscall.ECONNRESET) || errors.Is(err, syscall.EPIPE) || errors.Is(err, net.ErrClosed) {
		return fmt.Errorf("%w (%v)", ErrClosed, err)
	}
	return err
}

// SendRaw writes raw bytes on the client connection.
func (s *Session) SendRaw(b []byte) error {
	s.clientEnd.SetDeadline(time.Now().Add(s.timeout))
	_, err := s.clientTap.Write(b)
	return s.ioErr(err)
}

// SendPacket frames payload (splitting at 2^24-1) starting at sequence id seq and sends it.
func (s *Session) SendPacket(seq byte, payload []byte) error {
	b, _ := AppendPacket(make([]byte, 0, len(payload)+4+4*(len(payload)/MaxFrame)), seq, payload)
	return s.SendRaw(b)
}

// SendCommand sends a command packet (sequence id 0).
func (s *Session) SendCommand(payload []byte) error {
	if s.settle > 0 {
		time.Sleep(s.settle)
	}
	return s.SendPacket(0, payload)
}

// ReadPacket reads one logical packet from the proxy.
func (s *Session) ReadPacket() (Packet, error) {
	s.clientEnd.SetDeadline(time.Now().Add(s.timeout))
	p, err := ReadPacket(s.clientTap)
	return p, s.ioErr(err)
}

// ReadPacketWithin is ReadPacket with its own deadline.
func (s *Session) ReadPacketWithin(d time.Duration) (Packet, error) {
	s.clientEnd.SetDeadline(time.Now().Add(d))
	p, err := ReadPacket(s.clientTap)
	return p, s.ioErr(err)
}

// ---------------------------------------------------------------------------------------------
// typed client API

// ResultSet is one result set (or the OK/ERR that stands for one).
type ResultSet struct {
	OK     *OK
	Err    *Err
	Fields []ColumnDef
	Rows   [][]Value
	Binary bool
	// Status of the packet that ended the result set (EOF or OK)
	Status uint16
}

// Reply is everything the client received for one command.
type Reply struct {
	Sets    []ResultSet
	Packets []Packet // every packet of the reply, in order
}

// First returns the first result set.
func (r *Reply) First() *ResultSet {
	if r == nil || len(r.Sets) == 0 {
		return &ResultSet{}
	}
	return &r.Sets[0]
}

// Error returns the first ERR packet's message, or "".
func (r *Reply) Error() string {
	for _, s := range r.Sets {
		if s.Err != nil {
			return fmt.Sprintf("%d %s", s.Err.Code, s.Err.Message)
		}
	}
	return ""
}

func (s *Session) readResult(binary bool) (*Reply, error) {
	rep := &Reply{}
	for {
		p, err := s.ReadPacket()
		if err != nil {
			return rep, err
		}
		rep.Packets = append(rep.Packets, p)
		b := p.Payload
		if len(b) == 0 {
			return rep, malformed("empty response packet")
		}
		var rs ResultSet
		rs.Binary = binary
		more := false
		switch b[0] {
		case 0x00:
			ok, err := DecodeOK(b, s.Caps)
			if err != nil {
				return rep, err
			}
			rs.OK, rs.Status = &ok, ok.Status
			more = ok.Status&StatusMoreResultsExists != 0
		case 0xff:
			e, err := DecodeErr(b, s.Caps)
			if err != nil {
				return rep, err
			}
			rs.Err = &e
		case 0xfb:
			return rep, malformed("LOCAL INFILE request is not supported by the scripted client")
		default:
			n, _, used, _, err := ReadLenEncInt(b)
			if err != nil || used != len(b) {
				return rep, malformed("column count packet % x", b)
			}
			for i := 0; i < int(n); i++ {
				p, err := s.ReadPacket()
				if err != nil {
					return rep, err
				}
				rep.Packets = append(rep.Packets, p)
				cd, err := DecodeColumnDef(p.Payload)
				if err != nil {
					return rep, fmt.Errorf("column definition %d: %w", i, err)
				}
				rs.Fields = append(rs.Fields, cd)
			}
			if s.Caps&CapDeprecateEOF == 0 {
				p, err := s.ReadPacket()
				if err != nil {
					return rep, err
				}
				rep.Packets = append(rep.Packets, p)
				if _, err := DecodeEOF(p.Payload, s.Caps); err != nil {
					return rep, fmt.Errorf("after column definitions: %w", err)
				}
			}
			types := make([]byte, len(rs.Fields))
			for i, f := range rs.Fields {
				types[i] = f.Type
			}
			for {
				p, err := s.ReadPacket()
				if err != nil {
					return rep, err
				}
				rep.Packets = append(rep.Packets, p)
				if IsResultSetEnd(p.Payload, s.Caps) {
					switch {
					case p.Payload[0] == 0xff:
						e, err := DecodeErr(p.Payload, s.Caps)
						if err != nil {
							return rep, err
						}
						rs.Err = &e
					case s.Caps&CapDeprecateEOF != 0:
						ok, err := DecodeOK(p.Payload, s.Caps)
						if err != nil {
							return rep, err
						}
						rs.Status = ok.Status
					default:
						e, err := DecodeEOF(p.Payload, s.Caps)
						if err != nil {
							return rep, err
						}
						rs.Status = e.Status
					}
					more = rs.Err == nil && rs.Status&StatusMoreResultsExists != 0
					break
				}
				var row []Value
				if binary {
					row, err = DecodeBinaryRow(p.Payload, types)
				} else {
					row, err = DecodeTextRow(p.Payload, len(types))
				}
				if err != nil {
					return rep, fmt.Errorf("row %d: %w", len(rs.Rows), err)
				}
				rs.Rows = append(rs.Rows, row)
			}
		}
		rep.Sets = append(rep.Sets, rs)
		if !more {
			return rep, nil
		}
	}
}

// Query runs COM_QUERY and collects the reply (all result sets).
func (s *Session) Query(sql string) (*Reply, error) {
	if err := s.SendCommand(append([]byte{ComQuery}, sql...)); err != nil {
		return nil, err
	}
	return s.readResult(false)
}

// Stmt is a prepared statement as the client sees it.
type Stmt struct {
	ID      uint32
	Params  []ColumnDef
	Columns []ColumnDef
	Err     *Err
	Packets []Packet
}

// Prepare runs COM_STMT_PREPARE.
func (s *Session) Prepare(sql string) (*Stmt, error) {
	if err := s.SendCommand(append([]byte{ComStmtPrepare}, sql...)); err != nil {
		return nil, err
	}
	st := &Stmt{}
	p, err := s.ReadPacket()
	if err != nil {
		return st, err
	}
	st.Packets = append(st.Packets, p)
	if len(p.Payload) > 0 && p.Payload[0] == 0xff {
		e, err := DecodeErr(p.Payload, s.Caps)
		st.Err = &e
		return st, err
	}
	ok, err := DecodePrepareOK(p.Payload)
	if err != nil {
		return st, err
	}
	st.ID = ok.StmtID
	readDefs := func(n int) ([]ColumnDef, error) {
		var out []ColumnDef
		for i := 0; i < n; i++ {
			p, err := s.ReadPacket()
			if err != nil {
				return out, err
			}
			st.Packets = append(st.Packets, p)
			cd, err := DecodeColumnDef(p.Payload)
			if err != nil {
				return out, err
			}
			out = append(out, cd)
		}
		if n > 0 && s.Caps&CapDeprecateEOF == 0 {
			p, err := s.ReadPacket()
			if err != nil {
				return out, err
			}
			st.Packets = append(st.Packets, p)
			if _, err := DecodeEOF(p.Payload, s.Caps); err != nil {
				return out, err
			}
		}
		return out, nil
	}
	if st.Params, err = readDefs(int(ok.Params)); err != nil {
		return st, err
	}
	st.Columns, err = readDefs(int(ok.Columns))
	return st, err
}

// Execute runs COM_STMT_EXECUTE with the given parameters (types are always sent).
func (s *Session) Execute(st *Stmt, params []Param) (*Reply, error) {
	e := Execute{StmtID: st.ID, NewParams: true, Params: params}
	if err := s.SendCommand(e.Encode()); err != nil {
		return nil, err
	}
	return s.readResult(true)
}

// CloseStmt sends COM_STMT_CLOSE (no reply).
func (s *Session) CloseStmt(st *Stmt) error { return s.SendCommand(StmtIDCommand(ComStmtClose, st.ID)) }

// ResetStmt sends COM_STMT_RESET and reads the OK/ERR.
func (s *Session) ResetStmt(st *Stmt) (*Reply, error) {
	if err := s.SendCommand(StmtIDCommand(ComStmtReset, st.ID)); err != nil {
		return nil, err
	}
	return s.readResult(false)
}

// Ping sends COM_PING.
func (s *Session) Ping() (*Reply, error) {
	if err := s.SendCommand([]byte{ComPing}); err != nil {
		return nil, err
	}
	return s.readResult(false)
}

// InitDB sends COM_INIT_DB.
func (s *Session) InitDB(name string) (*Reply, error) {
	if err := s.SendCommand(append([]byte{ComInitDB}, name...)); err != nil {
		return nil, err
	}
	return s.readResult(false)
}

// Quit sends COM_QUIT.
func (s *Session) Quit() error { return s.SendCommand([]byte{ComQuit}) }
