package mysess_test

import (
	"bytes"
	"testing"

	"verif/internal/fix"
	"verif/internal/mysess"
)

const yaml = `schemas:
  - table: t1
    columns: [id, data, plain, num]
    encrypted:
      - column: data
`

func TestSmoke(t *testing.T) {
	w := fix.TheWorld()
	tables := []mysess.TableDef{{Name: "t1", Cols: []mysess.ColumnSpec{{"id", mysess.Int}, {"data", mysess.Blob}, {"plain", mysess.Varchar}, {"num", mysess.BigInt}}}}
	for _, caps := range []uint32{mysess.DefaultCaps, mysess.DefaultCaps | mysess.CapDeprecateEOF} {
		s, err := mysess.Start(mysess.Config{SchemaYAML: yaml, KeyStore: w.KS, ClientID: w.Alice, Tables: tables, ClientCaps: caps})
		if err != nil {
			t.Fatal(err)
		}
		rep, err := s.Query("insert into t1 (id, data, plain, num) values (1, 'MYSQL-SECRET', 'it''s \\n plain', -5), (2, NULL, '', 7)")
		if err != nil || rep.Error() != "" {
			t.Fatalf("insert: %v %s", err, rep.Error())
		}
		stored := s.DB.Store.Rows("t1")
		if len(stored) != 2 || bytes.Contains(stored[0][1].B, []byte("MYSQL-SECRET")) || len(stored[0][1].B) < 50 {
			t.Fatalf("stored: %v", stored)
		}
		if string(stored[0][2].B) != "it's \n plain" || string(stored[0][3].B) != "-5" || !stored[1][1].Null {
			t.Fatalf("stored plain: %v", stored)
		}
		rep, err = s.Query("select id, data, plain, num from t1 where id = 1")
		if err != nil || rep.Error() != "" {
			t.Fatalf("select: %v %s", err, rep.Error())
		}
		rs := rep.First()
		if len(rs.Rows) != 1 || string(rs.Rows[0][1].B) != "MYSQL-SECRET" || string(rs.Rows[0][3].B) != "-5" {
			t.Fatalf("rows: %v", rs.Rows)
		}
		st, err := s.Prepare("insert into t1 (id, data, plain, num) values (?, ?, ?, ?)")
		if err != nil || st.Err != nil {
			t.Fatalf("prepare: %v %v", err, st.Err)
		}
		rep, err = s.Execute(st, []mysess.Param{{Type: mysess.TypeLong, B: mysess.IntBytes(mysess.TypeLong, 3)}, {Type: mysess.TypeVarString, B: []byte("BOUND-SECRET")}, {Type: mysess.TypeNull, Null: true}, {Type: mysess.TypeLongLong, B: mysess.IntBytes(mysess.TypeLongLong, 1 << 40)}})
		if err != nil || rep.Error() != "" {
			t.Fatalf("execute: %v %s", err, rep.Error())
		}
		stored = s.DB.Store.Rows("t1")
		if len(stored) != 3 || bytes.Contains(stored[2][1].B, []byte("BOUND-SECRET")) || len(stored[2][1].B) < 50 || !stored[2][2].Null {
			t.Fatalf("stored after execute: %v", stored[2:])
		}
		st2, err := s.Prepare("select id, data, plain, num from t1 where id = ?")
		if err != nil || st2.Err != nil {
			t.Fatalf("prepare2: %v %v", err, st2.Err)
		}
		rep, err = s.Execute(st2, []mysess.Param{{Type: mysess.TypeLong, B: mysess.IntBytes(mysess.TypeLong, 3)}})
		if err != nil || rep.Error() != "" {
			t.Fatalf("execute2: %v %s", err, rep.Error())
		}
		rs = rep.First()
		if len(rs.Rows) != 1 || string(rs.Rows[0][1].B) != "BOUND-SECRET" || !rs.Rows[0][2].Null {
			t.Fatalf("rows2: %v", rs.Rows)
		}
		if n, _ := mysess.IntFromBytes(rs.Rows[0][3].B); n != 1<<40 {
			t.Fatalf("bigint: %d", n)
		}
		s.CloseStmt(st)
		if rep, err := s.Ping(); err != nil || rep.First().OK == nil {
			t.Fatalf("ping: %v", err)
		}
		if ps := s.Panics(); len(ps) > 0 {
			t.Fatal(ps)
		}
		s.Close()
	}
}
