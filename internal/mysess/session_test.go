package mysess_test

import (
	"bytes"
	"testing"
	"time"

	"verif/internal/fix"
	"verif/internal/mysess"
)

const yaml = `schemas:
  - table: t1
    columns: [id, data, plain, num]
    encrypted:
      - column: data
`

func TestSmoke(t *testing.T) {
	w := fix.TheWorld()
	tables := []mysess.TableDef{{Name: "t1", Cols: []mysess.ColumnSpec{{"id", mysess.Int}, {"data", mysess.Blob}, {"plain", mysess.Varchar}, {"num", mysess.BigInt}}}}
	for _, caps := range []uint32{mysess.DefaultCaps, mysess.DefaultCaps | mysess.CapDeprecateEOF} {
		s, err := mysess.Start(mysess.Config{SchemaYAML: yaml, KeyStore: w.KS, ClientID: w.Alice, Tables: tables, ClientCaps: caps, Settle: 5 * time.Millisecond})
		if err != nil {
			t.Fatal(err)
		}
		rep, err := s.Query("insert into t1 (id, data, plain, num) values (1, 'MYSQL-SECRET', 'it''s \\n plain', -5), (2, NULL, '', 7)")
		if err != nil || rep.Error() != "" {
			t.Fatalf("insert: %v %s", err, rep.Error())
		}
		stored := s.DB.Store.Rows("t1")
		if len(stored) != 2 || bytes.Contains(stored[0][1].B, []byte("MYSQL-SECRET")) || len(stored[0][1].B) < 50 {
			t.Fatalf("stored: %v", stored)
		}
		if string(stored[0][2].B) != "it's \n plain" || string(stored[0][3].B) != "-5" || !stored[1][1].Null {
			t.Fatalf("stored plain: %v", stored)
		}
		rep, err = s.Query("select id, data, plain, num from t1 where id = 1")
		if err != nil || rep.Error() != "" {
			t.Fatalf("select: %v %s", err, rep.Error())
		}
		rs := rep.First()
		if len(rs.Rows) != 1 || string(rs.Rows[0][1].B) != "MYSQL-SECRET" || string(rs.Rows[0][3].B) != "-5" {
			t.Fatalf("rows: %v", rs.Rows)
		}
		st, err := s.Prepare("insert into t1 (id, data, plain, num) values (?, ?, ?, ?)")
		if err != nil || st.Err != nil {
			t.Fatalf("prepare: %v %v", err, st.Err)
		}
		rep, err = s.Execute(st, []mysess.Param{{Type: mysess.TypeLong, B: mysess.IntBytes(mysess.TypeLong, 3)}, {Type: mysess.TypeVarString, B: []byte("BOUND-SECRET")}, {Type: mysess.TypeNull, Null: true}, {Type: mysess.TypeLongLong, B: mysess.IntBytes(mysess.TypeLongLong, 1<<40)}})
		if err != nil || rep.Error() != "" {
			t.Fatalf("execute: %v %s", err, rep.Error())
		}
		stored = s.DB.Store.Rows("t1")
		if len(stored) != 3 || bytes.Contains(stored[2][1].B, []byte("BOUND-SECRET")) || len(stored[2][1].B) < 50 || !stored[2][2].Null {
			t.Fatalf("stored after execute: %v", stored[2:])
		}
		st2, err := s.Prepare("select id, data, plain, num from t1 where id = ?")
		if err != nil || st2.Err != nil {
			t.Fatalf("prepare2: %v %v", err, st2.Err)
		}
		rep, err = s.Execute(st2, []mysess.Param{{Type: mysess.TypeLong, B: mysess.IntBytes(mysess.TypeLong, 3)}})
		if err != nil || rep.Error() != "" {
			t.Fatalf("execute2: %v %s", err, rep.Error())
		}
		rs = rep.First()
		if len(rs.Rows) != 1 || string(rs.Rows[0][1].B) != "BOUND-SECRET" || !rs.Rows[0][2].Null {
			t.Fatalf("rows2: %v", rs.Rows)
		}
		if n, _ := mysess.IntFromBytes(rs.Rows[0][3].B); n != 1<<40 {
			t.Fatalf("bigint: %d", n)
		}
		s.CloseStmt(st)
		if rep, err := s.Ping(); err != nil || rep.First().OK == nil {
			t.Fatalf("ping: %v", err)
		}
		if ps := s.Panics(); len(ps) > 0 {
			t.Fatal(ps)
		}
		s.Close()
	}
}

func TestStoreShapes(t *testing.T) {
	st := mysess.NewStore([]mysess.TableDef{{Name: "t", Cols: []mysess.ColumnSpec{{"id", mysess.Int}, {"b", mysess.Blob}, {"s", mysess.Varchar}, {"n", mysess.BigInt}}}})
	run := func(sql string, params ...mysess.Param) *mysess.Result {
		t.Helper()
		p, err := st.Prepare(sql)
		if err != nil {
			t.Fatalf("%s: %v", sql, err)
		}
		r, err := st.Exec(p, params)
		if err != nil {
			t.Fatalf("%s: %v", sql, err)
		}
		return r
	}
	run("INSERT INTO t VALUES (1, X'00ff', 'a\\'b\\\\c\\n', -9), (2, 0x4142, \"q\"\"q\", NULL), (3, _binary'raw\\0', '', 0)")
	run("insert into `t` (`id`, s) values (?, ?)", mysess.Param{Type: mysess.TypeLong, B: mysess.IntBytes(mysess.TypeLong, 4)}, mysess.Param{Type: mysess.TypeVarString, B: []byte("bound")})
	rows := st.Rows("t")
	if len(rows) != 4 || string(rows[0][1].B) != "\x00\xff" || string(rows[0][2].B) != "a'b\\c\n" || string(rows[1][1].B) != "AB" || string(rows[1][2].B) != `q"q` || !rows[1][3].Null || string(rows[2][1].B) != "raw\x00" || !rows[3][1].Null || string(rows[3][2].B) != "bound" {
		t.Fatalf("%v", rows)
	}
	if r := run("SELECT id, s AS alias FROM t WHERE (b = X'4142' OR id = 1) AND s <> 'zzz'"); len(r.Rows) != 2 || r.Fields[1].Name != "alias" || r.Fields[1].OrgName != "s" {
		t.Fatalf("%v %v", r.Rows, r.Fields)
	}
	if r := run("select * from t where substr(b, 1, 2) = 0x4142"); len(r.Rows) != 1 || len(r.Fields) != 4 {
		t.Fatalf("%v", r.Rows)
	}
	if r := run("select t.id from t where n is null and b is not null"); len(r.Rows) != 1 || string(r.Rows[0][0].B) != "2" {
		t.Fatalf("%v", r.Rows)
	}
	if r := run("UPDATE t SET s = ?, n = 7 WHERE id = ?", mysess.Param{Type: mysess.TypeString, B: []byte("upd")}, mysess.Param{Type: mysess.TypeLongLong, B: mysess.IntBytes(mysess.TypeLongLong, 3)}); r.Affected != 1 {
		t.Fatalf("%+v", r)
	}
	if r := run("select s, n from t where id = 3"); string(r.Rows[0][0].B) != "upd" || string(r.Rows[0][1].B) != "7" {
		t.Fatalf("%v", r.Rows)
	}
	if r := run("DELETE FROM t WHERE id <> 3"); r.Affected != 3 || len(st.Rows("t")) != 1 {
		t.Fatalf("%+v", r)
	}
	if r := run("SET NAMES utf8mb4"); len(r.Fields) != 0 {
		t.Fatal("SET")
	}
	if _, err := st.Prepare("select * from nope"); err == nil {
		t.Fatal("unknown table accepted")
	}
	if s, err := mysess.Inspect("insert into t (id, s) values (1, 'x'), (?, NULL)"); err != nil || s.Kind != "insert" || len(s.Rows) != 2 || s.Rows[1][0].Kind != "param" || s.Rows[1][1].Kind != "null" || s.NParams != 1 {
		t.Fatalf("%+v %v", s, err)
	}
}

const searchYAML = `schemas:
  - table: t1
    columns: [id, data, plain, num]
    encrypted:
      - column: data
        searchable: true
`

func TestSearchable(t *testing.T) {
	w := fix.TheWorld()
	tables := []mysess.TableDef{{Name: "t1", Cols: []mysess.ColumnSpec{{"id", mysess.Int}, {"data", mysess.Blob}, {"plain", mysess.Varchar}, {"num", mysess.BigInt}}}}
	s, err := mysess.Start(mysess.Config{SchemaYAML: searchYAML, KeyStore: w.KS, ClientID: w.Alice, Tables: tables, Settle: 5 * time.Millisecond})
	if err != nil {
		t.Fatal(err)
	}
	defer s.Close()
	if rep, err := s.Query("insert into t1 (id, data, plain, num) values (1, 'needle', 'p', 1), (2, 'hay', 'p', 2)"); err != nil || rep.Error() != "" {
		t.Fatalf("insert: %v %s", err, rep.Error())
	}
	rep, err := s.Query("select id, data from t1 where data = 'needle'")
	if err != nil || rep.Error() != "" {
		t.Fatalf("select: %v %s; database got %.400q", err, rep.Error(), s.DB.Received()[1].SQL)
	}
	if rs := rep.First(); len(rs.Rows) != 1 || string(rs.Rows[0][0].B) != "1" || string(rs.Rows[0][1].B) != "needle" {
		t.Fatalf("rows: %v; database got %.300q", rs.Rows, s.DB.Received()[1].SQL)
	}
	st, err := s.Prepare("select id from t1 where data = ?")
	if err != nil || st.Err != nil {
		t.Fatalf("prepare: %v %v", err, st.Err)
	}
	rep, err = s.Execute(st, []mysess.Param{{Type: mysess.TypeVarString, B: []byte("hay")}})
	if err != nil || rep.Error() != "" || len(rep.First().Rows) != 1 {
		t.Fatalf("execute: %v %s %v; database got %d", err, rep.Error(), rep.First().Rows, len(s.DB.Received()))
	}
}
