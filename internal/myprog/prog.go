// Package myprog describes generated MySQL session programs - the twin of internal/pgprog for acra's MySQL
// proxy: table/column configurations (drawn from the flag combinations the real loader accepts with
// config.UseMySQL), statements as structured values, their rendering into SQL text in MySQL's literal spellings
// or into COM_STMT_EXECUTE parameters, and the independent decoder of result values.
package myprog

import (
	"encoding/binary"
	"encoding/hex"
	"fmt"
	"strconv"
	"strings"
	"unicode/utf8"

	"pgregory.net/rapid"

	"verif/internal/gen"
	"verif/internal/mysess"
)

// Column kinds.
const (
	KPlainText = "plain-text" // VARCHAR
	KPlainBlob = "plain-blob"
	KPlainInt  = "plain-int"
	KEnc       = "enc"    // transparent encryption, no declared type
	KSearch    = "search" // searchable encryption
	KMask      = "mask"
	KToken     = "token"
	KTyped     = "typed" // encryption with declared data type
)

// Logical types of values the client writes and (as owner) reads.
const (
	LStr   = "str"
	LBytes = "bytes"
	LInt32 = "int32"
	LInt64 = "int64"
)

// ColSpec is one column of a generated table.
type ColSpec struct {
	Name       string `json:"name"`
	Kind       string `json:"kind"`
	Envelope   string `json:"envelope,omitempty"` // acrastruct | acrablock | "" (default)
	MaskPat    string `json:"mask_pattern,omitempty"`
	MaskLen    int    `json:"mask_len,omitempty"`
	MaskSide   string `json:"mask_side,omitempty"`
	TokenType  string `json:"token_type,omitempty"`
	Consistent bool   `json:"consistent,omitempty"`
	DataType   string `json:"data_type,omitempty"` // str | bytes | int32 | int64
	ByTypeID   bool   `json:"by_type_id,omitempty"`
	OnFail     string `json:"on_fail,omitempty"` // "", ciphertext, default_value, error
	Default    string `json:"default,omitempty"`
	HasDefault bool   `json:"has_default,omitempty"`
	ClientID   string `json:"client_id,omitempty"` // explicit client_id of the column ("" = the connection's)
}

// Protected tells whether the configuration covers the column.
func (c ColSpec) Protected() bool {
	return c.Kind == KEnc || c.Kind == KSearch || c.Kind == KMask || c.Kind == KToken || c.Kind == KTyped
}

// Logical is the type of the values the client writes and (as owner) reads.
func (c ColSpec) Logical() string {
	switch c.Kind {
	case KPlainText:
		return LStr
	case KPlainInt:
		return LInt32
	case KToken:
		switch c.TokenType {
		case "int32":
			return LInt32
		case "int64":
			return LInt64
		case "str", "email":
			return LStr
		}
		return LBytes
	case KTyped, KSearch, KMask:
		if c.DataType != "" {
			return c.DataType
		}
	}
	return LBytes
}

// IsInt tells whether the logical type is an integer type.
func IsInt(lt string) bool { return lt == LInt32 || lt == LInt64 }

// DBType is the column's type inside the database: encrypted columns are binary strings, tokenized columns
// keep the type of their values.
func (c ColSpec) DBType() mysess.ColType {
	switch c.Kind {
	case KEnc, KSearch, KMask, KTyped, KPlainBlob:
		return mysess.Blob
	case KPlainText:
		return mysess.Varchar
	case KPlainInt:
		return mysess.Int
	}
	switch c.Logical() {
	case LInt32:
		return mysess.Int
	case LInt64:
		return mysess.BigInt
	case LStr:
		return mysess.Varchar
	}
	return mysess.Blob
}

// MySQL protocol types of the declared data types (data_type_db_identifier values).
var myTypeIDs = map[string]int{LStr: int(mysess.TypeString), LBytes: int(mysess.TypeBlob), LInt32: int(mysess.TypeLong), LInt64: int(mysess.TypeLongLong)}

// OwnerWireType is the protocol type the owner must see in the column definition: the declared type when the
// configuration declares one (data_type or token_type), the database's own type otherwise.
func (c ColSpec) OwnerWireType() byte {
	if c.Protected() && (c.DataType != "" || c.Kind == KToken) {
		return byte(myTypeIDs[c.Logical()])
	}
	t, _, _, _ := c.DBType().WireType()
	return t
}

// TableSpec is a generated table; column 0 is always the plain INT key "id".
type TableSpec struct {
	Name       string    `json:"name"`
	Cols       []ColSpec `json:"cols"`
	Configured bool      `json:"configured"` // false: the table does not appear in the encryptor config
}

// Defs converts to the fake database's schema (unique key = id).
func Defs(ts []TableSpec) []mysess.TableDef {
	var out []mysess.TableDef
	for _, t := range ts {
		d := mysess.TableDef{Name: t.Name, Key: t.Cols[0].Name}
		for _, c := range t.Cols {
			d.Cols = append(d.Cols, mysess.ColumnSpec{Name: c.Name, Type: c.DBType()})
		}
		out = append(out, d)
	}
	return out
}

func yamlStr(s string) string { return strconv.Quote(s) }

// SchemaYAML renders the encryptor configuration for the tables.
func SchemaYAML(ts []TableSpec) string {
	var b strings.Builder
	b.WriteString("schemas:\n")
	for _, t := range ts {
		if !t.Configured {
			continue
		}
		fmt.Fprintf(&b, "  - table: %s\n    columns:\n", t.Name)
		for _, c := range t.Cols {
			fmt.Fprintf(&b, "      - %s\n", c.Name)
		}
		b.WriteString("    encrypted:\n")
		n := 0
		for _, c := range t.Cols {
			if !c.Protected() {
				continue
			}
			n++
			fmt.Fprintf(&b, "      - column: %s\n", c.Name)
			if c.ClientID != "" {
				fmt.Fprintf(&b, "        client_id: %s\n", yamlStr(c.ClientID))
			}
			if c.Envelope != "" && c.Kind != KToken {
				fmt.Fprintf(&b, "        crypto_envelope: %s\n", c.Envelope)
			}
			switch c.Kind {
			case KSearch:
				b.WriteString("        searchable: true\n")
			case KMask:
				fmt.Fprintf(&b, "        masking: %s\n        plaintext_length: %d\n        plaintext_side: %s\n", yamlStr(c.MaskPat), c.MaskLen, c.MaskSide)
			case KToken:
				fmt.Fprintf(&b, "        token_type: %s\n", c.TokenType)
				if c.Consistent {
					b.WriteString("        consistent_tokenization: true\n")
				}
			}
			if c.DataType != "" && c.Kind != KToken {
				if c.ByTypeID {
					fmt.Fprintf(&b, "        data_type_db_identifier: %d\n", myTypeIDs[c.DataType])
				} else {
					fmt.Fprintf(&b, "        data_type: %s\n", c.DataType)
				}
			}
			if c.OnFail != "" {
				fmt.Fprintf(&b, "        response_on_fail: %s\n", c.OnFail)
			}
			if c.HasDefault {
				fmt.Fprintf(&b, "        default_data_value: %s\n", yamlStr(c.Default))
			}
		}
		if n == 0 {
			b.WriteString("      []\n")
		}
	}
	return b.String()
}

// ---------------------------------------------------------------------------------------------
// values

// Val is a logical value: strings and bytes raw, integers as decimal text.
type Val struct {
	Null bool    `json:"null,omitempty"`
	B    gen.Hex `json:"b,omitempty"`
}

// Same compares two logical values.
func Same(a, b Val) bool {
	if a.Null || b.Null {
		return a.Null == b.Null
	}
	return string(a.B) == string(b.B)
}

// Marker is the unique search string inside a generated value (nil for integers, NULLs and short values).
func Marker(v Val) []byte {
	i := strings.Index(string(v.B), "MRK")
	if i < 0 || v.Null {
		return nil
	}
	end := i + 3
	for end < len(v.B) && end < i+19 && isHex(v.B[end]) {
		end++
	}
	if end-i < 12 {
		return nil
	}
	return v.B[i:end]
}

func isHex(c byte) bool { return (c >= '0' && c <= '9') || (c >= 'a' && c <= 'f') }

// markerStr makes a marker that is unique within the case by construction: a sequence number of the session's
// generator state followed by random digits.
func markerStr(t *rapid.T, g *GenState, label string) string {
	n := rapid.Uint64().Draw(t, label+".m")
	var b [8]byte
	binary.BigEndian.PutUint64(b[:], n)
	g.seq++
	return fmt.Sprintf("MRK%04x", g.seq&0xffff) + hex.EncodeToString(b[2:])
}

// GenVal draws a value a column of that kind can carry, with a marker wherever the type allows one.
func GenVal(t *rapid.T, g *GenState, c ColSpec, label string) Val {
	if rapid.IntRange(0, 11).Draw(t, label+".null") == 0 {
		return Val{Null: true}
	}
	return GenNonNull(t, g, c, label)
}

// GenNonNull is GenVal without the NULL class.
func GenNonNull(t *rapid.T, g *GenState, c ColSpec, label string) Val {
	switch c.Logical() {
	case LInt32:
		return Val{B: []byte(strconv.FormatInt(int64(rapid.OneOf(rapid.Int32(), rapid.SampledFrom([]int32{0, 1, -1, 2147483647, -2147483648, 12345, 127, 128, 32767, 32768})).Draw(t, label+".i4")), 10))}
	case LInt64:
		return Val{B: []byte(strconv.FormatInt(rapid.OneOf(rapid.Int64(), rapid.SampledFrom([]int64{0, 1, -1, 9223372036854775807, -9223372036854775808, 4294967301, 2147483648})).Draw(t, label+".i8"), 10))}
	case LStr:
		if c.Kind == KToken && c.TokenType == "email" {
			return Val{B: []byte(markerStr(t, g, label) + "@" + rapid.StringMatching(`[a-z]{3,8}`).Draw(t, label+".dom") + ".com")}
		}
		if rapid.IntRange(0, 9).Draw(t, label+".empty") == 0 {
			return Val{B: []byte{}}
		}
		head := rapid.SampledFrom([]string{"", "", "", "'", `\`, `\x`, `"`, " "}).Draw(t, label+".head")
		tail := rapid.SampledFrom([]string{"", " plain tail", "'quote", `back\slash`, "ünï€", "\n", `"dq"`, "%%%", `""""""""`, "?", ";--", `\%`, `_\_`, `\x41`, "\x00nul", "\x1a", "''", `\'`, "\r\t\b", `\`, `\\`, "/* c */", "0x41", "X'41'"}).Draw(t, label+".tail")
		return Val{B: []byte(head + markerStr(t, g, label) + tail)}
	}
	// bytes
	if rapid.IntRange(0, 9).Draw(t, label+".empty") == 0 {
		return Val{B: []byte{}}
	}
	tail := rapid.OneOf(
		rapid.Just([]byte(nil)),
		rapid.SliceOfN(rapid.Byte(), 0, 24),
		rapid.SampledFrom([][]byte{{0}, {0xff, 0xfe}, []byte(`\x41`), []byte(`'`), []byte(`\\`), []byte(`%%%`), []byte(`""""""""`), {0x7f}, {0x1a}, []byte(`\`), {'"'}, {0x80}}),
	).Draw(t, label+".tail")
	head := rapid.SampledFrom([][]byte{nil, nil, {0}, {0xc3}, []byte(`\`), []byte(`\x`), {'\''}}).Draw(t, label+".head")
	return Val{B: append(append(append([]byte{}, head...), []byte(markerStr(t, g, label))...), tail...)}
}

// ---------------------------------------------------------------------------------------------
// literal rendering (client side), MySQL's lexical rules in the default sql_mode

// string spellings
const (
	spQuoteDoubled   = iota // '...' with '' and \\
	spQuoteEscaped          // '...' with backslash escapes
	spDoubleQuoted          // "..." with "" and \\
	spHexX                  // X'..'
	spHexLowerX             // x'..'
	spHex0x                 // 0x..
	spBinaryQuoted          // _binary'...'
	spBinarySpace           // _binary "..."
	spBinaryHex             // _binary X'..'
	spUtf8Introducer        // _utf8mb4'...'
	nSpellings
)

// SpellingNames name the spellings for evidence classes.
var SpellingNames = []string{"quote-doubled", "quote-escaped", "double-quoted", "X-hex", "x-hex", "0x-hex", "_binary-quoted", "_binary-dquoted", "_binary-X-hex", "_utf8mb4-quoted"}

func quoteWith(q byte, s []byte, escapes bool) string {
	var b strings.Builder
	b.WriteByte(q)
	for _, c := range s {
		switch {
		case c == q && !escapes:
			b.WriteByte(q)
			b.WriteByte(q)
		case c == q:
			b.WriteByte('\\')
			b.WriteByte(q)
		case c == '\\':
			b.WriteString(`\\`)
		case !escapes:
			b.WriteByte(c)
		case c == 0:
			b.WriteString(`\0`)
		case c == '\n':
			b.WriteString(`\n`)
		case c == '\r':
			b.WriteString(`\r`)
		case c == 0x1a:
			b.WriteString(`\Z`)
		case c == '\t':
			b.WriteString(`\t`)
		case c == '\b':
			b.WriteString(`\b`)
		case c == '"' || c == '\'':
			b.WriteByte('\\')
			b.WriteByte(c)
		default:
			b.WriteByte(c)
		}
	}
	b.WriteByte(q)
	return b.String()
}

// KnownBackslashX tells whether a value falls into the recorded open finding C13
// literal-meaning-changed:backslash-x when it is spelled as a quoted string in a statement acra re-serialises:
// a value that starts with backslash-x loses the backslash.
func KnownBackslashX(v []byte) bool {
	return len(v) >= 2 && v[0] == '\\' && (v[1] == 'x' || v[1] == 'X')
}

// Literal renders a value of logical type lt as an SQL literal; spelling selects among the equivalent
// spellings (the caller draws it). It returns the text and the name of the spelling used.
func Literal(v Val, lt string, spelling int) (string, string) {
	if v.Null {
		return "NULL", "null"
	}
	if IsInt(lt) {
		if spelling%4 == 3 {
			return "'" + string(v.B) + "'", "int-quoted"
		}
		return string(v.B), "int"
	}
	sp := spelling % nSpellings
	if len(v.B) == 0 && (sp == spHex0x) {
		sp = spQuoteDoubled // 0x without digits is not a literal
	}
	quoted := sp == spQuoteDoubled || sp == spQuoteEscaped || sp == spDoubleQuoted || sp == spUtf8Introducer
	if quoted && !utf8.Valid(v.B) {
		// the connection's character set is utf8mb4: bytes that are not text are sent as binary literals
		sp = spBinaryQuoted
	}
	if sp == spUtf8Introducer && lt != LStr {
		sp = spBinaryQuoted
	}
	if (quoted || sp == spBinaryQuoted || sp == spBinarySpace) && KnownBackslashX(v.B) {
		sp = spHexX
	}
	hx := hex.EncodeToString(v.B)
	switch sp {
	case spQuoteDoubled:
		return quoteWith('\'', v.B, false), SpellingNames[sp]
	case spQuoteEscaped:
		return quoteWith('\'', v.B, true), SpellingNames[sp]
	case spDoubleQuoted:
		return quoteWith('"', v.B, false), SpellingNames[sp]
	case spHexX:
		return "X'" + strings.ToUpper(hx) + "'", SpellingNames[sp]
	case spHexLowerX:
		return "x'" + hx + "'", SpellingNames[sp]
	case spHex0x:
		return "0x" + hx, SpellingNames[sp]
	case spBinaryQuoted:
		return "_binary" + quoteWith('\'', v.B, true), SpellingNames[sp]
	case spBinarySpace:
		return "_binary " + quoteWith('"', v.B, true), SpellingNames[sp]
	case spUtf8Introducer:
		return "_utf8mb4" + quoteWith('\'', v.B, true), SpellingNames[sp]
	}
	return "_binary X'" + hx + "'", SpellingNames[spBinaryHex]
}

// ---------------------------------------------------------------------------------------------
// parameters of prepared statements

var strParamTypes = []byte{mysess.TypeVarString, mysess.TypeString, mysess.TypeVarchar, mysess.TypeBlob}
var bytesParamTypes = []byte{mysess.TypeBlob, mysess.TypeLongBlob, mysess.TypeMediumBlob, mysess.TypeTinyBlob, mysess.TypeVarString, mysess.TypeString}

// ParamOf renders a value as a COM_STMT_EXECUTE parameter; choice selects the protocol type among those a
// client library may use for a value of that logical type.
func ParamOf(v Val, lt string, choice int) mysess.Param {
	if choice < 0 {
		choice = -choice
	}
	natural := func() byte {
		switch lt {
		case LInt32:
			return mysess.TypeLong
		case LInt64:
			return mysess.TypeLongLong
		case LStr:
			return strParamTypes[choice%len(strParamTypes)]
		}
		return bytesParamTypes[choice%len(bytesParamTypes)]
	}
	if v.Null {
		if choice%2 == 0 {
			return mysess.Param{Type: mysess.TypeNull, Null: true}
		}
		return mysess.Param{Type: natural(), Null: true}
	}
	if !IsInt(lt) {
		return mysess.Param{Type: natural(), B: append([]byte{}, v.B...)}
	}
	n, _ := strconv.ParseInt(string(v.B), 10, 64)
	var typ byte
	switch choice % 5 {
	case 0:
		typ = natural()
	case 1:
		typ = mysess.TypeLongLong
	case 2:
		return mysess.Param{Type: mysess.TypeVarString, B: append([]byte{}, v.B...)}
	case 3:
		// the narrowest integer type that holds the value
		switch {
		case n >= -128 && n <= 127:
			typ = mysess.TypeTiny
		case n >= -32768 && n <= 32767:
			typ = mysess.TypeShort
		case n >= -2147483648 && n <= 2147483647:
			typ = mysess.TypeLong
		default:
			typ = mysess.TypeLongLong
		}
	default:
		typ = natural()
		// a non-negative value sent with the unsigned flag
		if n >= 0 {
			return mysess.Param{Type: typ, Unsigned: true, B: mysess.IntBytes(typ, n)}
		}
	}
	return mysess.Param{Type: typ, B: mysess.IntBytes(typ, n)}
}

// Retype renders a value with the protocol type of a previous execution (re-execution without the
// new-params-bound flag); ok is false when the value cannot be carried by that type.
func Retype(v Val, lt string, prev mysess.Param) (mysess.Param, bool) {
	if v.Null {
		return mysess.Param{Type: prev.Type, Unsigned: prev.Unsigned, Null: true}, true
	}
	if prev.Type == mysess.TypeNull {
		return mysess.Param{}, false
	}
	w := mysess.BinaryWidth(prev.Type)
	if !IsInt(lt) || w == -1 {
		if w != -1 {
			return mysess.Param{}, false
		}
		return mysess.Param{Type: prev.Type, B: append([]byte{}, v.B...)}, true
	}
	n, _ := strconv.ParseInt(string(v.B), 10, 64)
	if prev.Unsigned && n < 0 {
		return mysess.Param{}, false
	}
	switch w {
	case 1:
		if n < -128 || n > 127 {
			return mysess.Param{}, false
		}
	case 2:
		if n < -32768 || n > 32767 {
			return mysess.Param{}, false
		}
	case 4:
		if n < -2147483648 || n > 2147483647 {
			return mysess.Param{}, false
		}
	case 8:
	default:
		return mysess.Param{}, false
	}
	return mysess.Param{Type: prev.Type, Unsigned: prev.Unsigned, B: mysess.IntBytes(prev.Type, n)}, true
}

// Decode interprets a received column value per its column definition and protocol (independent client codec):
// integer types come back as decimal text, everything else as the bytes received.
func Decode(v mysess.Value, typ byte, binaryProto bool) (Val, error) {
	if v.Null {
		return Val{Null: true}, nil
	}
	switch typ {
	case mysess.TypeTiny, mysess.TypeShort, mysess.TypeYear, mysess.TypeInt24, mysess.TypeLong, mysess.TypeLongLong:
		if binaryProto {
			n, err := mysess.IntFromBytes(v.B)
			if err != nil {
				return Val{B: v.B}, err
			}
			return Val{B: []byte(strconv.FormatInt(n, 10))}, nil
		}
		bits := 64
		if typ == mysess.TypeLong || typ == mysess.TypeInt24 {
			bits = 32
		}
		n, err := strconv.ParseInt(string(v.B), 10, bits)
		if err != nil {
			return Val{B: v.B}, fmt.Errorf("not a decimal integer for type 0x%02x: %.40q", typ, v.B)
		}
		return Val{B: []byte(strconv.FormatInt(n, 10))}, nil
	}
	return Val{B: append([]byte{}, v.B...)}, nil
}
