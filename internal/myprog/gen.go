package myprog

import (
	"fmt"
	"strings"
	"sync"

	"pgregory.net/rapid"

	"github.com/cossacklabs/acra/encryptor/base/config"

	"verif/internal/mysess"
)

// combo is one (kind, envelope, declared type, policy) combination.
type combo struct {
	Kind, Envelope, DataType, OnFail string
	ByTypeID                         bool
}

var (
	combosOnce sync.Once
	combos     map[string][]combo
)

// validCombos enumerates the flag combinations and keeps those the real configuration loader
// (MapTableSchemaStoreFromConfig with config.UseMySQL, i.e. the whitelist of encryptionSettings.go) accepts, so
// that every generated configuration is valid by construction.
func validCombos() map[string][]combo {
	combosOnce.Do(func() {
		combos = map[string][]combo{}
		envs := []string{"", "acrastruct", "acrablock"}
		dts := []string{"", LStr, LBytes, LInt32, LInt64}
		fails := []string{"", "ciphertext", "default_value", "error"}
		for _, kind := range []string{KEnc, KSearch, KMask, KToken, KTyped} {
			for _, env := range envs {
				for _, dt := range dts {
					for _, of := range fails {
						for _, byID := range []bool{false, true} {
							if kind == KTyped && dt == "" {
								continue
							}
							if kind == KEnc && (dt != "" || of != "") {
								continue
							}
							if kind == KToken && (dt != "" || of != "" || env != "" || byID) {
								continue
							}
							if dt == "" && (byID || of == "default_value") {
								continue
							}
							c := ColSpec{Name: "c", Kind: kind, Envelope: env, DataType: dt, ByTypeID: byID, OnFail: of}
							if kind == KMask {
								c.MaskPat, c.MaskLen, c.MaskSide = "xx", 1, "left"
							}
							if kind == KToken {
								c.TokenType = "str"
							}
							if of == "default_value" {
								c.HasDefault = true
								c.Default = map[string]string{LStr: "d", LBytes: "ZA==", LInt32: "1", LInt64: "1"}[dt]
							}
							y := SchemaYAML([]TableSpec{{Name: "t", Configured: true, Cols: []ColSpec{{Name: "id", Kind: KPlainInt}, c}}})
							if _, err := config.MapTableSchemaStoreFromConfig([]byte(y), config.UseMySQL); err == nil {
								combos[kind] = append(combos[kind], combo{kind, env, dt, of, byID})
							}
						}
					}
				}
			}
		}
	})
	return combos
}

// Combos exposes the number of accepted combinations of a kind (for evidence and tests).
func Combos(kind string) int { return len(validCombos()[kind]) }

// GenCol draws a column specification of one of the allowed kinds from the combinations the real loader
// accepts. owner is the identity of the connection, other an identity with keys of its own: a protected column
// has no client_id (the connection's identity owns it), the owner's client_id, or the other identity's.
func GenCol(t *rapid.T, name string, kinds []string, owner, other string) ColSpec {
	c := ColSpec{Name: name, Kind: rapid.SampledFrom(kinds).Draw(t, name+".kind")}
	if !c.Protected() {
		return c
	}
	switch rapid.IntRange(0, 5).Draw(t, name+".explicit") {
	case 0:
		c.ClientID = owner
	case 1:
		c.ClientID = other
	}
	all := validCombos()[c.Kind]
	if c.ClientID == other {
		// a statement that reads an `error` policy column its connection cannot decrypt fails as a whole: C19's subject
		var ok []combo
		for _, cb := range all {
			if cb.OnFail != "error" {
				ok = append(ok, cb)
			}
		}
		all = ok
	}
	cb := rapid.SampledFrom(all).Draw(t, name+".combo")
	c.Envelope, c.DataType, c.OnFail, c.ByTypeID = cb.Envelope, cb.DataType, cb.OnFail, cb.ByTypeID
	switch c.Kind {
	case KMask:
		c.MaskPat = rapid.SampledFrom([]string{"xxxx", "*", "MASK", "%%%", `""""`, "x y"}).Draw(t, name+".pat")
		c.MaskLen = rapid.IntRange(0, 24).Draw(t, name+".mlen")
		c.MaskSide = rapid.SampledFrom([]string{"left", "right"}).Draw(t, name+".side")
	case KToken:
		c.TokenType = rapid.SampledFrom([]string{"int32", "int64", "str", "bytes", "email"}).Draw(t, name+".tt")
		c.Consistent = rapid.Bool().Draw(t, name+".cons")
	}
	if c.OnFail == "default_value" {
		c.HasDefault = true
		switch c.DataType {
		case LStr:
			c.Default = rapid.SampledFrom([]string{"default-str", "", "d'q"}).Draw(t, name+".def")
		case LBytes:
			c.Default = rapid.SampledFrom([]string{"ZGVmYXVsdA==", "AAEC/w=="}).Draw(t, name+".def")
		case LInt32:
			c.Default = rapid.SampledFrom([]string{"77", "-2147483648", "0"}).Draw(t, name+".def")
		default:
			c.Default = rapid.SampledFrom([]string{"77", "9223372036854775807", "-1"}).Draw(t, name+".def")
		}
	}
	return c
}

// AllKinds lists the column kinds (protected kinds weigh more).
var AllKinds = []string{KPlainText, KPlainBlob, KPlainInt, KEnc, KEnc, KSearch, KSearch, KMask, KToken, KToken, KTyped, KTyped}

// GenTables draws 1..2 configured tables and one unconfigured table.
func GenTables(t *rapid.T, kinds []string, owner, other string) []TableSpec {
	n := rapid.IntRange(1, 2).Draw(t, "ntables")
	var ts []TableSpec
	for i := 0; i < n; i++ {
		tb := TableSpec{Name: fmt.Sprintf("tab%d", i), Configured: true, Cols: []ColSpec{{Name: "id", Kind: KPlainInt}}}
		nc := rapid.IntRange(2, 5).Draw(t, fmt.Sprintf("t%d.ncols", i))
		for j := 0; j < nc; j++ {
			tb.Cols = append(tb.Cols, GenCol(t, fmt.Sprintf("c%d_%d", i, j), kinds, owner, other))
		}
		ts = append(ts, tb)
	}
	ts = append(ts, TableSpec{Name: "freetab", Configured: false, Cols: []ColSpec{{Name: "id", Kind: KPlainInt}, {Name: "note", Kind: KPlainText}, {Name: "data", Kind: KPlainBlob}}})
	return ts
}

// Where is the condition of a statement: `col = value` on the key, a searchable or a consistently tokenized column.
type Where struct {
	Col int `json:"col"`
	Val Val `json:"val"`
}

// Step is one statement of a session program.
type Step struct {
	// insert | replace | update | select | delete | reexec
	Op    string `json:"op"`
	Table int    `json:"table"`
	// insert/replace: "list" (column list), "nolist" (schema order), "set" (INSERT ... SET c = v)
	Form      string  `json:"form,omitempty"`
	Cols      []int   `json:"cols,omitempty"` // insert: columns written (nolist: all); select: list (nil = *)
	Rows      [][]Val `json:"rows,omitempty"` // insert
	OnDup     []int   `json:"on_dup,omitempty"`
	OnDupVals []Val   `json:"on_dup_vals,omitempty"`
	Set       []int   `json:"set,omitempty"` // update
	SetVals   []Val   `json:"set_vals,omitempty"`
	Where     *Where  `json:"where,omitempty"`
	Alias     bool    `json:"alias,omitempty"`
	Spelling  int     `json:"spelling,omitempty"`
	// Prepared: COM_STMT_PREPARE + COM_STMT_EXECUTE with placeholders instead of COM_QUERY with literals
	Prepared bool `json:"prepared,omitempty"`
	LitEvery int  `json:"lit_every,omitempty"` // prepared: every n-th value stays an inline literal
	PSeed    int  `json:"pseed,omitempty"`     // selects the protocol types of the parameters
	// Reexec > 0: op "reexec" executes again the statement prepared by step Reexec-1 with the values of this
	// step (same shape); NoTypes: without the new-params-bound flag (types of the previous execution)
	Reexec  int  `json:"reexec,omitempty"`
	NoTypes bool `json:"no_types,omitempty"`
}

// GenState is what the generator knows about the session so far.
type GenState struct {
	NextID []int64
	// Written[table][column]: values written so far (candidates for WHERE conditions)
	Written [][][]Val
	seq     int // markers drawn so far
}

// NewGenState starts a session.
func NewGenState(ts []TableSpec) *GenState {
	g := &GenState{NextID: make([]int64, len(ts)), Written: make([][][]Val, len(ts))}
	for i, tb := range ts {
		g.NextID[i] = 1
		g.Written[i] = make([][]Val, len(tb.Cols))
	}
	return g
}

func (g *GenState) note(table, col int, v Val) {
	if !v.Null && len(v.B) > 0 {
		g.Written[table][col] = append(g.Written[table][col], v)
	}
}

// whereCols lists the columns a condition may name: the key, searchable columns, consistently tokenized columns.
func whereCols(tb TableSpec) []int {
	out := []int{0}
	for i, c := range tb.Cols {
		if tb.Configured && (c.Kind == KSearch || (c.Kind == KToken && c.Consistent)) {
			out = append(out, i)
		}
	}
	return out
}

func (g *GenState) genWhere(t *rapid.T, ts []TableSpec, table int, label string, optional bool) *Where {
	tb := ts[table]
	if optional && rapid.IntRange(0, 3).Draw(t, label+".nowhere") == 0 {
		return nil
	}
	cols := whereCols(tb)
	col := 0
	if len(cols) > 1 && rapid.IntRange(0, 2).Draw(t, label+".wcol.special") != 0 {
		col = rapid.SampledFrom(cols[1:]).Draw(t, label+".wcol")
	}
	if col == 0 {
		hi := g.NextID[table]
		if hi < 2 {
			hi = 2
		}
		id := rapid.Int64Range(1, hi-1).Draw(t, label+".wid")
		return &Where{Col: 0, Val: Val{B: []byte(fmt.Sprint(id))}}
	}
	if cand := g.Written[table][col]; len(cand) > 0 && rapid.IntRange(0, 4).Draw(t, label+".wfresh") != 0 {
		return &Where{Col: col, Val: rapid.SampledFrom(cand).Draw(t, label+".wval")}
	}
	v := GenNonNull(t, g, tb.Cols[col], label+".wv")
	if len(v.B) == 0 {
		v = Val{B: []byte("MRK00000000nomatch")}
		if IsInt(tb.Cols[col].Logical()) {
			v = Val{B: []byte("7")}
		}
	}
	return &Where{Col: col, Val: v}
}

func pickCols(t *rapid.T, tb TableSpec, label string, min int) []int {
	var cols []int
	for i := range tb.Cols {
		if rapid.IntRange(0, 2).Draw(t, fmt.Sprintf("%s%d", label, i)) != 0 {
			cols = append(cols, i)
		}
	}
	if len(cols) < min {
		return nil
	}
	if rapid.Bool().Draw(t, label+".rev") {
		for i, j := 0, len(cols)-1; i < j; i, j = i+1, j-1 {
			cols[i], cols[j] = cols[j], cols[i]
		}
	}
	return cols
}

// GenStep draws a statement over the tables.
func GenStep(t *rapid.T, ts []TableSpec, g *GenState, label string) Step {
	s := Step{Op: rapid.SampledFrom([]string{"insert", "insert", "insert", "replace", "select", "select", "select", "update", "update", "delete"}).Draw(t, label+".op")}
	// mostly the configured tables (the last table is the unconfigured one)
	s.Table = len(ts) - 1
	if len(ts) > 1 && rapid.IntRange(0, 5).Draw(t, label+".free") != 0 {
		s.Table = rapid.IntRange(0, len(ts)-2).Draw(t, label+".table")
	}
	tb := ts[s.Table]
	s.Spelling = rapid.IntRange(0, 9).Draw(t, label+".spelling")
	s.Prepared = rapid.Bool().Draw(t, label+".prepared")
	if s.Prepared {
		s.PSeed = rapid.IntRange(0, 59).Draw(t, label+".pseed")
		if rapid.IntRange(0, 2).Draw(t, label+".litmix") == 0 {
			s.LitEvery = rapid.IntRange(2, 3).Draw(t, label+".litevery")
		}
	}
	assignments := func(l string) ([]int, []Val) {
		var cols []int
		var vals []Val
		for i := 1; i < len(tb.Cols); i++ {
			if rapid.IntRange(0, 1).Draw(t, fmt.Sprintf("%s.%s%d", label, l, i)) == 0 {
				cols = append(cols, i)
				vals = append(vals, GenVal(t, g, tb.Cols[i], fmt.Sprintf("%s.%sv%d", label, l, i)))
			}
		}
		if len(cols) == 0 {
			cols, vals = []int{1}, []Val{GenVal(t, g, tb.Cols[1], label+"."+l+"v")}
		}
		for i, c := range cols {
			g.note(s.Table, c, vals[i])
		}
		return cols, vals
	}
	switch s.Op {
	case "insert", "replace":
		s.Form = rapid.SampledFrom([]string{"list", "list", "nolist", "set"}).Draw(t, label+".form")
		if s.Form != "nolist" {
			s.Cols = pickCols(t, tb, label+".ic", 1)
			has := false
			for _, c := range s.Cols {
				has = has || c == 0
			}
			if !has {
				s.Cols = append([]int{0}, s.Cols...)
			}
		} else {
			for i := range tb.Cols {
				s.Cols = append(s.Cols, i)
			}
		}
		nrows := 1
		if s.Form != "set" {
			nrows = rapid.SampledFrom([]int{1, 1, 2, 3}).Draw(t, label+".nrows")
		}
		// REPLACE and INSERT ... ON DUPLICATE KEY UPDATE may name a key that exists
		upsert := s.Op == "replace"
		if s.Op == "insert" && rapid.IntRange(0, 2).Draw(t, label+".ondup") == 0 {
			upsert = true
		}
		used := map[int64]bool{}
		for r := 0; r < nrows; r++ {
			var row []Val
			for _, c := range s.Cols {
				if c == 0 {
					id := g.NextID[s.Table]
					if upsert && id > 1 && rapid.Bool().Draw(t, fmt.Sprintf("%s.r%d.existing", label, r)) {
						id = rapid.Int64Range(1, id-1).Draw(t, fmt.Sprintf("%s.r%d.id", label, r))
					}
					if used[id] || id == g.NextID[s.Table] {
						id = g.NextID[s.Table]
						g.NextID[s.Table]++
					}
					used[id] = true
					row = append(row, Val{B: []byte(fmt.Sprint(id))})
					continue
				}
				v := GenVal(t, g, tb.Cols[c], fmt.Sprintf("%s.r%dc%d", label, r, c))
				g.note(s.Table, c, v)
				row = append(row, v)
			}
			s.Rows = append(s.Rows, row)
		}
		if upsert && s.Op == "insert" {
			s.OnDup, s.OnDupVals = assignments("od")
		}
	case "update":
		s.Set, s.SetVals = assignments("set")
		s.Where = g.genWhere(t, ts, s.Table, label, true)
	case "delete":
		s.Where = g.genWhere(t, ts, s.Table, label, rapid.IntRange(0, 5).Draw(t, label+".all") == 0)
	case "select":
		if rapid.IntRange(0, 2).Draw(t, label+".star") != 0 {
			s.Cols = pickCols(t, tb, label+".sc", 1)
		}
		s.Alias = rapid.IntRange(0, 2).Draw(t, label+".alias") == 0
		s.Where = g.genWhere(t, ts, s.Table, label, true)
	}
	return s
}

// GenReexec draws the re-execution of the prepared statement of step j (1-based reference j+1): the same shape
// with values of its own.
func GenReexec(t *rapid.T, ts []TableSpec, g *GenState, orig Step, j int, label string) Step {
	s := orig
	s.Op, s.Reexec = "reexec", j+1
	s.PSeed = rapid.IntRange(0, 59).Draw(t, label+".pseed")
	s.NoTypes = rapid.Bool().Draw(t, label+".notypes")
	tb := ts[s.Table]
	regen := func(cols []int, old []Val, l string) []Val {
		out := make([]Val, len(old))
		for i, c := range cols {
			out[i] = GenVal(t, g, tb.Cols[c], fmt.Sprintf("%s.%s%d", label, l, i))
			g.note(s.Table, c, out[i])
		}
		return out
	}
	switch orig.Op {
	case "insert", "replace":
		upsert := orig.Op == "replace" || len(orig.OnDup) > 0
		s.Rows = nil
		used := map[int64]bool{}
		for r, row := range orig.Rows {
			nr := regen(orig.Cols, row, fmt.Sprintf("r%dc", r))
			for i, c := range orig.Cols {
				if c != 0 {
					continue
				}
				id := g.NextID[s.Table]
				if upsert && id > 1 && rapid.Bool().Draw(t, fmt.Sprintf("%s.r%d.existing", label, r)) {
					id = rapid.Int64Range(1, id-1).Draw(t, fmt.Sprintf("%s.r%d.id", label, r))
				}
				if used[id] || id == g.NextID[s.Table] {
					id = g.NextID[s.Table]
					g.NextID[s.Table]++
				}
				used[id] = true
				nr[i] = Val{B: []byte(fmt.Sprint(id))}
			}
			s.Rows = append(s.Rows, nr)
		}
		if len(orig.OnDup) > 0 {
			s.OnDupVals = regen(orig.OnDup, orig.OnDupVals, "od")
		}
	case "update":
		s.SetVals = regen(orig.Set, orig.SetVals, "set")
	}
	if orig.Where != nil {
		w := g.genWhere(t, ts, s.Table, label, false)
		// the condition keeps its column
		if w.Col != orig.Where.Col {
			if orig.Where.Col == 0 {
				hi := g.NextID[s.Table]
				if hi < 2 {
					hi = 2
				}
				w = &Where{Col: 0, Val: Val{B: []byte(fmt.Sprint(rapid.Int64Range(1, hi-1).Draw(t, label+".wid2")))}}
			} else if cand := g.Written[s.Table][orig.Where.Col]; len(cand) > 0 {
				w = &Where{Col: orig.Where.Col, Val: rapid.SampledFrom(cand).Draw(t, label+".wval2")}
			} else {
				w = &Where{Col: orig.Where.Col, Val: orig.Where.Val}
			}
		}
		s.Where = w
	}
	// values written as inline literals are part of the prepared text: a re-execution repeats them
	so, sn := orig.slots(), s.slots()
	for k := range sn {
		if orig.LitEvery > 0 && (k+1)%orig.LitEvery == 0 {
			*sn[k] = *so[k]
		}
	}
	return s
}

// slots returns the values of a step in the order Render writes them.
func (s *Step) slots() []*Val {
	var out []*Val
	for r := range s.Rows {
		for i := range s.Rows[r] {
			out = append(out, &s.Rows[r][i])
		}
	}
	for i := range s.OnDupVals {
		out = append(out, &s.OnDupVals[i])
	}
	for i := range s.SetVals {
		out = append(out, &s.SetVals[i])
	}
	if s.Where != nil {
		out = append(out, &s.Where.Val)
	}
	return out
}

// Reexecutable tells whether a prepared step can be executed again with other values: a plain INSERT whose key
// is an inline literal would only repeat the key.
func Reexecutable(s Step) bool {
	if !s.Prepared || s.Reexec > 0 {
		return false
	}
	if s.Op == "insert" && len(s.OnDup) == 0 && s.LitEvery > 0 {
		k := 0
		for range s.Rows {
			for _, c := range s.Cols {
				k++
				if c == 0 && k%s.LitEvery == 0 {
					return false
				}
			}
		}
	}
	return true
}

// Rendered is a statement ready to send.
type Rendered struct {
	nvals  int
	SQL    string
	Params []Val    // values bound to the placeholders, in order
	PTypes []string // logical type of each parameter
	PCols  []int    // column each parameter belongs to
	// Spellings used for the inline literals (for evidence classes)
	Spellings []string
	// KnownBackslashX: a value of the recorded class C13 literal-meaning-changed:backslash-x was spelled as a hex
	// literal instead of a quoted string
	KnownBackslashX bool
}

func (r *Rendered) lit(v Val, c ColSpec, ci int, s Step) string {
	r.nvals++
	if s.Prepared && !(s.LitEvery > 0 && r.nvals%s.LitEvery == 0) {
		r.Params = append(r.Params, v)
		r.PTypes = append(r.PTypes, c.Logical())
		r.PCols = append(r.PCols, ci)
		return "?"
	}
	sp := s.Spelling + r.nvals - 1
	if !v.Null && !IsInt(c.Logical()) && KnownBackslashX(v.B) {
		if k := sp % nSpellings; k != spHexX && k != spHexLowerX && k != spHex0x && k != spBinaryHex {
			r.KnownBackslashX = true
		}
	}
	text, name := Literal(v, c.Logical(), sp)
	r.Spellings = append(r.Spellings, name)
	return text
}

// Render produces the SQL text (and the bound values of a prepared statement) of a step. For a re-execution
// pass the step with the shape of the original and the values of the re-execution.
func Render(ts []TableSpec, s Step) Rendered {
	tb := ts[s.Table]
	var r Rendered
	var b strings.Builder
	colNames := func(idx []int) string {
		var n []string
		for _, i := range idx {
			n = append(n, tb.Cols[i].Name)
		}
		return strings.Join(n, ", ")
	}
	assign := func(cols []int, vals []Val) {
		for i, c := range cols {
			if i > 0 {
				b.WriteString(", ")
			}
			fmt.Fprintf(&b, "%s = %s", tb.Cols[c].Name, r.lit(vals[i], tb.Cols[c], c, s))
		}
	}
	where := func(qual string) {
		if s.Where != nil {
			c := tb.Cols[s.Where.Col]
			fmt.Fprintf(&b, " WHERE %s%s = %s", qual, c.Name, r.lit(s.Where.Val, c, s.Where.Col, s))
		}
	}
	switch s.Op {
	case "insert", "replace":
		verb := "INSERT"
		if s.Op == "replace" {
			verb = "REPLACE"
		}
		fmt.Fprintf(&b, "%s INTO %s", verb, tb.Name)
		switch s.Form {
		case "set":
			b.WriteString(" SET ")
			assign(s.Cols, s.Rows[0])
		default:
			if s.Form == "list" {
				fmt.Fprintf(&b, " (%s)", colNames(s.Cols))
			}
			b.WriteString(" VALUES ")
			for ri, row := range s.Rows {
				if ri > 0 {
					b.WriteString(", ")
				}
				b.WriteString("(")
				for ci, v := range row {
					if ci > 0 {
						b.WriteString(", ")
					}
					b.WriteString(r.lit(v, tb.Cols[s.Cols[ci]], s.Cols[ci], s))
				}
				b.WriteString(")")
			}
		}
		if len(s.OnDup) > 0 {
			b.WriteString(" ON DUPLICATE KEY UPDATE ")
			assign(s.OnDup, s.OnDupVals)
		}
	case "update":
		fmt.Fprintf(&b, "UPDATE %s SET ", tb.Name)
		assign(s.Set, s.SetVals)
		where("")
	case "delete":
		fmt.Fprintf(&b, "DELETE FROM %s", tb.Name)
		where("")
	case "select":
		b.WriteString("SELECT ")
		qual := ""
		if s.Alias {
			qual = "q."
		}
		if s.Cols == nil {
			b.WriteString(qual + "*")
		} else {
			for i, c := range s.Cols {
				if i > 0 {
					b.WriteString(", ")
				}
				b.WriteString(qual + tb.Cols[c].Name)
				if s.Alias && i%2 == 0 {
					fmt.Fprintf(&b, " AS a%d", i)
				}
			}
		}
		fmt.Fprintf(&b, " FROM %s", tb.Name)
		if s.Alias {
			b.WriteString(" AS q")
		}
		where(qual)
	}
	r.SQL = b.String()
	return r
}

// ParamsOf renders the bound values as protocol parameters with types chosen by the step's seed.
func ParamsOf(s Step, r Rendered) []mysess.Param {
	out := make([]mysess.Param, len(r.Params))
	for i, v := range r.Params {
		out[i] = ParamOf(v, r.PTypes[i], s.PSeed+7*i)
	}
	return out
}
