package racewatch

import (
	"io"
	"os"
	"regexp"
	"strings"
	"syscall"
)

// Watch turns reports of Go's race detector into violations. The detector writes its reports
// to file descriptor 2 at the moment of the racing access and the testing package only says "race
// detected during execution of test" afterwards, which the driver cannot attribute to a case. In a
// -race build TestConcurrent therefore points fd 2 at a scratch file for its duration and looks at
// what appeared after every case; the text is passed on to the real stderr at the end.
type Watch struct {
	f     *os.File
	saved int
	off   int64
}

func Start() *Watch {
	if !Enabled {
		return nil
	}
	f, err := os.CreateTemp("", "verif-race-*.txt")
	if err != nil {
		return nil
	}
	saved, err := syscall.Dup(2)
	if err != nil {
		f.Close()
		os.Remove(f.Name())
		return nil
	}
	if err := syscall.Dup2(int(f.Fd()), 2); err != nil {
		syscall.Close(saved)
		f.Close()
		os.Remove(f.Name())
		return nil
	}
	return &Watch{f: f, saved: saved}
}

// poll returns what was written to fd 2 since the last poll.
func (w *Watch) Poll() string {
	if w == nil {
		return ""
	}
	st, err := w.f.Stat()
	if err != nil || st.Size() <= w.off {
		return ""
	}
	buf := make([]byte, st.Size()-w.off)
	n, _ := w.f.ReadAt(buf, w.off)
	w.off += int64(n)
	return string(buf[:n])
}

func (w *Watch) Stop() {
	if w == nil {
		return
	}
	syscall.Dup2(w.saved, 2)
	syscall.Close(w.saved)
	if _, err := w.f.Seek(0, io.SeekStart); err == nil {
		io.Copy(os.Stderr, w.f)
	}
	w.f.Close()
	os.Remove(w.f.Name())
}

var acraFrame = regexp.MustCompile(`(?m)^\s+github\.com/cossacklabs/acra/(\S+)\(\)`)

// raceSites names the innermost acra function of each of the two racing accesses of the first report.
func Sites(report string) (first, second string) {
	i := strings.Index(report, "DATA RACE")
	if i < 0 {
		return "", ""
	}
	report = report[i:]
	if j := strings.Index(report, "=================="); j > 0 {
		report = report[:j]
	}
	short := func(s string) string {
		m := acraFrame.FindStringSubmatch(s)
		if m == nil {
			return "?"
		}
		return m[1][strings.LastIndex(m[1], "/")+1:]
	}
	parts := strings.SplitN(report, "Previous ", 2)
	first = short(parts[0])
	second = "?"
	if len(parts) == 2 {
		rest := parts[1]
		if k := strings.Index(rest, "Goroutine "); k > 0 {
			rest = rest[:k]
		}
		second = short(rest)
	}
	return
}
