//go:build !race

package racewatch

// Enabled tells whether the binary is built with the race detector.
const Enabled = false
