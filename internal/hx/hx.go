// Package hx is the shared harness of the acra property checks: evidence accounting,
// known-finding handling, replay files and panic capture. Every property package owns one
// Recorder; the driver (/verif/check) merges what the test binaries write to $VERIF_OUT.
package hx

import (
	"crypto/sha256"
	"encoding/binary"
	"encoding/json"
	"flag"
	"fmt"
	"os"
	"path/filepath"
	"runtime"
	"sort"
	"strconv"
	"strings"
	"sync"
	"testing"
	"time"
)

// TB is the part of testing.T / rapid.T the harness needs.
type TB interface {
	Fatalf(format string, args ...any)
	Logf(format string, args ...any)
}

// Violation is one failed oracle. Sig identifies the failing class (call site + shape) and is
// what known_findings.json entries are matched against; Msg carries the concrete values.
type Violation struct {
	Sig string `json:"sig"`
	Msg string `json:"msg"`
}

// Vs collects violations of one case.
type Vs []Violation

// Add appends a violation.
func (v *Vs) Add(sig, format string, args ...any) {
	*v = append(*v, Violation{Sig: sig, Msg: fmt.Sprintf(format, args...)})
}

// Finding is an entry of known_findings.json.
type Finding struct {
	Property string `json:"property"`
	Sig      string `json:"sig"`
	Status   string `json:"status"` // "open" or "fixed"
	Commit   string `json:"commit,omitempty"`
	What     string `json:"what"`
	Replay   string `json:"replay,omitempty"`
}

type replayFile struct {
	Property string          `json:"property"`
	Test     string          `json:"test"`
	Sig      string          `json:"sig,omitempty"`
	Msg      string          `json:"msg,omitempty"`
	Case     json.RawMessage `json:"case"`
}

type violationOut struct {
	Test   string `json:"test"`
	Sig    string `json:"sig"`
	Msg    string `json:"msg"`
	Replay string `json:"replay"`
}

// Recorder accumulates evidence for one property in one process.
type Recorder struct {
	Prop string

	mu          sync.Mutex
	start       time.Time
	evals       map[string]int
	nontrivial  map[string]int
	classes     map[string]int
	distinct    map[uint64]struct{}
	samples     map[string][]json.RawMessage
	sampleSeen  map[string]int
	excluded    map[string]int
	knownHit    map[string]string // sig -> what (open findings reproduced in this run)
	violations  []violationOut
	notes       []string
	open        map[string]Finding
	rules       map[string]string
	assumptions []string
	root        string
}

// New makes the recorder of a property package.
func New(prop string) *Recorder {
	r := &Recorder{Prop: prop, start: time.Now(), evals: map[string]int{}, nontrivial: map[string]int{}, classes: map[string]int{},
		distinct: map[uint64]struct{}{}, samples: map[string][]json.RawMessage{}, sampleSeen: map[string]int{}, excluded: map[string]int{},
		knownHit: map[string]string{}, open: map[string]Finding{}, rules: map[string]string{}}
	r.root = os.Getenv("VERIF_ROOT")
	if r.root == "" {
		r.root = "/verif"
	}
	if b, err := os.ReadFile(filepath.Join(r.root, "known_findings.json")); err == nil {
		var f struct {
			Findings []Finding `json:"findings"`
		}
		if err := json.Unmarshal(b, &f); err != nil {
			panic("known_findings.json: " + err.Error())
		}
		for _, e := range f.Findings {
			if e.Property == prop && e.Status == "open" {
				r.open[e.Sig] = e
			}
		}
	}
	return r
}

// Tier is "quick" or "thorough".
func Tier() string {
	if os.Getenv("VERIF_TIER") == "thorough" {
		return "thorough"
	}
	return "quick"
}

// Seed is the VERIF_SEED value (default 1).
func Seed() uint64 {
	if s, err := strconv.ParseUint(os.Getenv("VERIF_SEED"), 10, 64); err == nil {
		return s
	}
	return 1
}

// Shard is the index of this process among the shards of a thorough run.
func Shard() int {
	n, _ := strconv.Atoi(os.Getenv("VERIF_SHARD"))
	return n
}

// Checks sets the number of rapid checks for the next rapid.Check call according to the tier.
// VERIF_SCALE (percent) scales it, for development.
func Checks(quick, thorough int) int {
	n := quick
	if Tier() == "thorough" {
		n = thorough
	}
	if s, err := strconv.Atoi(os.Getenv("VERIF_SCALE")); err == nil && s > 0 {
		n = n * s / 100
		if n < 1 {
			n = 1
		}
	}
	flag.Set("rapid.checks", strconv.Itoa(n))
	return n
}

// Rule records, for the evidence file, how a test generates cases and what it counts as non-trivial.
func (r *Recorder) Rule(test, rule string) {
	r.mu.Lock()
	r.rules[test] = rule
	r.mu.Unlock()
}

// Assume records an assumption for the evidence file.
func (r *Recorder) Assume(a string) {
	r.mu.Lock()
	defer r.mu.Unlock()
	for _, x := range r.assumptions {
		if x == a {
			return
		}
	}
	r.assumptions = append(r.assumptions, a)
}

func canon(c any) []byte {
	b, err := json.Marshal(c)
	if err != nil {
		panic("case not serialisable: " + err.Error())
	}
	return b
}

// Seen counts one evaluated case. nontrivial is the property's stated rule evaluated on this case.
func (r *Recorder) Seen(test string, c any, nontrivial bool, classes ...string) {
	b := canon(c)
	r.mu.Lock()
	defer r.mu.Unlock()
	r.evals[test]++
	for _, cl := range classes {
		r.classes[test+"/"+cl]++
	}
	if nontrivial {
		r.nontrivial[test]++
		h := sha256.Sum256(append([]byte(test+"\x00"), b...))
		r.distinct[binary.LittleEndian.Uint64(h[:8])] = struct{}{}
		// deterministic reservoir: keep the first 2 and then every case whose hash is "small"
		r.sampleSeen[test]++
		if len(r.samples[test]) < 3 || (h[9] == 0 && len(r.samples[test]) < 6) {
			r.samples[test] = append(r.samples[test], trimSample(b))
		}
	}
}

// Class bumps a class counter outside Seen.
func (r *Recorder) Class(test, class string) {
	r.mu.Lock()
	r.classes[test+"/"+class]++
	r.mu.Unlock()
}

func trimSample(b []byte) json.RawMessage {
	if len(b) <= 1500 {
		return json.RawMessage(b)
	}
	var v any
	if json.Unmarshal(b, &v) != nil {
		return json.RawMessage(strconv.Quote(string(b[:1500]) + "…"))
	}
	v = shorten(v)
	out, _ := json.Marshal(v)
	if len(out) > 6000 {
		return json.RawMessage(strconv.Quote(string(out[:6000]) + "…"))
	}
	return out
}

func shorten(v any) any {
	switch x := v.(type) {
	case string:
		if len(x) > 160 {
			return fmt.Sprintf("%s…(%d chars)", x[:160], len(x))
		}
		return x
	case []any:
		if len(x) > 24 {
			y := make([]any, 0, 25)
			for _, e := range x[:24] {
				y = append(y, shorten(e))
			}
			return append(y, fmt.Sprintf("…(%d items)", len(x)))
		}
		for i := range x {
			x[i] = shorten(x[i])
		}
		return x
	case map[string]any:
		for k := range x {
			x[k] = shorten(x[k])
		}
		return x
	}
	return v
}

// IsKnown tells whether sig is an open known finding of this property (so generators/oracles
// can exclude exactly that class and keep searching behind it). It counts the exclusion.
func (r *Recorder) IsKnown(sig string) bool {
	r.mu.Lock()
	defer r.mu.Unlock()
	if f, ok := r.open[sig]; ok {
		r.excluded[sig]++
		r.knownHit[sig] = f.What
		return true
	}
	return false
}

// Report handles the violations of one case: open known findings are counted and skipped, the
// first other violation is written as a replay file and fails the test (rapid then shrinks; the
// file of the last failing invocation, i.e. of the minimal case, is the one that survives).
func (r *Recorder) Report(t TB, test string, c any, vs Vs) {
	for _, v := range vs {
		if r.IsKnown(v.Sig) {
			continue
		}
		path := r.writeFail(test, c, v)
		t.Fatalf("violation %s: %s (replay %s)", v.Sig, v.Msg, path)
	}
}

func (r *Recorder) outDir() string {
	d := os.Getenv("VERIF_OUT")
	if d == "" {
		d = filepath.Join(r.root, "out", "dev", r.Prop)
	}
	os.MkdirAll(d, 0o755)
	return d
}

func (r *Recorder) writeFail(test string, c any, v Violation) string {
	rf := replayFile{Property: r.Prop, Test: test, Sig: v.Sig, Msg: v.Msg, Case: canon(c)}
	b, _ := json.MarshalIndent(rf, "", " ")
	path := filepath.Join(r.outDir(), fmt.Sprintf("fail-%s-%d.json", strings.ReplaceAll(test, "/", "_"), Shard()))
	os.WriteFile(path, b, 0o644)
	r.mu.Lock()
	defer r.mu.Unlock()
	for i := range r.violations {
		if r.violations[i].Test == test {
			r.violations[i] = violationOut{test, v.Sig, v.Msg, path}
			return path
		}
	}
	r.violations = append(r.violations, violationOut{test, v.Sig, v.Msg, path})
	return path
}

// Guard runs f and turns a panic into a violation whose signature names the panicking function.
func Guard(vs *Vs, what string, f func()) (panicked bool) {
	defer func() {
		if p := recover(); p != nil {
			panicked = true
			fn := panicSite()
			vs.Add("panic:"+what+"@"+fn, "panic in %s: %v", what, p)
		}
	}()
	f()
	return false
}

// panicSite returns the innermost acra function on the stack of a recovered panic.
func panicSite() string {
	pc := make([]uintptr, 64)
	n := runtime.Callers(3, pc)
	frames := runtime.CallersFrames(pc[:n])
	first := ""
	for {
		f, more := frames.Next()
		if strings.Contains(f.Function, "cossacklabs/acra") {
			name := f.Function[strings.LastIndex(f.Function, "/")+1:]
			return name
		}
		if first == "" && !strings.HasPrefix(f.Function, "runtime.") {
			first = f.Function
		}
		if !more {
			break
		}
	}
	return first
}

// ReplayHandler decodes a saved case and evaluates the property on it.
type ReplayHandler func(raw json.RawMessage) Vs

// Replay runs the regression tier: every file of replays/<prop>/ (or $VERIF_REPLAY_FILE) goes
// through its property function directly, without the generator library.
func (r *Recorder) Replay(t *testing.T, handlers map[string]ReplayHandler) {
	var files []string
	if f := os.Getenv("VERIF_REPLAY_FILE"); f != "" {
		files = []string{f}
	} else {
		files, _ = filepath.Glob(filepath.Join(r.root, "replays", r.Prop, "*.json"))
		sort.Strings(files)
	}
	for _, f := range files {
		b, err := os.ReadFile(f)
		if err != nil {
			t.Fatalf("replay %s: %v", f, err)
		}
		var rf replayFile
		if err := json.Unmarshal(b, &rf); err != nil {
			t.Fatalf("replay %s: %v", f, err)
		}
		if rf.Property != r.Prop {
			continue
		}
		h, ok := handlers[rf.Test]
		if !ok {
			t.Fatalf("replay %s: no handler for test %q", f, rf.Test)
		}
		vs := h(rf.Case)
		r.mu.Lock()
		r.evals["replay"]++
		r.mu.Unlock()
		for _, v := range vs {
			if r.IsKnown(v.Sig) {
				continue
			}
			r.mu.Lock()
			r.violations = append(r.violations, violationOut{"replay:" + rf.Test, v.Sig, v.Msg, f})
			r.mu.Unlock()
			t.Errorf("replay %s: violation %s: %s", f, v.Sig, v.Msg)
			break
		}
	}
}

// Note adds a free-text note to the evidence (e.g. an inconclusive sub-run).
func (r *Recorder) Note(format string, args ...any) {
	r.mu.Lock()
	r.notes = append(r.notes, fmt.Sprintf(format, args...))
	r.mu.Unlock()
}

// Main runs the tests of a property package and writes this process' evidence fragment.
func (r *Recorder) Main(m *testing.M) int {
	code := m.Run()
	r.Flush(code)
	return code
}

// Flush writes the fragment.
func (r *Recorder) Flush(code int) {
	r.mu.Lock()
	defer r.mu.Unlock()
	hashes := make([]uint64, 0, len(r.distinct))
	for h := range r.distinct {
		hashes = append(hashes, h)
	}
	sort.Slice(hashes, func(i, j int) bool { return hashes[i] < hashes[j] })
	frag := map[string]any{
		"property": r.Prop, "tier": Tier(), "seed": Seed(), "shard": Shard(), "exit": code,
		"evaluations": r.evals, "nontrivial": r.nontrivial, "classes": r.classes, "distinct_hashes": hashes,
		"samples": r.samples, "excluded_known": r.excluded, "known_hit": r.knownHit, "violations": r.violations,
		"rules": r.rules, "assumptions": r.assumptions, "notes": r.notes, "wall_s": time.Since(r.start).Seconds(),
	}
	b, _ := json.Marshal(frag)
	os.WriteFile(filepath.Join(r.outDir(), fmt.Sprintf("frag-%d-%d.json", Shard(), os.Getpid())), b, 0o644)
}

// PanicFunc extracts the innermost acra function from a formatted stack trace (debug.Stack()).
func PanicFunc(stack string) string {
	for _, line := range strings.Split(stack, "\n") {
		if strings.Contains(line, "cossacklabs/acra/") && strings.Contains(line, "(") && !strings.HasPrefix(line, "\t") {
			l := line[strings.LastIndex(line, "/")+1:]
			if i := strings.Index(l, "("); i > 0 && !strings.Contains(l[:i], " ") {
				// method receivers look like pkg.(*T).M(...)
			}
			if i := strings.LastIndex(l, "("); i > 0 {
				return l[:i]
			}
			return l
		}
	}
	return "unknown"
}
