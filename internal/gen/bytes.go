// Package gen holds the shared rapid generators.
package gen

import (
	"bytes"
	"encoding/hex"
	"encoding/json"

	"pgregory.net/rapid"
)

// Hex is a byte string that serialises as hex in case files.
type Hex []byte

// MarshalJSON implements json.Marshaler.
func (h Hex) MarshalJSON() ([]byte, error) { return json.Marshal(hex.EncodeToString(h)) }

// UnmarshalJSON implements json.Unmarshaler.
func (h *Hex) UnmarshalJSON(b []byte) error {
	var s string
	if err := json.Unmarshal(b, &s); err != nil {
		return err
	}
	d, err := hex.DecodeString(s)
	*h = d
	return err
}

// structural sizes of the envelope formats and their neighbours
var sizes = []int{1, 2, 3, 7, 8, 9, 11, 12, 13, 14, 15, 17, 18, 19, 32, 33, 34, 43, 44, 45, 46, 83, 84, 85, 136, 137, 138, 144, 145, 146, 173, 255, 256, 257}

// Bytes draws a byte string from weighted classes (possibly empty). maxLen bounds the long class.
func Bytes(t *rapid.T, label string, maxLen int) Hex {
	cls := rapid.SampledFrom([]string{"empty", "one", "short", "short", "structural", "tags", "utf8", "nul", "uniform", "long", "hashlike"}).Draw(t, label+".class")
	switch cls {
	case "empty":
		return Hex{}
	case "one":
		return Hex{rapid.Byte().Draw(t, label+".b")}
	case "short":
		return rapid.SliceOfN(rapid.Byte(), 1, 40).Draw(t, label+".short")
	case "structural":
		n := rapid.SampledFrom(sizes).Draw(t, label+".n")
		return fill(t, label, n)
	case "tags":
		sym := rapid.SampledFrom([]byte{'"', '%'}).Draw(t, label+".sym")
		n := rapid.IntRange(1, 12).Draw(t, label+".ntag")
		pre := rapid.SliceOfN(rapid.Byte(), 0, 6).Draw(t, label+".pre")
		post := rapid.SliceOfN(rapid.Byte(), 0, 20).Draw(t, label+".post")
		return append(append(pre, bytes.Repeat([]byte{sym}, n)...), post...)
	case "utf8":
		return Hex(rapid.StringN(1, 40, -1).Draw(t, label+".s"))
	case "nul":
		n := rapid.IntRange(1, 64).Draw(t, label+".n")
		b := make([]byte, n)
		if rapid.Bool().Draw(t, label+".ff") {
			for i := range b {
				b[i] = 0xff
			}
		}
		return b
	case "uniform":
		return rapid.SliceOfN(rapid.Byte(), 1, 300).Draw(t, label+".u")
	case "hashlike":
		// looks like a search hash prefix (function number 0x7f + 32 bytes) followed by bytes
		b := rapid.SliceOfN(rapid.Byte(), 33, 80).Draw(t, label+".h")
		b[0] = 0x7f
		return b
	default: // long, log-uniform up to maxLen
		if maxLen < 512 {
			maxLen = 512
		}
		exp := rapid.IntRange(9, 17).Draw(t, label+".exp")
		n := 1 << exp
		n += rapid.IntRange(-3, 3).Draw(t, label+".d")
		if n > maxLen {
			n = maxLen
		}
		return fill(t, label, n)
	}
}

// fill makes n bytes from a short generated pattern (keeps generated data and case files small).
func fill(t *rapid.T, label string, n int) Hex {
	pat := rapid.SliceOfN(rapid.Byte(), 1, 16).Draw(t, label+".pat")
	out := make([]byte, n)
	for i := range out {
		out[i] = pat[i%len(pat)] + byte(i/len(pat))
	}
	return out
}

// NonEmpty draws a non-empty byte string.
func NonEmpty(t *rapid.T, label string, maxLen int) Hex {
	b := Bytes(t, label, maxLen)
	if len(b) == 0 {
		return Hex{rapid.Byte().Draw(t, label+".ne")}
	}
	return b
}

// Marker draws a plaintext carrying a unique, searchable marker of at least 12 bytes.
func Marker(t *rapid.T, label string) Hex {
	n := rapid.Uint64().Draw(t, label+".m")
	tail := rapid.SliceOfN(rapid.Byte(), 0, 30).Draw(t, label+".tail")
	return append([]byte("MRK"+hex.EncodeToString([]byte{byte(n >> 56), byte(n >> 48), byte(n >> 40), byte(n >> 32), byte(n >> 24), byte(n >> 16), byte(n >> 8), byte(n)})+"#"), tail...)
}
