package pgsess

import (
	"bytes"
	"net"
	"sync"
	"time"

	pg_query "github.com/cossacklabs/pg_query_go/v5"
	"github.com/jackc/pgx/v5/pgproto3"
)

// Received is one statement-carrying message the fake database got.
type Received struct {
	Kind   string // "Q" simple query, "P" parse, "B" bind
	SQL    string
	Name   string
	OIDs   []uint32
	Params []Param
	// ParamFormatCodes / ResultFormatCodes as they appeared on the wire (Bind)
	ParamFormatCodes  []int16
	ResultFormatCodes []int16
}

// FakeServer speaks the backend side of the protocol over the typed store.
type FakeServer struct {
	conn  net.Conn
	Store *Store

	mu       sync.Mutex
	raw      bytes.Buffer // every byte received from the proxy
	sentRaw  bytes.Buffer // every byte sent to the proxy
	received []Received

	prepared map[string]*Prepared
	portals  map[string]*portal

	// Hook, when set, can replace the answer to a simple query (used to plant arbitrary result sets).
	Hook func(sql string) (*Result, bool)

	noticeEvery time.Duration
	noticeBurst int
}

// noticeCode marks the NoticeResponse messages of the background noise (Config.NoticeEvery).
const noticeCode = "01VRF"

const noticeBurst = 16

// noise writes complete NoticeResponse messages to the connection until it is closed. Every flush of the
// protocol goroutine is one Write call and so is every notice: the messages never mix.
func (f *FakeServer) noise(rc recConn) {
	one, _ := (&pgproto3.NoticeResponse{Severity: "NOTICE", Code: noticeCode, Message: "verif background notice"}).Encode(nil)
	// a burst per write: the proxy's database side then works on messages back to back for a while
	// (time.Sleep cannot pace single messages a few microseconds apart)
	burst := f.noticeBurst
	if burst <= 0 {
		burst = noticeBurst
	}
	msg := bytes.Repeat(one, burst)
	for {
		if _, err := rc.Write(msg); err != nil {
			return
		}
		if f.noticeEvery >= time.Microsecond {
			time.Sleep(f.noticeEvery)
		} // else back to back: the socket buffer paces the writer
	}
}

type portal struct {
	p       *Prepared
	params  []Param
	formats []int16
	cur     *cursor // c04e.go: set once the portal was executed with a row limit
}

type recConn struct {
	net.Conn
	s *FakeServer
}

func (r recConn) Read(b []byte) (int, error) {
	n, err := r.Conn.Read(b)
	r.s.mu.Lock()
	r.s.raw.Write(b[:n])
	r.s.mu.Unlock()
	return n, err
}

func (r recConn) Write(b []byte) (int, error) {
	n, err := r.Conn.Write(b)
	r.s.mu.Lock()
	r.s.sentRaw.Write(b[:n])
	r.s.mu.Unlock()
	return n, err
}

func newFakeServer(conn net.Conn, store *Store) *FakeServer {
	return &FakeServer{conn: conn, Store: store, prepared: map[string]*Prepared{}, portals: map[string]*portal{}}
}

// Raw returns all bytes the database received so far.
func (f *FakeServer) Raw() []byte {
	f.mu.Lock()
	defer f.mu.Unlock()
	return append([]byte(nil), f.raw.Bytes()...)
}

// SentRaw returns all bytes the database sent so far.
func (f *FakeServer) SentRaw() []byte {
	f.mu.Lock()
	defer f.mu.Unlock()
	return append([]byte(nil), f.sentRaw.Bytes()...)
}

// Received returns the statement-carrying messages received so far.
func (f *FakeServer) Received() []Received {
	f.mu.Lock()
	defer f.mu.Unlock()
	return append([]Received(nil), f.received...)
}

func (f *FakeServer) note(r Received) {
	f.mu.Lock()
	f.received = append(f.received, r)
	f.mu.Unlock()
}

func fieldDescs(fields []Field, formats []int16) []pgproto3.FieldDescription {
	var out []pgproto3.FieldDescription
	for i, fd := range fields {
		var format int16
		if len(formats) == 1 {
			format = formats[0]
		} else if i < len(formats) {
			format = formats[i]
		}
		size := int16(-1)
		switch fd.Type {
		case Int4:
			size = 4
		case Int8:
			size = 8
		}
		out = append(out, pgproto3.FieldDescription{Name: []byte(fd.Name), TableOID: 16384, TableAttributeNumber: uint16(i + 1), DataTypeOID: fd.Type.OID(), DataTypeSize: size, TypeModifier: -1, Format: format})
	}
	return out
}

func formatAt(formats []int16, i int) int16 {
	if len(formats) == 1 {
		return formats[0]
	}
	if i < len(formats) {
		return formats[i]
	}
	return 0
}

func (f *FakeServer) sendResult(be *pgproto3.Backend, res *Result, formats []int16, withDesc bool) {
	if len(res.Fields) > 0 {
		if withDesc {
			be.Send(&pgproto3.RowDescription{Fields: fieldDescs(res.Fields, formats)})
		}
		for _, row := range res.Rows {
			vals := make([][]byte, len(row))
			for i, v := range row {
				vals[i] = Encode(v, res.Fields[i].Type, formatAt(formats, i))
			}
			be.Send(&pgproto3.DataRow{Values: vals})
		}
	}
	if res.Tag == "" {
		be.Send(&pgproto3.EmptyQueryResponse{})
	} else {
		be.Send(&pgproto3.CommandComplete{CommandTag: []byte(res.Tag)})
	}
}

func sendErr(be *pgproto3.Backend, err error) {
	be.Send(&pgproto3.ErrorResponse{Severity: "ERROR", Code: "42000", Message: err.Error()})
}

func (f *FakeServer) serve() {
	rc := recConn{f.conn, f}
	be := pgproto3.NewBackend(rc, rc)
	if _, err := be.ReceiveStartupMessage(); err != nil {
		return
	}
	be.Send(&pgproto3.AuthenticationOk{})
	be.Send(&pgproto3.ParameterStatus{Name: "server_version", Value: "14.0 (verif fake)"})
	be.Send(&pgproto3.ParameterStatus{Name: "standard_conforming_strings", Value: "on"})
	be.Send(&pgproto3.BackendKeyData{ProcessID: 4242, SecretKey: 1})
	be.Send(&pgproto3.ReadyForQuery{TxStatus: 'I'})
	if be.Flush() != nil {
		return
	}
	if f.noticeEvery > 0 {
		go f.noise(rc)
	}
	skipToSync := false
	for {
		m, err := be.Receive()
		if err != nil {
			return
		}
		if skipToSync {
			if _, ok := m.(*pgproto3.Sync); ok {
				skipToSync = false
				be.Send(&pgproto3.ReadyForQuery{TxStatus: 'I'})
				be.Flush()
			}
			continue
		}
		fail := func(err error) {
			sendErr(be, err)
			skipToSync = true
		}
		switch q := m.(type) {
		case *pgproto3.Query:
			f.note(Received{Kind: "Q", SQL: q.String})
			if f.Hook != nil {
				if res, ok := f.Hook(q.String); ok {
					f.sendResult(be, res, nil, true)
					be.Send(&pgproto3.ReadyForQuery{TxStatus: 'I'})
					be.Flush()
					continue
				}
			}
			// a simple Query may hold several statements: each is answered in turn, the first error ends the
			// message, one ReadyForQuery closes it
			for _, part := range splitStatements(q.String) {
				p, err := f.Store.Prepare(part, nil)
				if err == nil {
					var res *Result
					res, err = f.Store.Exec(p, nil)
					if err == nil {
						f.sendResult(be, res, nil, true)
					}
				}
				if err != nil {
					sendErr(be, err)
					break
				}
			}
			be.Send(&pgproto3.ReadyForQuery{TxStatus: 'I'})
			be.Flush()
		case *pgproto3.Parse:
			f.note(Received{Kind: "P", SQL: q.Query, Name: q.Name, OIDs: append([]uint32(nil), q.ParameterOIDs...)})
			p, err := f.Store.Prepare(q.Query, q.ParameterOIDs)
			if err != nil {
				fail(err)
				continue
			}
			f.prepared[q.Name] = p
			be.Send(&pgproto3.ParseComplete{})
		case *pgproto3.Bind:
			p, ok := f.prepared[q.PreparedStatement]
			if !ok {
				fail(sqlErr("prepared statement %q does not exist", q.PreparedStatement))
				continue
			}
			var params []Param
			for i, d := range q.Parameters {
				pp := Param{Format: formatAt(q.ParameterFormatCodes, i)}
				if d == nil {
					pp.Null = true
				} else {
					pp.Data = append([]byte{}, d...)
				}
				params = append(params, pp)
			}
			f.note(Received{Kind: "B", SQL: p.SQL, Name: q.PreparedStatement, Params: params,
				ParamFormatCodes: append([]int16(nil), q.ParameterFormatCodes...), ResultFormatCodes: append([]int16(nil), q.ResultFormatCodes...)})
			f.portals[q.DestinationPortal] = &portal{p: p, params: params, formats: append([]int16(nil), q.ResultFormatCodes...)}
			be.Send(&pgproto3.BindComplete{})
		case *pgproto3.Describe:
			if q.ObjectType == 'S' {
				p, ok := f.prepared[q.Name]
				if !ok {
					fail(sqlErr("prepared statement %q does not exist", q.Name))
					continue
				}
				oids := make([]uint32, len(p.ParamTypes))
				for i, t := range p.ParamTypes {
					oids[i] = t.OID()
					if i < len(p.Declared) && p.Declared[i] != 0 {
						oids[i] = p.Declared[i]
					}
				}
				be.Send(&pgproto3.ParameterDescription{ParameterOIDs: oids})
				fields, err := f.Store.Describe(p)
				if err != nil {
					fail(err)
					continue
				}
				if len(fields) == 0 {
					be.Send(&pgproto3.NoData{})
				} else {
					be.Send(&pgproto3.RowDescription{Fields: fieldDescs(fields, nil)})
				}
			} else {
				po, ok := f.portals[q.Name]
				if !ok {
					fail(sqlErr("portal %q does not exist", q.Name))
					continue
				}
				fields, err := f.Store.Describe(po.p)
				if err != nil {
					fail(err)
					continue
				}
				if len(fields) == 0 {
					be.Send(&pgproto3.NoData{})
				} else {
					be.Send(&pgproto3.RowDescription{Fields: fieldDescs(fields, po.formats)})
				}
			}
		case *pgproto3.Execute:
			po, ok := f.portals[q.Portal]
			if !ok {
				fail(sqlErr("portal %q does not exist", q.Portal))
				continue
			}
			// c04e.go: honours the row limit; without one (and on a portal never executed with one) as before
			if err := f.execute(be, po, q.MaxRows); err != nil {
				fail(err)
				continue
			}
		case *pgproto3.Close:
			if q.ObjectType == 'S' {
				delete(f.prepared, q.Name)
			} else {
				delete(f.portals, q.Name)
			}
			be.Send(&pgproto3.CloseComplete{})
		case *pgproto3.Flush:
			be.Flush()
		case *pgproto3.Sync:
			be.Send(&pgproto3.ReadyForQuery{TxStatus: 'I'})
			be.Flush()
		case *pgproto3.Terminate:
			return
		}
	}
}

// splitStatements cuts the text of a simple Query into its statements (by the parser's statement locations);
// text the parser refuses, and single statements, are returned whole.
func splitStatements(sql string) []string {
	tree, err := pg_query.Parse(sql)
	if err != nil || len(tree.Stmts) <= 1 {
		return []string{sql}
	}
	var out []string
	for _, st := range tree.Stmts {
		from, n := int(st.StmtLocation), int(st.StmtLen)
		if from < 0 || from > len(sql) {
			return []string{sql}
		}
		to := len(sql)
		if n > 0 && from+n <= len(sql) {
			to = from + n
		}
		out = append(out, sql[from:to])
	}
	return out
}
