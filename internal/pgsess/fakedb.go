// Package pgsess runs acra's PostgreSQL proxy in-process between a scripted client and a typed fake
// database (DESIGN 3, H-pg-session). Nothing in here is under test; it is the independent
// reference side: a tiny SQL interpreter over pg_query parse trees with a typed in-memory store.
package pgsess

import (
	"bytes"
	"encoding/binary"
	"encoding/hex"
	"errors"
	"fmt"
	"strconv"
	"strings"
	"sync"

	pg_query "github.com/cossacklabs/pg_query_go/v5"
)

// ColType is the database-side type of a column.
type ColType int

// Column types the fake database knows.
const (
	Bytea ColType = iota
	Text
	Int4
	Int8
)

// OID returns the PostgreSQL type oid.
func (t ColType) OID() uint32 {
	switch t {
	case Bytea:
		return 17
	case Int4:
		return 23
	case Int8:
		return 20
	}
	return 25
}

func typeFromOID(oid uint32) (ColType, bool) {
	switch oid {
	case 17:
		return Bytea, true
	case 23:
		return Int4, true
	case 20:
		return Int8, true
	case 25, 1043, 705:
		return Text, true
	}
	return Text, false
}

// ColumnDef / TableDef describe the fake database's schema.
type ColumnDef struct {
	Name string
	Type ColType
}

// TableDef is a table.
type TableDef struct {
	Name string
	Cols []ColumnDef
}

// Value is a stored value in canonical form: bytea = raw bytes, text = raw bytes, ints = decimal text.
type Value struct {
	Null bool
	B    []byte
}

func (v Value) String() string {
	if v.Null {
		return "NULL"
	}
	return fmt.Sprintf("%q", v.B)
}

type table struct {
	def  TableDef
	rows [][]Value
}

func (t *table) col(name string) int {
	for i, c := range t.def.Cols {
		if strings.EqualFold(c.Name, name) {
			return i
		}
	}
	return -1
}

// Param is a bound parameter as received.
type Param struct {
	Null   bool
	Format int16
	Data   []byte
}

// Result of executing one statement.
type Result struct {
	Fields []Field
	Rows   [][]Value
	Tag    string
}

// Field of a result.
type Field struct {
	Name string
	Type ColType
}

// Store is the typed in-memory database.
type Store struct {
	mu     sync.Mutex
	tables map[string]*table
}

// NewStore creates the store with the given tables.
func NewStore(defs []TableDef) *Store {
	s := &Store{tables: map[string]*table{}}
	for _, d := range defs {
		s.tables[strings.ToLower(d.Name)] = &table{def: d}
	}
	return s
}

// Rows returns a copy of a table's rows (for oracles that inspect what was stored).
func (s *Store) Rows(name string) [][]Value {
	s.mu.Lock()
	defer s.mu.Unlock()
	t := s.tables[strings.ToLower(name)]
	if t == nil {
		return nil
	}
	out := make([][]Value, len(t.rows))
	for i, r := range t.rows {
		out[i] = append([]Value(nil), r...)
	}
	return out
}

// SetRows replaces a table's rows (to plant stored values directly).
func (s *Store) SetRows(name string, rows [][]Value) {
	s.mu.Lock()
	defer s.mu.Unlock()
	s.tables[strings.ToLower(name)].rows = rows
}

// ErrSQL is an error the fake database reports to the client as ErrorResponse.
type ErrSQL struct{ Msg string }

func (e *ErrSQL) Error() string { return e.Msg }

func sqlErr(f string, a ...any) error { return &ErrSQL{fmt.Sprintf(f, a...)} }

// ---------------------------------------------------------------------------------------------
// literal / parameter conversion

// ParseByteaText decodes PostgreSQL's bytea input syntax (hex or escape format).
func ParseByteaText(s []byte) ([]byte, error) {
	if bytes.HasPrefix(s, []byte(`\x`)) {
		out := make([]byte, hex.DecodedLen(len(s)-2))
		_, err := hex.Decode(out, s[2:])
		if err != nil {
			return nil, sqlErr("invalid hexadecimal data in bytea literal")
		}
		return out, nil
	}
	var out []byte
	for i := 0; i < len(s); i++ {
		if s[i] != '\\' {
			out = append(out, s[i])
			continue
		}
		if i+1 < len(s) && s[i+1] == '\\' {
			out = append(out, '\\')
			i++
			continue
		}
		if i+3 < len(s) && isOct(s[i+1], 3) && isOct(s[i+2], 7) && isOct(s[i+3], 7) {
			out = append(out, (s[i+1]-'0')<<6|(s[i+2]-'0')<<3|(s[i+3]-'0'))
			i += 3
			continue
		}
		return nil, sqlErr("invalid input syntax for type bytea")
	}
	return out, nil
}

func isOct(c byte, max byte) bool { return c >= '0' && c <= '0'+max }

func parseIntText(s []byte, bits int) ([]byte, error) {
	v, err := strconv.ParseInt(strings.TrimSpace(string(s)), 10, bits)
	if err != nil {
		return nil, sqlErr("invalid input syntax for type integer: %q", s)
	}
	return []byte(strconv.FormatInt(v, 10)), nil
}

// fromText converts a literal / text-format parameter to the canonical value of a column type.
func fromText(s []byte, t ColType) (Value, error) {
	switch t {
	case Bytea:
		b, err := ParseByteaText(s)
		return Value{B: b}, err
	case Int4:
		b, err := parseIntText(s, 32)
		return Value{B: b}, err
	case Int8:
		b, err := parseIntText(s, 64)
		return Value{B: b}, err
	}
	if bytes.IndexByte(s, 0) >= 0 {
		return Value{}, sqlErr("invalid byte sequence for encoding: 0x00")
	}
	return Value{B: append([]byte(nil), s...)}, nil
}

func fromBinary(b []byte, t ColType) (Value, error) {
	switch t {
	case Int4:
		switch len(b) {
		case 4:
			return Value{B: []byte(strconv.FormatInt(int64(int32(binary.BigEndian.Uint32(b))), 10))}, nil
		case 2:
			return Value{B: []byte(strconv.FormatInt(int64(int16(binary.BigEndian.Uint16(b))), 10))}, nil
		}
		return Value{}, sqlErr("incorrect binary data format for int4 (%d bytes)", len(b))
	case Int8:
		if len(b) != 8 {
			return Value{}, sqlErr("incorrect binary data format for int8 (%d bytes)", len(b))
		}
		return Value{B: []byte(strconv.FormatInt(int64(binary.BigEndian.Uint64(b)), 10))}, nil
	case Text:
		if bytes.IndexByte(b, 0) >= 0 {
			return Value{}, sqlErr("invalid byte sequence for encoding: 0x00")
		}
	}
	return Value{B: append([]byte(nil), b...)}, nil
}

// Encode renders a canonical value for the wire in the given format.
func Encode(v Value, t ColType, format int16) []byte {
	if v.Null {
		return nil
	}
	if format == 0 {
		if t == Bytea {
			out := make([]byte, 2+hex.EncodedLen(len(v.B)))
			copy(out, `\x`)
			hex.Encode(out[2:], v.B)
			return out
		}
		return append([]byte{}, v.B...)
	}
	switch t {
	case Int4:
		n, _ := strconv.ParseInt(string(v.B), 10, 64)
		out := make([]byte, 4)
		binary.BigEndian.PutUint32(out, uint32(n))
		return out
	case Int8:
		n, _ := strconv.ParseInt(string(v.B), 10, 64)
		out := make([]byte, 8)
		binary.BigEndian.PutUint64(out, uint64(n))
		return out
	}
	return append([]byte{}, v.B...)
}

// ---------------------------------------------------------------------------------------------
// statement interpretation

// Prepared is a parsed statement with its parameter types.
type Prepared struct {
	SQL        string
	Tree       *pg_query.ParseResult
	ParamTypes []ColType // inferred or declared
	Declared   []uint32
}

type execCtx struct {
	s      *Store
	params []Param
	ptypes []ColType
}

// Prepare parses a statement and infers parameter types.
func (s *Store) Prepare(sql string, declared []uint32) (*Prepared, error) {
	tree, err := pg_query.Parse(sql)
	if err != nil {
		return nil, sqlErr("syntax error: %v", err)
	}
	if len(tree.Stmts) > 1 {
		return nil, sqlErr("cannot insert multiple commands into a prepared statement")
	}
	p := &Prepared{SQL: sql, Tree: tree, Declared: declared}
	if len(tree.Stmts) == 1 {
		inferred := map[int]ColType{}
		s.mu.Lock()
		s.inferParams(tree.Stmts[0].Stmt, inferred)
		s.mu.Unlock()
		n := len(declared)
		for k := range inferred {
			if k+1 > n {
				n = k + 1
			}
		}
		p.ParamTypes = make([]ColType, n)
		for i := range p.ParamTypes {
			p.ParamTypes[i] = Text
			if t, ok := inferred[i]; ok {
				p.ParamTypes[i] = t
			}
			if i < len(declared) && declared[i] != 0 {
				if t, ok := typeFromOID(declared[i]); ok {
					p.ParamTypes[i] = t
				}
			}
		}
	}
	return p, nil
}

func (s *Store) tableOf(rv *pg_query.RangeVar) *table {
	if rv == nil {
		return nil
	}
	return s.tables[strings.ToLower(rv.Relname)]
}

func colRefName(cr *pg_query.ColumnRef) (qual, name string, star bool) {
	var parts []string
	for _, f := range cr.Fields {
		if f.GetAStar() != nil {
			star = true
			continue
		}
		parts = append(parts, f.GetString_().GetSval())
	}
	if len(parts) > 0 {
		name = parts[len(parts)-1]
	}
	if len(parts) > 1 {
		qual = parts[len(parts)-2]
	}
	if star && len(parts) > 0 {
		qual, name = parts[len(parts)-1], ""
	}
	return
}

func unwrapCast(n *pg_query.Node) *pg_query.Node {
	for n != nil && n.GetTypeCast() != nil {
		n = n.GetTypeCast().Arg
	}
	return n
}

// scope maps names/aliases to tables for column resolution.
type scope struct {
	tabs  []*table
	names []string // alias or name, lower case
}

func (sc *scope) resolve(qual, name string) (*table, int) {
	for i, t := range sc.tabs {
		if qual != "" && !strings.EqualFold(qual, sc.names[i]) && !strings.EqualFold(qual, t.def.Name) {
			continue
		}
		if c := t.col(name); c >= 0 {
			return t, c
		}
	}
	return nil, -1
}

func (s *Store) scopeOf(from []*pg_query.Node) *scope {
	sc := &scope{}
	var add func(n *pg_query.Node)
	add = func(n *pg_query.Node) {
		if rv := n.GetRangeVar(); rv != nil {
			if t := s.tableOf(rv); t != nil {
				name := strings.ToLower(rv.Relname)
				if rv.Alias != nil {
					name = strings.ToLower(rv.Alias.Aliasname)
				}
				sc.tabs = append(sc.tabs, t)
				sc.names = append(sc.names, name)
			}
		}
		if j := n.GetJoinExpr(); j != nil {
			add(j.Larg)
			add(j.Rarg)
		}
		if rs := n.GetRangeSubselect(); rs != nil {
			s.addDerived(sc, rs) // c09.go: (SELECT ...) AS alias in FROM
		}
	}
	for _, n := range from {
		add(n)
	}
	return sc
}

// exprType: the column type an expression has, if it is a column or substr(column,...).
func (sc *scope) exprType(n *pg_query.Node) (ColType, bool) {
	n = unwrapCast(n)
	if n == nil {
		return Text, false
	}
	if cr := n.GetColumnRef(); cr != nil {
		q, name, _ := colRefName(cr)
		if t, c := sc.resolve(q, name); t != nil {
			return t.def.Cols[c].Type, true
		}
	}
	if fc := n.GetFuncCall(); fc != nil && len(fc.Args) > 0 {
		return sc.exprType(fc.Args[0])
	}
	return Text, false
}

func (s *Store) inferParams(n *pg_query.Node, out map[int]ColType) {
	if n == nil {
		return
	}
	note := func(v *pg_query.Node, t ColType) {
		if pr := unwrapCast(v).GetParamRef(); pr != nil {
			out[int(pr.Number)-1] = t
		}
	}
	var walkWhere func(sc *scope, w *pg_query.Node)
	walkWhere = func(sc *scope, w *pg_query.Node) {
		if w == nil {
			return
		}
		if b := w.GetBoolExpr(); b != nil {
			for _, a := range b.Args {
				walkWhere(sc, a)
			}
		}
		if sl := w.GetSubLink(); sl != nil {
			s.inferParams(sl.Subselect, out) // c09.go: <column> IN (SELECT ...)
		}
		if e := w.GetAExpr(); e != nil {
			if t, ok := sc.exprType(e.Lexpr); ok {
				note(e.Rexpr, t)
			}
			if t, ok := sc.exprType(e.Rexpr); ok {
				note(e.Lexpr, t)
			}
		}
	}
	switch {
	case n.GetInsertStmt() != nil:
		ins := n.GetInsertStmt()
		t := s.tableOf(ins.Relation)
		if t == nil || ins.SelectStmt == nil || ins.SelectStmt.GetSelectStmt() == nil {
			return
		}
		cols := s.insertCols(t, ins)
		for _, row := range ins.SelectStmt.GetSelectStmt().ValuesLists {
			for j, item := range row.GetList().Items {
				if j < len(cols) && cols[j] >= 0 {
					note(item, t.def.Cols[cols[j]].Type)
				}
			}
		}
		s.inferInsertExtras(t, ins, note, walkWhere) // c04.go: ON CONFLICT DO UPDATE SET, INSERT ... SELECT
	case n.GetUpdateStmt() != nil:
		up := n.GetUpdateStmt()
		t := s.tableOf(up.Relation)
		if t == nil {
			return
		}
		for _, tl := range up.TargetList {
			rt := tl.GetResTarget()
			if c := t.col(rt.Name); c >= 0 {
				note(rt.Val, t.def.Cols[c].Type)
			}
		}
		walkWhere(&scope{tabs: []*table{t}, names: []string{strings.ToLower(t.def.Name)}}, up.WhereClause)
	case n.GetSelectStmt() != nil:
		sel := n.GetSelectStmt()
		walkWhere(s.scopeOf(sel.FromClause), sel.WhereClause)
		for _, q := range joinQuals(sel.FromClause) { // c09.go: placeholders inside ON
			walkWhere(s.scopeOf(sel.FromClause), q)
		}
	case n.GetDeleteStmt() != nil:
		d := n.GetDeleteStmt()
		if t := s.tableOf(d.Relation); t != nil {
			walkWhere(&scope{tabs: []*table{t}, names: []string{strings.ToLower(t.def.Name)}}, d.WhereClause)
		}
	}
}

func (s *Store) insertCols(t *table, ins *pg_query.InsertStmt) []int {
	var cols []int
	if len(ins.Cols) > 0 {
		for _, c := range ins.Cols {
			cols = append(cols, t.col(c.GetResTarget().Name))
		}
		return cols
	}
	for i := range t.def.Cols {
		cols = append(cols, i)
	}
	return cols
}

// castType returns the type an explicit cast names (ok=false when there is no cast or an unknown type).
func castType(n *pg_query.Node) (ColType, bool) {
	if n == nil || n.GetTypeCast() == nil || n.GetTypeCast().TypeName == nil {
		return Text, false
	}
	names := n.GetTypeCast().TypeName.Names
	if len(names) == 0 {
		return Text, false
	}
	switch strings.ToLower(names[len(names)-1].GetString_().GetSval()) {
	case "int4", "integer", "int":
		return Int4, true
	case "int8", "bigint":
		return Int8, true
	case "bytea":
		return Bytea, true
	case "text", "varchar":
		return Text, true
	}
	return Text, false
}

// assignable mirrors PostgreSQL's assignment rules for the four types: an expression explicitly cast to
// one type cannot be stored in a column of another (except int4 -> int8).
func assignable(from, to ColType) bool {
	return from == to || (from == Int4 && to == Int8)
}

// constValue converts a constant / parameter node into a canonical value of type t.
func (x *execCtx) constValue(n *pg_query.Node, t ColType) (Value, error) {
	if ct, ok := castType(n); ok && !assignable(ct, t) {
		return Value{}, sqlErr("column is of type oid %d but expression is of type oid %d", t.OID(), ct.OID())
	}
	n = unwrapCast(n)
	if n == nil {
		return Value{}, sqlErr("unsupported expression")
	}
	if pr := n.GetParamRef(); pr != nil {
		i := int(pr.Number) - 1
		if i < 0 || i >= len(x.params) {
			return Value{}, sqlErr("there is no parameter $%d", pr.Number)
		}
		p := x.params[i]
		if p.Null {
			return Value{Null: true}, nil
		}
		pt := t
		if i < len(x.ptypes) {
			pt = x.ptypes[i]
		}
		var v Value
		var err error
		if p.Format == 1 {
			v, err = fromBinary(p.Data, pt)
		} else {
			v, err = fromText(p.Data, pt)
		}
		if err != nil {
			return v, err
		}
		return coerce(v, pt, t)
	}
	c := n.GetAConst()
	if c == nil {
		return Value{}, sqlErr("unsupported expression %T", n.Node)
	}
	if c.Isnull {
		return Value{Null: true}, nil
	}
	switch {
	case c.GetSval() != nil:
		return fromText([]byte(c.GetSval().Sval), t)
	case c.GetIval() != nil:
		return fromText([]byte(strconv.Itoa(int(c.GetIval().Ival))), t)
	case c.GetFval() != nil:
		return fromText([]byte(c.GetFval().Fval), t)
	case c.GetBoolval() != nil:
		return fromText([]byte(strconv.FormatBool(c.GetBoolval().Boolval)), t)
	case c.GetBsval() != nil:
		return fromText([]byte(c.GetBsval().Bsval), t)
	}
	// pg_query represents the integer 0 as an A_Const with an empty Ival
	return fromText([]byte("0"), t)
}

// coerce converts a value decoded as type from into type to (assignment casts the tiny engine supports).
func coerce(v Value, from, to ColType) (Value, error) {
	if from == to || v.Null {
		return v, nil
	}
	switch to {
	case Int4:
		b, err := parseIntText(v.B, 32)
		return Value{B: b}, err
	case Int8:
		b, err := parseIntText(v.B, 64)
		return Value{B: b}, err
	}
	return v, nil
}

func (x *execCtx) evalOperand(sc *scope, row map[*table][]Value, n *pg_query.Node, hint ColType) (Value, ColType, error) {
	n = unwrapCast(n)
	if n == nil {
		return Value{}, Text, sqlErr("unsupported expression")
	}
	if cr := n.GetColumnRef(); cr != nil {
		q, name, _ := colRefName(cr)
		t, c := sc.resolve(q, name)
		if t == nil {
			return Value{}, Text, sqlErr("column %q does not exist", name)
		}
		return row[t][c], t.def.Cols[c].Type, nil
	}
	if fc := n.GetFuncCall(); fc != nil {
		fname := ""
		if len(fc.Funcname) > 0 {
			fname = strings.ToLower(fc.Funcname[len(fc.Funcname)-1].GetString_().GetSval())
		}
		if (fname == "substr" || fname == "substring") && len(fc.Args) == 3 {
			v, t, err := x.evalOperand(sc, row, fc.Args[0], hint)
			if err != nil {
				return v, t, err
			}
			from, err1 := x.constValue(fc.Args[1], Int4)
			ln, err2 := x.constValue(fc.Args[2], Int4)
			if err1 != nil || err2 != nil {
				return Value{}, t, sqlErr("unsupported substr arguments")
			}
			if v.Null {
				return v, t, nil
			}
			f, _ := strconv.Atoi(string(from.B))
			l, _ := strconv.Atoi(string(ln.B))
			start := f - 1
			if start < 0 {
				l += start
				start = 0
			}
			if start > len(v.B) {
				start = len(v.B)
			}
			end := start + l
			if end > len(v.B) {
				end = len(v.B)
			}
			if end < start {
				end = start
			}
			return Value{B: v.B[start:end]}, t, nil
		}
		return Value{}, Text, sqlErr("function %s is not supported by the fake database", fname)
	}
	v, err := x.constValue(n, hint)
	return v, hint, err
}

func (x *execCtx) evalCond(sc *scope, row map[*table][]Value, w *pg_query.Node) (bool, error) {
	if w == nil {
		return true, nil
	}
	if b := w.GetBoolExpr(); b != nil {
		switch b.Boolop {
		case pg_query.BoolExprType_AND_EXPR:
			for _, a := range b.Args {
				ok, err := x.evalCond(sc, row, a)
				if err != nil || !ok {
					return false, err
				}
			}
			return true, nil
		case pg_query.BoolExprType_OR_EXPR:
			for _, a := range b.Args {
				ok, err := x.evalCond(sc, row, a)
				if err != nil {
					return false, err
				}
				if ok {
					return true, nil
				}
			}
			return false, nil
		case pg_query.BoolExprType_NOT_EXPR:
			ok, err := x.evalCond(sc, row, b.Args[0])
			return !ok, err
		}
	}
	if nt := w.GetNullTest(); nt != nil {
		v, _, err := x.evalOperand(sc, row, nt.Arg, Text)
		if err != nil {
			return false, err
		}
		return v.Null == (nt.Nulltesttype == pg_query.NullTestType_IS_NULL), nil
	}
	if sl := w.GetSubLink(); sl != nil {
		return x.evalSubLink(sc, row, sl) // c09.go
	}
	e := w.GetAExpr()
	if e == nil {
		return false, sqlErr("unsupported condition %T", w.Node)
	}
	op := ""
	if len(e.Name) > 0 {
		op = e.Name[0].GetString_().GetSval()
	}
	lt, lok := sc.exprType(e.Lexpr)
	rt, rok := sc.exprType(e.Rexpr)
	hintL, hintR := rt, lt
	if !lok && !rok {
		hintL, hintR = Text, Text
	} else if lok && !rok {
		hintL = lt
	} else if rok && !lok {
		hintR = rt
	}
	l, _, err := x.evalOperand(sc, row, e.Lexpr, hintL)
	if err != nil {
		return false, err
	}
	r, _, err := x.evalOperand(sc, row, e.Rexpr, hintR)
	if err != nil {
		return false, err
	}
	if res, ok := distinctFrom(e, l, r); ok {
		return res, nil // c09.go: IS [NOT] DISTINCT FROM
	}
	if l.Null || r.Null {
		return false, nil
	}
	eq := bytes.Equal(l.B, r.B)
	switch op {
	case "=":
		return eq, nil
	case "<>", "!=":
		return !eq, nil
	}
	return false, sqlErr("operator %s is not supported by the fake database", op)
}

type target struct {
	t    *table
	col  int
	name string
}

func (s *Store) targets(sc *scope, list []*pg_query.Node) ([]target, error) {
	var out []target
	for _, n := range list {
		rt := n.GetResTarget()
		if rt == nil {
			return nil, sqlErr("unsupported target")
		}
		v := unwrapCast(rt.Val)
		cr := v.GetColumnRef()
		if cr == nil {
			return nil, sqlErr("only column references are supported in target lists by the fake database")
		}
		q, name, star := colRefName(cr)
		if star {
			for i, t := range sc.tabs {
				if q != "" && !strings.EqualFold(q, sc.names[i]) && !strings.EqualFold(q, t.def.Name) {
					continue
				}
				for c, cd := range t.def.Cols {
					out = append(out, target{t, c, cd.Name})
				}
			}
			continue
		}
		t, c := sc.resolve(q, name)
		if t == nil {
			return nil, sqlErr("column %q does not exist", name)
		}
		label := t.def.Cols[c].Name
		if rt.Name != "" {
			label = rt.Name
		}
		out = append(out, target{t, c, label})
	}
	return out, nil
}

func project(ts []target, rows []map[*table][]Value) *Result {
	res := &Result{}
	for _, t := range ts {
		res.Fields = append(res.Fields, Field{Name: t.name, Type: t.t.def.Cols[t.col].Type})
	}
	for _, r := range rows {
		var out []Value
		for _, t := range ts {
			out = append(out, r[t.t][t.col])
		}
		res.Rows = append(res.Rows, out)
	}
	return res
}

// ErrNotUnderstood marks statements the fake database does not interpret (answered with a generic tag).
var ErrNotUnderstood = errors.New("statement not interpreted")

// Describe returns the result fields of a prepared statement without executing it (nil = no data).
func (s *Store) Describe(p *Prepared) ([]Field, error) {
	if len(p.Tree.Stmts) == 0 {
		return nil, nil
	}
	s.mu.Lock()
	defer s.mu.Unlock()
	n := p.Tree.Stmts[0].Stmt
	var ts []target
	var err error
	switch {
	case n.GetSelectStmt() != nil && len(n.GetSelectStmt().ValuesLists) == 0:
		sel := n.GetSelectStmt()
		ts, err = s.targets(s.scopeOf(sel.FromClause), sel.TargetList)
	case n.GetInsertStmt() != nil && len(n.GetInsertStmt().ReturningList) > 0:
		t := s.tableOf(n.GetInsertStmt().Relation)
		if t == nil {
			return nil, sqlErr("relation does not exist")
		}
		ts, err = s.targets(&scope{[]*table{t}, []string{strings.ToLower(t.def.Name)}}, n.GetInsertStmt().ReturningList)
	case n.GetUpdateStmt() != nil && len(n.GetUpdateStmt().ReturningList) > 0:
		t := s.tableOf(n.GetUpdateStmt().Relation)
		if t == nil {
			return nil, sqlErr("relation does not exist")
		}
		ts, err = s.targets(&scope{[]*table{t}, []string{strings.ToLower(t.def.Name)}}, n.GetUpdateStmt().ReturningList)
	case n.GetDeleteStmt() != nil && len(n.GetDeleteStmt().ReturningList) > 0: // c04.go
		t := s.tableOf(n.GetDeleteStmt().Relation)
		if t == nil {
			return nil, sqlErr("relation does not exist")
		}
		ts, err = s.targets(&scope{[]*table{t}, []string{strings.ToLower(t.def.Name)}}, n.GetDeleteStmt().ReturningList)
	default:
		return nil, nil
	}
	if err != nil {
		return nil, err
	}
	return project(ts, nil).Fields, nil
}

// Exec executes a prepared statement with parameters.
func (s *Store) Exec(p *Prepared, params []Param) (*Result, error) {
	if len(p.Tree.Stmts) == 0 {
		return &Result{Tag: ""}, nil
	}
	s.mu.Lock()
	defer s.mu.Unlock()
	x := &execCtx{s: s, params: params, ptypes: p.ParamTypes}
	n := p.Tree.Stmts[0].Stmt
	switch {
	case n.GetInsertStmt() != nil:
		return x.insert(n.GetInsertStmt())
	case n.GetUpdateStmt() != nil:
		return x.update(n.GetUpdateStmt())
	case n.GetSelectStmt() != nil:
		return x.sel(n.GetSelectStmt())
	case n.GetDeleteStmt() != nil:
		return x.del(n.GetDeleteStmt())
	}
	return &Result{Tag: "OK"}, nil
}

func (x *execCtx) insert(ins *pg_query.InsertStmt) (*Result, error) {
	t := x.s.tableOf(ins.Relation)
	if t == nil {
		return nil, sqlErr("relation %q does not exist", ins.Relation.GetRelname())
	}
	if isInsertSelect(ins) { // c04.go
		proposed, err := x.proposedFromSelect(t, ins)
		if err != nil {
			return nil, err
		}
		return x.applyInsert(t, ins, proposed)
	}
	if ins.SelectStmt == nil || ins.SelectStmt.GetSelectStmt() == nil || len(ins.SelectStmt.GetSelectStmt().ValuesLists) == 0 {
		return nil, sqlErr("only INSERT ... VALUES and INSERT ... SELECT ... FROM are supported by the fake database")
	}
	cols := x.s.insertCols(t, ins)
	var newRows [][]Value
	for _, rowNode := range ins.SelectStmt.GetSelectStmt().ValuesLists {
		items := rowNode.GetList().Items
		if len(items) > len(cols) {
			return nil, sqlErr("INSERT has more expressions than target columns")
		}
		row := make([]Value, len(t.def.Cols))
		for i := range row {
			row[i] = Value{Null: true}
		}
		for j, item := range items {
			if cols[j] < 0 {
				return nil, sqlErr("column does not exist")
			}
			if unwrapCast(item).GetSetToDefault() != nil {
				continue
			}
			v, err := x.constValue(item, t.def.Cols[cols[j]].Type)
			if err != nil {
				return nil, err
			}
			row[cols[j]] = v
		}
		newRows = append(newRows, row)
	}
	return x.applyInsert(t, ins, newRows) // c04.go: ON CONFLICT, RETURNING
}

func (x *execCtx) update(up *pg_query.UpdateStmt) (*Result, error) {
	t := x.s.tableOf(up.Relation)
	if t == nil {
		return nil, sqlErr("relation %q does not exist", up.Relation.GetRelname())
	}
	name := strings.ToLower(t.def.Name)
	if up.Relation.Alias != nil {
		name = strings.ToLower(up.Relation.Alias.Aliasname)
	}
	sc := &scope{[]*table{t}, []string{name}}
	n := 0
	var touched []map[*table][]Value
	for i, row := range t.rows {
		ok, err := x.evalCond(sc, map[*table][]Value{t: row}, up.WhereClause)
		if err != nil {
			return nil, err
		}
		if !ok {
			continue
		}
		nr := append([]Value(nil), row...)
		for _, tl := range up.TargetList {
			rt := tl.GetResTarget()
			c := t.col(rt.Name)
			if c < 0 {
				return nil, sqlErr("column %q does not exist", rt.Name)
			}
			v, err := x.assignValue(sc, map[*table][]Value{t: row}, rt.Val, t.def.Cols[c].Type) // c04.go: DEFAULT, columns
			if err != nil {
				return nil, err
			}
			nr[c] = v
		}
		t.rows[i] = nr
		touched = append(touched, map[*table][]Value{t: nr})
		n++
	}
	res := &Result{Tag: fmt.Sprintf("UPDATE %d", n)}
	if len(up.ReturningList) > 0 {
		ts, err := x.s.targets(sc, up.ReturningList)
		if err != nil {
			return nil, err
		}
		pr := project(ts, touched)
		pr.Tag = res.Tag
		return pr, nil
	}
	return res, nil
}

func (x *execCtx) del(d *pg_query.DeleteStmt) (*Result, error) {
	t := x.s.tableOf(d.Relation)
	if t == nil {
		return nil, sqlErr("relation %q does not exist", d.Relation.GetRelname())
	}
	sc := &scope{[]*table{t}, []string{strings.ToLower(t.def.Name)}}
	var keep, gone [][]Value
	n := 0
	for _, row := range t.rows {
		ok, err := x.evalCond(sc, map[*table][]Value{t: row}, d.WhereClause)
		if err != nil {
			return nil, err
		}
		if ok {
			n++
			gone = append(gone, row)
		} else {
			keep = append(keep, row)
		}
	}
	if len(d.ReturningList) > 0 { // c04.go
		res, err := x.returningOf(sc, t, d.ReturningList, gone, fmt.Sprintf("DELETE %d", n))
		if err != nil {
			return nil, err
		}
		t.rows = keep
		return res, nil
	}
	t.rows = keep
	return &Result{Tag: fmt.Sprintf("DELETE %d", n)}, nil
}

func (x *execCtx) sel(sel *pg_query.SelectStmt) (*Result, error) {
	if len(sel.FromClause) == 0 {
		// SELECT <constants>: answer one row of text constants
		res := &Result{Tag: "SELECT 1"}
		var row []Value
		for i, n := range sel.TargetList {
			rt := n.GetResTarget()
			v, err := x.constValue(rt.Val, Text)
			if err != nil {
				return nil, err
			}
			name := rt.Name
			if name == "" {
				name = fmt.Sprintf("?column?%d", i)
			}
			res.Fields = append(res.Fields, Field{Name: name, Type: Text})
			row = append(row, v)
		}
		res.Rows = [][]Value{row}
		return res, nil
	}
	sc := x.s.scopeOf(sel.FromClause)
	if len(sc.tabs) == 0 {
		return nil, sqlErr("relation does not exist")
	}
	ts, err := x.s.targets(sc, sel.TargetList)
	if err != nil {
		return nil, err
	}
	// cartesian product of the (at most two) tables, filtered by join conditions and WHERE
	var combos []map[*table][]Value
	var rec func(i int, cur map[*table][]Value)
	rec = func(i int, cur map[*table][]Value) {
		if i == len(sc.tabs) {
			cp := map[*table][]Value{}
			for k, v := range cur {
				cp[k] = v
			}
			combos = append(combos, cp)
			return
		}
		for _, r := range sc.tabs[i].rows {
			cur[sc.tabs[i]] = r
			rec(i+1, cur)
		}
	}
	rec(0, map[*table][]Value{})
	var joinConds []*pg_query.Node
	var collect func(n *pg_query.Node)
	collect = func(n *pg_query.Node) {
		if j := n.GetJoinExpr(); j != nil {
			if j.Quals != nil {
				joinConds = append(joinConds, j.Quals)
			}
			collect(j.Larg)
			collect(j.Rarg)
		}
	}
	for _, f := range sel.FromClause {
		collect(f)
	}
	var out []map[*table][]Value
	for _, c := range combos {
		ok := true
		for _, jc := range append(joinConds, sel.WhereClause) {
			if jc == nil {
				continue
			}
			m, err := x.evalCond(sc, c, jc)
			if err != nil {
				return nil, err
			}
			if !m {
				ok = false
				break
			}
		}
		if ok {
			out = append(out, c)
		}
	}
	res := project(ts, out)
	res.Tag = fmt.Sprintf("SELECT %d", len(out))
	return res, nil
}
