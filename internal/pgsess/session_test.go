package pgsess

import (
	"bytes"
	"fmt"
	"os"
	"testing"

	"github.com/cossacklabs/acra/crypto"
	"github.com/cossacklabs/acra/keystore"

	"verif/internal/fix"
)

func TestSmoke(t *testing.T) {
	fix.Quiet()
	dir := fix.TempDir("pgsess-")
	defer os.RemoveAll(dir)
	ks := fix.V1(dir, keystore.WithoutCache)
	cid := []byte("client1")
	fix.GenClientKeys(ks, cid)
	crypto.InitRegistry(ks)
	schema := `schemas:
  - table: t
    columns: [id, enc, srch, tok, typed, plain]
    encrypted:
      - column: enc
      - column: srch
        searchable: true
      - column: tok
        token_type: int32
        consistent_tokenization: true
      - column: typed
        data_type: str
`
	tables := []TableDef{{Name: "t", Cols: []ColumnDef{{"id", Int4}, {"enc", Bytea}, {"srch", Bytea}, {"tok", Int4}, {"typed", Bytea}, {"plain", Text}}}}
	s, err := Start(Config{SchemaYAML: schema, KeyStore: ks, ClientID: cid, Tables: tables})
	if err != nil {
		t.Fatal(err)
	}
	defer s.Close()
	r, err := s.Simple(`INSERT INTO t (id, enc, srch, tok, typed, plain) VALUES (1, 'SECRET-ENC', 'SECRET-SRCH', 12345, 'SECRET-TYPED', 'visible')`)
	fmt.Println("insert:", r, err)
	for _, rec := range s.DB.Received() {
		fmt.Printf("DB got %s: %.200s\n", rec.Kind, rec.SQL)
	}
	if bytes.Contains(s.DB.Raw(), []byte("SECRET")) {
		t.Error("plaintext at DB")
	}
	for _, row := range s.DB.Store.Rows("t") {
		for i, v := range row {
			fmt.Printf("  stored[%d] = %.40q (%d)\n", i, v.B, len(v.B))
		}
	}
	r, err = s.Simple(`SELECT id, enc, srch, tok, typed, plain FROM t WHERE srch = 'SECRET-SRCH'`)
	fmt.Println("select err:", err, r.Errors, r.Msgs)
	for _, f := range r.Fields {
		fmt.Printf("  field %s oid=%d\n", f.Name, f.DataTypeOID)
	}
	for _, row := range r.Rows {
		for _, v := range row {
			fmt.Printf("  %.40q\n", v)
		}
	}
	// extended, binary
	r, err = s.Extended(Ext{SQL: `INSERT INTO t (id, enc, srch, tok, typed, plain) VALUES ($1, $2, $3, $4, $5, $6)`, StmtName: "ins",
		ParamFormats: []int16{1}, Params: [][]byte{{0, 0, 0, 2}, []byte("BIN-ENC"), []byte("BIN-SRCH"), {0, 0, 0, 77}, []byte("BIN-TYPED"), []byte("vis2")}, DescribeStmt: true})
	fmt.Println("ext insert:", err, r.Errors, r.Msgs, r.ParamOIDs)
	r, err = s.Extended(Ext{SQL: `SELECT enc, srch, tok, typed, plain FROM t WHERE srch = $1`, StmtName: "sel", ParamFormats: []int16{0}, Params: [][]byte{[]byte("BIN-SRCH")}, ResultFormats: []int16{1}, DescribePort: true})
	fmt.Println("ext select:", err, r.Errors, r.Msgs)
	for _, f := range r.Fields {
		fmt.Printf("  field %s oid=%d fmt=%d\n", f.Name, f.DataTypeOID, f.Format)
	}
	for _, row := range r.Rows {
		for _, v := range row {
			fmt.Printf("  %.40q\n", v)
		}
	}
}
