package pgsess

// Additions for property C09 (equality search over protected columns): the fake database infers the types of
// placeholders that stand inside an ON clause, and evaluates an uncorrelated <column> IN (SELECT <column> FROM ...
// [WHERE ...]) condition; it evaluates IS [NOT] DISTINCT FROM (null-safe comparison) and reads derived tables
// ((SELECT ...) AS alias in a FROM clause). fakedb.go calls in at five places (inferParams twice, evalCond twice,
// scopeOf once).

import (
	"bytes"
	"strings"

	pg_query "github.com/cossacklabs/pg_query_go/v5"
)

// joinQuals lists the ON conditions of a FROM clause.
func joinQuals(from []*pg_query.Node) []*pg_query.Node {
	var out []*pg_query.Node
	var collect func(n *pg_query.Node)
	collect = func(n *pg_query.Node) {
		if n == nil {
			return
		}
		if j := n.GetJoinExpr(); j != nil {
			if j.Quals != nil {
				out = append(out, j.Quals)
			}
			collect(j.Larg)
			collect(j.Rarg)
		}
	}
	for _, f := range from {
		collect(f)
	}
	return out
}

// evalSubLink evaluates <expr> IN (SELECT <one column> ...) for a sub-select that does not refer to the outer
// row (two-valued logic, like the rest of evalCond: a NULL on either side never matches).
func (x *execCtx) evalSubLink(sc *scope, row map[*table][]Value, sl *pg_query.SubLink) (bool, error) {
	if sl.SubLinkType != pg_query.SubLinkType_ANY_SUBLINK || sl.Testexpr == nil || len(sl.OperName) != 0 {
		return false, sqlErr("only <column> IN (SELECT ...) sub-queries are supported by the fake database")
	}
	sub := sl.Subselect.GetSelectStmt()
	if sub == nil {
		return false, sqlErr("unsupported sub-query")
	}
	res, err := x.sel(sub)
	if err != nil {
		return false, err
	}
	if len(res.Fields) != 1 {
		return false, sqlErr("subquery has too many columns")
	}
	v, _, err := x.evalOperand(sc, row, sl.Testexpr, res.Fields[0].Type)
	if err != nil {
		return false, err
	}
	if v.Null {
		return false, nil
	}
	for _, r := range res.Rows {
		if !r[0].Null && bytes.Equal(r[0].B, v.B) {
			return true, nil
		}
	}
	return false, nil
}

// distinctFrom evaluates the null-safe comparisons <a> IS DISTINCT FROM <b> / <a> IS NOT DISTINCT FROM <b> (the
// parser gives both the operator name "=", they differ from a plain comparison by the kind of the A_Expr):
// two NULLs are not distinct, a NULL and a value are. ok is false for every other kind of expression.
func distinctFrom(e *pg_query.A_Expr, l, r Value) (res, ok bool) {
	var same bool
	switch {
	case l.Null || r.Null:
		same = l.Null && r.Null
	default:
		same = bytes.Equal(l.B, r.B)
	}
	switch e.Kind {
	case pg_query.A_Expr_Kind_AEXPR_NOT_DISTINCT:
		return same, true
	case pg_query.A_Expr_Kind_AEXPR_DISTINCT:
		return !same, true
	}
	return false, false
}

// addDerived puts a derived table - (SELECT <columns> FROM ... [WHERE ...]) AS <alias> in a FROM clause - into the
// scope: the sub-select is evaluated (it may not hold placeholders) and its result becomes a table named by the alias.
// A sub-select the fake database cannot evaluate is left out of the scope (its columns "do not exist" then).
func (s *Store) addDerived(sc *scope, rs *pg_query.RangeSubselect) {
	sub := rs.GetSubquery().GetSelectStmt()
	if sub == nil || rs.Alias == nil || rs.Alias.Aliasname == "" {
		return
	}
	res, err := (&execCtx{s: s}).sel(sub)
	if err != nil {
		return
	}
	name := strings.ToLower(rs.Alias.Aliasname)
	t := &table{def: TableDef{Name: name}, rows: res.Rows}
	for _, f := range res.Fields {
		t.def.Cols = append(t.def.Cols, ColumnDef{Name: f.Name, Type: f.Type})
	}
	sc.tabs = append(sc.tabs, t)
	sc.names = append(sc.names, name)
}
