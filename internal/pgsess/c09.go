package pgsess

// Additions for property C09 (equality search over protected columns): the fake database infers the types of
// placeholders that stand inside an ON clause, and evaluates an uncorrelated <column> IN (SELECT <column> FROM ...
// [WHERE ...]) condition. fakedb.go calls in at three places (inferParams twice, evalCond once).

import (
	"bytes"

	pg_query "github.com/cossacklabs/pg_query_go/v5"
)

// joinQuals lists the ON conditions of a FROM clause.
func joinQuals(from []*pg_query.Node) []*pg_query.Node {
	var out []*pg_query.Node
	var collect func(n *pg_query.Node)
	collect = func(n *pg_query.Node) {
		if n == nil {
			return
		}
		if j := n.GetJoinExpr(); j != nil {
			if j.Quals != nil {
				out = append(out, j.Quals)
			}
			collect(j.Larg)
			collect(j.Rarg)
		}
	}
	for _, f := range from {
		collect(f)
	}
	return out
}

// evalSubLink evaluates <expr> IN (SELECT <one column> ...) for a sub-select that does not refer to the outer
// row (two-valued logic, like the rest of evalCond: a NULL on either side never matches).
func (x *execCtx) evalSubLink(sc *scope, row map[*table][]Value, sl *pg_query.SubLink) (bool, error) {
	if sl.SubLinkType != pg_query.SubLinkType_ANY_SUBLINK || sl.Testexpr == nil || len(sl.OperName) != 0 {
		return false, sqlErr("only <column> IN (SELECT ...) sub-queries are supported by the fake database")
	}
	sub := sl.Subselect.GetSelectStmt()
	if sub == nil {
		return false, sqlErr("unsupported sub-query")
	}
	res, err := x.sel(sub)
	if err != nil {
		return false, err
	}
	if len(res.Fields) != 1 {
		return false, sqlErr("subquery has too many columns")
	}
	v, _, err := x.evalOperand(sc, row, sl.Testexpr, res.Fields[0].Type)
	if err != nil {
		return false, err
	}
	if v.Null {
		return false, nil
	}
	for _, r := range res.Rows {
		if !r[0].Null && bytes.Equal(r[0].B, v.B) {
			return true, nil
		}
	}
	return false, nil
}
