package pgsess

// Additions for property C04 (the SQL proxy stores only protected forms and restores originals on read): the fake
// database executes
//
//	INSERT ... ON CONFLICT [(id)] DO NOTHING | DO UPDATE SET c = <const | $n | DEFAULT | EXCLUDED.c | t.c> [WHERE ...]
//	INSERT INTO t [(cols)] SELECT <const | $n | column>, ... FROM u [WHERE ...]      (one source table)
//	UPDATE ... SET c = DEFAULT | <another column>
//	DELETE ... RETURNING
//
// Everything is additive: a statement the engine executed before is executed the same way. In particular an INSERT
// without ON CONFLICT still does not look at keys (other properties plant rows freely); only the ON CONFLICT clause
// makes the `id` column (or the column the conflict target names, which must be `id`) a unique key.
// fakedb.go calls in from inferParams, Describe, insert, update and del.

import (
	"bytes"
	"fmt"
	"strings"

	pg_query "github.com/cossacklabs/pg_query_go/v5"
)

// KeyColumn is the name of the unique key of every table as far as ON CONFLICT is concerned.
const KeyColumn = "id"

const excludedName = "excluded"

// isInsertSelect tells INSERT ... SELECT ... FROM from INSERT ... VALUES.
func isInsertSelect(ins *pg_query.InsertStmt) bool {
	sel := ins.GetSelectStmt().GetSelectStmt()
	return sel != nil && len(sel.ValuesLists) == 0 && len(sel.FromClause) > 0
}

// inferInsertExtras infers the types of placeholders inside ON CONFLICT DO UPDATE SET / WHERE and inside the SELECT of
// INSERT ... SELECT.
func (s *Store) inferInsertExtras(t *table, ins *pg_query.InsertStmt, note func(*pg_query.Node, ColType), walkWhere func(*scope, *pg_query.Node)) {
	if oc := ins.OnConflictClause; oc != nil {
		for _, tl := range oc.TargetList {
			rt := tl.GetResTarget()
			if rt == nil {
				continue
			}
			if c := t.col(rt.Name); c >= 0 {
				note(rt.Val, t.def.Cols[c].Type)
			}
		}
		walkWhere(upsertScope(t, ins), oc.WhereClause)
	}
	if isInsertSelect(ins) {
		sel := ins.SelectStmt.GetSelectStmt()
		cols := s.insertCols(t, ins)
		for j, tl := range sel.TargetList {
			if rt := tl.GetResTarget(); rt != nil && j < len(cols) && cols[j] >= 0 {
				note(rt.Val, t.def.Cols[cols[j]].Type)
			}
		}
		walkWhere(s.scopeOf(sel.FromClause), sel.WhereClause)
	}
}

// upsertScope: the target table under its name / alias, and the proposed row as "excluded".
func upsertScope(t *table, ins *pg_query.InsertStmt) *scope {
	name := strings.ToLower(t.def.Name)
	if ins.Relation.GetAlias() != nil {
		name = strings.ToLower(ins.Relation.Alias.Aliasname)
	}
	ex := &table{def: TableDef{Name: excludedName, Cols: t.def.Cols}}
	return &scope{tabs: []*table{t, ex}, names: []string{name, excludedName}}
}

// assignValue evaluates the right side of `column = ...` in UPDATE SET / DO UPDATE SET: DEFAULT (no column of the
// fake database has a default: NULL), another column of the rows in scope, a constant or a placeholder.
func (x *execCtx) assignValue(sc *scope, row map[*table][]Value, n *pg_query.Node, to ColType) (Value, error) {
	inner := unwrapCast(n)
	if inner != nil && inner.GetSetToDefault() != nil {
		return Value{Null: true}, nil
	}
	if inner != nil && inner.GetColumnRef() != nil {
		from := to
		if ct, ok := castType(n); ok {
			from = ct
		} else if t, ok := sc.exprType(inner); ok {
			from = t
		}
		if !assignable(from, to) {
			return Value{}, sqlErr("column is of type oid %d but expression is of type oid %d", to.OID(), from.OID())
		}
		v, vt, err := x.evalOperand(sc, row, inner, to)
		if err != nil {
			return v, err
		}
		return coerce(v, vt, to)
	}
	return x.constValue(n, to)
}

// proposedFromSelect evaluates the SELECT of INSERT ... SELECT into full rows of the target table.
func (x *execCtx) proposedFromSelect(t *table, ins *pg_query.InsertStmt) ([][]Value, error) {
	sel := ins.SelectStmt.GetSelectStmt()
	sc := x.s.scopeOf(sel.FromClause)
	if len(sc.tabs) != 1 || len(joinQuals(sel.FromClause)) > 0 {
		return nil, sqlErr("INSERT ... SELECT reads exactly one table in the fake database")
	}
	src := sc.tabs[0]
	cols := x.s.insertCols(t, ins)
	var out [][]Value
	// the source may be the target: iterate over a snapshot
	for _, srow := range append([][]Value(nil), src.rows...) {
		rm := map[*table][]Value{src: srow}
		ok, err := x.evalCond(sc, rm, sel.WhereClause)
		if err != nil {
			return nil, err
		}
		if !ok {
			continue
		}
		row := make([]Value, len(t.def.Cols))
		for i := range row {
			row[i] = Value{Null: true}
		}
		j := 0
		put := func(v Value) error {
			if j >= len(cols) {
				return sqlErr("INSERT has more expressions than target columns")
			}
			if cols[j] < 0 {
				return sqlErr("column does not exist")
			}
			row[cols[j]] = v
			j++
			return nil
		}
		for _, tl := range sel.TargetList {
			rt := tl.GetResTarget()
			if rt == nil {
				return nil, sqlErr("unsupported target")
			}
			if cr := unwrapCast(rt.Val).GetColumnRef(); cr != nil {
				if q, _, star := colRefName(cr); star {
					for i, st := range sc.tabs {
						if q != "" && !strings.EqualFold(q, sc.names[i]) && !strings.EqualFold(q, st.def.Name) {
							continue
						}
						for c := range st.def.Cols {
							if j < len(cols) && cols[j] >= 0 && !assignable(st.def.Cols[c].Type, t.def.Cols[cols[j]].Type) {
								return nil, sqlErr("column is of type oid %d but expression is of type oid %d", t.def.Cols[cols[j]].Type.OID(), st.def.Cols[c].Type.OID())
							}
							if err := put(rm[st][c]); err != nil {
								return nil, err
							}
						}
					}
					continue
				}
			}
			if j >= len(cols) || cols[j] < 0 {
				return nil, sqlErr("INSERT has more expressions than target columns")
			}
			v, err := x.assignValue(sc, rm, rt.Val, t.def.Cols[cols[j]].Type)
			if err != nil {
				return nil, err
			}
			if err := put(v); err != nil {
				return nil, err
			}
		}
		out = append(out, row)
	}
	return out, nil
}

// applyInsert stores the proposed rows (honouring ON CONFLICT) and answers RETURNING.
func (x *execCtx) applyInsert(t *table, ins *pg_query.InsertStmt, proposed [][]Value) (*Result, error) {
	affected := proposed
	if oc := ins.OnConflictClause; oc != nil && oc.Action != pg_query.OnConflictAction_ONCONFLICT_NONE {
		var err error
		if affected, err = x.upsert(t, ins, proposed); err != nil {
			return nil, err
		}
	} else {
		t.rows = append(t.rows, proposed...)
	}
	res := &Result{Tag: fmt.Sprintf("INSERT 0 %d", len(affected))}
	if len(ins.ReturningList) > 0 {
		sc := &scope{[]*table{t}, []string{strings.ToLower(t.def.Name)}}
		ts, err := x.s.targets(sc, ins.ReturningList)
		if err != nil {
			return nil, err
		}
		var rs []map[*table][]Value
		for _, r := range affected {
			rs = append(rs, map[*table][]Value{t: r})
		}
		pr := project(ts, rs)
		pr.Tag = res.Tag
		return pr, nil
	}
	return res, nil
}

func (x *execCtx) upsert(t *table, ins *pg_query.InsertStmt, proposed [][]Value) ([][]Value, error) {
	oc := ins.OnConflictClause
	key := KeyColumn
	if oc.Infer != nil {
		if oc.Infer.Conname != "" || len(oc.Infer.IndexElems) != 1 || oc.Infer.IndexElems[0].GetIndexElem() == nil {
			return nil, sqlErr("there is no unique or exclusion constraint matching the ON CONFLICT specification")
		}
		key = oc.Infer.IndexElems[0].GetIndexElem().Name
	} else if oc.Action == pg_query.OnConflictAction_ONCONFLICT_UPDATE {
		return nil, sqlErr("ON CONFLICT DO UPDATE requires inference specification or constraint name")
	}
	kc := t.col(key)
	if kc < 0 {
		return nil, sqlErr("column %q does not exist", key)
	}
	if !strings.EqualFold(key, KeyColumn) {
		return nil, sqlErr("there is no unique or exclusion constraint matching the ON CONFLICT specification")
	}
	sc := upsertScope(t, ins)
	ex := sc.tabs[1]
	// validate the assignments once, so that a malformed clause fails even when no row conflicts
	for _, tl := range oc.TargetList {
		if rt := tl.GetResTarget(); rt == nil || t.col(rt.Name) < 0 {
			return nil, sqlErr("column of ON CONFLICT DO UPDATE SET does not exist")
		}
	}
	// every change is made on a copy: an error leaves the table as it was (statement atomicity)
	rows := append([][]Value(nil), t.rows...)
	touchedKeys := map[string]bool{}
	var affected [][]Value
	var affectedIdx []int
	for _, p := range proposed {
		idx := -1
		if !p[kc].Null {
			for i, r := range rows {
				if !r[kc].Null && bytes.Equal(r[kc].B, p[kc].B) {
					idx = i
					break
				}
			}
		}
		if idx < 0 {
			rows = append(rows, p)
			affectedIdx = append(affectedIdx, len(rows)-1)
			if !p[kc].Null {
				touchedKeys[string(p[kc].B)] = true
			}
			continue
		}
		if oc.Action == pg_query.OnConflictAction_ONCONFLICT_NOTHING {
			continue
		}
		if touchedKeys[string(p[kc].B)] {
			return nil, sqlErr("ON CONFLICT DO UPDATE command cannot affect row a second time")
		}
		touchedKeys[string(p[kc].B)] = true
		rm := map[*table][]Value{t: rows[idx], ex: p}
		if oc.WhereClause != nil {
			ok, err := x.evalCond(sc, rm, oc.WhereClause)
			if err != nil {
				return nil, err
			}
			if !ok {
				continue
			}
		}
		nr := append([]Value(nil), rows[idx]...)
		for _, tl := range oc.TargetList {
			rt := tl.GetResTarget()
			c := t.col(rt.Name)
			v, err := x.assignValue(sc, rm, rt.Val, t.def.Cols[c].Type)
			if err != nil {
				return nil, err
			}
			nr[c] = v
		}
		rows[idx] = nr
		affectedIdx = append(affectedIdx, idx)
	}
	t.rows = rows
	for _, i := range affectedIdx {
		affected = append(affected, rows[i])
	}
	return affected, nil
}

// returningOf projects RETURNING of an UPDATE / DELETE over the touched rows.
func (x *execCtx) returningOf(sc *scope, t *table, list []*pg_query.Node, touched [][]Value, tag string) (*Result, error) {
	ts, err := x.s.targets(sc, list)
	if err != nil {
		return nil, err
	}
	var rs []map[*table][]Value
	for _, r := range touched {
		rs = append(rs, map[*table][]Value{t: r})
	}
	pr := project(ts, rs)
	pr.Tag = tag
	return pr, nil
}
