package pgsess

// Row limits of the extended protocol (property C04, result sets delivered in pages): Execute with MaxRows > 0 is
// answered with at most that many DataRows and PortalSuspended when the limit was reached, a later Execute of the same
// portal continues where the previous one stopped (JDBC setFetchSize, cursor-style paging of drivers).
//
// Additive: a portal that was never executed with a row limit behaves as before (every Execute runs the statement and
// sends the whole result). server.go calls execute() from its Execute case; session.go names PortalSuspended "s" in
// Reply.Msgs.

import (
	"fmt"
	"strings"
	"time"

	"github.com/jackc/pgx/v5/pgproto3"
)

// cursor is the state of a portal that has been executed with a row limit: the statement ran once, at the first
// Execute (as in PostgreSQL, where a portal is a running query), the rows are handed out in pages.
type cursor struct {
	res  *Result
	next int
}

// execute answers one Execute message for the portal.
func (f *FakeServer) execute(be *pgproto3.Backend, po *portal, maxRows uint32) error {
	if po.cur == nil {
		res, err := f.Store.Exec(po.p, po.params)
		if err != nil {
			return err
		}
		if maxRows == 0 {
			f.sendResult(be, res, po.formats, false)
			return nil
		}
		po.cur = &cursor{res: res}
	}
	c := po.cur
	sent := 0
	for c.next < len(c.res.Rows) && (maxRows == 0 || sent < int(maxRows)) {
		row := c.res.Rows[c.next]
		vals := make([][]byte, len(row))
		for i, v := range row {
			vals[i] = Encode(v, c.res.Fields[i].Type, formatAt(po.formats, i))
		}
		be.Send(&pgproto3.DataRow{Values: vals})
		c.next++
		sent++
	}
	if maxRows > 0 && sent == int(maxRows) {
		// the limit was reached: whether more rows exist is found out by the next Execute (as PostgreSQL does)
		be.Send(&pgproto3.PortalSuspended{})
		return nil
	}
	tag := c.res.Tag
	if strings.HasPrefix(tag, "SELECT ") {
		tag = fmt.Sprintf("SELECT %d", sent)
	}
	if tag == "" {
		be.Send(&pgproto3.EmptyQueryResponse{})
	} else {
		be.Send(&pgproto3.CommandComplete{CommandTag: []byte(tag)})
	}
	return nil
}

// Suspended tells whether the reply ended an Execute with PortalSuspended (rows are left in the portal).
func (r *Reply) Suspended() bool {
	for _, m := range r.Msgs {
		if m == "s" {
			return true
		}
	}
	return false
}

// ExtendedLimit runs one extended-protocol cycle like Extended with a row limit on the Execute message:
// Parse [Describe S] Bind [Describe P] Execute(maxRows) Sync. With a named portal (Ext.PortalName) inside a
// transaction block the portal stays open for Fetch.
func (s *Session) ExtendedLimit(e Ext, maxRows uint32) (*Reply, error) {
	s.clientEnd.SetDeadline(time.Now().Add(s.timeout))
	probe := s.sendProbe()
	if !e.SkipParse {
		s.fe.Send(&pgproto3.Parse{Name: e.StmtName, Query: e.SQL, ParameterOIDs: e.ParamOIDs})
	}
	if e.DescribeStmt {
		s.fe.Send(&pgproto3.Describe{ObjectType: 'S', Name: e.StmtName})
	}
	s.fe.Send(&pgproto3.Bind{DestinationPortal: e.PortalName, PreparedStatement: e.StmtName, ParameterFormatCodes: e.ParamFormats, Parameters: e.Params, ResultFormatCodes: e.ResultFormats})
	if e.DescribePort {
		s.fe.Send(&pgproto3.Describe{ObjectType: 'P', Name: e.PortalName})
	}
	s.fe.Send(&pgproto3.Execute{Portal: e.PortalName, MaxRows: maxRows})
	s.fe.Send(&pgproto3.Sync{})
	if err := s.fe.Flush(); err != nil {
		return nil, err
	}
	if err := s.collectProbe(probe); err != nil {
		return nil, err
	}
	return s.collect()
}

// Fetch asks for the next rows of an open portal: Execute(maxRows) Sync; maxRows 0 = all that are left.
func (s *Session) Fetch(portal string, maxRows uint32) (*Reply, error) {
	s.clientEnd.SetDeadline(time.Now().Add(s.timeout))
	probe := s.sendProbe()
	s.fe.Send(&pgproto3.Execute{Portal: portal, MaxRows: maxRows})
	s.fe.Send(&pgproto3.Sync{})
	if err := s.fe.Flush(); err != nil {
		return nil, err
	}
	if err := s.collectProbe(probe); err != nil {
		return nil, err
	}
	return s.collect()
}
