package pgsess

// Helpers added for property C15 (poison records): observe what the scripted client has received at a
// chosen moment, send a request without waiting for its reply, and end a session the way acra-server
// does after one of the proxy's goroutines reported an error.

import (
	"time"

	"github.com/jackc/pgx/v5/pgproto3"

	"github.com/cossacklabs/acra/decryptor/base"
)

// RecvLen is the number of bytes the scripted client has read from its connection so far.
func (s *Session) RecvLen() int {
	s.clientTap.mu.Lock()
	defer s.clientTap.mu.Unlock()
	return s.clientTap.recv.Len()
}

// SendQuery sends a simple-protocol query without collecting the reply.
func (s *Session) SendQuery(sql string) error {
	s.clientEnd.SetDeadline(time.Now().Add(s.timeout))
	s.fe.Send(&pgproto3.Query{String: sql})
	return s.fe.Flush()
}

// SendExtended sends one extended-protocol cycle without collecting the reply.
func (s *Session) SendExtended(e Ext) error {
	s.clientEnd.SetDeadline(time.Now().Add(s.timeout))
	if !e.SkipParse {
		s.fe.Send(&pgproto3.Parse{Name: e.StmtName, Query: e.SQL, ParameterOIDs: e.ParamOIDs})
	}
	if e.DescribeStmt {
		s.fe.Send(&pgproto3.Describe{ObjectType: 'S', Name: e.StmtName})
	}
	s.fe.Send(&pgproto3.Bind{DestinationPortal: e.PortalName, PreparedStatement: e.StmtName, ParameterFormatCodes: e.ParamFormats, Parameters: e.Params, ResultFormatCodes: e.ResultFormats})
	if e.DescribePort {
		s.fe.Send(&pgproto3.Describe{ObjectType: 'P', Name: e.PortalName})
	}
	s.fe.Send(&pgproto3.Execute{Portal: e.PortalName})
	s.fe.Send(&pgproto3.Sync{})
	return s.fe.Flush()
}

// WaitProxyError waits until one of the proxy's goroutines reports an error (acra-server then closes
// the connection). ok == false: nothing was reported within d (inconclusive for the caller).
func (s *Session) WaitProxyError(d time.Duration) (pe base.ProxyError, ok bool) {
	select {
	case pe = <-s.ProxyErrs:
		return pe, true
	case <-time.After(d):
		return pe, false
	}
}

// HangUp closes the proxy's side of the client connection, as acra-server does after a proxy error.
// A following Collect returns everything that had been delivered to the client, then the EOF error.
func (s *Session) HangUp() {
	s.acraC.Close()
}
