package pgsess

import (
	"bytes"
	"context"
	"errors"
	"fmt"
	"net"
	"os"
	"runtime/debug"
	"strings"
	"sync"
	"syscall"
	"time"

	"github.com/jackc/pgx/v5/pgproto3"

	acracensor "github.com/cossacklabs/acra/acra-censor"
	"github.com/cossacklabs/acra/decryptor/base"
	"github.com/cossacklabs/acra/decryptor/postgresql"
	"github.com/cossacklabs/acra/encryptor/base/config"
	"github.com/cossacklabs/acra/keystore"
	"github.com/cossacklabs/acra/poison"
	"github.com/cossacklabs/acra/pseudonymization"
	tokencommon "github.com/cossacklabs/acra/pseudonymization/common"
	"github.com/cossacklabs/acra/pseudonymization/storage"
	"github.com/cossacklabs/acra/sqlparser"
)

// clientSession implements base.ClientSession over two socket pairs.
type clientSession struct {
	ctx   context.Context
	c, d  net.Conn
	state interface{}
	mu    sync.Mutex
	data  map[string]interface{}
}

func (s *clientSession) Context() context.Context        { return s.ctx }
func (s *clientSession) ClientConnection() net.Conn      { return s.c }
func (s *clientSession) DatabaseConnection() net.Conn    { return s.d }
func (s *clientSession) ProtocolState() interface{}      { return s.state }
func (s *clientSession) SetProtocolState(st interface{}) { s.state = st }
func (s *clientSession) GetData(k string) (interface{}, bool) {
	s.mu.Lock()
	defer s.mu.Unlock()
	v, ok := s.data[k]
	return v, ok
}
func (s *clientSession) SetData(k string, v interface{}) {
	s.mu.Lock()
	s.data[k] = v
	s.mu.Unlock()
}
func (s *clientSession) DeleteData(k string) {
	s.mu.Lock()
	delete(s.data, k)
	s.mu.Unlock()
}
func (s *clientSession) HasData(k string) bool {
	s.mu.Lock()
	defer s.mu.Unlock()
	_, ok := s.data[k]
	return ok
}

// SocketPair returns two connected stream sockets.
func SocketPair() (net.Conn, net.Conn, error) {
	fds, err := syscall.Socketpair(syscall.AF_UNIX, syscall.SOCK_STREAM, 0)
	if err != nil {
		return nil, nil, err
	}
	f0, f1 := os.NewFile(uintptr(fds[0]), "a"), os.NewFile(uintptr(fds[1]), "b")
	defer f0.Close()
	defer f1.Close()
	c0, err := net.FileConn(f0)
	if err != nil {
		return nil, nil, err
	}
	c1, err := net.FileConn(f1)
	if err != nil {
		c0.Close()
		return nil, nil, err
	}
	return c0, c1, nil
}

// Config of one proxied session.
type Config struct {
	SchemaYAML string
	KeyStore   keystore.ServerKeyStore
	ClientID   []byte // identity of the connection
	Censor     *acracensor.AcraCensor
	Callbacks  base.PoisonRecordCallbackStorage
	Tokenizer  tokencommon.Pseudoanonymizer
	Tables     []TableDef
	Store      *Store // optional: reuse a store across sessions (reader with another identity)
	Timeout    time.Duration
	ParserMode sqlparser.Mode
	// DBHandler, when set, replaces the typed fake database: it is handed the database end of the proxy's
	// connection and plays the backend itself (scripted message sequences). Session.DB is nil then; use
	// the streams returned by Session.DBStreams().
	DBHandler func(conn net.Conn)
	// NoticeEvery > 0: the fake database sends a NoticeResponse (asynchronous message, legal at any point of
	// the protocol between two messages) about this often for as long as the session lives; the client side
	// drops them (Session.Notices counts them). The database side of the proxy is then busy while the client
	// side works - the situation of a pipelining client, LISTEN/NOTIFY or a chatty server.
	NoticeEvery time.Duration
	NoticeBurst int // notices per write (default 16)
	// Probes: pipelining. Each of these statements (SELECTs that return no rows, simple protocol) is run once
	// at the start of the session, alone, and its reply kept. Afterwards every request of Simple/Extended is
	// written together with the next probe in front of it (one write: the proxy reads the second request while
	// the answer to the first is on its way, as with libpq's pipeline mode, pgx batches or JDBC batching); the
	// probe's reply must equal the one it got alone (Session.ProbeDiffs lists what differed), the request's
	// reply is returned as usual.
	Probes []string
}

// ErrTimeout marks an I/O deadline hit: the case is inconclusive, never a violation.
var ErrTimeout = errors.New("session i/o deadline exceeded (inconclusive)")

// Session is a running proxy between the scripted client and the fake database.
type panics struct {
	mu   sync.Mutex
	list []string
	errs []string
}

func (p *panics) addErr(s string) {
	p.mu.Lock()
	p.errs = append(p.errs, s)
	p.mu.Unlock()
}

// ProxyErrors returns the errors with which the proxy loops ended the session (acra-server logs them and
// closes the connections).
func (s *Session) ProxyErrors() []string {
	s.pan.mu.Lock()
	defer s.pan.mu.Unlock()
	return append([]string(nil), s.pan.errs...)
}

func (p *panics) add(s string) {
	p.mu.Lock()
	p.list = append(p.list, s)
	p.mu.Unlock()
}

// Panics returns the panics recovered in the proxy's connection loops (acra-server's recoverConnection
// would have logged them and closed the session).
func (s *Session) Panics() []string {
	s.pan.mu.Lock()
	defer s.pan.mu.Unlock()
	return append([]string(nil), s.pan.list...)
}

type Session struct {
	probes     []string
	probeRef   []*Reply
	probeNext  int
	ProbeDiffs []string // pipelined probe replies that differ from the probe's reply when it ran alone
	ProbesSent int
	Notices    int // background notices of the fake database dropped by collect()
	pan        *panics
	fe         *pgproto3.Frontend
	clientEnd  net.Conn
	dbEnd      net.Conn
	acraC      net.Conn
	acraD      net.Conn
	DB         *FakeServer
	ProxyErrs  chan base.ProxyError
	timeout    time.Duration
	closed     bool
	// ClientSent / ClientRecv / DBRecv / DBSent are the raw byte streams at both ends.
	clientTap *tap
	dbTap     *tap
}

// DBStreams returns the raw bytes a scripted DBHandler received from and sent to the proxy.
func (s *Session) DBStreams() (recv, sent []byte) {
	s.dbTap.mu.Lock()
	defer s.dbTap.mu.Unlock()
	return append([]byte(nil), s.dbTap.recv.Bytes()...), append([]byte(nil), s.dbTap.sent.Bytes()...)
}

// SendMessages encodes and sends arbitrary frontend messages (any type), then flushes.
func (s *Session) SendMessages(msgs ...pgproto3.FrontendMessage) error {
	s.clientEnd.SetDeadline(time.Now().Add(s.timeout))
	for _, m := range msgs {
		s.fe.Send(m)
	}
	return s.fe.Flush()
}

// ReceiveRaw reads whatever bytes arrive on the client connection within d (for byte-level comparisons).
func (s *Session) ReceiveRaw(d time.Duration) []byte {
	s.clientEnd.SetReadDeadline(time.Now().Add(d))
	buf := make([]byte, 1<<16)
	var out []byte
	for {
		n, err := s.clientTap.Read(buf)
		out = append(out, buf[:n]...)
		if err != nil {
			return out
		}
	}
}

type tap struct {
	net.Conn
	mu   sync.Mutex
	sent bytes.Buffer
	recv bytes.Buffer
}

func (t *tap) Write(b []byte) (int, error) {
	n, err := t.Conn.Write(b)
	t.mu.Lock()
	t.sent.Write(b[:n])
	t.mu.Unlock()
	return n, err
}

func (t *tap) Read(b []byte) (int, error) {
	n, err := t.Conn.Read(b)
	t.mu.Lock()
	t.recv.Write(b[:n])
	t.mu.Unlock()
	return n, err
}

// Start builds the proxy exactly as acra-server does (proxy factory), connects both ends and
// performs the start-up exchange.
func Start(cfg Config) (*Session, error) {
	if cfg.Timeout == 0 {
		cfg.Timeout = 20 * time.Second
	}
	schema, err := config.MapTableSchemaStoreFromConfig([]byte(cfg.SchemaYAML), false)
	if err != nil {
		return nil, fmt.Errorf("schema config rejected: %w", err)
	}
	tok := cfg.Tokenizer
	if tok == nil {
		ts, err := storage.NewMemoryTokenStorage()
		if err != nil {
			return nil, err
		}
		tok, err = pseudonymization.NewPseudoanonymizer(ts)
		if err != nil {
			return nil, err
		}
	}
	censor := cfg.Censor
	if censor == nil {
		censor = acracensor.NewAcraCensor()
	}
	callbacks := cfg.Callbacks
	if callbacks == nil {
		callbacks = poison.NewCallbackStorage()
	}
	setting := base.NewProxySetting(sqlparser.New(cfg.ParserMode), schema, cfg.KeyStore, nil, censor, callbacks)
	factory, err := postgresql.NewProxyFactory(setting, cfg.KeyStore, tok)
	if err != nil {
		return nil, err
	}
	clientEnd, acraClient, err := SocketPair()
	if err != nil {
		return nil, err
	}
	acraDB, dbEnd, err := SocketPair()
	if err != nil {
		return nil, err
	}
	cs := &clientSession{c: acraClient, d: acraDB, data: map[string]interface{}{}}
	cs.ctx = base.SetClientSessionToContext(context.Background(), cs)
	ac := base.NewAccessContext(base.WithClientID(cfg.ClientID))
	proxy, err := factory.New(cfg.ClientID, cs)
	if err != nil {
		return nil, err
	}
	proxy.AddClientIDObserver(ac)
	cs.ctx = base.SetAccessContextToContext(cs.ctx, ac)
	errCh := make(chan base.ProxyError, 4)
	pan := &panics{}
	// acra-server runs both loops under recoverConnection: a panic is logged and the session closed
	guard := func(name string, f func()) {
		defer func() {
			if p := recover(); p != nil {
				pan.add(fmt.Sprintf("%s: %v\n%s", name, p, debug.Stack()))
				acraClient.Close()
				acraDB.Close()
			}
		}()
		f()
	}
	proxyErrs := make(chan base.ProxyError, 4)
	go guard("ProxyClientConnection", func() { proxy.ProxyClientConnection(cs.ctx, proxyErrs) })
	go guard("ProxyDatabaseConnection", func() { proxy.ProxyDatabaseConnection(cs.ctx, proxyErrs) })
	// acra-server waits for the first error of either loop and then closes the session's connections
	go func() {
		e := <-proxyErrs
		pan.addErr(fmt.Sprintf("%v (%v)", e, e.Unwrap()))
		acraClient.Close()
		acraDB.Close()
		errCh <- e
	}()

	store := cfg.Store
	if store == nil {
		store = NewStore(cfg.Tables)
	}
	var srv *FakeServer
	dbTap := &tap{Conn: dbEnd}
	if cfg.DBHandler != nil {
		go cfg.DBHandler(dbTap)
	} else {
		srv = newFakeServer(dbEnd, store)
		srv.noticeEvery, srv.noticeBurst = cfg.NoticeEvery, cfg.NoticeBurst
		if srv.noticeEvery == 0 && os.Getenv("VERIF_PG_NOISE") != "" {
			srv.noticeEvery = 30 * time.Microsecond // experiment switch: every session of the process with background notices
		}
		go srv.serve()
	}

	ct := &tap{Conn: clientEnd}
	s := &Session{pan: pan, fe: pgproto3.NewFrontend(ct, ct), clientEnd: clientEnd, dbEnd: dbEnd, acraC: acraClient, acraD: acraDB, DB: srv, ProxyErrs: errCh, timeout: cfg.Timeout, clientTap: ct, dbTap: dbTap}
	clientEnd.SetDeadline(time.Now().Add(cfg.Timeout))
	s.fe.Send(&pgproto3.StartupMessage{ProtocolVersion: pgproto3.ProtocolVersionNumber, Parameters: map[string]string{"user": "verif", "database": "verif"}})
	if err := s.fe.Flush(); err != nil {
		s.Close()
		return nil, err
	}
	if _, err := s.collect(); err != nil {
		s.Close()
		return nil, fmt.Errorf("start-up: %w", err)
	}
	probes := cfg.Probes
	if probes == nil && os.Getenv("VERIF_PG_PIPELINE") != "" && cfg.DBHandler == nil {
		probes = AutoProbes(cfg.Tables) // experiment switch
	}
	var usable []string
	var refs []*Reply
	for _, p := range probes {
		r, err := s.Simple(p)
		if err != nil {
			s.Close()
			return nil, fmt.Errorf("probe %q alone: %w", p, err)
		}
		if len(r.Errors) > 0 || len(r.Rows) > 0 {
			continue // not usable as a probe (the fake database does not interpret it, or it returns rows)
		}
		usable = append(usable, p)
		refs = append(refs, r)
	}
	s.probes, s.probeRef = usable, refs // only now: the probes above ran alone
	return s, nil
}

// AutoProbes makes probe statements for tables whose first column is an integer: every prefix of the column list.
func AutoProbes(tables []TableDef) []string {
	var out []string
	for _, t := range tables {
		if len(t.Cols) == 0 || (t.Cols[0].Type != Int4 && t.Cols[0].Type != Int8) {
			continue
		}
		var names []string
		for _, c := range t.Cols {
			names = append(names, c.Name)
			out = append(out, "SELECT "+strings.Join(names, ", ")+" FROM "+t.Name+" WHERE "+t.Cols[0].Name+" = -1")
		}
	}
	return out
}

// sendProbe queues the next probe in front of the request that is being written.
func (s *Session) sendProbe() int {
	if len(s.probes) == 0 {
		return -1
	}
	i := s.probeNext % len(s.probes)
	s.probeNext++
	s.ProbesSent++
	s.fe.Send(&pgproto3.Query{String: s.probes[i]})
	return i
}

// collectProbe reads the probe's reply and compares it with the reply the probe got alone.
func (s *Session) collectProbe(i int) error {
	if i < 0 {
		return nil
	}
	r, err := s.collect()
	if err != nil {
		return err
	}
	ref := s.probeRef[i]
	diff := ""
	switch {
	case strings.Join(r.Msgs, "") != strings.Join(ref.Msgs, ""):
		diff = fmt.Sprintf("messages %v, alone %v (errors %v)", r.Msgs, ref.Msgs, r.Errors)
	case len(r.Fields) != len(ref.Fields):
		diff = fmt.Sprintf("%d fields, alone %d", len(r.Fields), len(ref.Fields))
	default:
		for j := range r.Fields {
			a, b := r.Fields[j], ref.Fields[j]
			if string(a.Name) != string(b.Name) || a.DataTypeOID != b.DataTypeOID || a.Format != b.Format || a.DataTypeSize != b.DataTypeSize || a.TypeModifier != b.TypeModifier {
				diff = fmt.Sprintf("field %d described as %s oid=%d size=%d format=%d, alone as %s oid=%d size=%d format=%d", j, a.Name, a.DataTypeOID, a.DataTypeSize, a.Format, b.Name, b.DataTypeOID, b.DataTypeSize, b.Format)
				break
			}
		}
	}
	if diff != "" && len(s.ProbeDiffs) < 20 {
		s.ProbeDiffs = append(s.ProbeDiffs, fmt.Sprintf("probe %q pipelined in front of request %d: %s", s.probes[i], s.ProbesSent, diff))
	}
	return nil
}

// Close tears the session down.
func (s *Session) Close() {
	if s.closed {
		return
	}
	s.closed = true
	if f := os.Getenv("VERIF_PG_PIPELINE_LOG"); f != "" && len(s.ProbeDiffs) > 0 {
		if fh, err := os.OpenFile(f, os.O_APPEND|os.O_CREATE|os.O_WRONLY, 0o644); err == nil {
			fmt.Fprintf(fh, "%s\n", strings.Join(s.ProbeDiffs, "\n"))
			fh.Close()
		}
	}
	s.fe.Send(&pgproto3.Terminate{})
	s.fe.Flush()
	s.clientEnd.Close()
	s.dbEnd.Close()
	s.acraC.Close()
	s.acraD.Close()
}

// ClientStreams returns the raw bytes the client sent and received so far.
func (s *Session) ClientStreams() (sent, recv []byte) {
	s.clientTap.mu.Lock()
	defer s.clientTap.mu.Unlock()
	return append([]byte(nil), s.clientTap.sent.Bytes()...), append([]byte(nil), s.clientTap.recv.Bytes()...)
}

// Reply is everything the client received for one request cycle (until ReadyForQuery).
type Reply struct {
	Fields     []pgproto3.FieldDescription
	HaveFields bool
	ParamOIDs  []uint32
	HaveParams bool
	Rows       [][][]byte
	Errors     []string
	Tags       []string
	Msgs       []string // message type letters in order
	NoData     bool
}

func (s *Session) collect() (*Reply, error) {
	r := &Reply{}
	s.clientEnd.SetDeadline(time.Now().Add(s.timeout))
	for {
		m, err := s.fe.Receive()
		if err != nil {
			var ne net.Error
			if errors.As(err, &ne) && ne.Timeout() {
				return r, ErrTimeout
			}
			return r, err
		}
		switch mm := m.(type) {
		case *pgproto3.RowDescription:
			r.HaveFields = true
			r.Fields = nil
			for _, f := range mm.Fields {
				f.Name = append([]byte(nil), f.Name...)
				r.Fields = append(r.Fields, f)
			}
			r.Msgs = append(r.Msgs, "T")
		case *pgproto3.ParameterDescription:
			r.HaveParams = true
			r.ParamOIDs = append([]uint32(nil), mm.ParameterOIDs...)
			r.Msgs = append(r.Msgs, "t")
		case *pgproto3.DataRow:
			var row [][]byte
			for _, v := range mm.Values {
				if v == nil {
					row = append(row, nil)
				} else {
					row = append(row, append([]byte{}, v...))
				}
			}
			r.Rows = append(r.Rows, row)
			r.Msgs = append(r.Msgs, "D")
		case *pgproto3.NoticeResponse:
			if mm.Code == noticeCode {
				s.Notices++ // the fake database's background noise
				continue
			}
			r.Msgs = append(r.Msgs, "N")
		case *pgproto3.ErrorResponse:
			r.Errors = append(r.Errors, mm.Message)
			r.Msgs = append(r.Msgs, "E")
		case *pgproto3.CommandComplete:
			r.Tags = append(r.Tags, string(mm.CommandTag))
			r.Msgs = append(r.Msgs, "C")
		case *pgproto3.NoData:
			r.NoData = true
			r.Msgs = append(r.Msgs, "n")
		case *pgproto3.ReadyForQuery:
			r.Msgs = append(r.Msgs, "Z")
			return r, nil
		case *pgproto3.ParseComplete:
			r.Msgs = append(r.Msgs, "1")
		case *pgproto3.BindComplete:
			r.Msgs = append(r.Msgs, "2")
		case *pgproto3.CloseComplete:
			r.Msgs = append(r.Msgs, "3")
		case *pgproto3.EmptyQueryResponse:
			r.Msgs = append(r.Msgs, "I")
		case *pgproto3.PortalSuspended: // c04e.go
			r.Msgs = append(r.Msgs, "s")
		default:
			r.Msgs = append(r.Msgs, "?")
		}
	}
}

// Simple sends one simple-protocol query and collects the reply.
func (s *Session) Simple(sql string) (*Reply, error) {
	s.clientEnd.SetDeadline(time.Now().Add(s.timeout))
	probe := s.sendProbe()
	s.fe.Send(&pgproto3.Query{String: sql})
	if err := s.fe.Flush(); err != nil {
		return nil, err
	}
	if err := s.collectProbe(probe); err != nil {
		return nil, err
	}
	return s.collect()
}

// Ext describes one extended-protocol cycle: Parse [Describe S] Bind [Describe P] Execute Sync.
type Ext struct {
	SQL           string
	StmtName      string
	PortalName    string
	ParamOIDs     []uint32
	ParamFormats  []int16
	Params        [][]byte
	ResultFormats []int16
	DescribeStmt  bool
	DescribePort  bool
	SkipParse     bool // re-use a statement prepared earlier under StmtName
}

// Extended runs one extended-protocol cycle.
func (s *Session) Extended(e Ext) (*Reply, error) {
	s.clientEnd.SetDeadline(time.Now().Add(s.timeout))
	probe := s.sendProbe()
	if !e.SkipParse {
		s.fe.Send(&pgproto3.Parse{Name: e.StmtName, Query: e.SQL, ParameterOIDs: e.ParamOIDs})
	}
	if e.DescribeStmt {
		s.fe.Send(&pgproto3.Describe{ObjectType: 'S', Name: e.StmtName})
	}
	s.fe.Send(&pgproto3.Bind{DestinationPortal: e.PortalName, PreparedStatement: e.StmtName, ParameterFormatCodes: e.ParamFormats, Parameters: e.Params, ResultFormatCodes: e.ResultFormats})
	if e.DescribePort {
		s.fe.Send(&pgproto3.Describe{ObjectType: 'P', Name: e.PortalName})
	}
	s.fe.Send(&pgproto3.Execute{Portal: e.PortalName})
	s.fe.Send(&pgproto3.Sync{})
	if err := s.fe.Flush(); err != nil {
		return nil, err
	}
	if err := s.collectProbe(probe); err != nil {
		return nil, err
	}
	return s.collect()
}

// SendRaw writes raw bytes on the client connection (for hostile/garbage injection).
func (s *Session) SendRaw(b []byte) error {
	s.clientEnd.SetDeadline(time.Now().Add(s.timeout))
	_, err := s.clientTap.Write(b)
	return err
}

// Collect waits for the next ReadyForQuery.
func (s *Session) Collect() (*Reply, error) { return s.collect() }
