package pgsess

// Helpers added for property C12 (wire-level relay / rewrite checks): a session whose start-up exchange is
// played by the caller (authentication variants, SSLRequest refused by the server, ...), and the raw tapped
// client connection.

import (
	"context"
	"fmt"
	"net"
	"runtime/debug"
	"time"

	"github.com/jackc/pgx/v5/pgproto3"

	acracensor "github.com/cossacklabs/acra/acra-censor"
	"github.com/cossacklabs/acra/decryptor/base"
	"github.com/cossacklabs/acra/decryptor/postgresql"
	"github.com/cossacklabs/acra/encryptor/base/config"
	"github.com/cossacklabs/acra/poison"
	"github.com/cossacklabs/acra/pseudonymization"
	"github.com/cossacklabs/acra/pseudonymization/storage"
	"github.com/cossacklabs/acra/sqlparser"
)

// StartRaw wires the proxy exactly like Start but sends nothing: the caller plays the start-up exchange on
// RawConn(). cfg.DBHandler is required. As acra-server does, the session is closed when one of the proxy's
// loops reports an error.
func StartRaw(cfg Config) (*Session, error) {
	if cfg.DBHandler == nil {
		return nil, fmt.Errorf("StartRaw needs a DBHandler")
	}
	if cfg.Timeout == 0 {
		cfg.Timeout = 20 * time.Second
	}
	schema, err := config.MapTableSchemaStoreFromConfig([]byte(cfg.SchemaYAML), false)
	if err != nil {
		return nil, fmt.Errorf("schema config rejected: %w", err)
	}
	tok := cfg.Tokenizer
	if tok == nil {
		ts, err := storage.NewMemoryTokenStorage()
		if err != nil {
			return nil, err
		}
		tok, err = pseudonymization.NewPseudoanonymizer(ts)
		if err != nil {
			return nil, err
		}
	}
	censor := cfg.Censor
	if censor == nil {
		censor = acracensor.NewAcraCensor()
	}
	callbacks := cfg.Callbacks
	if callbacks == nil {
		callbacks = poison.NewCallbackStorage()
	}
	setting := base.NewProxySetting(sqlparser.New(cfg.ParserMode), schema, cfg.KeyStore, nil, censor, callbacks)
	factory, err := postgresql.NewProxyFactory(setting, cfg.KeyStore, tok)
	if err != nil {
		return nil, err
	}
	clientEnd, acraClient, err := SocketPair()
	if err != nil {
		return nil, err
	}
	acraDB, dbEnd, err := SocketPair()
	if err != nil {
		return nil, err
	}
	cs := &clientSession{c: acraClient, d: acraDB, data: map[string]interface{}{}}
	cs.ctx = base.SetClientSessionToContext(context.Background(), cs)
	ac := base.NewAccessContext(base.WithClientID(cfg.ClientID))
	proxy, err := factory.New(cfg.ClientID, cs)
	if err != nil {
		return nil, err
	}
	proxy.AddClientIDObserver(ac)
	cs.ctx = base.SetAccessContextToContext(cs.ctx, ac)
	errCh := make(chan base.ProxyError, 8)
	pan := &panics{}
	guard := func(name string, f func()) {
		defer func() {
			if p := recover(); p != nil {
				pan.add(fmt.Sprintf("%s: %v\n%s", name, p, debug.Stack()))
				acraClient.Close()
				acraDB.Close()
			}
		}()
		f()
	}
	go guard("ProxyClientConnection", func() { proxy.ProxyClientConnection(cs.ctx, errCh) })
	go guard("ProxyDatabaseConnection", func() { proxy.ProxyDatabaseConnection(cs.ctx, errCh) })
	dbTap := &tap{Conn: dbEnd}
	go cfg.DBHandler(dbTap)
	ct := &tap{Conn: clientEnd}
	s := &Session{pan: pan, fe: pgproto3.NewFrontend(ct, ct), clientEnd: clientEnd, dbEnd: dbEnd, acraC: acraClient, acraD: acraDB, ProxyErrs: make(chan base.ProxyError, 8), timeout: cfg.Timeout, clientTap: ct, dbTap: dbTap}
	// acra-server (handleClientSession) closes the session on the first proxy error
	go func() {
		select {
		case pe := <-errCh:
			select {
			case s.ProxyErrs <- pe:
			default:
			}
			acraClient.Close()
			acraDB.Close()
		case <-time.After(10 * time.Minute):
		}
	}()
	return s, nil
}

// RawConn is the scripted client's end of the connection (tapped: ClientStreams() sees what passes).
func (s *Session) RawConn() net.Conn { return s.clientTap }

// Abort closes everything without sending Terminate.
func (s *Session) Abort() {
	if s.closed {
		return
	}
	s.closed = true
	s.clientEnd.Close()
	s.dbEnd.Close()
	s.acraC.Close()
	s.acraD.Close()
}
