package pgprog

// Statement shapes added for property C04 (PostgreSQL twin): INSERT ... ON CONFLICT DO NOTHING / DO UPDATE SET,
// UPDATE with mixed SET items and a condition on the key / a searchable / a consistently tokenized column,
// DELETE [WHERE ...] [RETURNING ...], INSERT ... SELECT. GenStep (used by other properties with their own models of
// insert | update | select) is unchanged; GenProgStep draws from the wider family.

import (
	"fmt"
	"strings"

	"pgregory.net/rapid"

	"verif/internal/pgsess"
)

// Assign is one `column = ...` item of UPDATE SET or ON CONFLICT DO UPDATE SET.
type Assign struct {
	Col int `json:"col"`
	// "" value (literal, or placeholder in the extended protocol) | "default" | "column" (another column of the existing
	// row, Src) | "excluded" (EXCLUDED.Src, the row proposed for insertion) | "param-again" (the placeholder that
	// carries the same column's value in VALUES, a literal of the same value when that item is a literal)
	Kind string `json:"kind,omitempty"`
	Val  Val    `json:"val"`
	Src  int    `json:"src,omitempty"`
	Lit  bool   `json:"lit,omitempty"` // value: inline literal even in the extended protocol
}

// Where is the condition `column = value`.
type Where struct {
	Col int  `json:"col"`
	Val Val  `json:"val"`
	Lit bool `json:"lit,omitempty"` // inline literal even in the extended protocol
}

// GenState is what the generator knows about the session so far.
type GenState struct {
	NextID []int64
	// Written[table][column]: non-empty values written so far (candidates for conditions)
	Written [][][]Val
}

// NewGenState starts a session program.
func NewGenState(ts []TableSpec) *GenState {
	g := &GenState{NextID: make([]int64, len(ts)), Written: make([][][]Val, len(ts))}
	for i, tb := range ts {
		g.NextID[i] = 1
		g.Written[i] = make([][]Val, len(tb.Cols))
	}
	return g
}

func (g *GenState) note(table, col int, v Val) {
	if !v.Null && len(v.B) > 0 {
		g.Written[table][col] = append(g.Written[table][col], v)
	}
}

// WhereCols lists the columns a condition may name: the key, searchable columns, consistently tokenized columns
// (a condition on any other protected column cannot match by design).
func WhereCols(tb TableSpec) []int {
	out := []int{0}
	for i, c := range tb.Cols {
		if tb.Configured && (c.Kind == KSearch || (c.Kind == KToken && c.Consistent)) {
			out = append(out, i)
		}
	}
	return out
}

// CopySources lists the columns whose stored value may be assigned to column c of the same table with a meaning the
// model knows: the column itself, and for columns the configuration does not cover the uncovered columns of the same
// database type.
func CopySources(tb TableSpec, c int) []int {
	out := []int{c}
	if tb.Configured && tb.Cols[c].Protected() {
		return out
	}
	for i, o := range tb.Cols {
		if i != c && !(tb.Configured && o.Protected()) && o.DBType() == tb.Cols[c].DBType() {
			out = append(out, i)
		}
	}
	return out
}

func genNonEmpty(t *rapid.T, c ColSpec, label string) Val {
	for i := 0; i < 4; i++ {
		if v := GenVal(t, c, fmt.Sprintf("%s.%d", label, i)); !v.Null && len(v.B) > 0 {
			return v
		}
	}
	if lt := c.Logical(); lt == pgsess.Int4 || lt == pgsess.Int8 {
		return Val{B: []byte("7")}
	}
	if c.Kind == KToken && c.TokenType == "email" {
		return Val{B: []byte("MRK00000000nomatch@none.com")}
	}
	return Val{B: []byte("MRK00000000nomatch")}
}

func (g *GenState) genWhere(t *rapid.T, ts []TableSpec, table int, label string, optional bool) *Where {
	tb := ts[table]
	if optional && rapid.IntRange(0, 4).Draw(t, label+".nowhere") == 0 {
		return nil
	}
	w := &Where{Lit: rapid.IntRange(0, 2).Draw(t, label+".wlit") == 0}
	cols := WhereCols(tb)
	if len(cols) > 1 && rapid.IntRange(0, 3).Draw(t, label+".wcol.special") != 0 {
		w.Col = rapid.SampledFrom(cols[1:]).Draw(t, label+".wcol")
	}
	if w.Col == 0 {
		hi := g.NextID[table]
		if hi < 2 {
			hi = 2
		}
		w.Val = Val{B: []byte(fmt.Sprint(rapid.Int64Range(1, hi-1).Draw(t, label+".wid")))}
		return w
	}
	if cand := g.Written[table][w.Col]; len(cand) > 0 && rapid.IntRange(0, 7).Draw(t, label+".wfresh") != 0 {
		w.Val = rapid.SampledFrom(cand).Draw(t, label+".wval")
		return w
	}
	w.Val = genNonEmpty(t, tb.Cols[w.Col], label+".wv")
	return w
}

func pickColsOf(t *rapid.T, tb TableSpec, label string, min int) []int {
	var cols []int
	for i := range tb.Cols {
		if rapid.IntRange(0, 2).Draw(t, fmt.Sprintf("%s%d", label, i)) != 0 {
			cols = append(cols, i)
		}
	}
	if len(cols) < min {
		return nil
	}
	if rapid.Bool().Draw(t, label+".rev") {
		for i, j := 0, len(cols)-1; i < j; i, j = i+1, j-1 {
			cols[i], cols[j] = cols[j], cols[i]
		}
	}
	return cols
}

func withKey(cols []int) []int {
	for _, c := range cols {
		if c == 0 {
			return cols
		}
	}
	return append([]int{0}, cols...)
}

// genAssigns draws 1..n SET items over the non-key columns. kinds are the non-value kinds allowed.
func (g *GenState) genAssigns(t *rapid.T, ts []TableSpec, table int, label string, kinds []string, inserted []int) []Assign {
	tb := ts[table]
	var out []Assign
	for i := 1; i < len(tb.Cols); i++ {
		if rapid.IntRange(0, 1).Draw(t, fmt.Sprintf("%s.set%d", label, i)) == 0 {
			out = append(out, Assign{Col: i})
		}
	}
	if len(out) == 0 {
		out = []Assign{{Col: rapid.IntRange(1, len(tb.Cols)-1).Draw(t, label+".setone")}}
	}
	for i := range out {
		a := &out[i]
		k := rapid.SampledFrom(append([]string{"", "", ""}, kinds...)).Draw(t, fmt.Sprintf("%s.kind%d", label, i))
		if k == "param-again" {
			ok := false
			for _, c := range inserted {
				ok = ok || c == a.Col
			}
			if !ok {
				k = "excluded"
			}
		}
		a.Kind = k
		switch k {
		case "":
			a.Val = GenVal(t, tb.Cols[a.Col], fmt.Sprintf("%s.sv%d", label, a.Col))
			a.Lit = rapid.IntRange(0, 3).Draw(t, fmt.Sprintf("%s.slit%d", label, i)) == 0
			g.note(table, a.Col, a.Val)
		case "column", "excluded":
			a.Src = rapid.SampledFrom(CopySources(tb, a.Col)).Draw(t, fmt.Sprintf("%s.src%d", label, i))
		case "param-again":
			a.Src = a.Col
		}
	}
	return out
}

func genProto(t *rapid.T, s *Step, label string) {
	s.Ext = rapid.Bool().Draw(t, label+".ext")
	s.Spelling = rapid.IntRange(0, 3).Draw(t, label+".spelling")
	s.Cast = rapid.IntRange(0, 4).Draw(t, label+".cast") == 0
	if s.Ext {
		s.ParamFmt = int16(rapid.IntRange(0, 1).Draw(t, label+".pfmt"))
		s.ResultFmt = int16(rapid.IntRange(0, 1).Draw(t, label+".rfmt"))
		s.Declare = rapid.Bool().Draw(t, label+".declare")
		s.Describe = rapid.SampledFrom([]string{"S", "P"}).Draw(t, label+".describe")
		s.MixedFmt = rapid.IntRange(0, 3).Draw(t, label+".mixed") == 0
		if rapid.IntRange(0, 2).Draw(t, label+".litmix") == 0 {
			s.LitEvery = rapid.IntRange(2, 3).Draw(t, label+".litevery")
		}
	}
}

// genTable: mostly the configured tables (the last table is the unconfigured one).
func genTable(t *rapid.T, ts []TableSpec, label string) int {
	if len(ts) > 1 && rapid.IntRange(0, 5).Draw(t, label+".free") != 0 {
		return rapid.IntRange(0, len(ts)-2).Draw(t, label+".table")
	}
	return len(ts) - 1
}

// ProgKinds is AllKinds with more weight on the kinds a condition can name.
var ProgKinds = append(append([]string{}, AllKinds...), KSearch, KSearch, KToken)

// genSelect draws the SELECT shapes of the narrow generator.
func genSelect(t *rapid.T, ts []TableSpec, g *GenState, label string) Step {
	s := Step{Op: "select"}
	s.Table = genTable(t, ts, label)
	tb := ts[s.Table]
	genProto(t, &s, label)
	if rapid.IntRange(0, 2).Draw(t, label+".star") != 0 {
		s.Cols = pickColsOf(t, tb, label+".sc", 1)
	}
	s.Alias = rapid.IntRange(0, 2).Draw(t, label+".alias") == 0
	if g.NextID[s.Table] > 1 && rapid.Bool().Draw(t, label+".byid") {
		id := rapid.Int64Range(1, g.NextID[s.Table]-1).Draw(t, label+".id")
		s.WhereID = &id
	}
	return s
}

// GenProgStep draws a statement of the wider family over the tables.
func GenProgStep(t *rapid.T, ts []TableSpec, g *GenState, label string) Step {
	op := rapid.SampledFrom([]string{"insert", "insert", "upsert", "upsert", "upsert", "select", "select", "select", "update", "update", "delete", "delete", "insert-select"}).Draw(t, label+".op")
	if op == "select" {
		return genSelect(t, ts, g, label)
	}
	s := Step{Op: op}
	s.Table = genTable(t, ts, label)
	tb := ts[s.Table]
	genProto(t, &s, label)
	returning := func() {
		if rapid.IntRange(0, 2).Draw(t, label+".returning") == 0 {
			s.Returning = pickColsOf(t, tb, label+".ret", 1)
		}
	}
	switch op {
	case "insert", "upsert":
		s.Op = "insert"
		if rapid.IntRange(0, 3).Draw(t, label+".schemaorder") != 0 {
			if s.Cols = pickColsOf(t, tb, label+".ic", 1); s.Cols != nil {
				s.Cols = withKey(s.Cols)
			}
		}
		cols := s.Cols
		if cols == nil {
			for i := range tb.Cols {
				cols = append(cols, i)
			}
		}
		nrows := rapid.SampledFrom([]int{1, 1, 2, 3}).Draw(t, label+".nrows")
		used := map[int64]bool{}
		for r := 0; r < nrows; r++ {
			var row []Val
			for _, c := range cols {
				if c != 0 {
					v := GenVal(t, tb.Cols[c], fmt.Sprintf("%s.r%dc%d", label, r, c))
					g.note(s.Table, c, v)
					row = append(row, v)
					continue
				}
				// a plain INSERT always takes a fresh key; an upsert names a key that (probably) exists half of the time
				id := int64(0)
				if op == "upsert" && g.NextID[s.Table] > 1 && rapid.IntRange(0, 2).Draw(t, fmt.Sprintf("%s.r%d.oldkey", label, r)) != 0 {
					id = rapid.Int64Range(1, g.NextID[s.Table]-1).Draw(t, fmt.Sprintf("%s.r%d.key", label, r))
				}
				if id == 0 || used[id] {
					id = g.NextID[s.Table]
					g.NextID[s.Table]++
				}
				used[id] = true
				row = append(row, Val{B: []byte(fmt.Sprint(id))})
			}
			s.Rows = append(s.Rows, row)
		}
		if op == "upsert" {
			s.OnConflict = rapid.SampledFrom([]string{"update", "update", "update", "nothing", "nothing-bare"}).Draw(t, label+".oc")
			if s.OnConflict == "update" {
				kinds := []string{"excluded", "excluded", "default", "column"}
				if nrows == 1 {
					kinds = append(kinds, "param-again")
				}
				s.Assigns = g.genAssigns(t, ts, s.Table, label+".oc", kinds, cols)
			}
		}
		returning()
	case "update":
		s.Assigns = g.genAssigns(t, ts, s.Table, label, []string{"default", "column"}, nil)
		s.Where = g.genWhere(t, ts, s.Table, label, true)
		returning()
	case "delete":
		s.Where = g.genWhere(t, ts, s.Table, label, true)
		returning()
	case "insert-select":
		// copy one row (chosen by its key) under a new key: inside the table (every column keeps its protected form), or
		// from another table between columns the configuration does not cover
		s.SrcTable = s.Table
		if rapid.IntRange(0, 2).Draw(t, label+".cross") == 0 {
			s.SrcTable = rapid.IntRange(0, len(ts)-1).Draw(t, label+".src")
		}
		src := ts[s.SrcTable]
		s.Cols, s.SrcCols = []int{0}, []int{0}
		for c := 1; c < len(tb.Cols); c++ {
			var cand []int
			if s.SrcTable == s.Table {
				cand = []int{c}
			} else if !(tb.Configured && tb.Cols[c].Protected()) {
				for sc, o := range src.Cols {
					if !(src.Configured && o.Protected()) && o.DBType() == tb.Cols[c].DBType() {
						cand = append(cand, sc)
					}
				}
			}
			if len(cand) > 0 && rapid.IntRange(0, 3).Draw(t, fmt.Sprintf("%s.cp%d", label, c)) != 0 {
				s.Cols = append(s.Cols, c)
				s.SrcCols = append(s.SrcCols, rapid.SampledFrom(cand).Draw(t, fmt.Sprintf("%s.cps%d", label, c)))
			}
		}
		s.NewID = g.NextID[s.Table]
		g.NextID[s.Table]++
		hi := g.NextID[s.SrcTable]
		if s.SrcTable == s.Table {
			hi--
		}
		if hi < 2 {
			hi = 2
		}
		id := rapid.Int64Range(1, hi-1).Draw(t, label+".srcid")
		s.WhereID = &id
		returning()
	}
	// parameter types are declared by the client only where every placeholder outside VALUES stands for a column whose
	// type inside the database is the logical type: acra rewrites declared types of type-aware columns for the VALUES of
	// an INSERT only (the database rejects the others: fails closed, documented limit of the narrow generator)
	if s.Declare {
		for _, a := range s.Assigns {
			if (a.Kind == "" || a.Kind == "param-again") && tb.Cols[a.Col].DBType() != tb.Cols[a.Col].Logical() {
				s.Declare = false
			}
		}
		if s.Where != nil && tb.Cols[s.Where.Col].DBType() != tb.Cols[s.Where.Col].Logical() {
			s.Declare = false
		}
		if s.Op == "update" {
			s.Declare = false
		}
	}
	return s
}

// ---------------------------------------------------------------------------------------------
// rendering

func (r *Rendered) assignText(tb TableSpec, s Step, a Assign, qual string) string {
	c := tb.Cols[a.Col]
	switch a.Kind {
	case "default":
		return "DEFAULT"
	case "column":
		return qual + tb.Cols[a.Src].Name
	case "excluded":
		return "EXCLUDED." + tb.Cols[a.Src].Name
	case "param-again":
		if p, ok := r.firstRow[a.Col]; ok {
			if strings.HasPrefix(p, "$") {
				r.Notes = append(r.Notes, "assign:placeholder-again")
			}
			return p
		}
		return "EXCLUDED." + c.Name
	}
	txt := r.lit(a.Val, c, s, !a.Lit)
	if strings.HasPrefix(txt, "$") {
		r.Notes = append(r.Notes, "assign:placeholder")
	} else {
		r.Notes = append(r.Notes, "assign:literal")
	}
	return txt
}

func renderAssigns(r *Rendered, b *strings.Builder, tb TableSpec, s Step, qual string) {
	for i, a := range s.Assigns {
		if i > 0 || (s.Op == "update" && len(s.Set) > 0) {
			b.WriteString(", ")
		}
		fmt.Fprintf(b, "%s = %s", tb.Cols[a.Col].Name, r.assignText(tb, s, a, qual))
	}
}

func renderOnConflict(r *Rendered, b *strings.Builder, tb TableSpec, s Step) {
	switch s.OnConflict {
	case "nothing":
		b.WriteString(" ON CONFLICT (id) DO NOTHING")
	case "nothing-bare":
		b.WriteString(" ON CONFLICT DO NOTHING")
	case "update":
		b.WriteString(" ON CONFLICT (id) DO UPDATE SET ")
		renderAssigns(r, b, tb, s, tb.Name+".")
	}
}

func renderWhere(r *Rendered, b *strings.Builder, tb TableSpec, s Step) {
	if s.Where == nil {
		return
	}
	c := tb.Cols[s.Where.Col]
	txt := r.lit(s.Where.Val, c, s, !s.Where.Lit)
	if strings.HasPrefix(txt, "$") {
		r.Notes = append(r.Notes, "where:placeholder")
	} else {
		r.Notes = append(r.Notes, "where:literal")
	}
	fmt.Fprintf(b, " WHERE %s = %s", c.Name, txt)
}

func renderProg(r *Rendered, b *strings.Builder, tb TableSpec, ts []TableSpec, s Step) {
	names := func(t TableSpec, idx []int) string {
		var n []string
		for _, i := range idx {
			n = append(n, t.Cols[i].Name)
		}
		return strings.Join(n, ", ")
	}
	switch s.Op {
	case "delete":
		fmt.Fprintf(b, "DELETE FROM %s", tb.Name)
		renderWhere(r, b, tb, s)
	case "insert-select":
		src := ts[s.SrcTable]
		fmt.Fprintf(b, "INSERT INTO %s (%s) SELECT %d", tb.Name, names(tb, s.Cols), s.NewID)
		for i := 1; i < len(s.Cols) && i < len(s.SrcCols); i++ {
			fmt.Fprintf(b, ", %s", src.Cols[s.SrcCols[i]].Name)
		}
		fmt.Fprintf(b, " FROM %s", src.Name)
		if s.WhereID != nil {
			fmt.Fprintf(b, " WHERE id = %s", r.lit(Val{B: []byte(fmt.Sprint(*s.WhereID))}, src.Cols[0], s, true))
		}
	default:
		return
	}
	if len(s.Returning) > 0 {
		fmt.Fprintf(b, " RETURNING %s", names(tb, s.Returning))
	}
}
