package pgprog

import "pgregory.net/rapid"

// GenSelectStep draws a SELECT of the narrow family (star / list / aliases [WHERE id]) - what GenProgStep draws for
// its op "select" - for generators that decide themselves where a read goes (property C04: reads between the pages of
// a result set that is fetched with a row limit).
func GenSelectStep(t *rapid.T, ts []TableSpec, g *GenState, label string) Step {
	return genSelect(t, ts, g, label)
}
