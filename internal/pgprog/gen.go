package pgprog

import (
	"fmt"
	"strings"
	"sync"

	"pgregory.net/rapid"

	"github.com/cossacklabs/acra/encryptor/base/config"

	"verif/internal/pgsess"
)

// combo is one (kind, envelope, declared type, policy) combination.
type combo struct {
	Kind, Envelope, DataType, OnFail string
	ByTypeID                       bool
}

var (
	combosOnce sync.Once
	combos     map[string][]combo
)

// validCombos enumerates the flag combinations and keeps those the real configuration loader
// (MapTableSchemaStoreFromConfig, i.e. the whitelist of encryptionSettings.go) accepts, so that every
// generated configuration is valid by construction.
func validCombos() map[string][]combo {
	combosOnce.Do(func() {
		combos = map[string][]combo{}
		envs := []string{"", "acrastruct", "acrablock"}
		dts := []string{"", "str", "bytes", "int32", "int64"}
		fails := []string{"", "ciphertext", "default_value", "error"}
		for _, kind := range []string{KEnc, KSearch, KMask, KToken, KTyped} {
			for _, env := range envs {
				for _, dt := range dts {
					for _, of := range fails {
						for _, byID := range []bool{false, true} {
							if (kind == KTyped) != (dt != "" && kind == KTyped) && kind == KTyped {
								continue
							}
							if kind == KEnc && (dt != "" || of != "") {
								continue
							}
							if kind == KToken && (dt != "" || of != "" || env != "" || byID) {
								continue
							}
							if dt == "" && (byID || of == "default_value") {
								continue
							}
							c := ColSpec{Name: "c", Kind: kind, Envelope: env, DataType: dt, ByTypeID: byID, OnFail: of}
							if kind == KMask {
								c.MaskPat, c.MaskLen, c.MaskSide = "xx", 1, "left"
							}
							if kind == KToken {
								c.TokenType = "str"
							}
							if of == "default_value" {
								c.HasDefault = true
								c.Default = map[string]string{"str": "d", "bytes": "ZA==", "int32": "1", "int64": "1"}[dt]
							}
							y := SchemaYAML([]TableSpec{{Name: "t", Configured: true, Cols: []ColSpec{{Name: "id", Kind: KPlainInt}, c}}})
							if _, err := config.MapTableSchemaStoreFromConfig([]byte(y), false); err == nil {
								combos[kind] = append(combos[kind], combo{kind, env, dt, of, byID})
							}
						}
					}
				}
			}
		}
	})
	return combos
}

// Combos exposes the accepted combinations of a kind (for evidence and tests).
func Combos(kind string) int { return len(validCombos()[kind]) }

// GenCol draws a column specification of one of the allowed kinds from the combinations the real
// loader accepts.
func GenCol(t *rapid.T, name string, kinds []string, owner string) ColSpec {
	c := ColSpec{Name: name, Kind: rapid.SampledFrom(kinds).Draw(t, name+".kind")}
	if !c.Protected() {
		return c
	}
	if rapid.IntRange(0, 3).Draw(t, name+".explicit") == 0 {
		c.ClientID = owner
	}
	cb := rapid.SampledFrom(validCombos()[c.Kind]).Draw(t, name+".combo")
	c.Envelope, c.DataType, c.OnFail, c.ByTypeID = cb.Envelope, cb.DataType, cb.OnFail, cb.ByTypeID
	switch c.Kind {
	case KMask:
		c.MaskPat = rapid.SampledFrom([]string{"xxxx", "*", "MASK", "%%%", `""""`, "x y"}).Draw(t, name+".pat")
		c.MaskLen = rapid.IntRange(0, 24).Draw(t, name+".mlen")
		c.MaskSide = rapid.SampledFrom([]string{"left", "right"}).Draw(t, name+".side")
	case KToken:
		c.TokenType = rapid.SampledFrom([]string{"int32", "int64", "str", "bytes", "email"}).Draw(t, name+".tt")
		c.Consistent = rapid.Bool().Draw(t, name+".cons")
	}
	if c.OnFail == "default_value" {
		c.HasDefault = true
		switch c.DataType {
		case "str":
			c.Default = rapid.SampledFrom([]string{"default-str", "", "d'q"}).Draw(t, name+".def")
		case "bytes":
			c.Default = rapid.SampledFrom([]string{"ZGVmYXVsdA==", "AAEC/w=="}).Draw(t, name+".def")
		case "int32":
			c.Default = rapid.SampledFrom([]string{"77", "-2147483648", "0"}).Draw(t, name+".def")
		default:
			c.Default = rapid.SampledFrom([]string{"77", "9223372036854775807", "-1"}).Draw(t, name+".def")
		}
	}
	return c
}

// AllKinds lists the column kinds.
var AllKinds = []string{KPlainText, KPlainBytea, KPlainInt, KEnc, KEnc, KSearch, KMask, KToken, KToken, KTyped, KTyped}

// GenTables draws 1..2 configured tables and one unconfigured table.
func GenTables(t *rapid.T, kinds []string, owner string) []TableSpec {
	n := rapid.IntRange(1, 2).Draw(t, "ntables")
	var ts []TableSpec
	for i := 0; i < n; i++ {
		tb := TableSpec{Name: fmt.Sprintf("tab%d", i), Configured: true, Cols: []ColSpec{{Name: "id", Kind: KPlainInt}}}
		nc := rapid.IntRange(2, 5).Draw(t, fmt.Sprintf("t%d.ncols", i))
		for j := 0; j < nc; j++ {
			tb.Cols = append(tb.Cols, GenCol(t, fmt.Sprintf("c%d_%d", i, j), kinds, owner))
		}
		ts = append(ts, tb)
	}
	ts = append(ts, TableSpec{Name: "freetab", Configured: false, Cols: []ColSpec{{Name: "id", Kind: KPlainInt}, {Name: "note", Kind: KPlainText}, {Name: "blob", Kind: KPlainBytea}}})
	return ts
}

// Step is one statement of a session program.
type Step struct {
	Op        string  `json:"op"` // insert | update | select
	Table     int     `json:"table"`
	Cols      []int   `json:"cols,omitempty"` // insert: column list (nil = schema order); select: list (nil = *)
	Rows      [][]Val `json:"rows,omitempty"` // insert
	Set       []int   `json:"set,omitempty"`  // update: columns
	SetVals   []Val   `json:"set_vals,omitempty"`
	WhereID   *int64  `json:"where_id,omitempty"`
	Returning []int   `json:"returning,omitempty"`
	Alias     bool    `json:"alias,omitempty"`
	Cast      bool    `json:"cast,omitempty"`
	Spelling  int     `json:"spelling,omitempty"`
	Ext       bool    `json:"ext,omitempty"`
	ParamFmt  int16   `json:"param_fmt,omitempty"`
	ResultFmt int16   `json:"result_fmt,omitempty"`
	Declare   bool    `json:"declare_oids,omitempty"`
	Describe  string  `json:"describe,omitempty"` // "", "S", "P"
	MixedFmt  bool    `json:"mixed_fmt,omitempty"` // per-parameter format codes instead of one for all
	LitEvery  int     `json:"lit_every,omitempty"` // extended protocol: every n-th value is an inline literal instead of a placeholder
	// Reexec > 0: op "reexec" binds and executes again the statement prepared by step Reexec-1 (an earlier
	// extended-protocol SELECT), without a new Parse
	Reexec int `json:"reexec,omitempty"`
	// ReOp: the op of the re-executed statement when it is not a SELECT (update | delete | insert with ON CONFLICT)
	ReOp string `json:"re_op,omitempty"`
	// statement shapes of c04.go (GenProgStep): op insert with ON CONFLICT, op update with Assigns / Where,
	// op delete, op insert-select
	OnConflict string   `json:"on_conflict,omitempty"` // insert: "" | "nothing" (ON CONFLICT (id) DO NOTHING) | "nothing-bare" (no target) | "update"
	Assigns    []Assign `json:"assigns,omitempty"`     // update: SET items (replaces Set/SetVals); insert + on_conflict update: DO UPDATE SET items
	Where      *Where   `json:"where,omitempty"`       // update / delete: <column> = <value> on the key, a searchable or a consistently tokenized column
	SrcTable   int      `json:"src_table,omitempty"`   // insert-select: the table read
	SrcCols    []int    `json:"src_cols,omitempty"`    // insert-select: source column per target column (entry of the key column unused)
	NewID      int64    `json:"new_id,omitempty"`      // insert-select: constant written into the key column
}

// GenStep draws a statement over the tables; nextID provides unique ids per table.
func GenStep(t *rapid.T, ts []TableSpec, nextID []int64, label string) Step {
	s := Step{Op: rapid.SampledFrom([]string{"insert", "insert", "select", "select", "update"}).Draw(t, label+".op")}
	s.Table = rapid.IntRange(0, len(ts)-1).Draw(t, label+".table")
	tb := ts[s.Table]
	s.Ext = rapid.Bool().Draw(t, label+".ext")
	s.Spelling = rapid.IntRange(0, 3).Draw(t, label+".spelling")
	s.Cast = rapid.IntRange(0, 4).Draw(t, label+".cast") == 0
	if s.Ext {
		s.ParamFmt = int16(rapid.IntRange(0, 1).Draw(t, label+".pfmt"))
		s.ResultFmt = int16(rapid.IntRange(0, 1).Draw(t, label+".rfmt"))
		s.Declare = rapid.Bool().Draw(t, label+".declare")
		// real clients always describe the statement or the portal: DataRows carry no type information
		s.Describe = rapid.SampledFrom([]string{"S", "P"}).Draw(t, label+".describe")
		s.MixedFmt = rapid.IntRange(0, 3).Draw(t, label+".mixed") == 0
		if rapid.IntRange(0, 2).Draw(t, label+".litmix") == 0 {
			s.LitEvery = rapid.IntRange(2, 3).Draw(t, label+".litevery")
		}
	}
	pickCols := func(l string, min int) []int {
		var cols []int
		for i := range tb.Cols {
			if rapid.IntRange(0, 2).Draw(t, fmt.Sprintf("%s.%s%d", label, l, i)) != 0 {
				cols = append(cols, i)
			}
		}
		if len(cols) < min {
			return nil
		}
		// sometimes shuffled order
		if rapid.Bool().Draw(t, label+"."+l+".rev") {
			for i, j := 0, len(cols)-1; i < j; i, j = i+1, j-1 {
				cols[i], cols[j] = cols[j], cols[i]
			}
		}
		return cols
	}
	switch s.Op {
	case "insert":
		if rapid.IntRange(0, 3).Draw(t, label+".schemaorder") != 0 {
			s.Cols = pickCols("ic", 1)
			// the key column is always written
			has := false
			for _, c := range s.Cols {
				has = has || c == 0
			}
			if s.Cols != nil && !has {
				s.Cols = append([]int{0}, s.Cols...)
			}
		}
		cols := s.Cols
		if cols == nil {
			for i := range tb.Cols {
				cols = append(cols, i)
			}
		}
		nrows := rapid.SampledFrom([]int{1, 1, 2, 3}).Draw(t, label+".nrows")
		for r := 0; r < nrows; r++ {
			var row []Val
			for _, c := range cols {
				if c == 0 {
					row = append(row, Val{B: []byte(fmt.Sprint(nextID[s.Table]))})
					nextID[s.Table]++
					continue
				}
				row = append(row, GenVal(t, tb.Cols[c], fmt.Sprintf("%s.r%dc%d", label, r, c)))
			}
			s.Rows = append(s.Rows, row)
		}
		if rapid.IntRange(0, 3).Draw(t, label+".returning") == 0 {
			s.Returning = pickCols("ret", 1)
		}
	case "update":
		for i := 1; i < len(tb.Cols); i++ {
			if rapid.IntRange(0, 1).Draw(t, fmt.Sprintf("%s.set%d", label, i)) == 0 {
				s.Set = append(s.Set, i)
				s.SetVals = append(s.SetVals, GenVal(t, tb.Cols[i], fmt.Sprintf("%s.sv%d", label, i)))
			}
		}
		if len(s.Set) == 0 {
			s.Set = []int{1}
			s.SetVals = []Val{GenVal(t, tb.Cols[1], label+".sv")}
		}
		if nextID[s.Table] > 1 && rapid.IntRange(0, 4).Draw(t, label+".allrows") != 0 {
			id := rapid.Int64Range(1, nextID[s.Table]-1).Draw(t, label+".id")
			s.WhereID = &id
		}
		if rapid.IntRange(0, 3).Draw(t, label+".returning") == 0 {
			s.Returning = pickCols("ret", 1)
		}
		// acra rewrites client-declared parameter types of type-aware columns only for INSERT; an UPDATE that
		// declares e.g. int4 for a column stored as bytea is rejected by the database (fails closed): out of domain
		s.Declare = false
	case "select":
		if rapid.IntRange(0, 2).Draw(t, label+".star") != 0 {
			s.Cols = pickCols("sc", 1)
		}
		s.Alias = rapid.IntRange(0, 2).Draw(t, label+".alias") == 0
		if nextID[s.Table] > 1 && rapid.Bool().Draw(t, label+".byid") {
			id := rapid.Int64Range(1, nextID[s.Table]-1).Draw(t, label+".id")
			s.WhereID = &id
		}
	}
	return s
}

// Rendered is a statement ready to send.
type Rendered struct {
	nvals    int
	firstRow map[int]string // INSERT: text of the first VALUES row per column index (c04.go: param-again)
	SQL    string
	Params []Val
	PTypes []pgsess.ColType // logical type of each parameter
	Notes  []string         // c04.go: how the items outside VALUES were rendered (assign:placeholder, where:literal, ...)
}

// lit renders a value for column c. Explicit casts are only generated where a real database would accept
// them: the cast type must be the column's type inside the database (bytea for encrypted columns).
func (r *Rendered) lit(v Val, c ColSpec, s Step, allowParam bool) string {
	lt := c.Logical()
	castOK := s.Cast && c.DBType() == lt
	r.nvals++
	if s.Ext && allowParam && !(s.LitEvery > 0 && r.nvals%s.LitEvery == 0) {
		r.Params = append(r.Params, v)
		r.PTypes = append(r.PTypes, lt)
		// acra documents casts around placeholders as unsupported (queryDataEncryptor.go: "We don't support
		// functions, casts, inserting query results"), so placeholders are always bare
		p := fmt.Sprintf("$%d", len(r.Params))
		return p
	}
	return Literal(v, lt, s.Spelling, castOK)
}

// Render produces the SQL text (and bound parameters in extended mode) of a step.
func Render(ts []TableSpec, s Step) Rendered {
	tb := ts[s.Table]
	var r Rendered
	var b strings.Builder
	colNames := func(idx []int) string {
		var n []string
		for _, i := range idx {
			n = append(n, tb.Cols[i].Name)
		}
		return strings.Join(n, ", ")
	}
	switch s.Op {
	case "insert":
		fmt.Fprintf(&b, "INSERT INTO %s", tb.Name)
		cols := s.Cols
		if cols != nil {
			fmt.Fprintf(&b, " (%s)", colNames(cols))
		} else {
			for i := range tb.Cols {
				cols = append(cols, i)
			}
		}
		b.WriteString(" VALUES ")
		for ri, row := range s.Rows {
			if ri > 0 {
				b.WriteString(", ")
			}
			b.WriteString("(")
			for ci, v := range row {
				if ci > 0 {
					b.WriteString(", ")
				}
				txt := r.lit(v, tb.Cols[cols[ci]], s, true)
				if ri == 0 {
					if r.firstRow == nil {
						r.firstRow = map[int]string{}
					}
					r.firstRow[cols[ci]] = txt
				}
				b.WriteString(txt)
			}
			b.WriteString(")")
		}
		renderOnConflict(&r, &b, tb, s) // c04.go
		if len(s.Returning) > 0 {
			fmt.Fprintf(&b, " RETURNING %s", colNames(s.Returning))
		}
	case "update":
		fmt.Fprintf(&b, "UPDATE %s SET ", tb.Name)
		for i, c := range s.Set {
			if i > 0 {
				b.WriteString(", ")
			}
			fmt.Fprintf(&b, "%s = %s", tb.Cols[c].Name, r.lit(s.SetVals[i], tb.Cols[c], s, true))
		}
		renderAssigns(&r, &b, tb, s, "") // c04.go
		if s.WhereID != nil {
			fmt.Fprintf(&b, " WHERE id = %d", *s.WhereID)
		}
		renderWhere(&r, &b, tb, s) // c04.go
		if len(s.Returning) > 0 {
			fmt.Fprintf(&b, " RETURNING %s", colNames(s.Returning))
		}
	case "select":
		b.WriteString("SELECT ")
		qual := ""
		if s.Alias {
			qual = "q."
		}
		if s.Cols == nil {
			b.WriteString(qual + "*")
		} else {
			for i, c := range s.Cols {
				if i > 0 {
					b.WriteString(", ")
				}
				b.WriteString(qual + tb.Cols[c].Name)
				if s.Alias && i%2 == 0 {
					fmt.Fprintf(&b, " AS a%d", i)
				}
			}
		}
		fmt.Fprintf(&b, " FROM %s", tb.Name)
		if s.Alias {
			b.WriteString(" AS q")
		}
		if s.WhereID != nil {
			fmt.Fprintf(&b, " WHERE %sid = %d", qual, *s.WhereID)
		}
	default:
		renderProg(&r, &b, tb, ts, s) // c04.go
	}
	r.SQL = b.String()
	return r
}

// ExtOf builds the extended-protocol cycle for a rendered step.
func ExtOf(s Step, r Rendered, name string) pgsess.Ext {
	e := pgsess.Ext{SQL: r.SQL, StmtName: name, ResultFormats: []int16{s.ResultFmt}, DescribeStmt: s.Describe == "S", DescribePort: s.Describe == "P"}
	for i, v := range r.Params {
		f := s.ParamFmt
		if s.MixedFmt && i%2 == 1 {
			f = 1 - f
		}
		e.Params = append(e.Params, ParamBytes(v, r.PTypes[i], f))
		if s.MixedFmt {
			e.ParamFormats = append(e.ParamFormats, f)
		}
		if s.Declare {
			e.ParamOIDs = append(e.ParamOIDs, r.PTypes[i].OID())
		}
	}
	if !s.MixedFmt {
		e.ParamFormats = []int16{s.ParamFmt}
	}
	return e
}
