// Package pgprog describes generated PostgreSQL session programs: table/column configurations
// (G-config), statements as structured values, their rendering into SQL text / bound parameters,
// and the independent result decoder. Shared by the session-level properties.
package pgprog

import (
	"encoding/binary"
	"encoding/hex"
	"fmt"
	"strconv"
	"strings"

	"pgregory.net/rapid"

	"verif/internal/gen"
	"verif/internal/pgsess"
)

// Column kinds.
const (
	KPlainText  = "plain-text"
	KPlainBytea = "plain-bytea"
	KPlainInt   = "plain-int"
	KEnc        = "enc"    // transparent encryption, no declared type (bytea)
	KSearch     = "search" // searchable encryption
	KMask       = "mask"
	KToken      = "token"
	KTyped      = "typed" // encryption with declared data type
)

// ColSpec is one column of a generated table.
type ColSpec struct {
	Name       string `json:"name"`
	Kind       string `json:"kind"`
	Envelope   string `json:"envelope,omitempty"` // acrastruct | acrablock | "" (default)
	MaskPat    string `json:"mask_pattern,omitempty"`
	MaskLen    int    `json:"mask_len,omitempty"`
	MaskSide   string `json:"mask_side,omitempty"`
	TokenType  string `json:"token_type,omitempty"`
	Consistent bool   `json:"consistent,omitempty"`
	DataType   string `json:"data_type,omitempty"` // str | bytes | int32 | int64
	ByTypeID   bool   `json:"by_type_id,omitempty"`
	OnFail     string `json:"on_fail,omitempty"` // "", ciphertext, default_value, error
	Default    string `json:"default,omitempty"`
	HasDefault bool   `json:"has_default,omitempty"`
	ClientID   string `json:"client_id,omitempty"`
}

// Protected tells whether the configuration covers the column.
func (c ColSpec) Protected() bool {
	return c.Kind == KEnc || c.Kind == KSearch || c.Kind == KMask || c.Kind == KToken || c.Kind == KTyped
}

// Logical is the type the client writes and (as owner) reads.
func (c ColSpec) Logical() pgsess.ColType {
	switch c.Kind {
	case KPlainText:
		return pgsess.Text
	case KPlainInt:
		return pgsess.Int4
	case KToken:
		switch c.TokenType {
		case "int32":
			return pgsess.Int4
		case "int64":
			return pgsess.Int8
		case "str", "email":
			return pgsess.Text
		}
		return pgsess.Bytea
	case KTyped, KSearch, KMask:
		switch c.DataType {
		case "str":
			return pgsess.Text
		case "int32":
			return pgsess.Int4
		case "int64":
			return pgsess.Int8
		}
		return pgsess.Bytea
	}
	return pgsess.Bytea
}

// DBType is the column's type inside the database.
func (c ColSpec) DBType() pgsess.ColType {
	switch c.Kind {
	case KEnc, KSearch, KMask, KTyped:
		return pgsess.Bytea
	}
	return c.Logical()
}

// TableSpec is a generated table; column 0 is always the plain int4 key "id".
type TableSpec struct {
	Name       string    `json:"name"`
	Cols       []ColSpec `json:"cols"`
	Configured bool      `json:"configured"` // false: the table does not appear in the encryptor config
}

// Defs converts to the fake database's schema.
func Defs(ts []TableSpec) []pgsess.TableDef {
	var out []pgsess.TableDef
	for _, t := range ts {
		d := pgsess.TableDef{Name: t.Name}
		for _, c := range t.Cols {
			d.Cols = append(d.Cols, pgsess.ColumnDef{Name: c.Name, Type: c.DBType()})
		}
		out = append(out, d)
	}
	return out
}

func yamlStr(s string) string { return strconv.Quote(s) }

var pgTypeIDs = map[string]int{"str": 25, "bytes": 17, "int32": 23, "int64": 20}

// SchemaYAML renders the encryptor configuration for the tables.
func SchemaYAML(ts []TableSpec) string {
	var b strings.Builder
	b.WriteString("schemas:\n")
	for _, t := range ts {
		if !t.Configured {
			continue
		}
		fmt.Fprintf(&b, "  - table: %s\n    columns:\n", t.Name)
		for _, c := range t.Cols {
			fmt.Fprintf(&b, "      - %s\n", c.Name)
		}
		b.WriteString("    encrypted:\n")
		n := 0
		for _, c := range t.Cols {
			if !c.Protected() {
				continue
			}
			n++
			fmt.Fprintf(&b, "      - column: %s\n", c.Name)
			if c.ClientID != "" {
				fmt.Fprintf(&b, "        client_id: %s\n", yamlStr(c.ClientID))
			}
			if c.Envelope != "" && c.Kind != KToken {
				fmt.Fprintf(&b, "        crypto_envelope: %s\n", c.Envelope)
			}
			switch c.Kind {
			case KSearch:
				b.WriteString("        searchable: true\n")
			case KMask:
				fmt.Fprintf(&b, "        masking: %s\n        plaintext_length: %d\n        plaintext_side: %s\n", yamlStr(c.MaskPat), c.MaskLen, c.MaskSide)
			case KToken:
				fmt.Fprintf(&b, "        token_type: %s\n", c.TokenType)
				if c.Consistent {
					b.WriteString("        consistent_tokenization: true\n")
				}
			}
			if c.DataType != "" && c.Kind != KToken {
				if c.ByTypeID {
					fmt.Fprintf(&b, "        data_type_db_identifier: %d\n", pgTypeIDs[c.DataType])
				} else {
					fmt.Fprintf(&b, "        data_type: %s\n", c.DataType)
				}
			}
			if c.OnFail != "" {
				fmt.Fprintf(&b, "        response_on_fail: %s\n", c.OnFail)
			}
			if c.HasDefault {
				fmt.Fprintf(&b, "        default_data_value: %s\n", yamlStr(c.Default))
			}
		}
		if n == 0 {
			b.WriteString("      []\n")
		}
	}
	return b.String()
}

// ---------------------------------------------------------------------------------------------
// values

// Val is a logical value (canonical form as in pgsess.Value).
type Val struct {
	Null bool    `json:"null,omitempty"`
	B    gen.Hex `json:"b,omitempty"`
}

// V converts to the fake database's value type.
func (v Val) V() pgsess.Value { return pgsess.Value{Null: v.Null, B: v.B} }

// Marker is the unique search string inside a generated value ("" for ints and NULLs).
func Marker(v Val) []byte {
	i := strings.Index(string(v.B), "MRK")
	if i < 0 || v.Null {
		return nil
	}
	end := i + 3
	for end < len(v.B) && end < i+19 && isHex(v.B[end]) {
		end++
	}
	if end-i < 12 {
		return nil
	}
	return v.B[i:end]
}

func isHex(c byte) bool { return (c >= '0' && c <= '9') || (c >= 'a' && c <= 'f') }

func markerStr(t *rapid.T, label string) string {
	n := rapid.Uint64().Draw(t, label+".m")
	var b [8]byte
	binary.BigEndian.PutUint64(b[:], n)
	return "MRK" + hex.EncodeToString(b[:])
}

// GenVal draws a value of a logical type that a column of that kind can carry, with a marker
// wherever the type allows one.
func GenVal(t *rapid.T, c ColSpec, label string) Val {
	if rapid.IntRange(0, 11).Draw(t, label+".null") == 0 {
		return Val{Null: true}
	}
	switch c.Logical() {
	case pgsess.Int4:
		return Val{B: []byte(strconv.FormatInt(int64(rapid.OneOf(rapid.Int32(), rapid.SampledFrom([]int32{0, 1, -1, 2147483647, -2147483648, 12345})).Draw(t, label+".i4")), 10))}
	case pgsess.Int8:
		return Val{B: []byte(strconv.FormatInt(rapid.OneOf(rapid.Int64(), rapid.SampledFrom([]int64{0, 1, -1, 9223372036854775807, -9223372036854775808, 4294967301})).Draw(t, label+".i8"), 10))}
	case pgsess.Text:
		if c.Kind == KToken && c.TokenType == "email" {
			return Val{B: []byte(markerStr(t, label) + "@" + rapid.StringMatching(`[a-z]{3,8}`).Draw(t, label+".dom") + ".com")}
		}
		if rapid.IntRange(0, 9).Draw(t, label+".empty") == 0 {
			return Val{B: []byte{}}
		}
		tail := rapid.SampledFrom([]string{"", " plain tail", "'quote", `back\slash`, "ünï", "\n", `"dq"`, "%%%", `""""""""`, "$1", ";--"}).Draw(t, label+".tail")
		return Val{B: []byte(markerStr(t, label) + tail)}
	}
	// bytes
	if rapid.IntRange(0, 9).Draw(t, label+".empty") == 0 {
		return Val{B: []byte{}}
	}
	tail := rapid.OneOf(
		rapid.Just([]byte(nil)),
		rapid.SliceOfN(rapid.Byte(), 0, 24),
		rapid.SampledFrom([][]byte{{0}, {0xff, 0xfe}, []byte(`\x41`), []byte(`'`), []byte(`\\`), []byte(`%%%`), []byte(`""""""""`), {0x7f}}),
	).Draw(t, label+".tail")
	head := rapid.SampledFrom([][]byte{nil, nil, {0}, {0xc3}, []byte(`\`)}).Draw(t, label+".head")
	return Val{B: append(append(append([]byte{}, head...), []byte(markerStr(t, label))...), tail...)}
}

// ---------------------------------------------------------------------------------------------
// literal and parameter rendering (client side)

func quoteStd(s []byte) string { return "'" + strings.ReplaceAll(string(s), "'", "''") + "'" }

func quoteE(s []byte) string {
	var b strings.Builder
	b.WriteString("E'")
	for _, c := range s {
		switch {
		case c == '\'':
			b.WriteString(`\'`)
		case c == '\\':
			b.WriteString(`\\`)
		case c == '\n':
			b.WriteString(`\n`)
		case c < 0x20 || c == 0x7f:
			fmt.Fprintf(&b, `\%03o`, c)
		default:
			b.WriteByte(c)
		}
	}
	b.WriteString("'")
	return b.String()
}

func printableNoEsc(s []byte) bool {
	for _, c := range s {
		if c < 0x20 || c > 0x7e || c == '\\' || c == '\'' {
			return false
		}
	}
	return len(s) > 0
}

func validText(s []byte) bool { return strings.ToValidUTF8(string(s), "�") == string(s) }

// Literal renders a value as an SQL literal for a column of logical type lt; spelling selects among
// the equivalent spellings (the caller draws it).
func Literal(v Val, lt pgsess.ColType, spelling int, cast bool) string {
	if v.Null {
		return "NULL"
	}
	var s string
	switch lt {
	case pgsess.Int4, pgsess.Int8:
		s = string(v.B)
		if cast {
			if lt == pgsess.Int4 {
				return "CAST(" + s + " AS integer)"
			}
			return "CAST(" + s + " AS bigint)"
		}
		return s
	case pgsess.Text:
		if spelling%2 == 1 {
			s = quoteE(v.B)
		} else {
			s = quoteStd(v.B)
		}
		if cast {
			s += "::text"
		}
		return s
	}
	hexs := `\x` + hex.EncodeToString(v.B)
	switch spelling % 4 {
	case 0:
		s = "'" + hexs + "'"
	case 1:
		s = `E'\\x` + hex.EncodeToString(v.B) + "'"
	case 2:
		if printableNoEsc(v.B) {
			s = "'" + string(v.B) + "'"
		} else {
			s = "'" + hexs + "'"
		}
	default:
		// bytea escape format: octal for everything that is not plain printable
		var b strings.Builder
		b.WriteString("'")
		for _, c := range v.B {
			if c >= 0x20 && c <= 0x7e && c != '\\' && c != '\'' {
				b.WriteByte(c)
			} else {
				fmt.Fprintf(&b, `\%03o`, c)
			}
		}
		b.WriteString("'")
		s = b.String()
	}
	if cast {
		s += "::bytea"
	}
	return s
}

// ParamBytes renders a value as a bound parameter in the given format.
func ParamBytes(v Val, lt pgsess.ColType, format int16) []byte {
	if v.Null {
		return nil
	}
	return pgsess.Encode(v.V(), lt, format)
}

// Decode interprets a received column per its described type and format (independent client codec).
func Decode(raw []byte, oid uint32, format int16) (Val, pgsess.ColType, error) {
	if raw == nil {
		return Val{Null: true}, pgsess.Text, nil
	}
	switch oid {
	case 17:
		if format == 1 {
			return Val{B: append([]byte{}, raw...)}, pgsess.Bytea, nil
		}
		b, err := pgsess.ParseByteaText(raw)
		return Val{B: b}, pgsess.Bytea, err
	case 23, 20:
		lt := pgsess.Int4
		if oid == 20 {
			lt = pgsess.Int8
		}
		if format == 1 {
			want := 4
			if oid == 20 {
				want = 8
			}
			if len(raw) != want {
				return Val{B: raw}, lt, fmt.Errorf("binary integer of %d bytes for oid %d", len(raw), oid)
			}
			if want == 4 {
				return Val{B: []byte(strconv.FormatInt(int64(int32(binary.BigEndian.Uint32(raw))), 10))}, lt, nil
			}
			return Val{B: []byte(strconv.FormatInt(int64(binary.BigEndian.Uint64(raw)), 10))}, lt, nil
		}
		bits := 32
		if oid == 20 {
			bits = 64
		}
		n, err := strconv.ParseInt(string(raw), 10, bits)
		if err != nil {
			return Val{B: raw}, lt, fmt.Errorf("not a decimal integer for oid %d: %q", oid, raw)
		}
		return Val{B: []byte(strconv.FormatInt(n, 10))}, lt, nil
	}
	return Val{B: append([]byte{}, raw...)}, pgsess.Text, nil
}
