#!/bin/sh
# usage: sensitivity/C05/run-mutant.sh <mutant.diff> [tier]
# The C05 mutants are written on top of the fixes proposed in props/c05/proposed-fixes (on the unchanged
# tree the check is red by itself, and m4/m9 touch lines the fixes change). This script does what
# tools/mutant.sh does, but applies every proposed fix that is not yet in /repo before the mutant.
# Once the fixes are committed to /repo, tools/mutant.sh sensitivity/C05/<m>.diff C05 is equivalent.
set -u
P=$(readlink -f "$1"); TIER=${2:-quick}
WT=$(mktemp -d /tmp/wt-mut-XXXXXX)
git -C /repo worktree add -q --detach "$WT" HEAD || exit 2
cd "$WT" || exit 2
for f in /verif/props/c05/proposed-fixes/*.diff; do
  if git apply --check "$f" 2>/dev/null; then git apply "$f"
  elif git apply -R --check "$f" 2>/dev/null; then : # already in the tree
  else echo "fix $(basename $f) does not apply"; git -C /repo worktree remove --force "$WT"; exit 2; fi
done
git apply "$P" || { echo "mutant does not apply"; git -C /repo worktree remove --force "$WT"; exit 2; }
cd /verif
VERIF_REPO="$WT" ./check C05 $TIER; rc=$?
git -C /repo worktree remove --force "$WT"
TAG=$(printf %s "$WT" | sha256sum | cut -c1-8)
rm -rf /verif/out/mod-$TAG /verif/out/bin/*-$TAG.test /verif/out/run-$TAG /verif/out/violations-$TAG 2>/dev/null
echo "mutant $(basename $P) on C05 (on top of the proposed fixes): exit $rc"
exit $rc
