#!/bin/sh
# Offline setup: checks the stand-in against acra's own tests (conformance) and warms the build cache
# by compiling every property package against /repo's working tree.
set -e
cd "$(dirname "$0")"
export GOFLAGS=-mod=mod GOPROXY=off GOSUMDB=off GOTOOLCHAIN=local CGO_ENABLED=1
mkdir -p out conform
# conformance of the gothemis stand-in: acra's own suites for the packages that define envelope and
# keystore formats must pass on it
cp /repo/go.mod conform/acra.mod
cp /repo/go.sum conform/acra.sum
echo "replace github.com/cossacklabs/themis/gothemis => $(pwd)/shim/gothemis" >> conform/acra.mod
(cd /repo && go test -modfile="$OLDPWD/conform/acra.mod" -vet=off -count=1 \
   ./acrablock/... ./acrastruct/... ./crypto/... ./hmac/... ./keystore/... ./masking/... ./poison/... ./pseudonymization/... 2>&1 | tail -40) > out/conformance.log 2>&1 || true
if grep -q "^FAIL\|^---  *FAIL" out/conformance.log; then
  echo "setup: stand-in conformance FAILED (see out/conformance.log)"; cat out/conformance.log; exit 1
fi
./check --build-all
echo "setup ok"
