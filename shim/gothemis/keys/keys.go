// Package keys mirrors gothemis/keys: EC key pairs in Themis key containers
// ("REC2"/"UEC2" + BE32 total length + CRC32 + 33 bytes) and 32-byte symmetric keys.
package keys

import (
	"crypto/ecdh"
	"crypto/elliptic"
	"crypto/rand"
	"encoding/binary"
	"hash/crc32"

	"github.com/cossacklabs/themis/gothemis/errors"
)

const (
	TypeEC = iota
	TypeRSA
)

const (
	KEYTYPE_EC  = TypeEC
	KEYTYPE_RSA = TypeRSA
)

var (
	ErrGetKeySize      = errors.New("failed to get needed key sizes")
	ErrGenerateKeypair = errors.New("failed to generate keypair")
	ErrInvalidType     = errors.NewWithCode(errors.InvalidParameter, "invalid key type specified")
	ErrOutOfMemory     = errors.NewWithCode(errors.NoMemory, "key generator cannot allocate enough memory")
	ErrOverflow        = ErrOutOfMemory

	ErrGetSymmetricKeySize  = errors.New("failed to get symmetric key size")
	ErrGenerateSymmetricKey = errors.New("failed to generate symmetric key")
)

type PrivateKey struct{ Value []byte }
type PublicKey struct{ Value []byte }
type Keypair struct {
	Private *PrivateKey
	Public  *PublicKey
}
type SymmetricKey struct{ Value []byte }

const (
	ContainerLen = 45
	hdrLen       = 12
	PrivTag      = "REC2"
	PubTag       = "UEC2"
)

var crcTable = crc32.MakeTable(crc32.Castagnoli)

func pack(tag string, body []byte) []byte {
	out := make([]byte, hdrLen+len(body))
	copy(out, tag)
	binary.BigEndian.PutUint32(out[4:8], uint32(len(out)))
	copy(out[hdrLen:], body)
	binary.BigEndian.PutUint32(out[8:12], crc32.Checksum(out, crcTable))
	return out
}

// Unpack validates a key container and returns its body.
func Unpack(tag string, c []byte) ([]byte, bool) {
	if len(c) != ContainerLen || string(c[:4]) != tag || binary.BigEndian.Uint32(c[4:8]) != uint32(len(c)) {
		return nil, false
	}
	tmp := append([]byte(nil), c...)
	copy(tmp[8:12], []byte{0, 0, 0, 0})
	if crc32.Checksum(tmp, crcTable) != binary.BigEndian.Uint32(c[8:12]) {
		return nil, false
	}
	return c[hdrLen:], true
}

// ECDHPrivate decodes a private key container.
func ECDHPrivate(c []byte) (*ecdh.PrivateKey, bool) {
	body, ok := Unpack(PrivTag, c)
	if !ok || body[0] != 0 {
		return nil, false
	}
	k, err := ecdh.P256().NewPrivateKey(body[1:])
	return k, err == nil
}

// ECDHPublic decodes a public key container.
func ECDHPublic(c []byte) (*ecdh.PublicKey, bool) {
	body, ok := Unpack(PubTag, c)
	if !ok {
		return nil, false
	}
	x, y := elliptic.UnmarshalCompressed(elliptic.P256(), body)
	if x == nil {
		return nil, false
	}
	k, err := ecdh.P256().NewPublicKey(elliptic.Marshal(elliptic.P256(), x, y))
	return k, err == nil
}

func New(keytype int) (*Keypair, error) {
	if keytype != TypeEC {
		if keytype == TypeRSA {
			return nil, errors.NewWithCode(errors.NotSupported, "RSA keys are not supported by the stand-in")
		}
		return nil, ErrInvalidType
	}
	k, err := ecdh.P256().GenerateKey(rand.Reader)
	if err != nil {
		return nil, ErrGenerateKeypair
	}
	x, y := elliptic.Unmarshal(elliptic.P256(), k.PublicKey().Bytes())
	pub := elliptic.MarshalCompressed(elliptic.P256(), x, y)
	priv := append([]byte{0}, k.Bytes()...)
	return &Keypair{Private: &PrivateKey{pack(PrivTag, priv)}, Public: &PublicKey{pack(PubTag, pub)}}, nil
}

func NewSymmetricKey() (*SymmetricKey, error) {
	key := make([]byte, 32)
	if _, err := rand.Read(key); err != nil {
		return nil, ErrGenerateSymmetricKey
	}
	return &SymmetricKey{Value: key}, nil
}
