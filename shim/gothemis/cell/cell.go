// Package cell mirrors gothemis/cell. Seal layout is Themis': alg(4) ivLen(4) tagLen(4) msgLen(4) iv(12) tag(16) ct(n);
// AES-256-GCM under a key derived from (master key, message length, context).
package cell

import (
	"crypto/aes"
	"crypto/cipher"
	"crypto/hmac"
	"crypto/rand"
	"crypto/sha256"
	"encoding/binary"

	"github.com/cossacklabs/themis/gothemis/errors"
	"github.com/cossacklabs/themis/gothemis/keys"
)

var (
	ErrGetOutputSize     = errors.New("failed to get output size")
	ErrEncryptData       = errors.New("failed to protect data")
	ErrDecryptData       = errors.New("failed to unprotect data")
	ErrInvalidMode       = errors.NewWithCode(errors.InvalidParameter, "invalid Secure Cell mode specified")
	ErrMissingKey        = errors.NewWithCode(errors.InvalidParameter, "empty symmetric key for Secure Cell")
	ErrMissingPassphrase = errors.NewWithCode(errors.InvalidParameter, "empty passphrase for Secure Cell")
	ErrMissingMessage    = errors.NewWithCode(errors.InvalidParameter, "empty message for Secure Cell")
	ErrMissingToken      = errors.NewWithCode(errors.InvalidParameter, "authentication token is required in Token Protect mode")
	ErrMissingContext    = errors.NewWithCode(errors.InvalidParameter, "associated context is required in Context Imprint mode")
	ErrOutOfMemory       = errors.NewWithCode(errors.NoMemory, "Secure Cell cannot allocate enough memory")
	ErrOverflow          = ErrOutOfMemory
)

const (
	ModeSeal = iota
	ModeTokenProtect
	ModeContextImprint
)

const (
	CELL_MODE_SEAL            = ModeSeal
	CELL_MODE_TOKEN_PROTECT   = ModeTokenProtect
	CELL_MODE_CONTEXT_IMPRINT = ModeContextImprint
)

const (
	algAES256GCM = 0x40010100
	ivLen        = 12
	tagLen       = 16
	// HeaderLen is the authentication token length (44 bytes, as in Themis).
	HeaderLen = 16 + ivLen + tagLen
)

func derive(master []byte, label string, msgLen int, context []byte) []byte {
	m := hmac.New(sha256.New, master)
	m.Write([]byte(label))
	var l [4]byte
	binary.LittleEndian.PutUint32(l[:], uint32(msgLen))
	m.Write(l[:])
	m.Write(context)
	return m.Sum(nil)
}

func gcm(key []byte) cipher.AEAD {
	b, err := aes.NewCipher(key)
	if err != nil {
		panic(err)
	}
	g, err := cipher.NewGCM(b)
	if err != nil {
		panic(err)
	}
	return g
}

// sealToken encrypts and returns (token, ciphertext).
func sealToken(master, msg, context []byte) ([]byte, []byte, error) {
	tok := make([]byte, HeaderLen)
	binary.LittleEndian.PutUint32(tok[0:], algAES256GCM)
	binary.LittleEndian.PutUint32(tok[4:], ivLen)
	binary.LittleEndian.PutUint32(tok[8:], tagLen)
	binary.LittleEndian.PutUint32(tok[12:], uint32(len(msg)))
	if _, err := rand.Read(tok[16 : 16+ivLen]); err != nil {
		return nil, nil, ErrEncryptData
	}
	out := gcm(derive(master, "seal", len(msg), context)).Seal(nil, tok[16:16+ivLen], msg, context)
	ct, tag := out[:len(msg)], out[len(msg):]
	copy(tok[16+ivLen:], tag)
	return tok, ct, nil
}

func openToken(master, tok, ct, context []byte) ([]byte, bool) {
	if len(tok) != HeaderLen ||
		binary.LittleEndian.Uint32(tok[0:]) != algAES256GCM ||
		binary.LittleEndian.Uint32(tok[4:]) != ivLen ||
		binary.LittleEndian.Uint32(tok[8:]) != tagLen ||
		uint64(binary.LittleEndian.Uint32(tok[12:])) != uint64(len(ct)) {
		return nil, false
	}
	in := append(append([]byte(nil), ct...), tok[16+ivLen:]...)
	pt, err := gcm(derive(master, "seal", len(ct), context)).Open(nil, tok[16:16+ivLen], in, context)
	if err != nil {
		return nil, false
	}
	if pt == nil {
		pt = []byte{}
	}
	return pt, true
}

// SealRaw / OpenRaw are used by the message package.
func SealRaw(master, msg, context []byte) ([]byte, error) {
	tok, ct, err := sealToken(master, msg, context)
	if err != nil {
		return nil, err
	}
	return append(tok, ct...), nil
}

func OpenRaw(master, data, context []byte) ([]byte, bool) {
	if len(data) < HeaderLen {
		return nil, false
	}
	return openToken(master, data[:HeaderLen], data[HeaderLen:], context)
}

func ctxImprint(master, msg, context []byte) []byte {
	b, _ := aes.NewCipher(derive(master, "imprint", len(msg), context))
	iv := derive(master, "imprint-iv", len(msg), context)[:16]
	out := make([]byte, len(msg))
	cipher.NewCTR(b, iv).XORKeyStream(out, msg)
	return out
}

type SecureCell struct {
	key  []byte
	mode int
}

func New(key []byte, mode int) *SecureCell { return &SecureCell{key, mode} }

func (sc *SecureCell) Protect(data []byte, context []byte) ([]byte, []byte, error) {
	if sc.mode < ModeSeal || sc.mode > ModeContextImprint {
		return nil, nil, ErrInvalidMode
	}
	if len(sc.key) == 0 {
		return nil, nil, ErrMissingKey
	}
	if len(data) == 0 {
		return nil, nil, ErrMissingMessage
	}
	switch sc.mode {
	case ModeSeal:
		out, err := SealRaw(sc.key, data, context)
		return out, nil, err
	case ModeTokenProtect:
		tok, ct, err := sealToken(sc.key, data, context)
		return ct, tok, err
	default:
		if len(context) == 0 {
			return nil, nil, ErrMissingContext
		}
		return ctxImprint(sc.key, data, context), nil, nil
	}
}

func (sc *SecureCell) Unprotect(protectedData []byte, additionalData []byte, context []byte) ([]byte, error) {
	if sc.mode < ModeSeal || sc.mode > ModeContextImprint {
		return nil, ErrInvalidMode
	}
	if len(sc.key) == 0 {
		return nil, ErrMissingKey
	}
	if len(protectedData) == 0 {
		return nil, ErrMissingMessage
	}
	switch sc.mode {
	case ModeSeal:
		pt, ok := OpenRaw(sc.key, protectedData, context)
		if !ok {
			return nil, ErrGetOutputSize
		}
		return pt, nil
	case ModeTokenProtect:
		if len(additionalData) == 0 {
			return nil, ErrMissingToken
		}
		pt, ok := openToken(sc.key, additionalData, protectedData, context)
		if !ok {
			return nil, ErrDecryptData
		}
		return pt, nil
	default:
		if len(context) == 0 {
			return nil, ErrMissingContext
		}
		return ctxImprint(sc.key, protectedData, context), nil
	}
}

type SecureCellSeal struct{ key *keys.SymmetricKey }

func SealWithKey(key *keys.SymmetricKey) (*SecureCellSeal, error) {
	if key == nil || len(key.Value) == 0 {
		return nil, ErrMissingKey
	}
	return &SecureCellSeal{key}, nil
}

func (sc *SecureCellSeal) Encrypt(message, context []byte) ([]byte, error) {
	if len(message) == 0 {
		return nil, ErrMissingMessage
	}
	return SealRaw(sc.key.Value, message, context)
}

func (sc *SecureCellSeal) Decrypt(encrypted, context []byte) ([]byte, error) {
	if len(encrypted) == 0 {
		return nil, ErrMissingMessage
	}
	pt, ok := OpenRaw(sc.key.Value, encrypted, context)
	if !ok {
		return nil, errors.NewWithCode(errors.Fail, "Secure Cell failed to decrypt")
	}
	return pt, nil
}

type SecureCellTokenProtect struct{ key *keys.SymmetricKey }

func TokenProtectWithKey(key *keys.SymmetricKey) (*SecureCellTokenProtect, error) {
	if key == nil || len(key.Value) == 0 {
		return nil, ErrMissingKey
	}
	return &SecureCellTokenProtect{key}, nil
}

func (sc *SecureCellTokenProtect) Encrypt(message, context []byte) (encrypted, token []byte, e error) {
	if len(message) == 0 {
		return nil, nil, ErrMissingMessage
	}
	tok, ct, err := sealToken(sc.key.Value, message, context)
	return ct, tok, err
}

func (sc *SecureCellTokenProtect) Decrypt(encrypted, token, context []byte) ([]byte, error) {
	if len(encrypted) == 0 {
		return nil, ErrMissingMessage
	}
	if len(token) == 0 {
		return nil, ErrMissingToken
	}
	pt, ok := openToken(sc.key.Value, token, encrypted, context)
	if !ok {
		return nil, errors.NewWithCode(errors.Fail, "Secure Cell failed to decrypt")
	}
	return pt, nil
}

type SecureCellContextImprint struct{ key *keys.SymmetricKey }

func ContextImprintWithKey(key *keys.SymmetricKey) (*SecureCellContextImprint, error) {
	if key == nil || len(key.Value) == 0 {
		return nil, ErrMissingKey
	}
	return &SecureCellContextImprint{key}, nil
}

func (sc *SecureCellContextImprint) Encrypt(message, context []byte) ([]byte, error) {
	if len(message) == 0 {
		return nil, ErrMissingMessage
	}
	if len(context) == 0 {
		return nil, ErrMissingContext
	}
	return ctxImprint(sc.key.Value, message, context), nil
}

func (sc *SecureCellContextImprint) Decrypt(encrypted, context []byte) ([]byte, error) {
	if len(encrypted) == 0 {
		return nil, ErrMissingMessage
	}
	if len(context) == 0 {
		return nil, ErrMissingContext
	}
	return ctxImprint(sc.key.Value, encrypted, context), nil
}
