// Package message mirrors gothemis/message. Encrypted mode: type(4)=0x26040200 totalLen(4) + Seal(ECDH secret, msg) => +52 bytes.
package message

import (
	"crypto/ecdsa"
	"crypto/elliptic"
	"crypto/rand"
	"crypto/sha256"
	"encoding/binary"
	"math/big"

	"github.com/cossacklabs/themis/gothemis/cell"
	"github.com/cossacklabs/themis/gothemis/errors"
	"github.com/cossacklabs/themis/gothemis/keys"
)

var (
	ErrEncryptMessage    = errors.New("failed to encrypt message")
	ErrDecryptMessage    = errors.New("failed to decrypt message")
	ErrSignMessage       = errors.New("failed to sign message")
	ErrVerifyMessage     = errors.New("failed to verify message")
	ErrProcessMessage    = errors.New("failed to process message")
	ErrGetOutputSize     = errors.New("failed to get output size")
	ErrMissingMessage    = errors.NewWithCode(errors.InvalidParameter, "empty message for Secure Cell")
	ErrMissingPublicKey  = errors.NewWithCode(errors.InvalidParameter, "empty peer public key for Secure Message")
	ErrMissingPrivateKey = errors.NewWithCode(errors.InvalidParameter, "empty private key for Secure Message")
	ErrOutOfMemory       = errors.NewWithCode(errors.NoMemory, "Secure Message cannot allocate enough memory")
	ErrOverflow          = ErrOutOfMemory
)

const (
	typeECEncrypted = 0x26040200
	typeECSigned    = 0x26040100
	hdr             = 8
)

type SecureMessage struct {
	private    *keys.PrivateKey
	peerPublic *keys.PublicKey
}

func New(private *keys.PrivateKey, peerPublic *keys.PublicKey) *SecureMessage {
	return &SecureMessage{private, peerPublic}
}

func (sm *SecureMessage) shared() ([]byte, error) {
	if sm.private == nil || len(sm.private.Value) == 0 {
		return nil, ErrMissingPrivateKey
	}
	if sm.peerPublic == nil || len(sm.peerPublic.Value) == 0 {
		return nil, ErrMissingPublicKey
	}
	priv, ok := keys.ECDHPrivate(sm.private.Value)
	if !ok {
		return nil, ErrGetOutputSize
	}
	pub, ok := keys.ECDHPublic(sm.peerPublic.Value)
	if !ok {
		return nil, ErrGetOutputSize
	}
	s, err := priv.ECDH(pub)
	if err != nil {
		return nil, ErrProcessMessage
	}
	h := sha256.Sum256(s)
	return h[:], nil
}

func (sm *SecureMessage) Wrap(message []byte) ([]byte, error) {
	if len(message) == 0 {
		return nil, ErrMissingMessage
	}
	key, err := sm.shared()
	if err != nil {
		return nil, err
	}
	body, err := cell.SealRaw(key, message, nil)
	if err != nil {
		return nil, ErrEncryptMessage
	}
	out := make([]byte, hdr, hdr+len(body))
	binary.LittleEndian.PutUint32(out[0:], typeECEncrypted)
	binary.LittleEndian.PutUint32(out[4:], uint32(hdr+len(body)))
	return append(out, body...), nil
}

func (sm *SecureMessage) Unwrap(message []byte) ([]byte, error) {
	if len(message) == 0 {
		return nil, ErrMissingMessage
	}
	key, err := sm.shared()
	if err != nil {
		return nil, err
	}
	if len(message) < hdr || binary.LittleEndian.Uint32(message[0:]) != typeECEncrypted ||
		uint64(binary.LittleEndian.Uint32(message[4:])) != uint64(len(message)) {
		return nil, ErrDecryptMessage
	}
	pt, ok := cell.OpenRaw(key, message[hdr:], nil)
	if !ok {
		return nil, ErrDecryptMessage
	}
	return pt, nil
}

func ecdsaPriv(c []byte) (*ecdsa.PrivateKey, bool) {
	k, ok := keys.ECDHPrivate(c)
	if !ok {
		return nil, false
	}
	d := new(big.Int).SetBytes(k.Bytes())
	x, y := elliptic.P256().ScalarBaseMult(k.Bytes())
	return &ecdsa.PrivateKey{PublicKey: ecdsa.PublicKey{Curve: elliptic.P256(), X: x, Y: y}, D: d}, true
}

func (sm *SecureMessage) Sign(message []byte) ([]byte, error) {
	if len(message) == 0 {
		return nil, ErrMissingMessage
	}
	if sm.private == nil || len(sm.private.Value) == 0 {
		return nil, ErrMissingPrivateKey
	}
	k, ok := ecdsaPriv(sm.private.Value)
	if !ok {
		return nil, ErrSignMessage
	}
	h := sha256.Sum256(message)
	sig, err := ecdsa.SignASN1(rand.Reader, k, h[:])
	if err != nil {
		return nil, ErrSignMessage
	}
	out := make([]byte, 12, 12+len(message)+len(sig))
	binary.LittleEndian.PutUint32(out[0:], typeECSigned)
	binary.LittleEndian.PutUint32(out[4:], uint32(len(message)))
	binary.LittleEndian.PutUint32(out[8:], uint32(len(sig)))
	return append(append(out, message...), sig...), nil
}

func (sm *SecureMessage) Verify(message []byte) ([]byte, error) {
	if len(message) == 0 {
		return nil, ErrMissingMessage
	}
	if sm.peerPublic == nil || len(sm.peerPublic.Value) == 0 {
		return nil, ErrMissingPublicKey
	}
	pub, ok := keys.ECDHPublic(sm.peerPublic.Value)
	if !ok || len(message) < 12 || binary.LittleEndian.Uint32(message) != typeECSigned {
		return nil, ErrVerifyMessage
	}
	ml, sl := uint64(binary.LittleEndian.Uint32(message[4:])), uint64(binary.LittleEndian.Uint32(message[8:]))
	if 12+ml+sl != uint64(len(message)) {
		return nil, ErrVerifyMessage
	}
	x, y := elliptic.Unmarshal(elliptic.P256(), pub.Bytes())
	msg, sig := message[12:12+ml], message[12+ml:]
	h := sha256.Sum256(msg)
	if !ecdsa.VerifyASN1(&ecdsa.PublicKey{Curve: elliptic.P256(), X: x, Y: y}, h[:], sig) {
		return nil, ErrVerifyMessage
	}
	return append([]byte(nil), msg...), nil
}
