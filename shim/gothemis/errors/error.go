// Package errors mirrors github.com/cossacklabs/themis/gothemis/errors (pure Go stand-in).
package errors


// ThemisErrorCode describes an error code returned from Themis.
type ThemisErrorCode int

// Error code constants (values as in themis_error.h).
const (
	Success          ThemisErrorCode = 0
	Fail             ThemisErrorCode = 11
	InvalidParameter ThemisErrorCode = 12
	NoMemory         ThemisErrorCode = 13
	BufferTooSmall   ThemisErrorCode = 14
	DataCorrupt      ThemisErrorCode = 15
	InvalidSignature ThemisErrorCode = 16
	NotSupported     ThemisErrorCode = 17
)

// ThemisError is an error with description and code.
type ThemisError struct {
	msg  string
	code ThemisErrorCode
}

func (e *ThemisError) Error() string { return e.msg }

// Code returns the error code.
func (e *ThemisError) Code() ThemisErrorCode { return e.code }

// New returns a generic failure error.
func New(description string) *ThemisError { return &ThemisError{description, Fail} }

// NewWithCode returns an error with a specific code.
func NewWithCode(code ThemisErrorCode, description string) *ThemisError {
	return &ThemisError{description, code}
}

// ThemisCallbackError is used for callback failures.
type ThemisCallbackError struct{ msg string }

func (e *ThemisCallbackError) Error() string { return e.msg }

// NewCallbackError makes a callback error.
func NewCallbackError(msg string) *ThemisCallbackError { return &ThemisCallbackError{msg} }
