package c04

// MySQL twin of TestSessions: generated session programs through acra's real MySQL proxy (internal/mysess)
// between a scripted client and the typed fake MySQL server, judged by a model of what the client wrote.

import (
	"bytes"
	"encoding/binary"
	"encoding/json"
	"errors"
	"fmt"
	"os"
	"strconv"
	"strings"
	"testing"

	"github.com/sirupsen/logrus"
	"pgregory.net/rapid"

	"github.com/cossacklabs/acra/crypto"
	"github.com/cossacklabs/acra/decryptor/base"
	"github.com/cossacklabs/acra/hmac"
	"github.com/cossacklabs/acra/pseudonymization"
	tokencommon "github.com/cossacklabs/acra/pseudonymization/common"
	"github.com/cossacklabs/acra/pseudonymization/storage"

	"verif/internal/fix"
	"verif/internal/hx"
	"verif/internal/myprog"
	"verif/internal/mysess"
)

// MyCase is a MySQL session program.
type MyCase struct {
	Tables []myprog.TableSpec `json:"tables"`
	Steps  []myprog.Step      `json:"steps"`
	// DeprecateEOF: the client negotiates CLIENT_DEPRECATE_EOF (result sets end with OK instead of EOF)
	DeprecateEOF bool `json:"deprecate_eof,omitempty"`
	// Second is the identity of the second final reader besides the connection's own: "other" (has keys of its
	// own, owns the columns configured with its client_id) or "nokeys"
	Second string `json:"second"`
	// FinalPrepared: the final reads use the binary protocol
	FinalPrepared bool `json:"final_prepared,omitempty"`
}

const (
	myOwner = "alice"
	myOther = "bobby"
)

func genMyCase(t *rapid.T) MyCase {
	c := MyCase{Tables: myprog.GenTables(t, myprog.AllKinds, myOwner, myOther)}
	c.DeprecateEOF = rapid.Bool().Draw(t, "deprecate_eof")
	c.Second = rapid.SampledFrom([]string{"other", "other", "nokeys"}).Draw(t, "second")
	c.FinalPrepared = rapid.Bool().Draw(t, "final_prepared")
	g := myprog.NewGenState(c.Tables)
	n := rapid.IntRange(1, 8).Draw(t, "nsteps")
	for i := 0; len(c.Steps) < n; i++ {
		c.Steps = append(c.Steps, myprog.GenStep(t, c.Tables, g, fmt.Sprintf("s%d", i)))
		// sometimes execute an earlier prepared statement again, after other statements went through or at once
		var prepared []int
		for j, st := range c.Steps {
			if myprog.Reexecutable(st) {
				prepared = append(prepared, j)
			}
		}
		if len(prepared) > 0 && len(c.Steps) < n && rapid.IntRange(0, 2).Draw(t, fmt.Sprintf("reexec%d", i)) == 0 {
			j := rapid.SampledFrom(prepared).Draw(t, fmt.Sprintf("reexec%d.which", i))
			c.Steps = append(c.Steps, myprog.GenReexec(t, c.Tables, g, c.Steps[j], j, fmt.Sprintf("re%d", i)))
		}
	}
	return c
}

// ownerOf is the identity whose keys protect the column: its explicit client_id or the writing connection's.
func ownerOf(col myprog.ColSpec) string {
	if col.ClientID != "" {
		return col.ClientID
	}
	return myOwner
}

type myObs struct {
	vs      hx.Vs
	classes map[string]bool
	clear   map[string]bool
	w       *fix.World
	tok     tokencommon.Pseudoanonymizer
}

func (o *myObs) class(c string) { o.classes[c] = true }

var myTypeNames = map[byte]string{mysess.TypeTiny: "TINY", mysess.TypeShort: "SHORT", mysess.TypeLong: "LONG", mysess.TypeLongLong: "LONGLONG",
	mysess.TypeNull: "NULL", mysess.TypeVarString: "VAR_STRING", mysess.TypeString: "STRING", mysess.TypeVarchar: "VARCHAR", mysess.TypeBlob: "BLOB",
	mysess.TypeLongBlob: "LONG_BLOB", mysess.TypeMediumBlob: "MEDIUM_BLOB", mysess.TypeTinyBlob: "TINY_BLOB"}

func typeName(t byte) string {
	if n, ok := myTypeNames[t]; ok {
		return n
	}
	return fmt.Sprintf("0x%02x", t)
}

// covered tells whether the configuration protects the column of that table.
func covered(tb myprog.TableSpec, col myprog.ColSpec) bool { return tb.Configured && col.Protected() }

// checkRows compares a result set with the model for a reader connected as `reader`.
func (o *myObs) checkRows(what string, tb myprog.TableSpec, cols []int, want [][]myprog.Val, rep *mysess.Reply, reader string) {
	rs := rep.First()
	if rs.Err != nil {
		o.vs.Add("statement-error:"+what, "%s on %s answered with error %d %q", what, tb.Name, rs.Err.Code, rs.Err.Message)
		return
	}
	if len(rep.Sets) != 1 || rs.OK != nil {
		o.vs.Add("no-result-set:"+what, "%s on %s answered with %d result sets (OK: %v)", what, tb.Name, len(rep.Sets), rs.OK != nil)
		return
	}
	if len(rs.Fields) != len(cols) {
		o.vs.Add("column-count:"+what, "%s on %s has %d columns, want %d", what, tb.Name, len(rs.Fields), len(cols))
		return
	}
	if len(rs.Rows) != len(want) {
		o.vs.Add("row-count:"+what, "%s on %s returned %d rows, model has %d", what, tb.Name, len(rs.Rows), len(want))
		return
	}
	proto := "text"
	if rs.Binary {
		proto = "binary"
	}
	for ci, f := range rs.Fields {
		col := tb.Cols[cols[ci]]
		dbType, _, _, _ := col.DBType().WireType()
		switch {
		case !covered(tb, col):
			if f.Type != dbType {
				o.vs.Add("uncovered-column-changed:"+what+":"+col.Kind, "%s column %s (%s) described as %s, the database said %s", what, col.Name, col.Kind, typeName(f.Type), typeName(dbType))
			}
		case col.Kind == myprog.KToken && f.Type == dbType:
			// a tokenized column keeps the type of its values inside the database: that type is the declared one
		case ownerOf(col) == reader && f.Type != col.OwnerWireType():
			o.vs.Add("wrong-type-described:"+what+":"+col.Kind, "%s (%s) column %s (%s %s%s) described as %s, want %s", what, proto, col.Name, col.Kind, col.DataType, col.TokenType, typeName(f.Type), typeName(col.OwnerWireType()))
		}
	}
	for ri, row := range rs.Rows {
		for ci, raw := range row {
			col := tb.Cols[cols[ci]]
			exp := want[ri][cols[ci]]
			typ := rs.Fields[ci].Type
			if covered(tb, col) && ownerOf(col) != reader {
				// a reader whose keys do not open the column never receives the plaintext
				if m := myprog.Marker(exp); m != nil && col.Kind != myprog.KMask && !o.clear[string(m)] && containsMarker(raw.B, m) {
					o.vs.Add("non-owner-got-plaintext:"+col.Kind, "%s: connection of %s received the plaintext marker of column %s (%s) that belongs to %s", what, reader, col.Name, col.Kind, ownerOf(col))
				}
				continue
			}
			got, err := myprog.Decode(raw, typ, rs.Binary)
			if err != nil {
				o.vs.Add("undecodable:"+what+":"+col.Kind, "%s (%s) column %s (%s, described %s): %v", what, proto, col.Name, col.Kind, typeName(typ), err)
				continue
			}
			if !myprog.Same(got, exp) {
				sig := "owner-read-differs:"
				if !covered(tb, col) {
					sig = "uncovered-column-changed:"
				}
				o.vs.Add(sig+what+":"+col.Kind, "%s (%s) column %s (%s): got %.60q (null=%v) want %.60q (null=%v) (row %d, described %s)", what, proto, col.Name, col.Kind, got.B, got.Null, exp.B, exp.Null, ri, typeName(typ))
			}
		}
	}
}

// canonParam is the meaning of a bound parameter: NULL, an integer (decimal text) or bytes.
func canonParam(p mysess.Param) (null bool, isInt bool, b []byte) {
	if p.Null || p.Type == mysess.TypeNull {
		return true, false, nil
	}
	switch p.Type {
	case mysess.TypeTiny, mysess.TypeShort, mysess.TypeYear, mysess.TypeInt24, mysess.TypeLong, mysess.TypeLongLong:
		n, err := mysess.IntFromBytes(p.B)
		if err != nil {
			return false, false, p.B
		}
		if p.Unsigned {
			switch len(p.B) {
			case 1:
				return false, true, []byte(strconv.FormatUint(uint64(uint8(n)), 10))
			case 2:
				return false, true, []byte(strconv.FormatUint(uint64(uint16(n)), 10))
			case 4:
				return false, true, []byte(strconv.FormatUint(uint64(uint32(n)), 10))
			}
			return false, true, []byte(strconv.FormatUint(uint64(n), 10))
		}
		return false, true, []byte(strconv.FormatInt(n, 10))
	}
	return false, false, p.B
}

// sameStatement compares the meaning of the statement the database received with the one the client sent:
// kind, table, column lists, tuple shapes, placeholders and every literal of a column the configuration does not
// cover. protectedCol tells whether the i-th value column of a tuple is protected.
func (o *myObs) sameStatement(what, sent, got string, tb myprog.TableSpec) {
	a, errA := mysess.Inspect(sent)
	b, errB := mysess.Inspect(got)
	if errA != nil {
		o.vs.Add("harness:inspect", "the fake database cannot parse the client's own statement %.200q: %v", sent, errA)
		return
	}
	if errB != nil {
		o.vs.Add("forwarded-statement-unparseable:"+what, "forwarded statement %.300q: %v (sent %.200q)", got, errB, sent)
		return
	}
	bad := func(f string, args ...any) {
		o.vs.Add("forwarded-statement-differs:"+what, "%s; sent %.200q, database got %.300q", fmt.Sprintf(f, args...), sent, got)
	}
	if a.Kind != b.Kind || !strings.EqualFold(a.Table, b.Table) || a.Star != b.Star || a.NParams != b.NParams || len(a.Rows) != len(b.Rows) {
		bad("kind/table/star/placeholders/tuples differ (%s %s %v %d %d vs %s %s %v %d %d)", a.Kind, a.Table, a.Star, a.NParams, len(a.Rows), b.Kind, b.Table, b.Star, b.NParams, len(b.Rows))
		return
	}
	if strings.Join(a.Cols, ",") != strings.Join(b.Cols, ",") {
		bad("column lists differ (%v vs %v)", a.Cols, b.Cols)
		return
	}
	ra, ca, va, _ := mysess.InspectUpsert(sent)
	rb, cb, vb, _ := mysess.InspectUpsert(got)
	if ra != rb || strings.Join(ca, ",") != strings.Join(cb, ",") {
		bad("REPLACE / ON DUPLICATE KEY UPDATE differ")
		return
	}
	colOf := func(name string) (myprog.ColSpec, bool) {
		for _, c := range tb.Cols {
			if strings.EqualFold(c.Name, name) {
				return c, true
			}
		}
		return myprog.ColSpec{}, false
	}
	cmpLit := func(name string, x, y mysess.Lit) {
		col, ok := colOf(name)
		if !ok {
			return
		}
		if (x.Kind == "param") != (y.Kind == "param") {
			bad("column %s: placeholder became literal or the reverse", name)
			return
		}
		if covered(tb, col) || x.Kind == "param" {
			return
		}
		if (x.Kind == "null") != (y.Kind == "null") || !bytes.Equal(x.B, y.B) {
			bad("literal of uncovered column %s changed from %s %.60q to %s %.60q", name, x.Kind, x.B, y.Kind, y.B)
		}
	}
	if a.Kind == "insert" || a.Kind == "update" {
		names := a.Cols
		if a.Kind == "insert" && len(names) == 0 {
			for _, c := range tb.Cols {
				names = append(names, c.Name)
			}
		}
		for ri := range a.Rows {
			if len(a.Rows[ri]) != len(b.Rows[ri]) || len(a.Rows[ri]) > len(names) {
				bad("tuple %d has another number of values", ri)
				return
			}
			for i := range a.Rows[ri] {
				cmpLit(names[i], a.Rows[ri][i], b.Rows[ri][i])
			}
		}
		for i := range va {
			if i < len(vb) {
				cmpLit(ca[i], va[i], vb[i])
			}
		}
	}
}

// sigIntroducer is the signature of the open finding about character set introducers.
const sigIntroducer = "statement-not-parsed-forwarded-in-clear:charset-introducer"

// writesProtected tells whether a step writes a non-empty value into a protected column.
func writesProtected(tb myprog.TableSpec, st myprog.Step) bool {
	hit := func(cols []int, vals []myprog.Val) bool {
		for i, ci := range cols {
			if i < len(vals) && covered(tb, tb.Cols[ci]) && !vals[i].Null && len(vals[i].B) > 0 {
				return true
			}
		}
		return false
	}
	for _, row := range st.Rows {
		if hit(st.Cols, row) {
			return true
		}
	}
	return hit(st.OnDup, st.OnDupVals) || hit(st.Set, st.SetVals)
}

// shortHex shortens long runs of hex digits (for diagnostics).
func shortHex(s string) string {
	var b strings.Builder
	run := 0
	for i := 0; i <= len(s); i++ {
		if i < len(s) && ((s[i] >= '0' && s[i] <= '9') || (s[i] >= 'a' && s[i] <= 'f') || (s[i] >= 'A' && s[i] <= 'F')) {
			run++
			continue
		}
		if run > 48 {
			fmt.Fprintf(&b, "%s..(%d hex digits)", s[i-run:i-run+16], run)
		} else {
			b.WriteString(s[i-run : i])
		}
		run = 0
		if i < len(s) {
			b.WriteByte(s[i])
		}
	}
	return b.String()
}

type myModel struct {
	rows [][][]myprog.Val // per table: rows of logical values (len = columns), in the fake database's row order
}

func (m *myModel) matches(row []myprog.Val, w *myprog.Where) bool {
	if w == nil {
		return true
	}
	return !row[w.Col].Null && !w.Val.Null && bytes.Equal(row[w.Col].B, w.Val.B)
}

type myStmt struct {
	stmt   *mysess.Stmt
	params []mysess.Param
	shape  myprog.Step
	// unparsed: the text contains a character set introducer acra's grammar does not know (open finding)
	unparsed bool
}

// readerID maps a reader name to its identity.
func readerID(w *fix.World, name string) []byte {
	switch name {
	case myOwner:
		return w.Alice
	case myOther:
		return w.Bobby
	}
	return w.Carol
}

// CheckMy runs the program through a proxied MySQL session and compares with the model.
func CheckMy(c MyCase) (hx.Vs, map[string]bool, bool) {
	w := fix.TheWorld()
	o := &myObs{classes: map[string]bool{}, w: w, clear: map[string]bool{}}
	defs := myprog.Defs(c.Tables)
	yaml := myprog.SchemaYAML(c.Tables)
	tstore, err := storage.NewMemoryTokenStorage()
	if err != nil {
		o.vs.Add("harness:tokens", "%v", err)
		return o.vs, o.classes, false
	}
	tok, err := pseudonymization.NewPseudoanonymizer(tstore)
	if err != nil {
		o.vs.Add("harness:tokens", "%v", err)
		return o.vs, o.classes, false
	}
	o.tok = tok
	caps := uint32(mysess.DefaultCaps)
	if c.DeprecateEOF {
		caps |= mysess.CapDeprecateEOF
		o.class("caps:deprecate-eof")
	} else {
		o.class("caps:eof")
	}
	s, err := mysess.Start(mysess.Config{SchemaYAML: yaml, KeyStore: w.KS, ClientID: w.Alice, Tables: defs, Tokenizer: tok, ClientCaps: caps})
	if err != nil {
		o.vs.Add("harness:start", "%v\n%s", err, yaml)
		return o.vs, o.classes, false
	}
	defer s.Close()
	s.DB.Store.AliasInFields = true
	debug := os.Getenv("VERIF_DEBUG") != ""
	if os.Getenv("VERIF_DEBUG") == "2" {
		// acra's own log on stderr (diagnostics only)
		logrus.SetLevel(logrus.DebugLevel)
		logrus.SetOutput(os.Stderr)
	}
	if debug {
		fmt.Printf("CONFIG\n%s\n", yaml)
	}

	m := &myModel{rows: make([][][]myprog.Val, len(c.Tables))}
	var protectedMarkers [][]byte
	wroteProtected := false
	stmts := map[int]*myStmt{}

	// markers that (after shrinking, or by coincidence) also occur in values the configuration does not cover, in
	// masked values (a window stays in clear by configuration) or in conditions say nothing
	noteClear := func(tb myprog.TableSpec, ci int, v myprog.Val) {
		if col := tb.Cols[ci]; !covered(tb, col) || col.Kind == myprog.KMask {
			if mk := myprog.Marker(v); mk != nil {
				o.clear[string(mk)] = true
			}
		}
	}
	for _, st := range c.Steps {
		tb := c.Tables[st.Table]
		cols := st.Cols
		if st.Reexec > 0 && st.Reexec <= len(c.Steps) {
			cols = c.Steps[st.Reexec-1].Cols
		}
		if st.Op != "select" && !(st.Reexec > 0 && c.Steps[st.Reexec-1].Op == "select") {
			for _, row := range st.Rows {
				for i, v := range row {
					if i < len(cols) {
						noteClear(tb, cols[i], v)
					}
				}
			}
		}
		for i, ci := range st.OnDup {
			noteClear(tb, ci, st.OnDupVals[i])
		}
		for i, ci := range st.Set {
			noteClear(tb, ci, st.SetVals[i])
		}
	}
	wrote := func(tb myprog.TableSpec, ci int, v myprog.Val, how string) {
		col := tb.Cols[ci]
		if !covered(tb, col) || v.Null || len(v.B) == 0 {
			return
		}
		wroteProtected = true
		o.class("write:" + col.Kind)
		o.class("write:" + col.Kind + "/" + how)
		switch col.ClientID {
		case "":
			o.class("column-client:implicit")
		case myOwner:
			o.class("column-client:explicit-own")
		default:
			o.class("column-client:explicit-other")
		}
		if col.Kind == myprog.KToken {
			o.class("token:" + col.TokenType)
			if col.Consistent {
				o.class("token:consistent")
			} else {
				o.class("token:random")
			}
		}
		if col.DataType != "" {
			o.class("data_type:" + col.DataType)
		} else if col.Kind != myprog.KToken {
			o.class("data_type:none")
		}
		if mk := myprog.Marker(v); mk != nil && col.Kind != myprog.KMask {
			protectedMarkers = append(protectedMarkers, mk)
		}
	}

	for si, st := range c.Steps {
		tb := c.Tables[st.Table]
		eff := st
		if st.Reexec > 0 {
			prev := stmts[st.Reexec-1]
			if prev == nil {
				// a shrunk case may refer to a step that is no longer prepared: nothing to execute
				continue
			}
			eff = prev.shape
			eff.Rows, eff.OnDupVals, eff.SetVals, eff.PSeed = st.Rows, st.OnDupVals, st.SetVals, st.PSeed
			if eff.Where != nil && st.Where != nil {
				w := *st.Where
				w.Col = eff.Where.Col
				eff.Where = &w
			}
			if len(eff.Rows) != len(prev.shape.Rows) || len(eff.OnDupVals) != len(prev.shape.OnDupVals) || len(eff.SetVals) != len(prev.shape.SetVals) {
				continue
			}
		}
		r := myprog.Render(c.Tables, eff)
		if r.KnownBackslashX {
			// open finding C13 literal-meaning-changed:backslash-x: such a value is spelled as a hex literal here
			R.Class("TestMySQLPrograms", "excluded-known:C13-literal-backslash-x(spelled-as-hex)")
		}
		how := "literal"
		var rep *mysess.Reply
		var err error
		var sentParams []mysess.Param
		switch {
		case st.Reexec > 0:
			how = "param"
			prev := stmts[st.Reexec-1]
			if len(r.Params) != len(prev.params) {
				continue
			}
			newTypes := !st.NoTypes
			params := make([]mysess.Param, len(r.Params))
			if st.NoTypes {
				for i, v := range r.Params {
					p, ok := myprog.Retype(v, r.PTypes[i], prev.params[i])
					if !ok {
						newTypes = true
						break
					}
					params[i] = p
				}
			}
			if newTypes {
				params = myprog.ParamsOf(eff, r)
				if st.NoTypes {
					o.class("reexec:types-resent(value-does-not-fit)")
				} else {
					o.class("reexec:new-params-bound")
				}
			} else if len(params) > 0 {
				o.class("reexec:without-types")
			} else {
				o.class("reexec:no-params")
			}
			if st.Reexec == si {
				o.class("reexec:at-once")
			} else {
				o.class("reexec:after-other-statements")
			}
			sentParams = params
			rep, err = s.ExecuteWith(prev.stmt, params, newTypes)
			prev.params = params
		case st.Prepared:
			how = "param"
			o.class("prepared")
			if st.LitEvery > 0 {
				o.class("prepared:literals-mixed-in")
			}
			var ps *mysess.Stmt
			ps, err = s.Prepare(r.SQL)
			if err == nil && ps.Err != nil {
				o.vs.Add("statement-error:prepare:"+eff.Op, "step %d: COM_STMT_PREPARE %.200q: %d %q", si, r.SQL, ps.Err.Code, ps.Err.Message)
				return o.vs, o.classes, false
			}
			if err == nil {
				if int(len(ps.Params)) != len(r.Params) {
					o.vs.Add("prepare-param-count", "step %d: %.200q prepared with %d parameters, sent %d placeholders", si, r.SQL, len(ps.Params), len(r.Params))
					return o.vs, o.classes, false
				}
				params := myprog.ParamsOf(eff, r)
				sentParams = params
				stmts[si] = &myStmt{stmt: ps, params: params, shape: eff}
				rep, err = s.Execute(ps, params)
			}
		default:
			o.class("literal")
			rep, err = s.Query(r.SQL)
		}
		for _, p := range sentParams {
			cl := "param-type:" + typeName(p.Type)
			if p.Null {
				cl += "/null"
			}
			if p.Unsigned {
				cl += "/unsigned"
			}
			o.class(cl)
		}
		for _, sp := range r.Spellings {
			o.class("spelling:" + sp)
		}
		if debug {
			fmt.Printf("STEP %d op=%s prepared=%v reexec=%d %s\n", si, eff.Op, st.Prepared, st.Reexec, r.SQL)
			for i, p := range sentParams {
				fmt.Printf("   ?%d %s null=%v unsigned=%v %.80q\n", i+1, typeName(p.Type), p.Null, p.Unsigned, p.B)
			}
			recv := s.DB.Received()
			for _, rc := range recv[max(0, len(recv)-2):] {
				fmt.Printf("   DB got %s %.1500s\n", rc.Kind, shortHex(rc.SQL))
				for pi, pp := range rc.Params {
					fmt.Printf("      ?%d %s null=%v unsigned=%v %.80q\n", pi+1, typeName(pp.Type), pp.Null, pp.Unsigned, pp.B)
				}
			}
			if rep != nil {
				for _, rs := range rep.Sets {
					fmt.Printf("   reply ok=%v err=%v fields=%d rows=%d\n", rs.OK != nil, rs.Err, len(rs.Fields), len(rs.Rows))
					for _, row := range rs.Rows {
						fmt.Printf("      %v\n", row)
					}
				}
			}
		}
		if errors.Is(err, mysess.ErrTimeout) {
			R.Note("inconclusive: deadline in MySQL step %d (%s)", si, r.SQL)
			return o.vs, o.classes, false
		}
		if err != nil {
			if ps := s.Panics(); len(ps) > 0 {
				o.vs.Add("handler-panic:"+hx.PanicFunc(ps[0]), "step %d (%.160s) made the connection handler panic: %.1500s", si, r.SQL, ps[0])
				return o.vs, o.classes, false
			}
			o.vs.Add("session-broken:"+eff.Op+":"+how, "step %d (%.160s): %v; proxy errors %v", si, r.SQL, err, s.ProxyErrors())
			return o.vs, o.classes, false
		}
		o.class("op:" + eff.Op)
		o.class("op:" + eff.Op + "/" + how)
		if eff.Where != nil {
			wc := tb.Cols[eff.Where.Col]
			switch {
			case eff.Where.Col == 0:
				o.class("where:id")
			case wc.Kind == myprog.KSearch:
				o.class("where:searchable")
			default:
				o.class("where:consistent-token")
			}
			if eff.Where.Col != 0 {
				o.class("where:protected/" + how)
			}
		}

		// what the database received for this statement
		recv := s.DB.Received()
		var lastStmt *mysess.Received
		var lastExec *mysess.Received
		for i := len(recv) - 1; i >= 0 && (lastStmt == nil || (how == "param" && lastExec == nil)); i-- {
			rc := recv[i]
			if rc.Kind == "X" && lastExec == nil {
				lastExec = &rc
			}
			if (rc.Kind == "Q" || rc.Kind == "P") && lastStmt == nil {
				lastStmt = &rc
			}
			if how == "literal" {
				break
			}
		}
		// open finding: acra's grammar knows no character set introducer but _binary; a statement with
		// _utf8mb4'...' is not parsed and forwarded as it is, with the values of protected columns in clear
		if tb.Configured {
			unparsed := false
			if st.Reexec > 0 {
				unparsed = stmts[st.Reexec-1].unparsed
			} else if lastStmt != nil && lastStmt.SQL == r.SQL {
				for _, sp := range r.Spellings {
					unparsed = unparsed || sp == "_utf8mb4-quoted"
				}
				if ps := stmts[si]; ps != nil {
					ps.unparsed = unparsed
				}
			}
			if unparsed && (writesProtected(tb, eff) || (eff.Where != nil && covered(tb, tb.Cols[eff.Where.Col]))) {
				o.vs.Add(sigIntroducer, "step %d: %.300q is forwarded unchanged, values of protected columns included", si, r.SQL)
				return o.vs, o.classes, false
			}
		}
		if !tb.Configured {
			o.class("unconfigured-table")
			// statements the configuration does not cover reach the database unchanged
			if st.Reexec == 0 && (lastStmt == nil || lastStmt.SQL != r.SQL) {
				got := "<nothing>"
				if lastStmt != nil {
					got = lastStmt.SQL
				}
				o.vs.Add("uncovered-statement-rewritten", "statement on an unconfigured table was forwarded as %.200q, sent %.200q", got, r.SQL)
			}
		} else if st.Reexec == 0 && lastStmt != nil {
			o.sameStatement(eff.Op, r.SQL, lastStmt.SQL, tb)
		}
		if how == "param" && len(sentParams) > 0 {
			if lastExec == nil || len(lastExec.Params) != len(sentParams) {
				o.vs.Add("forwarded-execute-differs:"+eff.Op, "step %d: the database did not receive a COM_STMT_EXECUTE with %d parameters", si, len(sentParams))
			} else {
				for i, p := range sentParams {
					col := tb.Cols[r.PCols[i]]
					isWhere := eff.Where != nil && i == len(sentParams)-1 && r.PCols[i] == eff.Where.Col && eff.Where.Col != 0
					if covered(tb, col) && (isWhere || eff.Op == "insert" || eff.Op == "replace" || eff.Op == "update") {
						continue
					}
					n1, i1, b1 := canonParam(p)
					n2, i2, b2 := canonParam(lastExec.Params[i])
					if n1 != n2 || !bytes.Equal(b1, b2) || (i1 != i2 && !n1 && !tb.Cols[r.PCols[i]].DBType().IsInt()) {
						o.vs.Add("uncovered-parameter-changed:"+eff.Op, "step %d: parameter %d of uncovered column %s sent as %s %.60q (null=%v), database received %s %.60q (null=%v)", si, i+1, col.Name, typeName(p.Type), b1, n1, typeName(lastExec.Params[i].Type), b2, n2)
					}
				}
			}
		}

		// the reply, and the model
		if eff.Op != "select" {
			rs := rep.First()
			if rs.Err != nil {
				o.vs.Add("statement-error:"+eff.Op+":"+how, "step %d %.200s: %d %q", si, r.SQL, rs.Err.Code, rs.Err.Message)
				return o.vs, o.classes, false
			}
			if rs.OK == nil {
				o.vs.Add("no-ok:"+eff.Op, "step %d %.200s: answered with a result set", si, r.SQL)
				return o.vs, o.classes, false
			}
		}
		switch eff.Op {
		case "insert", "replace":
			o.class("insert-form:" + eff.Form)
			if len(eff.Rows) > 1 {
				o.class("insert:multi-row")
				if eff.Form == "nolist" {
					o.class("insert:multi-row-without-column-list")
				}
			}
			if len(eff.OnDup) > 0 {
				o.class("insert:on-duplicate-key-update")
			}
			for i, ci := range eff.OnDup {
				wrote(tb, ci, eff.OnDupVals[i], how)
			}
			for _, row := range eff.Rows {
				full := make([]myprog.Val, len(tb.Cols))
				for i := range full {
					full[i] = myprog.Val{Null: true}
				}
				for i, cidx := range eff.Cols {
					full[cidx] = row[i]
					wrote(tb, cidx, row[i], how)
				}
				at := -1
				for i, old := range m.rows[st.Table] {
					if bytes.Equal(old[0].B, full[0].B) {
						at = i
					}
				}
				switch {
				case at < 0:
					m.rows[st.Table] = append(m.rows[st.Table], full)
					if eff.Op == "replace" {
						o.class("replace:new-key")
					} else if len(eff.OnDup) > 0 {
						o.class("on-duplicate:new-key")
					}
				case eff.Op == "replace":
					m.rows[st.Table][at] = full
					o.class("replace:existing-key")
				case len(eff.OnDup) > 0:
					nr := append([]myprog.Val(nil), m.rows[st.Table][at]...)
					for i, ci := range eff.OnDup {
						nr[ci] = eff.OnDupVals[i]
					}
					m.rows[st.Table][at] = nr
					o.class("on-duplicate:existing-key")
				default:
					o.vs.Add("harness:duplicate-key", "generator produced a plain INSERT of an existing key")
					return o.vs, o.classes, false
				}
			}
		case "update":
			for ri, row := range m.rows[st.Table] {
				if !m.matches(row, eff.Where) {
					continue
				}
				nr := append([]myprog.Val(nil), row...)
				for i, cidx := range eff.Set {
					nr[cidx] = eff.SetVals[i]
				}
				m.rows[st.Table][ri] = nr
			}
			for i, cidx := range eff.Set {
				wrote(tb, cidx, eff.SetVals[i], how)
			}
		case "delete":
			var keep [][]myprog.Val
			for _, row := range m.rows[st.Table] {
				if !m.matches(row, eff.Where) {
					keep = append(keep, row)
				}
			}
			m.rows[st.Table] = keep
		case "select":
			cols := eff.Cols
			if cols == nil {
				for i := range tb.Cols {
					cols = append(cols, i)
				}
				o.class("select:star")
			} else {
				o.class("select:list")
			}
			if eff.Alias {
				o.class("select:alias")
			}
			var want [][]myprog.Val
			for _, row := range m.rows[st.Table] {
				if m.matches(row, eff.Where) {
					want = append(want, row)
				}
			}
			if len(want) > 0 {
				o.class("select:rows")
			}
			o.checkRows("select", tb, cols, want, rep, myOwner)
		}
		if len(o.vs) > 0 {
			// the first deviation explains what follows
			break
		}
	}

	// (1) nothing the database received contains a marker of a value written into a protected column
	raw, _ := s.DBStreams()
	for _, mk := range protectedMarkers {
		if o.clear[string(mk)] {
			continue
		}
		if containsMarker(raw, mk) {
			o.vs.Add("plaintext-on-the-wire", "bytes forwarded to the database contain the plaintext marker %s of a protected column", mk)
			break
		}
	}
	if len(o.vs) > 0 {
		return o.vs, o.classes, false
	}

	// (2) what is stored
	for ti, tb := range c.Tables {
		stored := s.DB.Store.Rows(tb.Name)
		if len(stored) != len(m.rows[ti]) {
			o.vs.Add("stored-row-count", "table %s stores %d rows, model %d", tb.Name, len(stored), len(m.rows[ti]))
			continue
		}
		consistent := map[string][]byte{}
		for ri, row := range stored {
			for ci, col := range tb.Cols {
				exp := m.rows[ti][ri][ci]
				got := myprog.Val{Null: row[ci].Null, B: row[ci].B}
				if !covered(tb, col) {
					if !myprog.Same(got, exp) {
						o.vs.Add("uncovered-column-stored-differently:"+col.Kind, "table %s column %s: stored %.60q (null=%v), written %.60q (null=%v)", tb.Name, col.Name, got.B, got.Null, exp.B, exp.Null)
					}
					continue
				}
				if exp.Null != got.Null {
					o.vs.Add("null-changed:"+col.Kind, "table %s column %s: NULL-ness changed (written null=%v, stored null=%v)", tb.Name, col.Name, exp.Null, got.Null)
					continue
				}
				if exp.Null {
					continue
				}
				if len(exp.B) == 0 {
					// an empty value is never protected: stored as it is
					if len(got.B) != 0 {
						o.vs.Add("empty-changed:"+col.Kind, "table %s column %s: the empty value is stored as %.60q", tb.Name, col.Name, got.B)
					}
					continue
				}
				o.checkStored(tb, col, exp.B, got.B, consistent)
			}
		}
	}
	if len(o.vs) > 0 {
		return o.vs, o.classes, false
	}

	// (3) final read of everything by the owner and by a second identity, in fresh sessions over the same database
	readers := []string{myOwner}
	if c.Second == "other" {
		readers = append(readers, myOther)
	} else {
		readers = append(readers, "nokeys")
	}
	for _, reader := range readers {
		o.class("final-reader:" + reader)
		s2, err := mysess.Start(mysess.Config{SchemaYAML: yaml, KeyStore: w.KS, ClientID: readerID(w, reader), Tables: defs, Store: s.DB.Store, Tokenizer: tok, ClientCaps: caps})
		if err != nil {
			o.vs.Add("harness:start2", "%v", err)
			return o.vs, o.classes, false
		}
		func() {
			defer s2.Close()
			for ti, tb := range c.Tables {
				if len(m.rows[ti]) == 0 {
					continue
				}
				var cols []int
				var names []string
				for i, col := range tb.Cols {
					// an `error` policy column makes the whole statement fail for a reader who cannot decrypt it (C19)
					if covered(tb, col) && ownerOf(col) != reader && col.OnFail == "error" {
						continue
					}
					cols = append(cols, i)
					names = append(names, col.Name)
				}
				sql := "SELECT " + strings.Join(names, ", ") + " FROM " + tb.Name
				var rep *mysess.Reply
				var err error
				if c.FinalPrepared {
					o.class("final-read:binary")
					var ps *mysess.Stmt
					if ps, err = s2.Prepare(sql); err == nil {
						rep, err = s2.Execute(ps, nil)
					}
				} else {
					o.class("final-read:text")
					rep, err = s2.Query(sql)
				}
				if errors.Is(err, mysess.ErrTimeout) {
					R.Note("inconclusive: deadline in MySQL final read")
					return
				}
				if err != nil {
					if ps := s2.Panics(); len(ps) > 0 {
						o.vs.Add("handler-panic:"+hx.PanicFunc(ps[0]), "final read (%.160s) made the connection handler panic: %.1500s", sql, ps[0])
						return
					}
					o.vs.Add("session-broken:final-read", "%s: %v; proxy errors %v", sql, err, s2.ProxyErrors())
					return
				}
				o.checkRows("final-read", tb, cols, m.rows[ti], rep, reader)
				_, recv := s2.ClientStreams()
				for _, row := range m.rows[ti] {
					for ci, col := range tb.Cols {
						if covered(tb, col) && ownerOf(col) != reader && col.Kind != myprog.KMask {
							if mk := myprog.Marker(row[ci]); mk != nil && !o.clear[string(mk)] && containsMarker(recv, mk) {
								o.vs.Add("non-owner-got-plaintext:"+col.Kind, "bytes received by the connection of %s contain the plaintext marker of column %s (%s) that belongs to %s", reader, col.Name, col.Kind, ownerOf(col))
							}
						}
					}
				}
			}
		}()
		if len(o.vs) > 0 {
			break
		}
	}
	return o.vs, o.classes, wroteProtected
}

// container checks that b is exactly one serialized container of the configured envelope and opens it with
// the owner's keys (library parts, not the proxy's column chain).
func (o *myObs) container(col myprog.ColSpec, b []byte) ([]byte, error) {
	if len(b) < crypto.SerializedContainerMinSize+1 || !bytes.HasPrefix(b, crypto.TagBegin) {
		return nil, fmt.Errorf("does not start with a container header: %.24q", b)
	}
	if n := binary.LittleEndian.Uint64(b[crypto.TagBeginSize : crypto.TagBeginSize+8]); n != uint64(len(b)) {
		return nil, fmt.Errorf("container declares %d bytes, the value has %d", n, len(b))
	}
	id := b[crypto.TagBeginSize+8]
	switch col.Envelope {
	case "acrastruct":
		if id != crypto.AcraStructEnvelopeID {
			return nil, fmt.Errorf("envelope id 0x%02x, configured acrastruct", id)
		}
	case "acrablock":
		if id != crypto.AcraBlockEnvelopeID {
			return nil, fmt.Errorf("envelope id 0x%02x, configured acrablock", id)
		}
	default:
		if id != crypto.AcraStructEnvelopeID && id != crypto.AcraBlockEnvelopeID {
			return nil, fmt.Errorf("unknown envelope id 0x%02x", id)
		}
	}
	return o.w.Reg.Process(b, &base.DataProcessorContext{Keystore: o.w.KS, Context: fix.Ctx([]byte(ownerOf(col)))})
}

// checkStored: the stored value of a protected column is a well-formed protected form that the owner's keys
// open to exactly the written bytes.
func (o *myObs) checkStored(tb myprog.TableSpec, col myprog.ColSpec, plain, stored []byte, consistent map[string][]byte) {
	where := fmt.Sprintf("table %s column %s (%s)", tb.Name, col.Name, col.Kind)
	if bytes.Equal(stored, plain) && !(col.Kind == myprog.KToken && len(plain) < 8) {
		o.vs.Add("stored-in-clear:"+col.Kind, "%s stores the plaintext %.40q", where, plain)
		return
	}
	open := func(what string, env, want []byte) {
		got, err := o.container(col, env)
		if err != nil {
			o.vs.Add("stored-envelope-malformed:"+col.Kind, "%s: %s: %v", where, what, err)
			return
		}
		if !bytes.Equal(got, want) {
			o.vs.Add("stored-envelope-opens-differently:"+col.Kind, "%s: %s opens to %.60q, written %.60q", where, what, got, want)
		}
	}
	switch col.Kind {
	case myprog.KEnc, myprog.KTyped:
		open("stored value", stored, plain)
	case myprog.KSearch:
		if len(stored) <= 33 {
			o.vs.Add("stored-envelope-malformed:"+col.Kind, "%s: %d bytes stored, shorter than a hash", where, len(stored))
			return
		}
		if want := hmac.GenerateHMAC(o.w.HmacKey([]byte(ownerOf(col))), plain); !bytes.Equal(stored[:33], want) {
			o.vs.Add("stored-hash-wrong:"+col.Kind, "%s: stored hash %x is not the owner's HMAC of the written value", where, stored[:33])
		}
		open("value after the hash", stored[33:], plain)
	case myprog.KMask:
		n := col.MaskLen
		switch {
		case n >= len(plain):
			open("stored value", stored, plain)
		case col.MaskSide == "left":
			if !bytes.HasPrefix(stored, plain[:n]) {
				o.vs.Add("stored-envelope-malformed:"+col.Kind, "%s: stored value does not start with the %d clear bytes", where, n)
				return
			}
			open("value after the clear window", stored[n:], plain[n:])
		default:
			if !bytes.HasSuffix(stored, plain[len(plain)-n:]) {
				o.vs.Add("stored-envelope-malformed:"+col.Kind, "%s: stored value does not end with the %d clear bytes", where, n)
				return
			}
			open("value before the clear window", stored[:len(stored)-n], plain[:len(plain)-n])
		}
	case myprog.KToken:
		ctx := tokencommon.TokenContext{ClientID: []byte(ownerOf(col))}
		var back []byte
		var err error
		switch col.TokenType {
		case "int32", "int64":
			bits := 32
			if col.TokenType == "int64" {
				bits = 64
			}
			n, perr := strconv.ParseInt(string(stored), 10, bits)
			if perr != nil {
				o.vs.Add("stored-token-malformed:"+col.TokenType, "%s: stored %.40q is not an %s", where, stored, col.TokenType)
				return
			}
			var v any
			if bits == 32 {
				v, err = o.tok.Deanonymize(int32(n), ctx, tokencommon.TokenType_Int32)
				if err == nil {
					back = []byte(strconv.FormatInt(int64(v.(int32)), 10))
				}
			} else {
				v, err = o.tok.Deanonymize(n, ctx, tokencommon.TokenType_Int64)
				if err == nil {
					back = []byte(strconv.FormatInt(v.(int64), 10))
				}
			}
		case "str":
			var v any
			if v, err = o.tok.Deanonymize(string(stored), ctx, tokencommon.TokenType_String); err == nil {
				back = []byte(v.(string))
			}
		case "email":
			var v any
			if v, err = o.tok.Deanonymize(tokencommon.Email(stored), ctx, tokencommon.TokenType_Email); err == nil {
				back = []byte(v.(tokencommon.Email))
			}
			if !bytes.Contains(stored, []byte("@")) {
				o.vs.Add("stored-token-malformed:email", "%s: stored token %.40q is not an e-mail address", where, stored)
			}
		default:
			var v any
			if v, err = o.tok.Deanonymize(stored, ctx, tokencommon.TokenType_Bytes); err == nil {
				back = v.([]byte)
			}
		}
		if err != nil {
			o.vs.Add("stored-token-unknown:"+col.TokenType, "%s: the token store does not know the stored token %.40q of %.40q: %v", where, stored, plain, err)
			return
		}
		if !bytes.Equal(back, plain) {
			o.vs.Add("stored-token-opens-differently:"+col.TokenType, "%s: stored token %.40q stands for %.40q, written %.40q", where, stored, back, plain)
		}
		if col.Consistent {
			k := col.Name + "\x00" + string(plain)
			if prev, ok := consistent[k]; ok && !bytes.Equal(prev, stored) {
				o.vs.Add("consistent-token-differs:"+col.TokenType, "%s: the same value %.40q is stored as two tokens %.40q and %.40q", where, plain, prev, stored)
			}
			consistent[k] = stored
		}
	}
}

func TestMySQLPrograms(t *testing.T) {
	R.Rule("TestMySQLPrograms", "MySQL session program = generated encryptor configuration (1-2 configured tables + 1 unconfigured, 2-5 columns of kinds plain/enc/search/mask/token/typed from the combinations MapTableSchemaStoreFromConfig(UseMySQL) accepts: envelopes, data_type / data_type_db_identifier, failure policies, token types consistent or random, column client_id absent / the connection's / another identity's) + 1-8 statements (INSERT with column list / without / SET form / multi-row / ON DUPLICATE KEY UPDATE on new and existing keys, REPLACE, UPDATE, DELETE, SELECT star / list / aliases, conditions on the key, a searchable or a consistently tokenized column) sent as COM_QUERY with literals in every MySQL spelling (quotes doubled or backslash-escaped, double quotes, X'..', x'..', 0x.., _binary before a quoted or a hex literal, _utf8mb4'..' - the open finding statement-not-parsed-forwarded-in-clear:charset-introducer, excluded and counted -, integers bare or quoted) or as COM_STMT_PREPARE / COM_STMT_EXECUTE with generated parameter types (string, blob, integer widths, unsigned flag, NULL as type or as bitmap bit, literals mixed in), re-executions of earlier prepared statements with and without the new-params-bound flag, with or without CLIENT_DEPRECATE_EOF, through acra's real MySQL proxy between a scripted client and a typed fake server; then everything is read back in fresh sessions by the owner and by another identity or a client without keys, text or binary protocol. Oracles: (1) no marker of a value written into a protected column in the bytes the database received; (2) every stored protected value is exactly one well-formed container / hash+container / clear window+container / token that the owning identity's keys (or the token store) open to the written bytes, NULL and empty kept; (3) the owner's SELECTs equal the model, decoded by an independent codec as the described type, which must be the declared type; readers who do not own a column never receive its marker; (4) uncovered columns, parameters and statements reach the database unchanged in meaning (statements on unconfigured tables byte-identical); (5) no handler panic, no statement error, session never closed. Non-trivial = a non-empty value written into a protected column and the program ran to the stored-state and read-back checks")
	hx.Checks(800, 10000)
	rapid.Check(t, func(rt *rapid.T) {
		c := genMyCase(rt)
		vs, classes, nt := CheckMy(c)
		var cl []string
		for k := range classes {
			cl = append(cl, k)
		}
		R.Seen("TestMySQLPrograms", c, nt, cl...)
		R.Report(rt, "TestMySQLPrograms", c, vs)
	})
}

func replayMy(raw json.RawMessage) hx.Vs {
	var c MyCase
	if err := json.Unmarshal(raw, &c); err != nil {
		return hx.Vs{{Sig: "harness:decode", Msg: err.Error()}}
	}
	vs, _, _ := CheckMy(c)
	return vs
}
