package c04

// Result sets read in pages (PostgreSQL): a SELECT of the extended protocol is bound to a named portal and executed
// with a row limit (Execute.MaxRows > 0); the database answers with at most that many rows and PortalSuspended, later
// Execute messages for the same portal ("fetch" steps) deliver the following rows - JDBC setFetchSize inside a
// transaction, cursor-style paging of drivers. Between the pages the session runs its other statements, so rows of
// different statements alternate on the connection and not every group of rows ends with CommandComplete.
//
// The property says what each row has to be: the owner reads the original value of every protected column of the
// statement the row belongs to, and what the configuration does not cover comes back unchanged - whatever was relayed
// before the row. The model of a portal is the list of rows the statement matched when it was first executed (a
// portal is a running query: statements that come later do not change what it delivers) and a position in it.

import (
	"fmt"

	"github.com/jackc/pgx/v5/pgproto3"
	"pgregory.net/rapid"

	"verif/internal/pgprog"
	"verif/internal/pgsess"
)

// PStep is a statement of the session program with the paging of its result set.
type PStep struct {
	pgprog.Step
	// MaxRows: row limit of the Execute message. On an extended-protocol SELECT (> 0): the statement is bound to the named
	// portal of its step and its first page is read. On a fetch step: limit of this page, 0 = all rows that are left.
	MaxRows int `json:"max_rows,omitempty"`
	// Fetch > 0: op "fetch" = Execute + Sync for the portal opened by step Fetch-1
	Fetch int `json:"fetch,omitempty"`
}

// paged: the step opens a portal with a row limit.
func (p PStep) paged() bool {
	return p.Op == "select" && p.Ext && p.MaxRows > 0 && p.Fetch == 0 && p.Reexec == 0
}

func portalName(step int) string { return fmt.Sprintf("p%d", step) }

// genPaged turns a drawn SELECT into the first page of a paged read.
func genPaged(t *rapid.T, st *PStep, label string) {
	if !st.Ext {
		st.Ext = true
		st.ResultFmt = int16(rapid.IntRange(0, 1).Draw(t, label+".rfmt"))
		st.Describe = rapid.SampledFrom([]string{"S", "P"}).Draw(t, label+".describe")
	}
	st.MaxRows = rapid.SampledFrom([]int{1, 1, 2, 3}).Draw(t, label+".limit")
}

// genFetch draws the next page of one of the open portals.
func genFetch(t *rapid.T, steps []PStep, open []int, label string) PStep {
	j := rapid.SampledFrom(open).Draw(t, label+".portal")
	return PStep{Step: pgprog.Step{Op: "fetch", Table: steps[j].Table}, Fetch: j + 1, MaxRows: rapid.IntRange(0, 2).Draw(t, label+".limit")}
}

// openPortal is the model of a portal that was executed with a row limit.
type openPortal struct {
	step     int
	tb       pgprog.TableSpec
	table    string
	cols     []int
	want     [][]pgprog.Val // the rows the statement matched when it started
	next     int            // rows delivered so far
	resFmt   int16
	fields   []pgproto3.FieldDescription // the description the client got when it opened the portal
	have     bool
	complete bool // the database ended the result set (CommandComplete)
}

type paging struct {
	any     bool
	portals map[int]*openPortal
	order   []int
}

func newPaging(steps []PStep) *paging {
	p := &paging{portals: map[int]*openPortal{}}
	for _, st := range steps {
		p.any = p.any || st.paged()
	}
	return p
}

func (p *paging) open(step int, tb pgprog.TableSpec, cols []int, want [][]pgprog.Val, resFmt int16) *openPortal {
	po := &openPortal{step: step, tb: tb, table: tb.Name, cols: cols, want: append([][]pgprog.Val(nil), want...), resFmt: resFmt}
	p.portals[step] = po
	p.order = append(p.order, step)
	return po
}

// suspended returns the oldest portal the database has not finished (PortalSuspended was its last answer).
func (p *paging) suspended() *openPortal {
	for _, k := range p.order {
		if po := p.portals[k]; !po.complete {
			return po
		}
	}
	return nil
}

// rowsDuring notes the classes of a row-returning statement answered while a portal is suspended.
func (p *paging) rowsDuring(o *obs, during *openPortal, tb pgprog.TableSpec, cols []int, rep *pgsess.Reply) {
	if during == nil || rep == nil || len(rep.Rows) == 0 {
		return
	}
	o.class("paged:rows-while-portal-suspended")
	if during.table != tb.Name || fmt.Sprint(during.cols) != fmt.Sprint(cols) {
		o.class("paged:rows-while-portal-suspended/other-columns")
		for _, ci := range cols {
			if tb.Configured && tb.Cols[ci].Protected() {
				o.class("paged:rows-while-portal-suspended/other-columns/protected:" + tb.Cols[ci].Kind)
			}
		}
	}
}

// checkPage compares one page (the answer to Execute with the row limit `limit`) with the model of the portal: the
// rows that follow the ones delivered so far, every value as the owner has to see it, and the message that ends the
// page (PortalSuspended exactly when the limit was reached, as the database decides it).
func (o *obs) checkPage(what string, po *openPortal, limit int, rep *pgsess.Reply) {
	if rep.HaveFields {
		po.fields, po.have = rep.Fields, true
	} else {
		// a fetch is not described again: the client decodes with the description it got for the portal
		rep.Fields, rep.HaveFields = po.fields, po.have
	}
	left := po.want[min(po.next, len(po.want)):]
	n := len(left)
	if limit > 0 && n > limit {
		n = limit
	}
	if po.complete {
		o.class("paged:fetch-after-complete")
	}
	o.checkRows(what, po.tb, po.cols, left[:n], rep, po.resFmt, true)
	po.next += n
	if len(rep.Errors) > 0 {
		return
	}
	wantSuspended := limit > 0 && n == limit
	if rep.Suspended() != wantSuspended {
		o.vs.Add("page-end-differs:"+what, "%s of portal %s (limit %d, %d rows): messages %v, PortalSuspended expected: %v", what, portalName(po.step), limit, n, rep.Msgs, wantSuspended)
	}
	po.complete = !wantSuspended
	switch {
	case wantSuspended:
		o.class("paged:page-suspended")
	case n > 0:
		o.class("paged:last-page-with-rows")
	default:
		o.class("paged:last-page-empty")
	}
	if limit == 0 {
		o.class("paged:fetch-rest")
	}
}
