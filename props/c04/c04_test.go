// Package c04: the SQL proxy stores only protected forms and restores originals on read.
package c04

import (
	"bytes"
	"encoding/base64"
	"encoding/hex"
	"encoding/json"
	"errors"
	"fmt"
	"os"
	"strings"
	"testing"
	"time"

	"pgregory.net/rapid"

	"github.com/cossacklabs/acra/pseudonymization"
	"github.com/cossacklabs/acra/pseudonymization/storage"

	"verif/internal/fix"
	"verif/internal/hx"
	"verif/internal/pgprog"
	"verif/internal/pgsess"
)

var R = hx.New("C04")

func TestMain(m *testing.M) { os.Exit(R.Main(m)) }

// Case is a session program: tables, statements, and who reads at the end.
type Case struct {
	Tables []pgprog.TableSpec `json:"tables"`
	Steps  []PStep            `json:"steps"`  // paged_test.go: a pgprog.Step, optionally with a row limit / a fetch from an open portal
	Reader string             `json:"reader"` // owner | nokeys
}

func genCase(t *rapid.T) Case {
	c := Case{Tables: pgprog.GenTables(t, pgprog.ProgKinds, "alice"), Reader: rapid.SampledFrom([]string{"owner", "nokeys"}).Draw(t, "reader")}
	g := pgprog.NewGenState(c.Tables)
	n := rapid.IntRange(1, 8).Draw(t, "nsteps")
	var open []int // steps that opened a portal with a row limit (paged_test.go)
	for i := 0; i < n; i++ {
		// the next page of a result set that is being read in pages, between the other statements
		if len(open) > 0 && rapid.IntRange(0, 2).Draw(t, fmt.Sprintf("fetch%d", i)) == 0 {
			c.Steps = append(c.Steps, genFetch(t, c.Steps, open, fmt.Sprintf("fetch%d", i)))
		}
		var st PStep
		if len(open) > 0 && rapid.IntRange(0, 2).Draw(t, fmt.Sprintf("readbetween%d", i)) == 0 {
			// more reads than usual while a result set is open: rows of two statements alternate on the connection
			st.Step = pgprog.GenSelectStep(t, c.Tables, g, fmt.Sprintf("s%d", i))
		} else {
			st.Step = pgprog.GenProgStep(t, c.Tables, g, fmt.Sprintf("s%d", i))
		}
		// a read in pages where the generator knows of rows (keys handed out for the table)
		if st.Op == "select" && g.NextID[st.Table] > 1 && rapid.IntRange(0, 1).Draw(t, fmt.Sprintf("paged%d", i)) == 0 {
			genPaged(t, &st, fmt.Sprintf("paged%d", i))
			open = append(open, len(c.Steps))
		}
		c.Steps = append(c.Steps, st)
		// sometimes execute an earlier prepared SELECT again, after other statements went through
		var prepared []int
		for j, st := range c.Steps {
			// statements that can be executed twice: SELECT, UPDATE, DELETE and INSERT ... ON CONFLICT (the second execution
			// meets the key the first one wrote)
			if st.Ext && (st.Op == "select" || st.Op == "update" || st.Op == "delete" || (st.Op == "insert" && st.OnConflict != "")) {
				prepared = append(prepared, j)
			}
		}
		if len(prepared) > 0 && len(c.Steps) > prepared[0]+1 && rapid.IntRange(0, 3).Draw(t, fmt.Sprintf("reexec%d", i)) == 0 {
			j := rapid.SampledFrom(prepared).Draw(t, fmt.Sprintf("reexec%d.which", i))
			re := c.Steps[j]
			re.MaxRows, re.Fetch = 0, 0 // executed again through the unnamed portal, without a row limit
			if re.Op != "select" {
				re.ReOp = re.Op
			}
			re.Op, re.Reexec = "reexec", j+1
			re.ResultFmt = int16(rapid.IntRange(0, 1).Draw(t, fmt.Sprintf("reexec%d.rfmt", i)))
			re.Describe = "P"
			c.Steps = append(c.Steps, re)
		}
	}
	// the rest of some of the result sets that are still open at the end
	for k, j := range open {
		if rapid.Bool().Draw(t, fmt.Sprintf("rest%d", k)) {
			c.Steps = append(c.Steps, genFetch(t, c.Steps, []int{j}, fmt.Sprintf("rest%d", k)))
		}
	}
	return c
}

// model of what the client wrote
type model struct {
	rows [][][]pgprog.Val // per table: rows of logical values (len = columns)
}

func encodings(m []byte) [][]byte {
	var oct strings.Builder
	for _, c := range m {
		fmt.Fprintf(&oct, `\%03o`, c)
	}
	return [][]byte{m, []byte(hex.EncodeToString(m)), []byte(strings.ToUpper(hex.EncodeToString(m))), []byte(base64.StdEncoding.EncodeToString(m)), []byte(oct.String())}
}

func containsMarker(hay, marker []byte) bool {
	for _, e := range encodings(marker) {
		if bytes.Contains(hay, e) {
			return true
		}
	}
	return false
}

type obs struct {
	vs      hx.Vs
	classes map[string]bool
	clear   map[string]bool
}

func (o *obs) class(c string) { o.classes[c] = true }

// expectedField: what the owner must see for column c.
func expectedOID(c pgprog.ColSpec) uint32 {
	switch c.Kind {
	case pgprog.KEnc:
		return 17
	case pgprog.KSearch, pgprog.KMask:
		if c.DataType == "" {
			return 17
		}
	}
	return c.Logical().OID()
}

func sameVal(a, b pgprog.Val) bool {
	if a.Null || b.Null {
		return a.Null == b.Null
	}
	return bytes.Equal(a.B, b.B)
}

func (o *obs) checkRows(what string, tb pgprog.TableSpec, cols []int, want [][]pgprog.Val, rep *pgsess.Reply, resultFmt int16, owner bool) {
	if len(rep.Errors) > 0 {
		o.vs.Add("statement-error:"+what, "%s on %s answered with error %q", what, tb.Name, rep.Errors)
		return
	}
	if len(rep.Rows) != len(want) {
		o.vs.Add("row-count:"+what, "%s on %s returned %d rows, model has %d", what, tb.Name, len(rep.Rows), len(want))
		return
	}
	if len(want) > 0 && !rep.HaveFields {
		o.vs.Add("no-row-description:"+what, "%s on %s returned rows without a RowDescription", what, tb.Name)
		return
	}
	for ri, row := range rep.Rows {
		if len(row) != len(cols) {
			o.vs.Add("column-count:"+what, "%s on %s row has %d columns, want %d", what, tb.Name, len(row), len(cols))
			return
		}
		for ci, raw := range row {
			col := tb.Cols[cols[ci]]
			exp := want[ri][cols[ci]]
			oid := uint32(25)
			if ci < len(rep.Fields) {
				oid = rep.Fields[ci].DataTypeOID
			}
			if !owner {
				// a reader without keys never receives the plaintext of a protected column
				if col.Protected() && tb.Configured {
					if m := pgprog.Marker(exp); m != nil && col.Kind != pgprog.KMask && !o.clear[string(m)] && containsMarker(raw, m) {
						o.vs.Add("keyless-reader-got-plaintext:"+col.Kind, "reader without keys received the plaintext marker of column %s (%s)", col.Name, col.Kind)
					}
					continue
				}
			}
			got, _, err := pgprog.Decode(raw, oid, resultFmt)
			if err != nil {
				o.vs.Add("undecodable:"+what+":"+col.Kind, "%s column %s (%s, oid %d, format %d): %v", what, col.Name, col.Kind, oid, resultFmt, err)
				continue
			}
			if owner && tb.Configured && col.Protected() && oid != expectedOID(col) {
				o.vs.Add("wrong-type-described:"+what+":"+col.Kind, "%s column %s (%s %s) described with oid %d, want %d", what, col.Name, col.Kind, col.DataType+col.TokenType, oid, expectedOID(col))
			}
			if !sameVal(got, exp) {
				sig := "owner-read-differs:"
				if !col.Protected() || !tb.Configured {
					sig = "uncovered-column-changed:"
				}
				o.vs.Add(sig+what+":"+col.Kind, "%s column %s (%s): got %.60q want %.60q (row %d, format %d, oid %d)", what, col.Name, col.Kind, got.B, exp.B, ri, resultFmt, oid)
			}
		}
	}
}

// Check runs the program through a proxied session and compares with the model.
func Check(c Case) (hx.Vs, map[string]bool, bool) {
	w := fix.TheWorld()
	o := &obs{classes: map[string]bool{}}
	defs := pgprog.Defs(c.Tables)
	yaml := pgprog.SchemaYAML(c.Tables)
	// one token store for the whole case (both sessions talk to the same acra-server)
	tstore, err := storage.NewMemoryTokenStorage()
	if err != nil {
		o.vs.Add("harness:tokens", "%v", err)
		return o.vs, o.classes, false
	}
	tok, err := pseudonymization.NewPseudoanonymizer(tstore)
	if err != nil {
		o.vs.Add("harness:tokens", "%v", err)
		return o.vs, o.classes, false
	}
	s, err := pgsess.Start(pgsess.Config{SchemaYAML: yaml, KeyStore: w.KS, ClientID: w.Alice, Tables: defs, Tokenizer: tok})
	if err != nil {
		o.vs.Add("harness:start", "%v\n%s", err, yaml)
		return o.vs, o.classes, false
	}
	defer s.Close()
	m := &model{rows: make([][][]pgprog.Val, len(c.Tables))}
	var protectedMarkers [][]byte
	wroteProtected, readAfter := false, false
	inconclusive := false
	// result sets read in pages (paged_test.go): portals live inside a transaction block
	pg := newPaging(c.Steps)
	if pg.any {
		if rep, err := s.Simple("BEGIN"); err != nil || len(rep.Errors) > 0 {
			if errors.Is(err, pgsess.ErrTimeout) {
				R.Note("inconclusive: deadline in BEGIN")
				return o.vs, o.classes, false
			}
			o.vs.Add("session-broken:begin", "BEGIN: %v %v; proxy errors %v", err, rep, waitProxyErrs(s))
			return o.vs, o.classes, false
		}
	}
	for si, ps := range c.Steps {
		st := ps.Step
		if st.Table < 0 || st.Table >= len(c.Tables) {
			continue
		}
		tb := c.Tables[st.Table]
		// a portal that still holds rows while this statement runs: its rows and this statement's rows interleave
		during := pg.suspended()
		while := ""
		if during != nil {
			while = "-while-portal-suspended"
		}
		if st.Op == "reexec" {
			st.Op = "select"
			if st.ReOp != "" {
				st.Op = st.ReOp
				o.class("reexec-prepared:" + st.ReOp)
			}
		}
		r := pgprog.Render(c.Tables, st)
		var rep *pgsess.Reply
		var err error
		if ps.Fetch > 0 {
			po := pg.portals[ps.Fetch-1]
			if po == nil {
				o.class("fetch:no-open-portal") // only in hand-made cases: the generator fetches from portals it opened
				continue
			}
			r.SQL = fmt.Sprintf("(Execute portal %s, row limit %d)", portalName(ps.Fetch-1), ps.MaxRows)
			rep, err = s.Fetch(portalName(ps.Fetch-1), uint32(max(ps.MaxRows, 0)))
			o.class("paged:fetch")
		} else if ps.paged() {
			e := pgprog.ExtOf(st, r, fmt.Sprintf("st%d", si))
			e.PortalName = portalName(si)
			rep, err = s.ExtendedLimit(e, uint32(ps.MaxRows))
			o.class(fmt.Sprintf("ext/pfmt%d/rfmt%d", st.ParamFmt, st.ResultFmt))
			o.class("paged:open/describe-" + st.Describe)
		} else if st.Reexec > 0 {
			e := pgprog.ExtOf(st, r, fmt.Sprintf("st%d", st.Reexec-1))
			e.SkipParse, e.DescribeStmt, e.DescribePort = true, false, true
			rep, err = s.Extended(e)
			o.class("reexec-prepared")
		} else if st.Ext {
			rep, err = s.Extended(pgprog.ExtOf(st, r, fmt.Sprintf("st%d", si)))
			o.class(fmt.Sprintf("ext/pfmt%d/rfmt%d", st.ParamFmt, st.ResultFmt))
			if st.Declare && len(r.Params) > 0 {
				o.class("declared-param-oids:" + st.Op)
				if st.OnConflict != "" {
					o.class("declared-param-oids:upsert")
				}
			}
		} else {
			rep, err = s.Simple(r.SQL)
			o.class("simple")
		}
		if os.Getenv("VERIF_DEBUG") != "" {
			fmt.Printf("STEP %d ext=%v %s\n", si, st.Ext, r.SQL)
			if st.Ext {
				e := pgprog.ExtOf(st, r, "x")
				fmt.Printf("   params=%q formats=%v oids=%v resfmt=%v\n", e.Params, e.ParamFormats, e.ParamOIDs, e.ResultFormats)
			}
			recv := s.DB.Received()
			for _, rc := range recv[max(0, len(recv)-2):] {
				fmt.Printf("   DB got %s %.300s oids=%v pf=%v rf=%v\n", rc.Kind, rc.SQL, rc.OIDs, rc.ParamFormatCodes, rc.ResultFormatCodes)
				for pi, pp := range rc.Params {
					fmt.Printf("      $%d null=%v fmt=%d %.80q\n", pi+1, pp.Null, pp.Format, pp.Data)
				}
			}
			if rep != nil {
				fmt.Printf("   reply msgs=%v errs=%v rows=%.200q paramOIDs=%v\n", rep.Msgs, rep.Errors, rep.Rows, rep.ParamOIDs)
			}
		}
		if errors.Is(err, pgsess.ErrTimeout) {
			inconclusive = true
			R.Note("inconclusive: deadline in step %d (%s)", si, r.SQL)
			return o.vs, o.classes, false
		}
		if err != nil {
			if ps := s.Panics(); len(ps) > 0 {
				o.vs.Add("handler-panic:"+hx.PanicFunc(ps[0]), "step %d (%.160s) made the connection handler panic: %.1500s", si, r.SQL, ps[0])
				return o.vs, o.classes, false
			}
			o.vs.Add("session-broken:"+st.Op, "step %d (%.120s): %v; proxy errors %v; panics %.600v", si, r.SQL, err, waitProxyErrs(s), s.Panics())
			return o.vs, o.classes, false
		}
		if len(rep.Msgs) == 0 || rep.Msgs[len(rep.Msgs)-1] != "Z" {
			o.vs.Add("no-ready:"+st.Op, "step %d did not end with ReadyForQuery: %v", si, rep.Msgs)
		}
		o.class("op:" + st.Op)
		resFmt := int16(0)
		if st.Ext {
			resFmt = st.ResultFmt
		}
		allCols := func() []int {
			var a []int
			for i := range tb.Cols {
				a = append(a, i)
			}
			return a
		}
		// a value that crosses the proxy towards a protected column, stored or not
		noteWrite := func(col pgprog.ColSpec, v pgprog.Val) {
			if tb.Configured && col.Protected() && !v.Null && len(v.B) > 0 {
				wroteProtected = true
				o.class("write:" + col.Kind)
				// a masked column keeps a configured window in clear (C11 checks masks precisely)
				if mk := pgprog.Marker(v); mk != nil && col.Kind != pgprog.KMask {
					protectedMarkers = append(protectedMarkers, mk)
				}
			}
		}
		for _, n := range r.Notes {
			o.class(st.Op + ":" + n)
		}
		matches := func(row []pgprog.Val) bool {
			if st.WhereID != nil && string(row[0].B) != fmt.Sprint(*st.WhereID) {
				return false
			}
			if w := st.Where; w != nil && (row[w.Col].Null || w.Val.Null || !bytes.Equal(row[w.Col].B, w.Val.B)) {
				return false
			}
			return true
		}
		whereClass := func() {
			switch w := st.Where; {
			case w == nil && st.WhereID == nil:
				o.class(st.Op + ":all-rows")
			case w == nil || w.Col == 0:
				o.class(st.Op + ":by-key")
			default:
				o.class(st.Op + ":by-" + tb.Cols[w.Col].Kind)
			}
		}
		// the SET items of UPDATE / DO UPDATE: old = the existing row, proposed = the row offered for insertion
		assign := func(old, proposed []pgprog.Val) []pgprog.Val {
			nr := append([]pgprog.Val(nil), old...)
			for _, a := range st.Assigns {
				switch a.Kind {
				case "default":
					nr[a.Col] = pgprog.Val{Null: true}
				case "column":
					nr[a.Col] = old[a.Src]
				case "excluded", "param-again":
					nr[a.Col] = proposed[a.Src]
				default:
					nr[a.Col] = a.Val
				}
			}
			return nr
		}
		switch st.Op {
		case "insert":
			cols := st.Cols
			if cols == nil {
				cols = allCols()
				o.class("insert:schema-order")
			}
			if len(st.Rows) > 1 {
				o.class("insert:multi-row")
			}
			for _, a := range st.Assigns {
				o.class("on-conflict:set-" + map[string]string{"": "value"}[a.Kind] + a.Kind)
				if a.Kind == "" {
					noteWrite(tb.Cols[a.Col], a.Val)
					if tb.Configured && tb.Cols[a.Col].Protected() && st.Ext && !a.Lit {
						o.class("on-conflict:protected-value")
					}
				}
			}
			var added [][]pgprog.Val
			for _, row := range st.Rows {
				full := make([]pgprog.Val, len(tb.Cols))
				for i := range full {
					full[i] = pgprog.Val{Null: true}
				}
				for i, cidx := range cols {
					full[cidx] = row[i]
					noteWrite(tb.Cols[cidx], row[i])
				}
				if st.OnConflict == "" {
					m.rows[st.Table] = append(m.rows[st.Table], full)
					added = append(added, full)
					continue
				}
				at := -1
				for ri, have := range m.rows[st.Table] {
					if sameVal(have[0], full[0]) {
						at = ri
					}
				}
				multi := ""
				if len(st.Rows) > 1 {
					multi = "/multi-row"
				}
				switch {
				case at < 0:
					o.class("upsert:new-key" + multi)
					m.rows[st.Table] = append(m.rows[st.Table], full)
					added = append(added, full)
				case st.OnConflict == "update":
					o.class("upsert:existing-key" + multi)
					nr := assign(m.rows[st.Table][at], full)
					m.rows[st.Table][at] = nr
					added = append(added, nr)
				default:
					o.class("upsert:existing-key-do-nothing" + multi)
				}
			}
			if st.OnConflict != "" {
				o.class("on-conflict:" + st.OnConflict)
			}
			if len(rep.Errors) > 0 {
				o.vs.Add("statement-error:insert", "step %d %.200s: %q", si, r.SQL, rep.Errors)
			}
			if len(st.Returning) > 0 {
				o.class("returning")
				if st.OnConflict != "" {
					o.class("upsert:returning")
				}
				pg.rowsDuring(o, during, tb, st.Returning, rep)
				o.checkRows("insert-returning"+while, tb, st.Returning, added, rep, resFmt, true)
			}
		case "update":
			whereClass()
			for i, cidx := range st.Set {
				noteWrite(tb.Cols[cidx], st.SetVals[i])
			}
			nvalues := len(st.Set)
			for _, a := range st.Assigns {
				if a.Kind == "" {
					noteWrite(tb.Cols[a.Col], a.Val)
					nvalues++
				} else {
					o.class("update:set-" + a.Kind)
				}
			}
			if nvalues > 0 && nvalues < len(st.Set)+len(st.Assigns) {
				o.class("update:values-mixed-with-default-or-column")
			}
			var touched [][]pgprog.Val
			for ri, row := range m.rows[st.Table] {
				if !matches(row) {
					continue
				}
				nr := append([]pgprog.Val(nil), row...)
				for i, cidx := range st.Set {
					nr[cidx] = st.SetVals[i]
				}
				nr = assign(nr, nil)
				m.rows[st.Table][ri] = nr
				touched = append(touched, nr)
			}
			if len(touched) > 0 && st.Where != nil && st.Where.Col != 0 {
				o.class("update:matched-by-" + tb.Cols[st.Where.Col].Kind)
			}
			if len(rep.Errors) > 0 {
				o.vs.Add("statement-error:update", "step %d %.200s: %q", si, r.SQL, rep.Errors)
			}
			if len(st.Returning) > 0 {
				o.class("returning")
				pg.rowsDuring(o, during, tb, st.Returning, rep)
				o.checkRows("update-returning"+while, tb, st.Returning, touched, rep, resFmt, true)
			}
		case "delete":
			whereClass()
			var keep, gone [][]pgprog.Val
			for _, row := range m.rows[st.Table] {
				if matches(row) {
					gone = append(gone, row)
				} else {
					keep = append(keep, row)
				}
			}
			m.rows[st.Table] = keep
			if len(gone) > 0 {
				o.class("delete:matched")
				if st.Where != nil && st.Where.Col != 0 {
					o.class("delete:matched-by-" + tb.Cols[st.Where.Col].Kind)
				}
			}
			if len(rep.Errors) > 0 {
				o.vs.Add("statement-error:delete", "step %d %.200s: %q", si, r.SQL, rep.Errors)
			}
			if len(st.Returning) > 0 {
				o.class("returning")
				o.class("delete:returning")
				if wroteProtected && len(gone) > 0 {
					readAfter = true
				}
				pg.rowsDuring(o, during, tb, st.Returning, rep)
				o.checkRows("delete-returning"+while, tb, st.Returning, gone, rep, resFmt, true)
			}
		case "insert-select":
			src := c.Tables[st.SrcTable]
			if st.SrcTable == st.Table {
				o.class("insert-select:same-table")
			} else {
				o.class("insert-select:other-table")
			}
			var added [][]pgprog.Val
			for _, row := range append([][]pgprog.Val(nil), m.rows[st.SrcTable]...) {
				if st.WhereID != nil && string(row[0].B) != fmt.Sprint(*st.WhereID) {
					continue
				}
				full := make([]pgprog.Val, len(tb.Cols))
				for i := range full {
					full[i] = pgprog.Val{Null: true}
				}
				full[0] = pgprog.Val{B: []byte(fmt.Sprint(st.NewID))}
				for i := 1; i < len(st.Cols) && i < len(st.SrcCols); i++ {
					full[st.Cols[i]] = row[st.SrcCols[i]]
					if tb.Configured && tb.Cols[st.Cols[i]].Protected() && !row[st.SrcCols[i]].Null && len(row[st.SrcCols[i]].B) > 0 {
						o.class("insert-select:copied-protected")
					}
				}
				m.rows[st.Table] = append(m.rows[st.Table], full)
				added = append(added, full)
			}
			if len(added) > 0 {
				o.class("insert-select:copied-row")
			}
			_ = src
			if len(rep.Errors) > 0 {
				o.vs.Add("statement-error:insert-select", "step %d %.200s: %q", si, r.SQL, rep.Errors)
			}
			if len(st.Returning) > 0 {
				o.class("returning")
				pg.rowsDuring(o, during, tb, st.Returning, rep)
				o.checkRows("insert-select-returning"+while, tb, st.Returning, added, rep, resFmt, true)
			}
		case "select":
			cols := st.Cols
			if cols == nil {
				cols = allCols()
				o.class("select:star")
			}
			if st.Alias {
				o.class("select:alias")
			}
			var want [][]pgprog.Val
			for _, row := range m.rows[st.Table] {
				if !matches(row) {
					continue
				}
				want = append(want, row)
			}
			if wroteProtected && len(want) > 0 {
				readAfter = true
			}
			if ps.paged() {
				// the first page; the portal keeps the rows the statement saw when it started
				po := pg.open(si, tb, cols, want, resFmt)
				o.checkPage("paged-select"+while, po, ps.MaxRows, rep)
				break
			}
			pg.rowsDuring(o, during, tb, cols, rep)
			o.checkRows("select"+while, tb, cols, want, rep, resFmt, true)
		case "fetch":
			po := pg.portals[ps.Fetch-1]
			if wroteProtected && po.next < len(po.want) {
				readAfter = true
			}
			o.checkPage("fetch"+map[bool]string{true: "-while-other-portal-suspended"}[during != nil && during != po], po, ps.MaxRows, rep)
		}
		// statements the configuration does not cover must reach the database unchanged
		if !tb.Configured && ps.Fetch == 0 {
			o.class("unconfigured-table")
			recv := s.DB.Received()
			if len(recv) > 0 {
				last := recv[len(recv)-1]
				sql := last.SQL
				if sql != r.SQL {
					o.vs.Add("uncovered-statement-rewritten", "statement on an unconfigured table was forwarded as %.200q, sent %.200q", sql, r.SQL)
				}
			}
		}
	}
	if pg.any {
		rep, err := s.Simple("COMMIT")
		if errors.Is(err, pgsess.ErrTimeout) {
			R.Note("inconclusive: deadline in COMMIT")
			return o.vs, o.classes, false
		}
		if err != nil || len(rep.Errors) > 0 {
			o.vs.Add("session-broken:commit", "COMMIT: %v %v; proxy errors %v", err, rep, waitProxyErrs(s))
		}
	}
	// what the database received and stored
	raw := s.DB.Raw()
	// markers that (after shrinking, or by coincidence) also occur in values the configuration does not
	// cover say nothing
	clear := map[string]bool{}
	for ti, tb := range c.Tables {
		for _, row := range m.rows[ti] {
			for ci, col := range tb.Cols {
				if !tb.Configured || !col.Protected() {
					if mk := pgprog.Marker(row[ci]); mk != nil {
						clear[string(mk)] = true
					}
				}
			}
		}
	}
	for _, st := range c.Steps {
		tb := c.Tables[st.Table]
		cols := st.Cols
		for _, row := range st.Rows {
			for i, v := range row {
				ci := i
				if cols != nil {
					ci = cols[i]
				}
				if !tb.Configured || !tb.Cols[ci].Protected() || tb.Cols[ci].Kind == pgprog.KMask {
					if mk := pgprog.Marker(v); mk != nil {
						clear[string(mk)] = true
					}
				}
			}
		}
		for i, ci := range st.Set {
			if !tb.Configured || !tb.Cols[ci].Protected() || tb.Cols[ci].Kind == pgprog.KMask {
				if mk := pgprog.Marker(st.SetVals[i]); mk != nil {
					clear[string(mk)] = true
				}
			}
		}
		for _, a := range st.Assigns {
			if !tb.Configured || !tb.Cols[a.Col].Protected() || tb.Cols[a.Col].Kind == pgprog.KMask {
				if mk := pgprog.Marker(a.Val); mk != nil {
					clear[string(mk)] = true
				}
			}
		}
	}
	o.clear = clear
	for _, mk := range protectedMarkers {
		if clear[string(mk)] {
			continue
		}
		if containsMarker(raw, mk) {
			o.vs.Add("plaintext-on-the-wire", "bytes forwarded to the database contain the plaintext marker %s of a protected column", mk)
			break
		}
	}
	for ti, tb := range c.Tables {
		stored := s.DB.Store.Rows(tb.Name)
		if len(stored) != len(m.rows[ti]) {
			o.vs.Add("stored-row-count", "table %s stores %d rows, model %d", tb.Name, len(stored), len(m.rows[ti]))
			continue
		}
		for ri, row := range stored {
			for ci, col := range tb.Cols {
				exp := m.rows[ti][ri][ci]
				if !tb.Configured || !col.Protected() {
					if !sameVal(pgprog.Val{Null: row[ci].Null, B: row[ci].B}, exp) {
						o.vs.Add("uncovered-column-stored-differently:"+col.Kind, "table %s column %s: stored %.60q, written %.60q", tb.Name, col.Name, row[ci].B, exp.B)
					}
					continue
				}
				if exp.Null != row[ci].Null {
					o.vs.Add("null-changed:"+col.Kind, "table %s column %s: NULL-ness changed (written null=%v, stored null=%v)", tb.Name, col.Name, exp.Null, row[ci].Null)
					continue
				}
				if exp.Null || len(exp.B) == 0 {
					continue
				}
				if bytes.Equal(row[ci].B, exp.B) && col.Kind != pgprog.KToken {
					o.vs.Add("stored-in-clear:"+col.Kind, "table %s column %s (%s) stores the plaintext %.40q", tb.Name, col.Name, col.Kind, exp.B)
				}
				if col.Kind == pgprog.KToken && bytes.Equal(row[ci].B, exp.B) && len(exp.B) >= 8 {
					o.vs.Add("stored-in-clear:"+col.Kind, "table %s column %s (token %s) stores the original value %.40q", tb.Name, col.Name, col.TokenType, exp.B)
				}
			}
		}
	}
	// final read of everything by the chosen reader in a fresh session over the same database
	rid := w.Alice
	owner := true
	if c.Reader == "nokeys" {
		rid, owner = w.Carol, false
		o.class("reader:nokeys")
	} else {
		o.class("reader:owner")
	}
	s2, err := pgsess.Start(pgsess.Config{SchemaYAML: yaml, KeyStore: w.KS, ClientID: rid, Tables: defs, Store: s.DB.Store, Tokenizer: tok})
	if err != nil {
		o.vs.Add("harness:start2", "%v", err)
		return o.vs, o.classes, false
	}
	defer s2.Close()
	for ti, tb := range c.Tables {
		if len(m.rows[ti]) == 0 {
			continue
		}
		var cols []int
		var names []string
		for i, col := range tb.Cols {
			// an `error` policy column makes the whole statement fail for a keyless reader: read it separately in C19
			if !owner && col.OnFail == "error" {
				continue
			}
			cols = append(cols, i)
			names = append(names, col.Name)
		}
		rep, err := s2.Simple("SELECT " + strings.Join(names, ", ") + " FROM " + tb.Name)
		if errors.Is(err, pgsess.ErrTimeout) {
			inconclusive = true
			R.Note("inconclusive: deadline in final read")
			break
		}
		if err != nil {
			o.vs.Add("session-broken:final-read", "%v", err)
			break
		}
		if wroteProtected {
			readAfter = true
		}
		o.checkRows("final-read", tb, cols, m.rows[ti], rep, 0, owner)
		if !owner {
			_, recv := s2.ClientStreams()
			for _, row := range m.rows[ti] {
				for ci, col := range tb.Cols {
					if tb.Configured && col.Protected() && col.Kind != pgprog.KMask {
						if mk := pgprog.Marker(row[ci]); mk != nil && !clear[string(mk)] && containsMarker(recv, mk) {
							o.vs.Add("keyless-reader-got-plaintext:"+col.Kind, "bytes received by a reader without keys contain the plaintext marker of column %s", col.Name)
						}
					}
				}
			}
		}
	}
	_ = inconclusive
	return o.vs, o.classes, wroteProtected && readAfter
}

func TestSessions(t *testing.T) {
	R.Rule("TestSessions", "session program = generated encryptor configuration (1-2 tables, 2-5 columns of kinds plain/enc/search/mask/token/typed with envelopes, declared types, failure policies, per-column client) + 1-8 statements (INSERT with column list / schema order / multi-row / casts / RETURNING, with ON CONFLICT DO NOTHING or DO UPDATE SET c = literal | placeholder | the placeholder of VALUES again | EXCLUDED.c | DEFAULT | t.c on keys that exist or not; UPDATE with several SET items mixing literals, placeholders, DEFAULT and columns; DELETE [RETURNING]; conditions on the key, a searchable or a consistently tokenized column as literal or placeholder; INSERT ... SELECT of one row inside a table or between uncovered columns of two tables; SELECT star / list / aliases [WHERE id]; re-execution of a prepared SELECT / UPDATE / DELETE / upsert after other statements; reads in pages: an extended-protocol SELECT bound to a named portal inside BEGIN..COMMIT and executed with a row limit of 1-3 (rows + PortalSuspended), further Execute messages for that portal with a limit of 1-2 or none between the other statements - with extra SELECTs while a portal is open - and at the end, also after the portal was completed) over the simple or the extended protocol (text/binary parameters, text/binary results, declared or inferred parameter types, optional Describe), run through acra's real PostgreSQL proxy between a scripted client and a typed fake database; then everything is read back by the owner or by a client without keys. Oracles: wire and store confidentiality (markers, NULL/empty preserved), the database holds exactly the rows of the model (upserts in place, deletes), owner reads and RETURNING equal the model (decoded by an independent codec as the described type) - also for statements answered while a portal is suspended (signatures ...-while-portal-suspended) -, every page of a portal holds the next rows of what its statement matched when it started, as the owner has to see them, and ends with PortalSuspended exactly when the limit was reached, keyless reader never gets a marker, uncovered columns/statements unchanged. Non-trivial = a write to a protected column followed by a read of it")
	hx.Checks(800, 2500)
	rapid.Check(t, func(rt *rapid.T) {
		c := genCase(rt)
		vs, classes, nt := Check(c)
		var cl []string
		for k := range classes {
			cl = append(cl, k)
		}
		R.Seen("TestSessions", c, nt, cl...)
		R.Report(rt, "TestSessions", c, vs)
	})
}

func TestReplay(t *testing.T) {
	R.Replay(t, map[string]hx.ReplayHandler{
		"TestSessions": func(raw json.RawMessage) hx.Vs {
			var c Case
			if err := json.Unmarshal(raw, &c); err != nil {
				return hx.Vs{{Sig: "harness:decode", Msg: err.Error()}}
			}
			vs, _, _ := Check(c)
			return vs
		},
		"TestMySQLPrograms": replayMy,
	})
}

// waitProxyErrs gives the proxy loops a moment to report why they ended.
func waitProxyErrs(s *pgsess.Session) []string {
	for i := 0; i < 40; i++ {
		if e := s.ProxyErrors(); len(e) > 0 {
			return e
		}
		time.Sleep(5 * time.Millisecond)
	}
	return s.ProxyErrors()
}
