package c08

// H-faults: fault-injecting wrappers around the REAL keystore storages.
//
//   FaultStorage  implements filesystem.Storage (keystore v1) over filesystem.DummyStorage (the real file system)
//   FaultBackend  implements backend/api.Backend (keystore v2) over the real in-memory / directory back ends
//
// Both share one injector: while it is armed it numbers the calls and, at the planned call index,
// performs one fault: the call returns an error instead of executing; the process "crashes" just
// before the call; just after it; or (calls that carry data) a torn write: a prefix of the data is
// written, then the process crashes. A crash is a panic with the private crashSignal, recovered at
// the top of the case. From that moment the wrapper is dead: it releases what the operating system
// would release when a process dies (the store lock), and every later call through it - the
// deferred unlocks and clean-ups that run while the panic unwinds would never run in a dead process -
// returns errDead without touching the storage.

import (
	"errors"
	"os"
	"syscall"

	"github.com/cossacklabs/acra/keystore/filesystem"
	backendapi "github.com/cossacklabs/acra/keystore/v2/keystore/filesystem/backend/api"
)

// Fault kinds.
const (
	KindError       = "error"        // the call returns an error instead of executing
	KindCrashBefore = "crash-before" // the process dies just before the call
	KindCrashAfter  = "crash-after"  // the process dies just after the call
	KindTorn        = "torn"         // the call writes a prefix of its data, then the process dies
)

// Kinds lists the fault kinds.
var Kinds = []string{KindError, KindCrashBefore, KindCrashAfter, KindTorn}

// Fault is one planned fault.
type Fault struct {
	K      int    `json:"k"`                // index of the storage/back-end call of the write operation: taken modulo the number of calls N it makes
	Window bool   `json:"window,omitempty"` // K counts from the first storage-changing call of W, modulo the calls up to its last one (sampling inside the half-done window)
	Kind   string `json:"kind"`             // error | crash-before | crash-after | torn
	Torn   int    `json:"torn,omitempty"`   // torn: per cent of the data that reaches the storage (0..99; at least one byte is always cut)
}

type crashSignal struct{}

var (
	errDead = errors.New("c08: the process is dead")
	// errInjectedV2 is what a failing v2 back-end call returns (none of the api.Err* sentinels).
	errInjectedV2 = errors.New("c08: injected I/O error")
)

// errInjectedV1 is what a failing v1 storage call returns: an I/O error as the os package reports it.
func errInjectedV1(op, path string) error {
	return &os.PathError{Op: op, Path: path, Err: syscall.EIO}
}

// call is one recorded storage/back-end call.
type call struct {
	Name string
	Path string
	Mut  bool // changes the storage (creating a directory that may already exist does not count)
	Data bool // carries data: a torn write is possible
}

type action int

const (
	actPass action = iota
	actDead
	actError
	actTorn
)

type injector struct {
	armed   bool
	plan    *Fault
	calls   []call
	fired   bool
	firedAt int
	dead    bool
	pending bool   // crash after the current call
	release func() // what the operating system does when the process dies
	rel     func(string) string
}

func newInjector(plan *Fault, rel func(string) string) *injector {
	return &injector{plan: plan, rel: rel, firedAt: -1}
}

func (in *injector) arm()    { in.armed = true }
func (in *injector) disarm() { in.armed = false }

func (in *injector) crash() {
	in.dead = true
	in.armed = false
	if in.release != nil {
		in.release()
	}
	panic(crashSignal{})
}

// before is called at the top of every wrapped method.
func (in *injector) before(name, path string, mut, data bool) action {
	if in.dead {
		return actDead
	}
	if !in.armed {
		return actPass
	}
	idx := len(in.calls)
	if in.rel != nil {
		path = in.rel(path)
	}
	in.calls = append(in.calls, call{name, path, mut, data})
	if in.plan == nil || in.fired || idx != in.plan.K {
		return actPass
	}
	in.fired, in.firedAt = true, idx
	switch in.plan.Kind {
	case KindError:
		return actError
	case KindCrashBefore:
		in.crash()
	case KindCrashAfter:
		in.pending = true
	case KindTorn:
		if data {
			return actTorn
		}
		in.pending = true // no data to tear: the call completes, then the process dies
	}
	return actPass
}

// after is called when the real call has returned.
func (in *injector) after() {
	if in.pending {
		in.pending = false
		in.crash()
	}
}

// cut is the length of the prefix a torn write stores.
func (in *injector) cut(n int) int {
	if n == 0 {
		return 0
	}
	c := n * in.plan.Torn / 100
	if c >= n {
		c = n - 1
	}
	if c < 0 {
		c = 0
	}
	return c
}

// ---------------------------------------------------------------------------------------------
// keystore v1

// FaultStorage wraps a real filesystem.Storage.
type FaultStorage struct {
	real filesystem.Storage
	in   *injector
}

var _ filesystem.Storage = (*FaultStorage)(nil)

func (f *FaultStorage) Stat(path string) (os.FileInfo, error) {
	switch f.in.before("Stat", path, false, false) {
	case actDead:
		return nil, errDead
	case actError:
		return nil, errInjectedV1("stat", path)
	}
	fi, err := f.real.Stat(path)
	f.in.after()
	return fi, err
}

func (f *FaultStorage) Exists(path string) (bool, error) {
	switch f.in.before("Exists", path, false, false) {
	case actDead:
		return false, errDead
	case actError:
		return false, errInjectedV1("stat", path)
	}
	ok, err := f.real.Exists(path)
	f.in.after()
	return ok, err
}

func (f *FaultStorage) ReadDir(path string) ([]os.FileInfo, error) {
	switch f.in.before("ReadDir", path, false, false) {
	case actDead:
		return nil, errDead
	case actError:
		return nil, errInjectedV1("readdir", path)
	}
	fis, err := f.real.ReadDir(path)
	f.in.after()
	return fis, err
}

func (f *FaultStorage) MkdirAll(path string, perm os.FileMode) error {
	switch f.in.before("MkdirAll", path, false, false) {
	case actDead:
		return errDead
	case actError:
		return errInjectedV1("mkdir", path)
	}
	err := f.real.MkdirAll(path, perm)
	f.in.after()
	return err
}

func (f *FaultStorage) Rename(oldpath, newpath string) error {
	switch f.in.before("Rename", newpath, true, false) {
	case actDead:
		return errDead
	case actError:
		return &os.LinkError{Op: "rename", Old: oldpath, New: newpath, Err: syscall.EIO}
	}
	err := f.real.Rename(oldpath, newpath)
	f.in.after()
	return err
}

func (f *FaultStorage) TempFile(pattern string, perm os.FileMode) (string, error) {
	switch f.in.before("TempFile", pattern, true, false) {
	case actDead:
		return "", errDead
	case actError:
		return "", errInjectedV1("open", pattern)
	}
	name, err := f.real.TempFile(pattern, perm)
	f.in.after()
	return name, err
}

func (f *FaultStorage) TempDir(pattern string, perm os.FileMode) (string, error) {
	switch f.in.before("TempDir", pattern, true, false) {
	case actDead:
		return "", errDead
	case actError:
		return "", errInjectedV1("mkdir", pattern)
	}
	name, err := f.real.TempDir(pattern, perm)
	f.in.after()
	return name, err
}

func (f *FaultStorage) Link(oldpath, newpath string) error {
	switch f.in.before("Link", newpath, true, false) {
	case actDead:
		return errDead
	case actError:
		return &os.LinkError{Op: "link", Old: oldpath, New: newpath, Err: syscall.EIO}
	}
	err := f.real.Link(oldpath, newpath)
	f.in.after()
	return err
}

func (f *FaultStorage) Copy(src, dst string) error {
	switch f.in.before("Copy", dst, true, true) {
	case actDead:
		return errDead
	case actError:
		return errInjectedV1("open", dst)
	case actTorn:
		if data, err := os.ReadFile(src); err == nil {
			if w, err := os.OpenFile(dst, os.O_WRONLY|os.O_CREATE|os.O_EXCL, 0o600); err == nil {
				w.Write(data[:f.in.cut(len(data))])
				w.Close()
			}
		}
		f.in.crash()
	}
	err := f.real.Copy(src, dst)
	f.in.after()
	return err
}

func (f *FaultStorage) ReadFile(path string) ([]byte, error) {
	switch f.in.before("ReadFile", path, false, false) {
	case actDead:
		return nil, errDead
	case actError:
		return nil, errInjectedV1("read", path)
	}
	b, err := f.real.ReadFile(path)
	f.in.after()
	return b, err
}

func (f *FaultStorage) WriteFile(path string, data []byte, perm os.FileMode) error {
	switch f.in.before("WriteFile", path, true, true) {
	case actDead:
		return errDead
	case actError:
		return errInjectedV1("write", path)
	case actTorn:
		f.real.WriteFile(path, data[:f.in.cut(len(data))], perm)
		f.in.crash()
	}
	err := f.real.WriteFile(path, data, perm)
	f.in.after()
	return err
}

func (f *FaultStorage) Remove(path string) error {
	switch f.in.before("Remove", path, true, false) {
	case actDead:
		return errDead
	case actError:
		return errInjectedV1("remove", path)
	}
	err := f.real.Remove(path)
	f.in.after()
	return err
}

func (f *FaultStorage) RemoveAll(path string) error {
	switch f.in.before("RemoveAll", path, true, false) {
	case actDead:
		return errDead
	case actError:
		return errInjectedV1("remove", path)
	}
	err := f.real.RemoveAll(path)
	f.in.after()
	return err
}

// ---------------------------------------------------------------------------------------------
// keystore v2

// FaultBackend wraps a real back end (backend.InMemory or backend.DirectoryBackend).
//
// Locks: the wrapper knows which lock the handle holds; when the process dies the lock is released
// on the real back end, as the operating system releases a flock (otherwise the restarted keystore,
// which lives in the same test process, could never lock the store again). An injected error on
// Lock/RLock does not take the lock. An injected error on Unlock/RUnlock still releases it - the real
// file lock also gives up its in-process mutex when flock(LOCK_UN) fails - otherwise the fault would
// wedge the handle by construction.
type FaultBackend struct {
	real       backendapi.Backend
	in         *injector
	held       int  // 0 none, 1 shared, 2 exclusive
	closeOnDie bool // the real back end belongs to this handle only (directory back end)
	closed     bool
}

var _ backendapi.Backend = (*FaultBackend)(nil)

func newFaultBackend(real backendapi.Backend, in *injector, closeOnDie bool) *FaultBackend {
	f := &FaultBackend{real: real, in: in, closeOnDie: closeOnDie}
	in.release = f.die
	return f
}

func (f *FaultBackend) die() {
	switch f.held {
	case 2:
		f.real.Unlock()
	case 1:
		f.real.RUnlock()
	}
	f.held = 0
	if f.closeOnDie && !f.closed {
		f.closed = true
		f.real.Close()
	}
}

func (f *FaultBackend) Get(path string) ([]byte, error) {
	switch f.in.before("Get", path, false, false) {
	case actDead:
		return nil, errDead
	case actError:
		return nil, errInjectedV2
	}
	b, err := f.real.Get(path)
	f.in.after()
	return b, err
}

func (f *FaultBackend) Put(path string, data []byte) error {
	switch f.in.before("Put", path, true, true) {
	case actDead:
		return errDead
	case actError:
		return errInjectedV2
	case actTorn:
		f.real.Put(path, append([]byte(nil), data[:f.in.cut(len(data))]...))
		f.in.crash()
	}
	err := f.real.Put(path, data)
	f.in.after()
	return err
}

func (f *FaultBackend) ListAll() ([]string, error) {
	switch f.in.before("ListAll", "", false, false) {
	case actDead:
		return nil, errDead
	case actError:
		return nil, errInjectedV2
	}
	l, err := f.real.ListAll()
	f.in.after()
	return l, err
}

func (f *FaultBackend) Rename(oldpath, newpath string) error {
	switch f.in.before("Rename", newpath, true, false) {
	case actDead:
		return errDead
	case actError:
		return errInjectedV2
	}
	err := f.real.Rename(oldpath, newpath)
	f.in.after()
	return err
}

func (f *FaultBackend) RenameNX(oldpath, newpath string) error {
	switch f.in.before("RenameNX", newpath, true, false) {
	case actDead:
		return errDead
	case actError:
		return errInjectedV2
	}
	err := f.real.RenameNX(oldpath, newpath)
	f.in.after()
	return err
}

func (f *FaultBackend) Lock() error {
	switch f.in.before("Lock", "", false, false) {
	case actDead:
		return errDead
	case actError:
		return errInjectedV2
	}
	err := f.real.Lock()
	if err == nil {
		f.held = 2
	}
	f.in.after()
	return err
}

func (f *FaultBackend) RLock() error {
	switch f.in.before("RLock", "", false, false) {
	case actDead:
		return errDead
	case actError:
		return errInjectedV2
	}
	err := f.real.RLock()
	if err == nil {
		f.held = 1
	}
	f.in.after()
	return err
}

func (f *FaultBackend) Unlock() error {
	switch f.in.before("Unlock", "", false, false) {
	case actDead:
		return errDead
	case actError:
		f.real.Unlock()
		f.held = 0
		return errInjectedV2
	}
	err := f.real.Unlock()
	f.held = 0
	f.in.after()
	return err
}

func (f *FaultBackend) RUnlock() error {
	switch f.in.before("RUnlock", "", false, false) {
	case actDead:
		return errDead
	case actError:
		f.real.RUnlock()
		f.held = 0
		return errInjectedV2
	}
	err := f.real.RUnlock()
	f.held = 0
	f.in.after()
	return err
}

// Close is never a fault point (it is not part of a write operation).
func (f *FaultBackend) Close() error {
	if f.closed {
		return nil
	}
	if f.closeOnDie {
		f.closed = true
		return f.real.Close()
	}
	return nil
}
