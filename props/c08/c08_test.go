// Package c08: a crash or I/O failure during a keystore write never loses or corrupts keys.
package c08

import (
	"bytes"
	"encoding/json"
	"flag"
	"fmt"
	"os"
	"regexp"
	"runtime/debug"
	"sort"
	"strings"
	"sync"
	"testing"
	"time"

	"github.com/cossacklabs/themis/gothemis/keys"
	"pgregory.net/rapid"

	"github.com/cossacklabs/acra/acrastruct"
	"github.com/cossacklabs/acra/keystore"
	v2api "github.com/cossacklabs/acra/keystore/v2/keystore/api"
	"github.com/cossacklabs/acra/keystore/v2/keystore/asn1"
	"github.com/cossacklabs/acra/keystore/v2/keystore/filesystem/backend"
	backendapi "github.com/cossacklabs/acra/keystore/v2/keystore/filesystem/backend/api"

	"verif/internal/fix"
	"verif/internal/hx"
	"verif/internal/kshist"
)

var R = hx.New("C08")

func TestMain(m *testing.M) {
	code := R.Main(m)
	if collect {
		var sigs []string
		for s := range collected {
			sigs = append(sigs, s)
		}
		sort.Strings(sigs)
		for _, s := range sigs {
			fmt.Printf("COLLECTED %5d  %s\n        e.g. %s\n", collected[s].n, s, collected[s].msg)
		}
	}
	os.Exit(code)
}

// collect (development aid, C08_COLLECT=1): count every signature instead of stopping at the first violation.
var (
	collect   = os.Getenv("C08_COLLECT") != ""
	collected = map[string]*struct {
		n   int
		msg string
	}{}
)

// ---------------------------------------------------------------------------------------------
// Case

// Write operations W.
const (
	WGen            = "gen"            // generate, or rotate when the key exists
	WDestroyCurrent = "destroyCurrent" // destroy the current key
	WDestroyRotated = "destroyRotated" // destroy a rotated key by the index its listing row shows
	WImport         = "import"         // v2: ImportKeyRings of one exported key ring
	WRingGen        = "ringGen"        // v2: AddKey + SetCurrent on one key ring object (what generate does), retried on the SAME ring object after an error
)

// WriteOp is the write operation that is hit by the fault.
type WriteOp struct {
	Op    string `json:"op"`
	Key   string `json:"key"`             // key kind
	ID    string `json:"id,omitempty"`    // client id for per-client kinds
	Index int    `json:"index,omitempty"` // destroyRotated: position in the key's rotated listing (mod its length), resolved at run time
	Gens  int    `json:"gens,omitempty"`  // import: generations in the imported key ring
}

// KeyRef names a key.
type KeyRef struct {
	Key string `json:"key"`
	ID  string `json:"id,omitempty"`
}

// Follow-up steps after the restart.
const (
	FRetry       = "retry"       // run W again (only when the faulted W left the key in its old state); it must complete
	FGenSame     = "genSame"     // generate the key W worked on
	FGenOther    = "genOther"    // generate another key
	FList        = "list"        // ListKeys
	FListRotated = "listRotated" // ListRotatedKeys
	FReadAll     = "readAll"     // read every key
)

var allFollow = []string{FRetry, FGenSame, FGenOther, FList, FListRotated, FReadAll}

// Case is one fault case.
type Case struct {
	Fixture string      `json:"fixture"` // v1/cache=off | v1/cache=inf | v2/mem | v2/dir
	IDs     []string    `json:"ids"`
	History []kshist.Op `json:"history"` // prior history, run without faults
	W       WriteOp     `json:"w"`
	Fault   Fault       `json:"fault"`
	Fresh   bool        `json:"fresh,omitempty"` // fault kind "error": run the follow-up on a fresh handle instead of the handle that saw the error
	Other   KeyRef      `json:"other"`           // the other key written in the follow-up
	Follow  []string    `json:"follow"`
	// Then: further faulted writes (sequence_test.go). After the restart that follows a fault the next write
	// runs through a fresh handle on the surviving storage - inside whatever recovery the first fault made
	// necessary - and is hit by its own fault; Fresh and Follow apply after the last one.
	Then []Stage `json:"then,omitempty"`
}

var idPool = []string{"alice", "bobby", "carol_1"}

func universe(ids []string) []kshist.K {
	var u []kshist.K
	for _, kind := range kshist.Kinds {
		if kshist.PerClient(kind) {
			for _, id := range ids {
				u = append(u, kshist.K{Kind: kind, ID: id})
			}
		} else {
			u = append(u, kshist.K{Kind: kind})
		}
	}
	return u
}

// ---------------------------------------------------------------------------------------------
// Observation: the state of a keystore as read through the API of a (fresh) handle.

// KS is the state of one key.
type KS struct {
	CurOK  bool
	Cur    kshist.KeyVal
	CurErr string
	PubOK  bool // pairs: the public key alone is readable
	Pub    []byte
	AllNA  bool // the API has no all-keys read for the kind
	AllOK  bool
	All    [][]byte
	AllErr string
}

type rowKey struct {
	K       kshist.K
	Part    string
	Rotated bool
}

// Snap is the state of a whole keystore.
type Snap struct {
	Keys    map[kshist.K]KS
	ListErr string
	RotErr  string
	Rows    map[rowKey]int
	Unknown []string
	Vs      hx.Vs // panics while reading
}

var digits = regexp.MustCompile(`[0-9]{6,}`)

func clean(st *store, err error) string {
	if err == nil {
		return ""
	}
	return digits.ReplaceAllString(st.scrub(err.Error()), "<n>")
}

func observeKey(st *store, fx kshist.Fixture, k kshist.K, vs *hx.Vs) KS {
	var s KS
	f := fx.Format()
	hx.Guard(vs, "read-current/"+f, func() {
		v, err := fx.Current(k.Kind, k.ID)
		if err != nil {
			s.CurErr = clean(st, err)
			return
		}
		s.CurOK, s.Cur = true, v
	})
	if kshist.IsPair(k.Kind) {
		if s.CurOK {
			s.PubOK, s.Pub = true, s.Cur.Public
		} else if k.Kind == kshist.StoragePair {
			hx.Guard(vs, "read-public/"+f, func() {
				if p, err := fx.KS().GetClientIDEncryptionPublicKey([]byte(k.ID)); err == nil && p != nil {
					s.PubOK, s.Pub = true, append([]byte(nil), p.Value...)
				}
			})
		}
	}
	if !kshist.HasAllKeys(k.Kind) {
		s.AllNA = true
		return s
	}
	hx.Guard(vs, "read-all/"+f, func() {
		a, err := fx.All(k.Kind, k.ID)
		if err != nil {
			s.AllErr = clean(st, err)
			return
		}
		s.AllOK, s.All = true, a
	})
	return s
}

func observeLists(st *store, fx kshist.Fixture, sn *Snap) {
	f := fx.Format()
	sn.Rows = map[rowKey]int{}
	sn.Unknown = nil
	sn.ListErr, sn.RotErr = "", ""
	count := func(ds []keystore.KeyDescription, rotated bool) {
		for _, d := range ds {
			k, part, ok := fx.Classify(d)
			if !ok {
				sn.Unknown = append(sn.Unknown, digits.ReplaceAllString(d.KeyID, "<n>"))
				continue
			}
			sn.Rows[rowKey{k, part, rotated}]++
		}
	}
	hx.Guard(&sn.Vs, "list-keys/"+f, func() {
		ds, err := fx.ListKeys()
		if err != nil {
			sn.ListErr = clean(st, err)
			return
		}
		count(ds, false)
	})
	hx.Guard(&sn.Vs, "list-rotated/"+f, func() {
		ds, err := fx.ListRotatedKeys()
		if err != nil {
			sn.RotErr = clean(st, err)
			return
		}
		count(ds, true)
	})
}

func observe(st *store, fx kshist.Fixture, u []kshist.K) Snap {
	sn := Snap{Keys: map[kshist.K]KS{}}
	for _, k := range u {
		sn.Keys[k] = observeKey(st, fx, k, &sn.Vs)
	}
	observeLists(st, fx, &sn)
	return sn
}

// observeFresh opens a fresh cache-less handle on the storage, reads everything, closes it.
func observeFresh(st *store, u []kshist.K) (Snap, error) {
	fx, err := st.open(nil, false)
	if err != nil {
		return Snap{}, err
	}
	defer fx.Close()
	return observe(st, fx, u), nil
}

func eqVal(a, b kshist.KeyVal) bool {
	return bytes.Equal(a.Secret, b.Secret) && bytes.Equal(a.Public, b.Public)
}

func eqList(a, b [][]byte) bool {
	if len(a) != len(b) {
		return false
	}
	for i := range a {
		if !bytes.Equal(a[i], b[i]) {
			return false
		}
	}
	return true
}

// eqKS compares what can be read: readability and values (not the error texts).
func eqKS(a, b KS) bool {
	if a.CurOK != b.CurOK || (a.CurOK && !eqVal(a.Cur, b.Cur)) {
		return false
	}
	if a.AllNA {
		return true
	}
	return a.AllOK == b.AllOK && (!a.AllOK || eqList(a.All, b.All))
}

// label renders key values relative to the values known before the fault: "old0" = current key
// before the fault, "old1".. = rotated ones, "fresh", "other:<key>".
type labeller struct {
	s0     Snap
	target kshist.K
}

func (l labeller) one(v []byte) string {
	t := l.s0.Keys[l.target]
	if t.CurOK && bytes.Equal(v, t.Cur.Secret) {
		return "old-current"
	}
	for i, x := range t.All {
		if bytes.Equal(v, x) {
			return fmt.Sprintf("old#%d", i)
		}
	}
	for k, s := range l.s0.Keys {
		if k == l.target {
			continue
		}
		if s.CurOK && bytes.Equal(v, s.Cur.Secret) {
			return "other:" + k.String()
		}
		for _, x := range s.All {
			if bytes.Equal(v, x) {
				return "other:" + k.String()
			}
		}
	}
	return "fresh"
}

func (l labeller) list(vs [][]byte) string {
	s := make([]string, len(vs))
	for i, v := range vs {
		s[i] = l.one(v)
	}
	return "[" + strings.Join(s, " ") + "]"
}

func (l labeller) ks(s KS) string {
	cur := "unreadable(" + s.CurErr + ")"
	if s.CurOK {
		cur = l.one(s.Cur.Secret)
	}
	if s.AllNA {
		return "current=" + cur
	}
	all := "unreadable(" + s.AllErr + ")"
	if s.AllOK {
		all = l.list(s.All)
	}
	return "current=" + cur + " all=" + all
}

// pairWorks tells whether data protected with the public key is revealed by the private key.
func pairWorks(priv, pub []byte) bool {
	plain := []byte("c08 probe")
	as, err := acrastruct.CreateAcrastruct(plain, &keys.PublicKey{Value: append([]byte(nil), pub...)}, nil)
	if err != nil {
		return false
	}
	out, err := acrastruct.DecryptAcrastruct(as, &keys.PrivateKey{Value: append([]byte(nil), priv...)}, nil)
	return err == nil && bytes.Equal(out, plain)
}

// unusable: the keystore offers a public key, but what gets protected with it cannot be revealed
// with any private key it offers.
func unusable(k kshist.K, s KS) bool {
	return kshist.IsPair(k.Kind) && s.PubOK && !(s.AllOK && anyPrivWorks(s.All, s.Pub))
}

func anyPrivWorks(privs [][]byte, pub []byte) bool {
	for _, p := range privs {
		if pairWorks(p, pub) {
			return true
		}
	}
	return false
}

// ---------------------------------------------------------------------------------------------
// Running one operation under the watchdog

type wResult struct {
	err      error
	crashed  bool
	panicked any
	site     string
	hang     bool
}

var (
	hangMu   sync.Mutex
	hangSeen string
)

// guarded runs f on its own goroutine: a crashSignal panic is the simulated crash, any other panic
// is reported, and an operation that does not return is inconclusive (never a violation).
func guarded(what string, f func() error) wResult {
	ch := make(chan wResult, 1)
	go func() {
		var r wResult
		defer func() {
			if p := recover(); p != nil {
				if _, ok := p.(crashSignal); ok {
					r.crashed = true
				} else {
					r.panicked = p
					r.site = hx.PanicFunc(string(debug.Stack()))
				}
			}
			ch <- r
		}()
		r.err = f()
	}()
	select {
	case r := <-ch:
		return r
	case <-time.After(60 * time.Second):
		hangMu.Lock()
		hangSeen = what
		hangMu.Unlock()
		return wResult{hang: true}
	}
}

// ---------------------------------------------------------------------------------------------
// A prepared (history, W) pair

type pair struct {
	c         Case
	base      *store
	u         []kshist.K // all keys of the case's client ids
	rel       []kshist.K // the keys read after the fault: those readable before, the key written, the other key of the follow-up (the rest is watched through the listings)
	target    kshist.K
	other     kshist.K
	s0, s1    Snap
	known     map[string]bool
	calls     []call // calls of the fault-free W
	firstMut  int
	lastMut   int
	skip      string // non-empty: the pair cannot be used (W not applicable, collision, ...)
	export    []byte // import: the exported key ring
	overwrite bool   // import: the key ring exists, the import overwrites it
	lab       labeller
	depth     int    // number of faults that hit the storage before this pair's W (sequence_test.go)
	pre       string // what happened before W, for messages
	again     bool   // depth > 0: W repeats the write of the previous stage, which left its key in the old state
	fellBack  bool   // depth > 0: the write drawn for this stage is not applicable to the state, generate replaces it
	fpNew     string // fingerprint of the storage after the fault-free W (relative to the prior state)
}

func (p *pair) close() {
	if p.base != nil && p.depth == 0 {
		p.base.remove()
	}
}

func (p *pair) format() string { return p.base.format }

// applyHistory runs the prior history; errors are ignored (whether these operations behave is the
// business of C06), panics are not.
func applyHistory(fx kshist.Fixture, ops []kshist.Op) (panicked string) {
	var vs hx.Vs
	for _, op := range ops {
		op := op
		if hx.Guard(&vs, "history", func() {
			switch op.Kind {
			case kshist.OpGen:
				fx.Generate(op.Key, op.ID)
			case kshist.OpReadCurrent:
				fx.Current(op.Key, op.ID)
			case kshist.OpReadAll:
				fx.All(op.Key, op.ID)
			case kshist.OpList:
				fx.ListKeys()
			case kshist.OpListRotated:
				fx.ListRotatedKeys()
			case kshist.OpDestroyCurrent:
				if kshist.Destroyable(op.Key) {
					fx.DestroyCurrent(op.Key, op.ID)
				}
			case kshist.OpDestroyRotated:
				if kshist.Destroyable(op.Key) {
					if idx, ok := rotatedIndex(fx, kshist.K{Kind: op.Key, ID: op.ID}, op.Index); ok {
						fx.DestroyRotated(op.Key, op.ID, idx)
					}
				}
			case kshist.OpReset:
				fx.Reset()
			case kshist.OpReopen:
				fx.Reopen()
			}
		}) {
			return vs[0].Sig + ": " + vs[0].Msg
		}
	}
	return ""
}

// rotatedIndex resolves "the pos-th rotated key of k" to the index its listing row shows.
func rotatedIndex(fx kshist.Fixture, k kshist.K, pos int) (int, bool) {
	ds, err := fx.ListRotatedKeys()
	if err != nil {
		return 0, false
	}
	var idx []int
	for _, d := range ds {
		if dk, part, ok := fx.Classify(d); ok && dk == k && part == "" {
			idx = append(idx, d.Index)
		}
	}
	if len(idx) == 0 {
		return 0, false
	}
	sort.Ints(idx)
	return idx[pos%len(idx)], true
}

func ringPath(k kshist.K) string {
	switch k.Kind {
	case kshist.StoragePair:
		return "client/" + k.ID + "/storage"
	case kshist.StorageSym:
		return "client/" + k.ID + "/storage-sym"
	case kshist.HMAC:
		return "client/" + k.ID + "/hmac-sym"
	case kshist.PoisonPair:
		return "poison-record"
	case kshist.PoisonSym:
		return "poison-record-sym"
	}
	return "audit-log"
}

type overwriteDelegate struct{}

func (overwriteDelegate) DecideKeyRingOverwrite(currentData, newData *asn1.KeyRing) (v2api.ImportDecision, error) {
	return v2api.ImportOverwrite, nil
}

// wrun is one execution of W on a storage.
type wrun struct {
	fx    kshist.Fixture
	in    *injector
	res   wResult
	skip  string // W is not applicable to this state
	ring  v2api.MutableKeyRing
	added []kshist.KeyVal // ringGen: the key values the harness handed to AddKey, in order
}

func newKeyDesc(k kshist.K) (v2api.KeyDescription, kshist.KeyVal, error) {
	now := time.Now()
	d := v2api.KeyDescription{ValidSince: now, ValidUntil: now.Add(365 * 24 * time.Hour)}
	if kshist.IsPair(k.Kind) {
		kp, err := keys.New(keys.TypeEC)
		if err != nil {
			return d, kshist.KeyVal{}, err
		}
		d.Data = []v2api.KeyData{{Format: v2api.ThemisKeyPairFormat, PublicKey: append([]byte(nil), kp.Public.Value...), PrivateKey: append([]byte(nil), kp.Private.Value...)}}
		return d, kshist.KeyVal{Secret: append([]byte(nil), kp.Private.Value...), Public: append([]byte(nil), kp.Public.Value...)}, nil
	}
	key, err := keystore.GenerateSymmetricKey()
	if err != nil {
		return d, kshist.KeyVal{}, err
	}
	d.Data = []v2api.KeyData{{Format: v2api.ThemisSymmetricKeyFormat, SymmetricKey: append([]byte(nil), key...)}}
	return d, kshist.KeyVal{Secret: append([]byte(nil), key...)}, nil
}

// ringGen is what the v2 keystore does to generate a key, on a ring object the caller keeps.
func ringGen(ring v2api.MutableKeyRing, d v2api.KeyDescription) error {
	i, err := ring.AddKey(d)
	if err != nil {
		return err
	}
	return ring.SetCurrent(i)
}

// execW opens a handle on st (through the injector) and runs W once; plan == nil counts calls only.
func (p *pair) execW(st *store, plan *Fault) *wrun {
	run := &wrun{in: newInjector(plan, st.rel)}
	fx, err := st.open(run.in, true)
	if err != nil {
		run.skip = "harness: cannot open the handle: " + err.Error()
		return run
	}
	run.fx = fx
	run.op(p, st, true)
	return run
}

// op runs W through the handle of the run; first: the faulted/measured execution (armed).
func (run *wrun) op(p *pair, st *store, armed bool) {
	w, fx, k := p.c.W, run.fx, p.target
	var f func() error
	switch w.Op {
	case WGen:
		f = func() error { return fx.Generate(k.Kind, k.ID) }
	case WDestroyCurrent:
		f = func() error { return fx.DestroyCurrent(k.Kind, k.ID) }
	case WDestroyRotated:
		idx, ok := rotatedIndex(fx, k, w.Index)
		if !ok {
			run.skip = "no rotated key of " + k.String() + " is listed"
			return
		}
		f = func() error { return fx.DestroyRotated(k.Kind, k.ID, idx) }
	case WImport:
		ms, ok := fx.KS().(v2api.MutableKeyStore)
		if !ok {
			run.skip = "import needs keystore v2"
			return
		}
		var delegate v2api.KeyRingImportDelegate
		if p.overwrite {
			delegate = overwriteDelegate{}
		}
		f = func() error { _, err := ms.ImportKeyRings(p.export, fix.V2Suite(), delegate); return err }
	case WRingGen:
		ms, ok := fx.KS().(v2api.MutableKeyStore)
		if !ok {
			run.skip = "ringGen needs keystore v2"
			return
		}
		if run.ring == nil {
			ring, err := ms.OpenKeyRingRW(ringPath(k))
			if err != nil {
				run.skip = "cannot open the key ring: " + clean(st, err)
				return
			}
			run.ring = ring
		}
		d, val, err := newKeyDesc(k)
		if err != nil {
			run.skip = "harness: " + err.Error()
			return
		}
		run.added = append(run.added, val)
		ring := run.ring
		f = func() error { return ringGen(ring, d) }
	default:
		run.skip = "harness: unknown write operation " + w.Op
		return
	}
	run.res = guarded(w.Op+"@"+st.fixture, func() error {
		if armed {
			run.in.arm()
			defer run.in.disarm()
		}
		return f()
	})
}

// prepare builds the prior state, observes it (S0), measures W on a copy (N, call list) and
// observes the state a fault-free W leads to (S1).
func prepare(c Case) (*pair, hx.Vs) {
	var vs hx.Vs
	p := &pair{c: c, u: universe(c.IDs), target: kshist.K{Kind: c.W.Key, ID: c.W.ID}, other: kshist.K{Kind: c.Other.Key, ID: c.Other.ID}}
	base, err := newStore(c.Fixture)
	if err != nil {
		vs.Add("harness:store", "cannot create storage for %q: %v", c.Fixture, err)
		return p, vs
	}
	base.ids = c.IDs
	p.base = base
	fail := func(what string, err error) (*pair, hx.Vs) {
		vs.Add("harness:"+what, "%s: %v", c.Fixture, err)
		return p, vs
	}
	if (c.W.Op == WImport || c.W.Op == WRingGen) && base.format != "v2" {
		p.skip = c.W.Op + " is a keystore v2 operation"
		return p, vs
	}
	if (c.W.Op == WDestroyCurrent || c.W.Op == WDestroyRotated) && !kshist.Destroyable(c.W.Key) {
		p.skip = "the keystore API cannot destroy " + c.W.Key + " keys"
		return p, vs
	}
	// prior history, through a plain handle of the fixture's configuration
	fx, err := base.open(nil, true)
	if err != nil {
		return fail("open", err)
	}
	msg := applyHistory(fx, c.History)
	fx.Close()
	if msg != "" {
		p.skip = "panic in the prior history (reported by C06): " + msg
		return p, vs
	}
	// S0: the prior state as a fresh cache-less handle reads it (v2: reading a poison key creates its
	// empty key ring, so those rings exist in every copy of the prior state)
	p.s0, err = observeFresh(base, p.u)
	if err != nil {
		return fail("observe", err)
	}
	if len(p.s0.Vs) > 0 {
		p.skip = "panic while reading the prior state (reported by C06): " + p.s0.Vs[0].Msg
		return p, vs
	}
	if p.s0.ListErr != "" || p.s0.RotErr != "" {
		p.skip = "the prior state cannot be listed (reported by C06): " + p.s0.ListErr + p.s0.RotErr
		return p, vs
	}
	for _, k := range p.u {
		if s := p.s0.Keys[k]; s.CurOK || s.PubOK || len(s.All) > 0 || k == p.target || k == p.other {
			p.rel = append(p.rel, k)
		}
	}
	p.lab = labeller{p.s0, p.target}
	p.known = map[string]bool{}
	for _, s := range p.s0.Keys {
		if s.CurOK {
			p.known[string(s.Cur.Secret)] = true
		}
		for _, v := range s.All {
			p.known[string(v)] = true
		}
	}
	// import: a donor keystore holds the key ring that is exported and imported
	if c.W.Op == WImport {
		if err := p.prepareImport(); err != nil {
			return fail("donor", err)
		}
	}
	p.measure(&vs)
	return p, vs
}

// prepareImport fills a donor keystore with the key ring that is exported and imported.
func (p *pair) prepareImport() error {
	donorMem := backend.NewInMemory()
	donor, err := kshist.NewV2On("v2/mem", func() (backendapi.Backend, error) { return donorMem, nil })
	if err != nil {
		return err
	}
	n := p.c.W.Gens
	if n < 1 {
		n = 1
	}
	for i := 0; i < n; i++ {
		if err := donor.Generate(p.target.Kind, p.target.ID); err != nil {
			donor.Close()
			return err
		}
	}
	ms := donor.KS().(v2api.MutableKeyStore)
	p.export, err = ms.ExportKeyRings([]string{ringPath(p.target)}, fix.V2Suite(), keystore.ExportPrivateKeys)
	donor.Close()
	if err != nil {
		return err
	}
	p.markOverwrite()
	return nil
}

// markOverwrite tells whether the key ring that is imported exists in the prior state.
func (p *pair) markOverwrite() {
	p.overwrite = false
	for _, f := range p.base.files() {
		if f == ringPath(p.target)+".keyring" {
			p.overwrite = true
		}
	}
}

// measure runs the fault-free W on a copy of the prior state: N, the call list, S1.
func (p *pair) measure(out *hx.Vs) {
	c, base := p.c, p.base
	vs := *out
	defer func() { *out = vs }()
	fail := func(what string, err error) {
		vs.Add("harness:"+what, "%s: %v", c.Fixture, err)
	}
	dry, err := base.clone()
	if err != nil {
		fail("clone", err)
		return
	}
	defer dry.remove()
	run := p.execW(dry, nil)
	if run.fx != nil {
		defer func() {
			if run.fx != nil {
				run.fx.Close()
			}
		}()
	}
	if run.skip != "" {
		p.skip = run.skip
		return
	}
	switch {
	case run.res.hang:
		p.skip = "inconclusive: the fault-free write did not return"
		run.fx = nil
		return
	case run.res.panicked != nil:
		vs.Add("panic:fault-free-"+c.W.Op+"/"+base.format+"@"+run.res.site, "%s: panic in the fault-free %s: %v", c.Fixture, describeW(p), run.res.panicked)
		return
	case run.res.err != nil:
		e := clean(dry, run.res.err)
		genLike := c.W.Op == WGen || c.W.Op == WRingGen || c.W.Op == WImport
		if genLike && base.format == "v1" && strings.Contains(e, "file exists") {
			p.skip = "collision: two v1 history files with the same time stamp"
			return
		}
		if p.depth > 0 && (genLike || p.again) {
			// "the keystore keeps accepting further writes": generate/import can always be applied, and a write
			// that succeeded on the state before the fault must succeed on the same state after it
			sig := "write-after-fault-fails:" + c.W.Op + "@" + base.format
			if len(dry.leftoversNow()) > 0 && strings.Contains(e, "already exists") {
				sig = "stale-temp-file:write-blocked@" + base.format
			}
			vs.Add(sig, "%s: %s fails without a fault of its own: %s (files that belong to no key: %v)", c.Fixture, describeW(p), e, dry.leftoversNow())
			return
		}
		if genLike {
			vs.Add("fault-free-write-failed:"+c.W.Op+"@"+base.format, "%s: %s fails without any fault: %s", c.Fixture, describeW(p), e)
			return
		}
		p.skip = "W is not applicable: " + e
		return
	}
	p.calls = run.in.calls
	p.firstMut, p.lastMut = -1, -1
	for i, cl := range p.calls {
		if cl.Mut {
			if p.firstMut < 0 {
				p.firstMut = i
			}
			p.lastMut = i
		}
	}
	if len(p.calls) == 0 {
		p.skip = "W makes no storage call"
		return
	}
	run.fx.Close()
	run.fx = nil
	p.fpNew = dry.fingerprint(base)
	p.s1, err = observeFresh(dry, p.rel)
	if err != nil {
		fail("observe", err)
		return
	}
	// the fault-free write itself must not lose anything (sanity of S1, and of the oracle's reference)
	p.checkAgainst(dry, p.s1, run, "fault-free", "no fault", &vs, true)
}

func describeW(p *pair) string {
	w := p.c.W
	d := fmt.Sprintf("%s(%s)", w.Op, p.target)
	switch w.Op {
	case WDestroyRotated:
		d = fmt.Sprintf("%s(%s#%d)", w.Op, p.target, w.Index)
	case WImport:
		d = fmt.Sprintf("%s(%s, %d generations)", w.Op, p.target, w.Gens)
	}
	if p.pre != "" {
		return p.pre + "; after the restart " + d
	}
	return d
}

// normalise maps the generated fault onto the N calls of W.
func (p *pair) normalise(f Fault) Fault {
	n := len(p.calls)
	if f.K < 0 {
		f.K = -f.K
	}
	if f.Window && p.firstMut >= 0 {
		f.K = p.firstMut + f.K%(p.lastMut-p.firstMut+1)
	} else {
		f.K = f.K % n
	}
	f.Window = false
	if f.Kind == KindTorn && !p.calls[f.K].Data {
		f.Kind = KindCrashAfter
	}
	if f.Kind != KindTorn {
		f.Torn = 0
	}
	return f
}

// halfDone is the non-trivial rule: at the fault, at least one storage-changing call of W has been
// executed (wholly or as a torn write) and at least one has not.
func (p *pair) halfDone(f Fault) bool {
	done, undone := false, false
	for i, cl := range p.calls {
		if !cl.Mut {
			continue
		}
		switch {
		case i < f.K:
			done = true
		case i > f.K:
			undone = true
		default:
			switch f.Kind {
			case KindCrashAfter:
				done = true
			case KindTorn:
				done, undone = true, true
			default:
				undone = true
			}
		}
	}
	return done && undone
}

func (p *pair) preexisting() int {
	n := 0
	for _, s := range p.s0.Keys {
		if s.CurOK {
			n++
		}
	}
	return n
}

func (p *pair) trace(f Fault) string {
	s := make([]string, len(p.calls))
	for i, cl := range p.calls {
		s[i] = cl.Name
		if cl.Path != "" {
			s[i] += "(" + digits.ReplaceAllString(cl.Path, "<n>") + ")"
		}
		if i == f.K {
			s[i] = "[" + f.Kind + " -> " + s[i] + "]"
		}
	}
	return strings.Join(s, " ")
}

// ---------------------------------------------------------------------------------------------
// The oracle

type verdict struct {
	vs      hx.Vs
	outcome string // old | new | between | broken
	classes []string
}

// checkAgainst compares the state `post` (read through a fresh handle, or through the handle that
// saw the error) with S0/S1. who names the handle for messages; complete = W reported success, so
// the state must be the complete new one.
func (p *pair) checkAgainst(st *store, post Snap, run *wrun, who, fault string, vs *hx.Vs, complete bool) string {
	f := p.format()
	op := p.c.W.Op
	ctx := func() string {
		return fmt.Sprintf("%s, %s, %s, %s handle", p.c.Fixture, describeW(p), fault, who)
	}
	*vs = append(*vs, post.Vs...)
	stale := st.leftoversNow()
	// (1) every other key reads as before
	for _, k := range p.rel {
		if k == p.target {
			continue
		}
		if a, b := p.s0.Keys[k], post.Keys[k]; !eqKS(a, b) {
			sig := "other-key-changed"
			if a.CurOK && !b.CurOK || a.AllOK && !b.AllOK {
				sig = "other-key-lost"
			}
			vs.Add(sig+":"+op+"@"+f, "%s: key %s, which the operation does not touch, read %s before and reads %s now", ctx(), k, p.lab.ks(a), p.lab.ks(b))
		}
	}
	// (2) the key being written
	outcome := p.checkTarget(post.Keys[p.target], run, ctx, vs, complete)
	// (3) listings
	if post.ListErr != "" {
		sig := "list-keys-error:" + op + "@" + f
		if len(stale) > 0 && strings.Contains(post.ListErr, "key purpose not recognized") {
			sig = "stale-temp-file:list-keys@" + f
		}
		vs.Add(sig, "%s: ListKeys fails: %s (files that belong to no key: %v)", ctx(), post.ListErr, stale)
	}
	if post.RotErr != "" {
		sig := "list-rotated-error:" + op + "@" + f
		if len(stale) > 0 && strings.Contains(post.RotErr, "key purpose not recognized") {
			sig = "stale-temp-file:list-rotated@" + f
		}
		vs.Add(sig, "%s: ListRotatedKeys fails: %s (files that belong to no key: %v)", ctx(), post.RotErr, stale)
	}
	if len(post.Unknown) > 0 {
		vs.Add("listing-unknown-row:"+op+"@"+f, "%s: the listings show rows that belong to no key: %v", ctx(), post.Unknown)
	}
	if post.ListErr == "" && post.RotErr == "" {
		p.checkRows(post, ctx, vs)
	}
	return outcome
}

// leftoversNow lists the stored files that belong to no key.
func (s *store) leftoversNow() []string {
	l := s.leftovers()
	for i := range l {
		l[i] = digits.ReplaceAllString(l[i], "<n>")
	}
	return l
}

func (p *pair) fresh(v []byte) bool { return !p.known[string(v)] }

// supersequence checks that want is a subsequence of got and returns the extra elements with their positions.
func supersequence(got, want [][]byte) (ok bool, extraIdx []int) {
	j := 0
	for i := range got {
		if j < len(want) && bytes.Equal(got[i], want[j]) {
			j++
			continue
		}
		extraIdx = append(extraIdx, i)
	}
	return j == len(want), extraIdx
}

func (p *pair) checkTarget(post KS, run *wrun, ctx func() string, vs *hx.Vs, complete bool) string {
	f, op, k := p.format(), p.c.W.Op, p.target
	s0, s1 := p.s0.Keys[k], p.s1.Keys[k]
	switch op {
	case WGen, WRingGen:
		outcome := "old"
		switch {
		case post.CurOK && s0.CurOK && eqVal(post.Cur, s0.Cur):
		case !post.CurOK && !s0.CurOK:
			if post.PubOK && !s0.PubOK {
				outcome = "between"
			}
		case !post.CurOK && s0.CurOK:
			vs.Add("current-key-lost:"+op+"@"+f, "%s: the current key of %s was readable before the fault and is unreadable now: %s (before: %s)", ctx(), k, p.lab.ks(post), p.lab.ks(s0))
			outcome = "broken"
		case p.fresh(post.Cur.Secret):
			outcome = "new"
			if kshist.IsPair(k.Kind) {
				if !p.fresh(post.Cur.Public) || !pairWorks(post.Cur.Secret, post.Cur.Public) {
					vs.Add("pair-halves-differ:"+op+"@"+f, "%s: the current private key of %s is the new one but the current public key is %s: data protected with the public key offered is not revealed by the current private key", ctx(), k, map[bool]string{true: "not its public key", false: "still the old one"}[p.fresh(post.Cur.Public)])
					outcome = "between"
				}
			} else if len(post.Cur.Secret) == 0 {
				vs.Add("new-key-empty:"+op+"@"+f, "%s: the current key of %s is empty", ctx(), k)
				outcome = "broken"
			}
			if op == WRingGen && len(run.added) > 0 {
				if want := run.added[len(run.added)-1]; !eqVal(post.Cur, want) && !eqVal(post.Cur, run.added[0]) {
					vs.Add("foreign-current-key:"+op+"@"+f, "%s: the current key of %s is none of the keys handed to AddKey", ctx(), k)
					outcome = "broken"
				}
			}
		case kshist.IsPair(k.Kind) && s0.CurOK && bytes.Equal(post.Cur.Secret, s0.Cur.Secret):
			// old private key, other public key
			vs.Add("pair-halves-differ:"+op+"@"+f, "%s: the current private key of %s is still the old one but the public key is not its public key", ctx(), k)
			outcome = "between"
		default:
			vs.Add("foreign-current-key:"+op+"@"+f, "%s: the current key of %s is %s: neither the key before the fault nor a new key", ctx(), k, p.lab.one(post.Cur.Secret))
			outcome = "broken"
		}
		if !post.AllNA {
			switch {
			case !post.AllOK && s0.AllOK && len(s0.All) > 0:
				vs.Add("all-keys-lost:"+op+"@"+f, "%s: the all-keys read of %s returned %s before the fault and fails now: %s", ctx(), k, p.lab.list(s0.All), post.AllErr)
				outcome = "broken"
			case post.AllOK:
				ok, extra := supersequence(post.All, s0.All)
				if !ok {
					vs.Add("rotated-key-lost:"+op+"@"+f, "%s: the all-keys read of %s returned %s before the fault and %s now: a key that was readable is gone", ctx(), k, p.lab.list(s0.All), p.lab.list(post.All))
					outcome = "broken"
				}
				nfresh := 0
				for _, i := range extra {
					v := post.All[i]
					if p.fresh(v) {
						nfresh++
						if i != 0 {
							vs.Add("all-keys-order:"+op+"@"+f, "%s: the all-keys read of %s offers the new key at position %d, not first: %s", ctx(), k, i, p.lab.list(post.All))
						}
						continue
					}
					if l := p.lab.one(v); strings.HasPrefix(l, "other:") {
						vs.Add("foreign-key-in-all:"+op+"@"+f, "%s: the all-keys read of %s offers a key of another owner: %s", ctx(), k, p.lab.list(post.All))
						outcome = "broken"
					}
				}
				if nfresh > 1 {
					vs.Add("phantom-key:"+op+"@"+f, "%s: the all-keys read of %s offers %d new keys after one write: %s", ctx(), k, nfresh, p.lab.list(post.All))
				}
				if outcome == "old" && len(extra) > 0 {
					outcome = "between"
				}
				if outcome == "new" && (len(post.All) == 0 || !bytes.Equal(post.All[0], post.Cur.Secret)) {
					vs.Add("new-key-not-in-all:"+op+"@"+f, "%s: the new current key of %s is not the first key of the all-keys read %s", ctx(), k, p.lab.list(post.All))
				}
			}
		}
		// whatever public key is offered now: what gets protected with it must be revealed by a stored private key
		if unusable(k, post) && !unusable(k, s0) {
			vs.Add("pair-unusable:"+op+"@"+f, "%s: data protected with the public key of %s that the keystore offers now cannot be revealed with any private key it offers (%s)", ctx(), k, p.lab.ks(post))
			outcome = "broken"
		}
		if complete && outcome != "new" {
			vs.Add("write-reported-complete-is-not:"+op+"@"+f, "%s: the operation returned no error but %s reads %s (before: %s)", ctx(), k, p.lab.ks(post), p.lab.ks(s0))
		}
		return outcome
	default: // destroyCurrent, destroyRotated, import: the new state is known exactly from the fault-free run
		outcome := "broken"
		switch {
		case eqKS(post, s1):
			outcome = "new"
		case eqKS(post, s0):
			outcome = "old"
		case op == WImport && !s0.CurOK && !post.CurOK && (post.AllNA || !post.AllOK || len(post.All) == 0):
			outcome = "old" // nothing readable before, nothing readable now
		case f == "v1" && kshist.IsPair(k.Kind) && halfOf(post, s0, s1):
			// keystore v1 keeps the two halves of a pair in two files: one half is in the old, the other in the new state
			vs.Add("pair-halves-differ:"+op+"@"+f, "%s: the private and the public half of %s are out of step: it reads %s, public key readable: %v; before the fault %s, public key readable: %v; after a complete operation %s, public key readable: %v", ctx(), k, p.lab.ks(post), post.PubOK, p.lab.ks(s0), s0.PubOK, p.lab.ks(s1), s1.PubOK)
			outcome = "between"
		default:
			sig := "torn-state"
			for _, v := range s0.All {
				in1, inPost := false, false
				for _, x := range s1.All {
					in1 = in1 || bytes.Equal(v, x)
				}
				for _, x := range post.All {
					inPost = inPost || bytes.Equal(v, x)
				}
				if in1 && !inPost {
					sig = "rotated-key-lost"
				}
			}
			if s0.CurOK && s1.CurOK && !post.CurOK {
				sig = "current-key-lost"
			}
			vs.Add(sig+":"+op+"@"+f, "%s: %s reads %s; before the fault %s; after a complete operation %s", ctx(), k, p.lab.ks(post), p.lab.ks(s0), p.lab.ks(s1))
		}
		if unusable(k, post) && !unusable(k, s0) {
			vs.Add("pair-unusable:"+op+"@"+f, "%s: data protected with the public key of %s that the keystore offers now cannot be revealed with any private key it offers (all-keys read: %s)", ctx(), k, p.lab.ks(post))
		}
		if complete && outcome != "new" && !eqKS(s0, s1) {
			vs.Add("write-reported-complete-is-not:"+op+"@"+f, "%s: the operation returned no error but %s reads %s (a complete operation gives %s)", ctx(), k, p.lab.ks(post), p.lab.ks(s1))
		}
		return outcome
	}
}

// halfOf tells whether each half of a pair, taken alone, is in the state it has in a or in b: the
// private half is what the all-keys read shows, the public half the public key offered.
func halfOf(post, a, b KS) bool {
	priv := func(x KS) bool { return post.AllOK == x.AllOK && (!post.AllOK || eqList(post.All, x.All)) }
	pub := func(x KS) bool { return post.PubOK == x.PubOK && (!post.PubOK || bytes.Equal(post.Pub, x.Pub)) }
	return (priv(a) || priv(b)) && (pub(a) || pub(b))
}

func rowsOf(s Snap, k kshist.K) [4]int {
	return [4]int{s.Rows[rowKey{k, "", false}], s.Rows[rowKey{k, "", true}], s.Rows[rowKey{k, "pub", false}], s.Rows[rowKey{k, "pub", true}]}
}

// checkRows: the listings of untouched keys are unchanged; the rows of the key being written are
// those before the operation or those after a complete one (per listing and half: current row,
// rotated rows, and for v1 pairs the same for the public half).
func (p *pair) checkRows(post Snap, ctx func() string, vs *hx.Vs) {
	f, op := p.format(), p.c.W.Op
	for _, k := range p.u {
		a, b := rowsOf(p.s0, k), rowsOf(post, k)
		if k != p.target {
			if a != b {
				vs.Add("listing-changed:other-key:"+op+"@"+f, "%s: the listings showed [current, rotated, public current, public rotated] = %v rows for the untouched key %s and show %v now", ctx(), a, k, b)
			}
			continue
		}
		c := rowsOf(p.s1, k)
		if b == a || b == c {
			continue
		}
		each := true
		for i := range b {
			lo, hi := a[i], c[i]
			if lo > hi {
				lo, hi = hi, lo
			}
			if (op == WGen || op == WRingGen) && i%2 == 1 {
				hi = maxInt(hi, a[i]+1) // the key that was current is kept as rotated before the new one becomes current
			}
			if b[i] < lo || b[i] > hi {
				each = false
			}
		}
		switch {
		case !each:
			vs.Add("listing-rows:"+op+"@"+f, "%s: the listings show [current, rotated, public current, public rotated] = %v rows for %s; before the operation %v, after a complete one %v", ctx(), b, k, a, c)
		case f == "v1" && kshist.IsPair(k.Kind) && (b[0] != b[2] || b[1] != b[3]):
			vs.Add("pair-halves-differ:"+op+"@"+f, "%s: the private and the public half of %s are out of step: the listings show %v private rows [current, rotated] and %v public rows (before the operation %v, after a complete one %v)", ctx(), k, b[:2], b[2:], a, c)
		}
	}
}

func maxInt(a, b int) int {
	if a > b {
		return a
	}
	return b
}

// followUp runs the follow-up steps through fx (fresh handle after a crash; the handle that saw the
// error, or a fresh one, after an error).
func (p *pair) followUp(st *store, fx kshist.Fixture, run *wrun, outcome string, post Snap, fault string, vs *hx.Vs) Snap {
	f, op := p.format(), p.c.W.Op
	ctx := func(step string) string {
		return fmt.Sprintf("%s, %s, %s, follow-up %s", p.c.Fixture, describeW(p), fault, step)
	}
	blocked := func(err string) bool {
		return len(st.leftoversNow()) > 0 && strings.Contains(err, "already exists")
	}
	cur := post // the reference advances with every follow-up write
	cur.Keys = map[kshist.K]KS{}
	for k, v := range post.Keys {
		cur.Keys[k] = v
	}
	known := map[string]bool{}
	for v := range p.known {
		known[v] = true
	}
	for _, s := range post.Keys {
		if s.CurOK {
			known[string(s.Cur.Secret)] = true
		}
		for _, v := range s.All {
			known[string(v)] = true
		}
	}
	gen := func(step string, k kshist.K) {
		var err error
		var gvs hx.Vs
		if hx.Guard(&gvs, "follow-up-generate/"+f, func() { err = fx.Generate(k.Kind, k.ID) }) {
			*vs = append(*vs, gvs...)
			return
		}
		if err != nil {
			e := clean(st, err)
			sig := "write-after-fault-fails:" + step + ":" + op + "@" + f
			if blocked(e) {
				sig = "stale-temp-file:write-blocked@" + f
			}
			vs.Add(sig, "%s: generating %s fails: %s (files that belong to no key: %v)", ctx(step), k, e, st.leftoversNow())
			return
		}
		obs, oerr := st.open(nil, false)
		if oerr != nil {
			vs.Add("harness:observe", "%v", oerr)
			return
		}
		var ovs hx.Vs
		b := observeKey(st, obs, k, &ovs)
		obs.Close()
		*vs = append(*vs, ovs...)
		a := cur.Keys[k]
		lab := labeller{cur, k}
		switch {
		case !b.CurOK:
			vs.Add("generated-key-unreadable:"+step+":"+op+"@"+f, "%s: %s was generated without error but its current key is unreadable: %s", ctx(step), k, b.CurErr)
		case known[string(b.Cur.Secret)]:
			vs.Add("generated-key-not-current:"+step+":"+op+"@"+f, "%s: %s was generated without error but the current key is still %s", ctx(step), k, lab.one(b.Cur.Secret))
		case kshist.IsPair(k.Kind) && !pairWorks(b.Cur.Secret, b.Cur.Public):
			vs.Add("generated-pair-broken:"+step+":"+op+"@"+f, "%s: %s was generated without error but its public key does not match its private key", ctx(step), k)
		}
		if !b.AllNA && a.AllOK {
			if !b.AllOK {
				vs.Add("all-keys-lost:"+step+":"+op+"@"+f, "%s: after generating %s its all-keys read fails: %s", ctx(step), k, b.AllErr)
			} else if ok, _ := supersequence(b.All, a.All); !ok {
				vs.Add("rotated-key-lost:"+step+":"+op+"@"+f, "%s: generating %s lost a key: all-keys read %s before, %s after", ctx(step), k, lab.list(a.All), lab.list(b.All))
			} else if b.CurOK && (len(b.All) == 0 || !bytes.Equal(b.All[0], b.Cur.Secret)) {
				vs.Add("new-key-not-in-all:"+step+":"+op+"@"+f, "%s: the key generated for %s is not the first key of its all-keys read", ctx(step), k)
			}
		}
		cur.Keys[k] = b // the other keys are compared at the end of the follow-up
		if b.CurOK {
			known[string(b.Cur.Secret)] = true
		}
	}
	for _, step := range p.c.Follow {
		switch step {
		case FRetry:
			genLike := op == WGen || op == WRingGen
			if outcome != "old" && !(genLike && outcome == "between") {
				continue
			}
			before := len(run.added)
			retry := &wrun{fx: fx, in: run.in, added: run.added}
			if fx == run.fx {
				retry.ring = run.ring // the same handle: the same key ring object
			}
			retry.op(p, st, false)
			if retry.skip != "" {
				sig := "retry-not-possible:" + op + "@" + f
				if _, lerr := fx.ListRotatedKeys(); lerr != nil && len(st.leftoversNow()) > 0 && strings.Contains(lerr.Error(), "key purpose not recognized") {
					sig = "stale-temp-file:list-rotated@" + f
				}
				vs.Add(sig, "%s: the operation left %s in its old state but cannot be repeated: %s (files that belong to no key: %v)", ctx(step), p.target, retry.skip, st.leftoversNow())
				continue
			}
			run.added = retry.added
			switch {
			case retry.res.hang:
				continue
			case retry.res.panicked != nil:
				vs.Add("panic:retry-"+op+"/"+f+"@"+retry.res.site, "%s: panic: %v", ctx(step), retry.res.panicked)
				continue
			case retry.res.err != nil:
				e := clean(st, retry.res.err)
				sig := "retry-fails:" + op + "@" + f
				if blocked(e) {
					sig = "stale-temp-file:write-blocked@" + f
				}
				vs.Add(sig, "%s: the operation left %s in its %s state; repeating it fails: %s (files that belong to no key: %v)", ctx(step), p.target, outcome, e, st.leftoversNow())
				continue
			}
			after, oerr := observeFresh(st, p.rel)
			if oerr != nil {
				vs.Add("harness:observe", "%v", oerr)
				continue
			}
			// the repeated operation started from the state `cur`: relative to it, the complete new state is required
			q := *p
			q.s0, q.known, q.lab = cur, known, labeller{cur, p.target}
			var rvs hx.Vs
			q.checkAgainst(st, after, &wrun{added: run.added[before:]}, "fresh", fault+", then the same operation again without fault", &rvs, true)
			for i := range rvs {
				if !strings.HasPrefix(rvs[i].Sig, "stale-temp-file:") && !strings.HasPrefix(rvs[i].Sig, "pair-halves-differ:") {
					rvs[i].Sig = "retry:" + rvs[i].Sig
				}
			}
			*vs = append(*vs, rvs...)
			cur = after
			cur.Keys = map[kshist.K]KS{}
			for k, v := range after.Keys {
				cur.Keys[k] = v
			}
			for _, s := range after.Keys {
				if s.CurOK {
					known[string(s.Cur.Secret)] = true
				}
				for _, v := range s.All {
					known[string(v)] = true
				}
			}
		case FGenSame:
			gen(step, p.target)
		case FGenOther:
			gen(step, p.other)
		case FList, FListRotated:
			var sn Snap
			observeLists(st, fx, &sn)
			*vs = append(*vs, sn.Vs...)
			stale := st.leftoversNow()
			if step == FList && sn.ListErr != "" {
				sig := "list-keys-error:" + op + "@" + f
				if len(stale) > 0 && strings.Contains(sn.ListErr, "key purpose not recognized") {
					sig = "stale-temp-file:list-keys@" + f
				}
				vs.Add(sig, "%s: ListKeys fails: %s (files that belong to no key: %v)", ctx(step), sn.ListErr, stale)
			}
			if step == FListRotated && sn.RotErr != "" {
				sig := "list-rotated-error:" + op + "@" + f
				if len(stale) > 0 && strings.Contains(sn.RotErr, "key purpose not recognized") {
					sig = "stale-temp-file:list-rotated@" + f
				}
				vs.Add(sig, "%s: ListRotatedKeys fails: %s (files that belong to no key: %v)", ctx(step), sn.RotErr, stale)
			}
			if len(sn.Unknown) > 0 {
				vs.Add("listing-unknown-row:"+op+"@"+f, "%s: the listings show rows that belong to no key: %v", ctx(step), sn.Unknown)
			}
		case FReadAll:
			var rvs hx.Vs
			for _, k := range p.rel {
				if got, want := observeKey(st, fx, k, &rvs), cur.Keys[k]; !eqKS(got, want) && !fx.Cached() {
					vs.Add("read-differs:"+op+"@"+f, "%s: %s reads %s through the follow-up handle, a fresh handle read %s", ctx(step), k, labeller{cur, k}.ks(got), labeller{cur, k}.ks(want))
				}
			}
			*vs = append(*vs, rvs...)
		}
	}
	return cur
}

// Info is what a fault case reports besides violations.
type Info struct {
	Skip      string
	Fault     Fault // normalised
	N         int
	Half      bool
	Pre       int
	Outcome   string
	Pos       string // first | middle | last
	Call      string // name of the call hit
	Hang      bool
	Overwrite bool        // import: the key ring existed
	Leftovers int         // files that belong to no key on the surviving storage
	Stages    []StageInfo // sequences: the faults that came before the last one
	Stopped   string      // sequences: why the sequence was not continued
	LastOp    string      // the write hit by the (last) fault, as resolved
	FellBack  bool        // sequences: generate replaced a destroy that was not applicable
}

// struck is the state of a case after the fault has hit W and the keystore has been restarted.
type struck struct {
	vs       hx.Vs
	info     Info
	work     *store // the surviving storage
	run      *wrun  // the faulted execution (its handle is still open after fault kind "error")
	post     Snap   // the state a fresh handle reads from the surviving storage
	fdesc    string
	stop     bool // nothing more can be done with the case
	complete bool
}

func (s *struck) closeHandle() {
	if s.run != nil && s.run.fx != nil {
		s.run.fx.Close()
		s.run.fx = nil
	}
}

func (s *struck) release() {
	s.closeHandle()
	if s.work != nil {
		s.work.remove()
		s.work = nil
	}
}

// strike executes W on a copy of the prior state with the fault planted, restarts, and checks the
// state on the surviving storage against S0 / S1.
func (p *pair) strike(raw Fault) *struck {
	s := &struck{stop: true}
	vs := &s.vs
	f := p.normalise(raw)
	s.info = Info{Fault: f, N: len(p.calls), Half: p.halfDone(f), Pre: p.preexisting(), Call: p.calls[f.K].Name, Overwrite: p.overwrite, LastOp: p.c.W.Op, FellBack: p.fellBack}
	info := &s.info
	switch {
	case f.K == 0:
		info.Pos = "first"
	case f.K == len(p.calls)-1:
		info.Pos = "last"
	default:
		info.Pos = "middle"
	}
	format, op := p.format(), p.c.W.Op
	work, err := p.base.clone()
	if err != nil {
		vs.Add("harness:clone", "%v", err)
		return s
	}
	s.work = work
	fdesc := fmt.Sprintf("fault %s at call %d of %d (%s)", f.Kind, f.K, len(p.calls), p.trace(f))
	if f.Kind == KindTorn {
		fdesc = fmt.Sprintf("fault torn write (%d%% of the data) at call %d of %d (%s)", f.Torn, f.K, len(p.calls), p.trace(f))
	}
	plan := f
	run := p.execW(work, &plan)
	s.run = run
	if run.skip != "" {
		vs.Add("harness:replay-diverged", "%s: %s was applicable in the dry run but not on the copy: %s", p.c.Fixture, describeW(p), run.skip)
		return s
	}
	res := run.res
	switch {
	case res.hang:
		info.Hang = true
		run.fx = nil // the operation still runs: leave its handle alone
		return s
	case res.panicked != nil:
		vs.Add("panic:"+op+"/"+format+"@"+res.site, "%s, %s, %s: panic: %v", p.c.Fixture, describeW(p), fdesc, res.panicked)
		return s
	}
	if !run.in.fired {
		vs.Add("harness:fault-not-reached", "%s, %s: the operation made %d calls in the dry run but only %d now; %s not reached", p.c.Fixture, describeW(p), len(p.calls), len(run.in.calls), fdesc)
		return s
	}
	if f.Kind != KindError && !res.crashed {
		vs.Add("harness:no-crash", "%s, %s, %s: the crash signal did not reach the top of the case (err %v)", p.c.Fixture, describeW(p), fdesc, res.err)
		return s
	}
	if f.Kind == KindError {
		s.complete = res.err == nil
		if res.err != nil {
			fdesc += fmt.Sprintf(", the operation returned %q", clean(work, res.err))
		} else {
			fdesc += ", the operation returned no error"
		}
		// on the SAME handle: its view equals the storage
		if run.ring != nil {
			p.checkRing(work, run, fdesc, vs)
		}
		if run.fx.Cached() {
			run.fx.Reset()
		}
		hv := observe(work, run.fx, p.rel)
		fv, err := observeFresh(work, p.rel)
		if err != nil {
			vs.Add("harness:observe", "%v", err)
			return s
		}
		*vs = append(*vs, hv.Vs...)
		for _, k := range p.rel {
			if !eqKS(hv.Keys[k], fv.Keys[k]) {
				vs.Add("handle-view-differs:"+op+"@"+format, "%s, %s, %s: through the handle that saw the error %s reads %s, a fresh handle on the same storage reads %s", p.c.Fixture, describeW(p), fdesc, k, p.lab.ks(hv.Keys[k]), p.lab.ks(fv.Keys[k]))
			}
		}
	}
	s.fdesc = fdesc
	// restart: the wrapper and the handle are discarded, a fresh handle is opened on the storage (after
	// fault kind "error" the handle that saw the error may be kept for the follow-up of the last stage)
	if !(f.Kind == KindError && !p.c.Fresh && len(p.c.Then) == 0) {
		s.closeHandle()
	}
	post, err := observeFresh(work, p.rel)
	if err != nil {
		vs.Add("restart-fails:"+op+"@"+format, "%s, %s, %s: the keystore cannot be opened again: %s", p.c.Fixture, describeW(p), fdesc, clean(work, err))
		return s
	}
	s.post = post
	info.Outcome = p.checkAgainst(work, post, run, "fresh", fdesc, vs, s.complete)
	info.Leftovers = len(work.leftovers())
	s.stop = false
	return s
}

// runFault executes W on a copy of the prior state with the fault planted, restarts, and checks;
// then either the next faulted write of the sequence follows, or the follow-up.
func (p *pair) runFault(raw Fault) (hx.Vs, Info) {
	s := p.strike(raw)
	defer s.release()
	if s.stop {
		return s.vs, s.info
	}
	if len(p.c.Then) > 0 {
		return p.chain(s)
	}
	vs, info, work, run, fdesc := s.vs, s.info, s.work, s.run, s.fdesc
	format, op := p.format(), p.c.W.Op
	follow := run.fx // the handle that saw the error, if it has been kept
	if follow == nil {
		fresh, err := work.open(nil, true)
		if err != nil {
			vs.Add("restart-fails:"+op+"@"+format, "%s, %s, %s: the keystore cannot be opened again: %s", p.c.Fixture, describeW(p), fdesc, clean(work, err))
			return vs, info
		}
		defer fresh.Close()
		follow = fresh
	}
	expect := p.followUp(work, follow, run, info.Outcome, s.post, fdesc, &vs)
	// at the end everything reads as the follow-up left it and is still listable
	end, err := observeFresh(work, p.rel)
	if err == nil {
		vs = append(vs, end.Vs...)
		for _, k := range p.rel {
			if !eqKS(expect.Keys[k], end.Keys[k]) {
				vs.Add("key-changed-by-follow-up:"+op+"@"+format, "%s, %s, %s, after the follow-up %v: %s reads %s, expected %s", p.c.Fixture, describeW(p), fdesc, p.c.Follow, k, labeller{expect, k}.ks(end.Keys[k]), labeller{expect, k}.ks(expect.Keys[k]))
			}
		}
		stale := work.leftoversNow()
		for _, l := range []struct{ name, err string }{{"list-keys", end.ListErr}, {"list-rotated", end.RotErr}} {
			if l.err == "" {
				continue
			}
			sig := l.name + "-error:" + op + "@" + format
			if len(stale) > 0 && strings.Contains(l.err, "key purpose not recognized") {
				sig = "stale-temp-file:" + l.name + "@" + format
			}
			vs.Add(sig, "%s, %s, %s, after the follow-up: %s fails: %s (files that belong to no key: %v)", p.c.Fixture, describeW(p), fdesc, l.name, l.err, stale)
		}
		if len(end.Unknown) > 0 {
			vs.Add("listing-unknown-row:"+op+"@"+format, "%s, %s, %s, after the follow-up: the listings show rows that belong to no key: %v", p.c.Fixture, describeW(p), fdesc, end.Unknown)
		}
	}
	return dedup(vs), info
}

// checkRing (v2, fault kind "error", ring object kept by the caller): the ring object's own view
// equals the key ring on the storage - no key from a transaction that failed.
func (p *pair) checkRing(st *store, run *wrun, fdesc string, vs *hx.Vs) {
	ring := run.ring
	view := func(r v2api.KeyRing) (string, error) {
		seq, err := r.AllKeys()
		if err != nil {
			return "", err
		}
		cur, cerr := r.CurrentKey()
		s := fmt.Sprintf("keys %v current %d", seq, cur)
		if cerr != nil {
			s = fmt.Sprintf("keys %v no current key", seq)
		}
		return s, nil
	}
	var mine, stored string
	var err1, err2 error
	var gvs hx.Vs
	if hx.Guard(&gvs, "ring-view/v2", func() {
		mine, err1 = view(ring)
		fx, err := st.open(nil, false)
		if err != nil {
			err2 = err
			return
		}
		defer fx.Close()
		r, err := fx.KS().(v2api.MutableKeyStore).OpenKeyRing(ringPath(p.target))
		if err != nil {
			err2 = err
			return
		}
		stored, err2 = view(r)
	}) {
		*vs = append(*vs, gvs...)
		return
	}
	if err1 != nil || err2 != nil {
		vs.Add("ring-unreadable:"+p.c.W.Op+"@v2", "%s, %s, %s: key ring view: %v / %v", p.c.Fixture, describeW(p), fdesc, err1, err2)
		return
	}
	if mine != stored && run.res.err != nil {
		vs.Add("ring-view-differs:"+p.c.W.Op+"@v2", "%s, %s, %s: the key ring object whose write failed shows [%s], the key ring on the storage is [%s]: the failed transaction was not rolled back", p.c.Fixture, describeW(p), fdesc, mine, stored)
	}
}

func dedup(vs hx.Vs) hx.Vs {
	seen := map[string]bool{}
	var out hx.Vs
	for _, v := range vs {
		if !seen[v.Sig] {
			seen[v.Sig] = true
			out = append(out, v)
		}
	}
	return out
}

// Check evaluates one fault case.
func Check(c Case) (hx.Vs, Info) {
	fix.Quiet()
	p, vs := prepare(c)
	defer p.close()
	if len(vs) > 0 || p.skip != "" {
		return vs, Info{Skip: p.skip}
	}
	return p.runFault(c.Fault)
}

// ---------------------------------------------------------------------------------------------
// Generation

type shadow struct {
	total, rotated int
	current        bool
}

func shadowOf(ops []kshist.Op) map[kshist.K]*shadow {
	sh := map[kshist.K]*shadow{}
	for _, o := range ops {
		if o.Key == "" {
			continue
		}
		k := kshist.K{Kind: o.Key, ID: o.ID}
		if sh[k] == nil {
			sh[k] = &shadow{}
		}
		s := sh[k]
		switch o.Kind {
		case kshist.OpGen:
			if s.current {
				s.rotated++
			}
			s.total++
			s.current = true
		case kshist.OpDestroyCurrent:
			s.current = false
		case kshist.OpDestroyRotated:
			if s.rotated > 0 {
				s.rotated--
			}
		}
	}
	return sh
}

const maxHistory = 8

func weighted(t *rapid.T, label string, names []string, weights []int) string {
	sum := 0
	for _, w := range weights {
		sum += w
	}
	r := rapid.IntRange(0, sum-1).Draw(t, label)
	for i, w := range weights {
		if r < w {
			return names[i]
		}
		r -= w
	}
	return names[len(names)-1]
}

// forceW fixes the operation (and the key form) of a generated pair; the zero value leaves both to the generator.
type forceW struct {
	Op   string
	Form string // "", "pair", "sym"
}

// quickPairs: the (operation, key form) enumerated by each shard of the quick tier, so that every
// quick run enumerates every operation of every format (v1/cache=inf runs on even, v2/dir on odd shards).
var quickPairs = map[string][]forceW{
	"v1/cache=off": {{WGen, "sym"}, {WDestroyCurrent, "sym"}, {WDestroyRotated, "sym"}, {WGen, "pair"}, {WDestroyCurrent, "pair"}, {WDestroyRotated, "pair"}},
	"v1/cache=inf": {{WGen, "pair"}, {}, {WDestroyCurrent, "pair"}, {}, {WDestroyRotated, "pair"}, {}},
	"v2/mem":       {{WGen, ""}, {WDestroyCurrent, ""}, {WDestroyRotated, ""}, {WImport, ""}, {WRingGen, ""}, {WImport, ""}},
	"v2/dir":       {{}, {WImport, ""}, {}, {WDestroyRotated, ""}, {}, {WGen, ""}},
}

// genPair constructs fixture, ids, prior history and W (everything but the fault and the follow-up).
func genPair(t *rapid.T, fixture string, force forceW) Case {
	c := Case{Fixture: fixture}
	for i, f := range Fixtures {
		if f == fixture {
			for j := 0; j < i; j++ {
				rapid.Uint64().Draw(t, "salt")
			}
		}
	}
	v2 := strings.HasPrefix(fixture, "v2")
	c.IDs = rapid.SliceOfNDistinct(rapid.SampledFrom(idPool), 1, 2, rapid.ID[string]).Draw(t, "ids")
	c.History = kshist.GenOps(t, maxHistory, c.IDs)
	u := universe(c.IDs)
	sh := shadowOf(c.History)
	var touched []kshist.K
	for _, k := range u {
		if sh[k] != nil && sh[k].total > 0 {
			touched = append(touched, k)
		}
	}
	ops, weights := []string{WGen, WDestroyCurrent, WDestroyRotated}, []int{40, 17, 23}
	if v2 {
		ops, weights = append(ops, WImport, WRingGen), append(weights, 14, 16)
	}
	c.W.Op = weighted(t, "w.op", ops, weights)
	if force.Op != "" {
		c.W.Op = force.Op
	}
	formOK := func(k kshist.K) bool {
		return force.Form == "" || (force.Form == "pair") == kshist.IsPair(k.Kind)
	}
	pick := func(label string, destroyable bool) kshist.K {
		pool := u
		if len(touched) > 0 && rapid.IntRange(0, 9).Draw(t, label+".touched") < 7 {
			pool = touched
		}
		var ok []kshist.K
		for _, k := range pool {
			if (!destroyable || kshist.Destroyable(k.Kind)) && formOK(k) {
				ok = append(ok, k)
			}
		}
		if len(ok) == 0 {
			for _, k := range u {
				if kshist.Destroyable(k.Kind) && formOK(k) {
					ok = append(ok, k)
				}
			}
		}
		return rapid.SampledFrom(ok).Draw(t, label)
	}
	target := pick("w.key", c.W.Op == WDestroyCurrent || c.W.Op == WDestroyRotated)
	if c.W.Op == WImport && rapid.IntRange(0, 9).Draw(t, "w.import.new") < 6 {
		// import into a keystore that has no such key ring yet (the ring is created, then filled)
		var absent []kshist.K
		for _, k := range u {
			if (sh[k] == nil || sh[k].total == 0) && !strings.HasPrefix(k.Kind, "poison") {
				absent = append(absent, k)
			}
		}
		if len(absent) > 0 {
			target = rapid.SampledFrom(absent).Draw(t, "w.import.key")
		}
	}
	c.W.Key, c.W.ID = target.Kind, target.ID
	s := sh[target]
	if s == nil {
		s = &shadow{}
	}
	add := func(k kshist.K) { c.History = append(c.History, kshist.Op{Kind: kshist.OpGen, Key: k.Kind, ID: k.ID}) }
	// make W applicable by construction
	switch c.W.Op {
	case WDestroyCurrent:
		if !s.current {
			add(target)
		}
	case WDestroyRotated:
		c.W.Index = rapid.IntRange(0, 3).Draw(t, "w.index")
		if !s.current {
			add(target)
			s.current = true
			if s.total > 0 && s.rotated == 0 {
				// a regenerated key after destroy-current: older generations may survive as rotated ones
			}
		}
		for n := s.rotated; n < 1; n++ {
			add(target)
		}
		if rapid.IntRange(0, 2).Draw(t, "w.more") == 0 {
			add(target)
		}
	case WImport:
		c.W.Gens = rapid.IntRange(1, 3).Draw(t, "w.gens")
	}
	// the other key of the follow-up, and at least one key besides the one being written
	var others []kshist.K
	for _, k := range u {
		if k != target {
			others = append(others, k)
		}
	}
	other := rapid.SampledFrom(others).Draw(t, "other")
	c.Other = KeyRef{other.Kind, other.ID}
	pre := 0
	for k, x := range sh {
		if k != target && x.current {
			pre++
		}
	}
	if pre == 0 && rapid.IntRange(0, 9).Draw(t, "pre") < 9 {
		add(rapid.SampledFrom(others).Draw(t, "pre.key"))
	}
	return c
}

func genCase(t *rapid.T, fixture string) Case {
	c := genPair(t, fixture, forceW{})
	c.Fault.K = rapid.IntRange(0, 47).Draw(t, "fault.k")
	c.Fault.Window = rapid.IntRange(0, 9).Draw(t, "fault.window") < 6
	c.Fault.Kind = weighted(t, "fault.kind", Kinds, []int{30, 20, 25, 25})
	if c.Fault.Kind == KindTorn {
		c.Fault.Torn = rapid.SampledFrom([]int{0, 1, 25, 50, 75, 99}).Draw(t, "fault.torn")
	}
	if c.Fault.Kind == KindError {
		c.Fresh = rapid.IntRange(0, 3).Draw(t, "fresh") == 0
	}
	c.Follow = genFollow(t)
	c.Then = genThen(t, c)
	return c
}

func genFollow(t *rapid.T) []string {
	var f []string
	if rapid.IntRange(0, 9).Draw(t, "follow.retry") < 7 {
		f = append(f, FRetry)
	}
	rest := rapid.SliceOfNDistinct(rapid.SampledFrom(allFollow[1:]), 1, 5, rapid.ID[string]).Draw(t, "follow")
	return append(f, rest...)
}

// ---------------------------------------------------------------------------------------------
// Accounting

func classes(c Case, info Info) []string {
	if len(c.Then) > 0 {
		return seqClasses(c, info)
	}
	format := strings.SplitN(c.Fixture, "/", 2)[0]
	cl := []string{"fixture:" + c.Fixture, "op:" + c.W.Op + "@" + format}
	if info.Skip != "" {
		return append(cl, "skipped:"+strings.SplitN(info.Skip, ":", 2)[0])
	}
	if info.Hang {
		return append(cl, "inconclusive:hang")
	}
	kind := "sym"
	if kshist.IsPair(c.W.Key) {
		kind = "pair"
	}
	cl = append(cl,
		"kind:"+info.Fault.Kind+"@"+c.Fixture,
		"op-kind:"+c.W.Op+"/"+info.Fault.Kind+"@"+format,
		"op-pos:"+c.W.Op+"/"+info.Pos+"@"+format,
		"call:"+info.Call+"/"+info.Fault.Kind+"@"+format,
		"outcome:"+c.W.Op+"/"+info.Outcome+"@"+format,
		"key:"+c.W.Key+"@"+format,
		"keyform:"+c.W.Op+"/"+kind+"@"+format,
	)
	if c.W.Op == WImport {
		cl = append(cl, map[bool]string{true: "import:overwrites-existing-ring", false: "import:creates-ring"}[info.Overwrite])
	}
	if info.Half {
		cl = append(cl, "half-done:"+c.W.Op+"/"+info.Fault.Kind+"@"+c.Fixture)
	}
	if info.Fault.Kind == KindError {
		cl = append(cl, map[bool]string{true: "error-followup:fresh-handle", false: "error-followup:same-handle"}[c.Fresh])
	}
	return cl
}

func nontrivial(info Info) bool { return info.Skip == "" && !info.Hang && info.Half && info.Pre >= 1 }

// stats of the measured N per fixture/operation/key form, for the evidence notes.
var (
	statMu sync.Mutex
	nStat  = map[string]map[int]int{}
)

func noteN(c Case, n int) {
	form := "sym"
	if kshist.IsPair(c.W.Key) {
		form = "pair"
	}
	key := c.Fixture + " " + c.W.Op + "/" + form
	statMu.Lock()
	if nStat[key] == nil {
		nStat[key] = map[int]int{}
	}
	nStat[key][n]++
	statMu.Unlock()
}

func flushN(test string) {
	statMu.Lock()
	defer statMu.Unlock()
	var ks []string
	for k := range nStat {
		ks = append(ks, k)
	}
	sort.Strings(ks)
	var parts []string
	for _, k := range ks {
		var ns []int
		for n := range nStat[k] {
			ns = append(ns, n)
		}
		sort.Ints(ns)
		s := make([]string, len(ns))
		for i, n := range ns {
			s[i] = fmt.Sprintf("%d(x%d)", n, nStat[k][n])
		}
		parts = append(parts, k+": "+strings.Join(s, ","))
	}
	if len(parts) > 0 {
		R.Note("%s shard %d: measured N = storage/back-end calls per write operation [fixture op/keyform: N(x pairs)]: %s", test, hx.Shard(), strings.Join(parts, "; "))
	}
	nStat = map[string]map[int]int{}
}

// openSigs: signatures of the open known findings of this property (read-only copy, for the minimiser).
var openSigs = func() map[string]bool {
	root := os.Getenv("VERIF_ROOT")
	if root == "" {
		root = "/verif"
	}
	out := map[string]bool{}
	b, err := os.ReadFile(root + "/known_findings.json")
	if err != nil {
		return out
	}
	var f struct {
		Findings []hx.Finding `json:"findings"`
	}
	if json.Unmarshal(b, &f) == nil {
		for _, e := range f.Findings {
			if e.Property == "C08" && e.Status == "open" {
				out[e.Sig] = true
			}
		}
	}
	return out
}()

func firstNew(vs hx.Vs) *hx.Violation {
	for i := range vs {
		if !openSigs[vs[i].Sig] {
			return &vs[i]
		}
	}
	return nil
}

// minimize drops history operations, follow-up steps and ids while the case keeps failing with the
// same signature.
func minimize(c Case, sig string) Case {
	fails := func(x Case) bool {
		vs, info := Check(x)
		if info.Skip != "" || info.Hang {
			return false
		}
		for _, v := range vs {
			if v.Sig == sig {
				return true
			}
		}
		return false
	}
	for changed := true; changed; {
		changed = false
		for i := len(c.History) - 1; i >= 0; i-- {
			x := c
			x.History = append(append([]kshist.Op(nil), c.History[:i]...), c.History[i+1:]...)
			if fails(x) {
				c, changed = x, true
			}
		}
		for i := len(c.Follow) - 1; i >= 0; i-- {
			x := c
			x.Follow = append(append([]string(nil), c.Follow[:i]...), c.Follow[i+1:]...)
			if fails(x) {
				c, changed = x, true
			}
		}
	}
	if len(c.IDs) > 1 {
		used := map[string]bool{c.W.ID: true, c.Other.ID: true}
		for _, o := range c.History {
			used[o.ID] = true
		}
		var ids []string
		for _, id := range c.IDs {
			if used[id] {
				ids = append(ids, id)
			}
		}
		if x := c; len(ids) > 0 && len(ids) < len(c.IDs) {
			x.IDs = ids
			if fails(x) {
				c = x
			}
		}
	}
	if x := c; c.W.Index != 0 {
		x.W.Index = 0
		if fails(x) {
			c = x
		}
	}
	return c
}

func subName(fixture string) string { return strings.NewReplacer("/", "-", "=", "-").Replace(fixture) }

type failing struct {
	c  Case
	vs hx.Vs
}

var best = map[string]*failing{}

// report hands the violations of one case to the recorder; the first new one is minimised first.
func report(rt hx.TB, name string, c Case, vs hx.Vs) {
	if collect {
		statMu.Lock()
		for _, v := range vs {
			if collected[v.Sig] == nil {
				collected[v.Sig] = &struct {
					n   int
					msg string
				}{msg: v.Msg}
			}
			collected[v.Sig].n++
		}
		statMu.Unlock()
		return
	}
	if v := firstNew(vs); v != nil {
		if b := best[name]; b == nil || len(c.History)+len(c.Follow) < len(b.c.History)+len(b.c.Follow) {
			mc := minimize(c, v.Sig)
			mvs, _ := Check(mc)
			if mv := firstNew(mvs); mv != nil && mv.Sig == v.Sig {
				best[name] = &failing{mc, mvs}
			} else {
				best[name] = &failing{c, vs}
			}
		}
		R.Report(rt, name, best[name].c, best[name].vs)
	}
	R.Report(rt, name, c, vs)
}

func hung() string {
	hangMu.Lock()
	defer hangMu.Unlock()
	return hangSeen
}

// ---------------------------------------------------------------------------------------------
// Tests

const ruleText = "prior history (kshist.GenOps, 1-8 operations, extended so that W is applicable and another key exists) x one write operation W (generate/rotate any of 6 key kinds; destroy current; destroy rotated by listed index; v2: import of an exported key ring with 1-3 generations, with the default delegate when the ring does not exist and an overwriting one when it does; v2: AddKey+SetCurrent on a key ring object kept by the caller) x fault (call index k of the N storage/back-end calls W makes, measured by a fault-free run on a copy of the prior state; kind: the call returns an error instead of executing / crash just before / crash just after / torn write of 0-99 % of the data then crash) x follow-up (W again if the key is in its old state, generate the same key, generate another key, ListKeys, ListRotatedKeys, read everything) on keystore v1 (directory; cache off / unbounded) and v2 (in-memory and directory back end). Oracle on a FRESH handle opened on the surviving storage: every other key reads as before (current and all-keys, by value); the key being written is its old self or completely new (generate: new current key that is first in the all-keys read, pair halves match, nothing that was readable is gone, at most the new key added; destroy/import: exactly the state before or exactly the state a fault-free run on a copy produced); what the public key offered now protects is revealed by a stored private key; both listings succeed, show no row that belongs to no key, unchanged rows for other keys and old-or-new rows for the key written; follow-up writes succeed and keep everything readable. Fault kind error additionally on the SAME handle: no error returned => the complete new state; the handle's view equals the storage (v2 key ring object: its key list equals the stored ring). Fault sequences (TestFaults: 1 case in 3 has one or two more stages; TestSequences): after the restart a further write - 'again' (the interrupted write once more when its key is in the old state, else generate of that key), generate, destroy current, destroy rotated (replaced by generate when the state has nothing to destroy), on the same key or sometimes another one - runs through a fresh handle on the surviving storage and is hit by a fault of its own (k' of the N' calls it makes there, measured by a fault-free run on a copy, which must succeed; N' includes the calls of the recovery from the earlier fault); every stage is judged like the first, relative to the state the previous fault left; a sequence is not continued behind a stage with a violation; the follow-up runs after the last stage; violations behind more than one fault carry the prefix 'fault-sequence:'. Non-trivial = at the (last) fault at least one storage-changing call of the write has been executed (wholly or torn) and at least one has not, and at least one key existed before."

var (
	quickFaults    = map[string]int{"v1/cache=off": 9, "v1/cache=inf": 6, "v2/mem": 12, "v2/dir": 4}
	thoroughFaults = map[string]int{"v1/cache=off": 300, "v1/cache=inf": 200, "v2/mem": 500, "v2/dir": 120}
	thoroughPairs  = map[string]int{"v1/cache=off": 45, "v1/cache=inf": 25, "v2/mem": 55, "v2/dir": 25}
)

func runCase(rt *rapid.T, name string, c Case) {
	if h := hung(); h != "" {
		rt.Skip("an earlier operation did not return: " + h)
	}
	vs, info := Check(c)
	R.Seen(name, c, nontrivial(info), classes(c, info)...)
	if info.Hang {
		R.Note("%s: INCONCLUSIVE: %s did not return within 60 s after %+v", c.Fixture, describeW(&pair{c: c, target: kshist.K{Kind: c.W.Key, ID: c.W.ID}}), info.Fault)
		rt.Fatalf("inconclusive: operation did not return")
	}
	if info.Skip == "" {
		noteN(c, info.N)
	}
	report(rt, name, c, vs)
}

// TestFaults samples (history, W, k, kind, follow-up) with rapid, one property per fixture.
func TestFaults(t *testing.T) {
	for _, fixture := range Fixtures {
		fixture := fixture
		t.Run(subName(fixture), func(t *testing.T) {
			name := "TestFaults/" + fixture
			R.Rule(name, "sampled: "+ruleText)
			// cases per shard; quick: 6 shards x 31 = 186, thorough: 16 x 1120. The directory back end syncs
			// every write to disk (about ten times the cost of the others) and gets fewer.
			q, th := quickFaults[fixture], thoroughFaults[fixture]
			hx.Checks(q, th)
			flag.Set("rapid.shrinktime", "2s")
			rapid.Check(t, func(rt *rapid.T) { runCase(rt, name, genCase(rt, fixture)) })
		})
	}
	flushN("TestFaults")
}

// enumerate lists every (k, kind) of a prepared pair: error (follow-up on the same handle and on a
// fresh one), crash before, crash after for every call; torn writes of 0 %, 50 % and all but one
// byte for every call that carries data.
func enumerate(p *pair) []Case {
	var out []Case
	for k, cl := range p.calls {
		for _, kind := range Kinds {
			switch kind {
			case KindTorn:
				if !cl.Data {
					continue
				}
				for _, pct := range []int{0, 50, 99} {
					c := p.c
					c.Fault = Fault{K: k, Kind: kind, Torn: pct}
					out = append(out, c)
				}
			case KindError:
				for _, fresh := range []bool{false, true} {
					c := p.c
					c.Fault, c.Fresh = Fault{K: k, Kind: kind}, fresh
					out = append(out, c)
				}
			default:
				c := p.c
				c.Fault = Fault{K: k, Kind: kind}
				out = append(out, c)
			}
		}
	}
	return out
}

var (
	enumMu    sync.Mutex
	enumPairs = map[string]int{}
	enumCases = map[string]int{}
)

// TestEnumerate generates (history, W) pairs and enumerates ALL fault points and kinds of each.
func TestEnumerate(t *testing.T) {
	for _, fixture := range Fixtures {
		fixture := fixture
		t.Run(subName(fixture), func(t *testing.T) {
			name := "TestEnumerate/" + fixture
			R.Rule(name, "exhaustive in (k, kind) per generated (history, W) pair: every call index k in [0,N) x {error with follow-up on the same handle, error with follow-up on a fresh handle, crash-before, crash-after} plus, for calls that carry data, torn writes of 0 %, 50 % and all-but-one byte; follow-up = all steps; "+ruleText)
			// (history, W) pairs per shard. Quick: one pair for v1/cache=off and v2/mem on every shard, one for
			// v1/cache=inf on even and for v2/dir on odd shards (6 shards: 15 pairs, 4-70 fault cases each),
			// the operation (and key form) of each fixed by quickPairs; thorough: 16 shards x 150 pairs.
			var force forceW
			if hx.Tier() == "quick" {
				if (fixture == "v1/cache=inf" && hx.Shard()%2 == 1) || (fixture == "v2/dir" && hx.Shard()%2 == 0) {
					t.Skip("quick tier: this fixture is enumerated on the other shards")
				}
				force = quickPairs[fixture][hx.Shard()%6]
			}
			hx.Checks(1, thoroughPairs[fixture])
			flag.Set("rapid.shrinktime", "2s")
			rapid.Check(t, func(rt *rapid.T) {
				if h := hung(); h != "" {
					rt.Skip("an earlier operation did not return: " + h)
				}
				c := genPair(rt, fixture, force)
				c.Follow = allFollow
				fix.Quiet()
				p, vs := prepare(c)
				defer p.close()
				if len(vs) > 0 || p.skip != "" {
					skip := p.skip
					if skip == "" {
						skip = "violation before the fault"
					}
					R.Seen(name, c, false, classes(c, Info{Skip: skip})...)
					report(rt, name, c, vs)
					return
				}
				noteN(c, len(p.calls))
				cases := enumerate(p)
				enumMu.Lock()
				enumPairs[fixture]++
				enumCases[fixture] += len(cases)
				enumMu.Unlock()
				for _, fc := range cases {
					p.c = fc
					fvs, info := p.runFault(fc.Fault)
					R.Seen(name, fc, nontrivial(info), classes(fc, info)...)
					if info.Hang {
						R.Note("%s: INCONCLUSIVE: %s did not return within 60 s after %+v", fc.Fixture, describeW(p), info.Fault)
						rt.Fatalf("inconclusive: operation did not return")
					}
					report(rt, name, fc, fvs)
				}
			})
			enumMu.Lock()
			R.Note("TestEnumerate %s shard %d: exhaustive sub-space: %d (history, W) pairs, all (k, kind) of each = %d fault cases", fixture, hx.Shard(), enumPairs[fixture], enumCases[fixture])
			enumMu.Unlock()
		})
	}
	flushN("TestEnumerate")
}

func TestReplay(t *testing.T) {
	h := map[string]hx.ReplayHandler{}
	for _, f := range Fixtures {
		h["TestFaults/"+f] = replayCase
		h["TestEnumerate/"+f] = replayCase
		h["TestSequences/"+f] = replayCase
	}
	R.Replay(t, h)
}

func replayCase(raw json.RawMessage) hx.Vs {
	var c Case
	if err := json.Unmarshal(raw, &c); err != nil {
		return hx.Vs{{Sig: "harness:decode", Msg: err.Error()}}
	}
	vs, _ := Check(c)
	return vs
}
