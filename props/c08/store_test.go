package c08

// The storage of one case: a v1 key directory, a v2 in-memory back end or a v2 key directory.
// It can be cloned (dry runs and fault runs work on copies of one prior state), opened through a
// plain handle or through a fault-injecting wrapper, and scanned for files that belong to no key.

import (
	"fmt"
	"io/fs"
	"os"
	"path/filepath"
	"sort"
	"strings"

	"github.com/cossacklabs/acra/keystore/filesystem"
	"github.com/cossacklabs/acra/keystore/v2/keystore/filesystem/backend"
	backendapi "github.com/cossacklabs/acra/keystore/v2/keystore/filesystem/backend/api"

	"verif/internal/fix"
	"verif/internal/kshist"
)

// Fixtures of this property: keystore v1 on a directory (without and with a key cache), keystore v2
// on the in-memory and on the directory back end.
var Fixtures = []string{"v1/cache=off", "v1/cache=inf", "v2/mem", "v2/dir"}

type store struct {
	fixture string
	format  string // v1 | v2
	cache   string // v1
	dir     string // v1 key directory / v2 root directory
	mem     *backend.InMemory
	ids     []string // client ids of the case (to tell key files from leftovers)
}

func newStore(fixture string) (*store, error) {
	s := &store{fixture: fixture}
	switch fixture {
	case "v1/cache=off", "v1/cache=inf":
		s.format, s.cache = "v1", strings.TrimPrefix(fixture, "v1/cache=")
		s.dir = fix.TempDir("c08-v1-")
	case "v2/mem":
		s.format, s.mem = "v2", backend.NewInMemory()
	case "v2/dir":
		s.format = "v2"
		s.dir = fix.TempDir("c08-v2-")
		b, err := backend.CreateDirectoryBackend(s.dir)
		if err != nil {
			os.RemoveAll(s.dir)
			return nil, err
		}
		b.Close()
	default:
		return nil, fmt.Errorf("c08: unknown fixture %q", fixture)
	}
	return s, nil
}

func (s *store) remove() {
	if s.dir != "" {
		os.RemoveAll(s.dir)
	}
	s.mem = nil
}

// rel strips the per-case scratch directory from a path (messages must be reproducible).
func (s *store) rel(p string) string {
	if s.dir != "" && strings.HasPrefix(p, s.dir) {
		return strings.TrimPrefix(strings.TrimPrefix(p, s.dir), "/")
	}
	return p
}

func (s *store) scrub(msg string) string {
	if s.dir != "" {
		msg = strings.ReplaceAll(msg, s.dir, "<keystore>")
	}
	return msg
}

// clone copies the storage.
func (s *store) clone() (*store, error) {
	c := &store{fixture: s.fixture, format: s.format, cache: s.cache, ids: s.ids}
	if s.mem != nil {
		c.mem = backend.NewInMemory()
		paths, err := s.mem.ListAll()
		if err != nil {
			return nil, err
		}
		for _, p := range paths {
			b, err := s.mem.Get(p)
			if err != nil {
				return nil, err
			}
			if err := c.mem.Put(p, append([]byte(nil), b...)); err != nil {
				return nil, err
			}
		}
		return c, nil
	}
	prefix := "c08-v1-"
	if s.format == "v2" {
		prefix = "c08-v2-"
	}
	c.dir = fix.TempDir(prefix)
	err := filepath.WalkDir(s.dir, func(p string, d fs.DirEntry, err error) error {
		if err != nil {
			return err
		}
		relp, _ := filepath.Rel(s.dir, p)
		dst := filepath.Join(c.dir, relp)
		info, err := d.Info()
		if err != nil {
			return err
		}
		if d.IsDir() {
			if err := os.MkdirAll(dst, 0o700); err != nil {
				return err
			}
			return os.Chmod(dst, info.Mode().Perm())
		}
		if !info.Mode().IsRegular() {
			return nil
		}
		b, err := os.ReadFile(p)
		if err != nil {
			return err
		}
		if err := os.WriteFile(dst, b, info.Mode().Perm()); err != nil {
			return err
		}
		return os.Chmod(dst, info.Mode().Perm())
	})
	if err != nil {
		os.RemoveAll(c.dir)
		return nil, err
	}
	return c, nil
}

// open opens a keystore handle on the storage: plain when in is nil, otherwise through the
// fault-injecting wrapper driven by in. Plain v1 handles have no cache unless cached is set.
func (s *store) open(in *injector, cached bool) (kshist.Fixture, error) {
	if s.format == "v1" {
		cache := kshist.CacheOff
		if cached {
			cache = s.cache
		}
		var st filesystem.Storage
		if in != nil {
			st = &FaultStorage{real: &filesystem.DummyStorage{}, in: in}
		}
		return kshist.NewV1On(s.dir, st, cache)
	}
	return kshist.NewV2On(s.fixture, func() (backendapi.Backend, error) {
		var real backendapi.Backend
		own := false
		if s.mem != nil {
			real = s.mem
		} else {
			b, err := backend.OpenDirectoryBackend(s.dir)
			if err != nil {
				return nil, err
			}
			real, own = b, true
		}
		if in == nil {
			return real, nil
		}
		return newFaultBackend(real, in, own), nil
	})
}

// files lists what the storage holds: v2 key paths, v1 file paths relative to the key directory
// (history files included).
func (s *store) files() []string {
	var out []string
	if s.mem != nil {
		out, _ = s.mem.ListAll()
		return out
	}
	filepath.WalkDir(s.dir, func(p string, d fs.DirEntry, err error) error {
		if err != nil || d.IsDir() {
			return nil
		}
		relp, _ := filepath.Rel(s.dir, p)
		if s.format == "v2" && (relp == "version" || relp == ".lock") {
			return nil
		}
		out = append(out, relp)
		return nil
	})
	sort.Strings(out)
	return out
}

// leftovers lists the stored files that are no key ring / no key file of any key of the case: what
// an interrupted write left behind ("<ring>.keyring.new", "<key file><random digits>").
func (s *store) leftovers() []string {
	var out []string
	names := map[string]bool{"secure_log_key": true, ".poison_key/poison_key": true, ".poison_key/poison_key.pub": true, ".poison_key/poison_key_sym": true}
	for _, id := range s.ids {
		for _, suffix := range []string{"_storage", "_storage.pub", "_storage_sym", "_hmac"} {
			names[id+suffix] = true
		}
	}
	for _, f := range s.files() {
		if s.format == "v2" {
			if !strings.HasSuffix(f, ".keyring") {
				out = append(out, f)
			}
			continue
		}
		if strings.HasSuffix(filepath.Dir(f), ".old") {
			continue // a history file (named by its time stamp)
		}
		if !names[f] {
			out = append(out, f)
		}
	}
	return out
}
