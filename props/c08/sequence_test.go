package c08

// Fault sequences: several faulted writes in a row.
//
// The property quantifies over fault sequences: "for every operation history preceding the fault" includes
// histories whose last write was itself interrupted. After a fault the keystore is restarted on the
// surviving storage; the next write then runs inside whatever recovery the interrupted one made necessary
// (a stale temporary file is replaced, a half-written history is completed, ...) and makes storage calls
// that no write on a clean storage makes. Those calls are fault points of their own.
//
// A stage is evaluated exactly like the first fault, with the surviving storage of the previous stage as the
// prior state: S0' is what a fresh handle read after the previous fault (already judged old-or-new against
// its own S0 / S1), N' and S1' are measured by a fault-free run of the stage's write on a copy of that
// storage (that run is itself a further write after a fault and must complete), the fault is planted at
// call k' of N', the keystore is restarted and judged against S0' / S1'. The follow-up runs after the last
// stage. A sequence is not continued behind a stage that produced a violation (the states that follow are
// not old-or-new states).

import (
	"crypto/sha256"
	"fmt"
	"os"
	"path/filepath"
	"sort"
	"strings"
	"testing"

	"flag"

	"pgregory.net/rapid"

	"verif/internal/fix"
	"verif/internal/hx"
	"verif/internal/kshist"
)

// WAgain is the write of a stage that repeats what the operator was doing: the write of the previous
// stage once more when the fault left its key in the old state (generate: also in a state in between),
// otherwise generate/rotate of that key.
const WAgain = "again"

// Stage is one more faulted write. W.Op is "again", gen, destroyCurrent or destroyRotated; an empty
// W.Key means the key of the previous stage. A destroy that is not applicable to the state the previous
// fault left (no current key / no rotated key listed) is replaced by generate of the same key.
type Stage struct {
	W     WriteOp `json:"w"`
	Fault Fault   `json:"fault"`
}

// StageInfo is what an earlier stage of a sequence reports.
type StageInfo struct {
	Op        string
	Kind      string
	Outcome   string
	Leftovers int
	Half      bool
}

// seqPrefix marks the violations found behind more than one fault. The open findings about the two
// files of a keystore v1 key pair keep their signature: the class is the same after any number of faults.
const seqPrefix = "fault-sequence:"

func tagSeq(vs hx.Vs) hx.Vs {
	for i := range vs {
		if !strings.HasPrefix(vs[i].Sig, seqPrefix) && !strings.HasPrefix(vs[i].Sig, "pair-halves-differ:") {
			vs[i].Sig = seqPrefix + vs[i].Sig
		}
	}
	return vs
}

func shortFault(f Fault, calls []call) string {
	cl := calls[f.K]
	at := cl.Name
	if cl.Path != "" {
		at += "(" + digits.ReplaceAllString(cl.Path, "<n>") + ")"
	}
	if f.Kind == KindTorn {
		return fmt.Sprintf("torn write (%d%%) at call %d of %d = %s", f.Torn, f.K, len(calls), at)
	}
	return fmt.Sprintf("%s at call %d of %d = %s", f.Kind, f.K, len(calls), at)
}

// chain continues a sequence behind the fault that produced s.
func (p *pair) chain(s *struck) (hx.Vs, Info) {
	s.closeHandle() // every stage is a process of its own
	first := StageInfo{Op: p.c.W.Op, Kind: s.info.Fault.Kind, Outcome: s.info.Outcome, Leftovers: s.info.Leftovers, Half: s.info.Half}
	if len(s.vs) > 0 {
		info := s.info
		info.Stages = []StageInfo{first}
		info.Stopped = "violation"
		return dedup(s.vs), info
	}
	st := p.c.Then[0]
	q, qvs := p.next(s, st)
	if len(qvs) > 0 || q.skip != "" {
		info := s.info
		info.Stages = []StageInfo{first}
		info.Stopped = "next write: " + strings.SplitN(q.skip, ":", 2)[0]
		if len(qvs) > 0 {
			info.Stopped = "next write fails"
		}
		info.Half = false
		return dedup(tagSeq(qvs)), info
	}
	vs, info := q.runFault(st.Fault)
	info.Stages = append([]StageInfo{first}, info.Stages...)
	return dedup(tagSeq(vs)), info
}

// resolve turns the write drawn for a stage into a write on the state the previous fault left.
func (p *pair) resolve(w WriteOp, outcome string) (WriteOp, bool) {
	prev := p.c.W
	if w.Key == "" {
		w.Key, w.ID = prev.Key, prev.ID
	}
	if !kshist.PerClient(w.Key) {
		w.ID = ""
	}
	switch w.Op {
	case WGen, WDestroyCurrent, WDestroyRotated:
		if w.Op != WGen && !kshist.Destroyable(w.Key) {
			w.Op = WGen
		}
		w.Gens = 0
		if w.Op != WDestroyRotated {
			w.Index = 0
		}
		return w, false
	}
	// again
	switch {
	case prev.Op == WGen || prev.Op == WRingGen:
		return prev, false // generate is always applicable
	case outcome == "old":
		return prev, true // it succeeded on this state before the fault (fault-free run of the previous stage)
	}
	return WriteOp{Op: WGen, Key: prev.Key, ID: prev.ID}, false
}

// next prepares the pair of the following stage: prior state = the storage that survived the fault.
func (p *pair) next(s *struck, st Stage) (*pair, hx.Vs) {
	var vs hx.Vs
	w, again := p.resolve(st.W, s.info.Outcome)
	q := &pair{c: p.c, base: s.work, u: p.u, other: p.other, depth: p.depth + 1, again: again}
	q.c.W, q.c.Fault, q.c.Then = w, st.Fault, p.c.Then[1:]
	q.target = kshist.K{Kind: w.Key, ID: w.ID}
	q.pre = describeW(p) + " was hit by " + shortFault(s.info.Fault, p.calls) + " and left " + p.target.String() + " in its " + s.info.Outcome + " state"
	if l := s.work.leftoversNow(); len(l) > 0 {
		q.pre += fmt.Sprintf(" and the files %v", l)
	}
	q.rel = append([]kshist.K(nil), p.rel...)
	q.s0 = s.post
	inRel := false
	for _, k := range q.rel {
		inRel = inRel || k == q.target
	}
	if !inRel {
		q.rel = append(q.rel, q.target)
		s0, err := observeFresh(s.work, q.rel)
		if err != nil {
			vs.Add("harness:observe", "%v", err)
			return q, vs
		}
		q.s0 = s0
	}
	q.lab = labeller{q.s0, q.target}
	q.known = map[string]bool{}
	for v := range p.known {
		q.known[v] = true
	}
	for _, ks := range q.s0.Keys {
		if ks.CurOK {
			q.known[string(ks.Cur.Secret)] = true
		}
		for _, v := range ks.All {
			q.known[string(v)] = true
		}
	}
	if w.Op == WImport {
		q.export = p.export
		q.markOverwrite()
	}
	q.measure(&vs)
	if len(vs) == 0 && q.skip != "" && !again && (w.Op == WDestroyCurrent || w.Op == WDestroyRotated) &&
		(strings.HasPrefix(q.skip, "W is not applicable") || strings.HasPrefix(q.skip, "no rotated key")) {
		// the destroy drawn for this stage does not apply to the state the fault left
		q.skip, q.fellBack = "", true
		q.c.W = WriteOp{Op: WGen, Key: w.Key, ID: w.ID}
		q.measure(&vs)
	}
	return q, vs
}

// ---------------------------------------------------------------------------------------------
// Storage fingerprints: which intermediate states are worth a second fault

func (s *store) content(f string) []byte {
	if s.mem != nil {
		b, _ := s.mem.Get(f)
		return b
	}
	b, _ := os.ReadFile(filepath.Join(s.dir, f))
	return b
}

// fingerprint describes the storage relative to a prior storage: per file "unchanged", or its size
// (contents hold fresh random keys and never repeat; names hold random digits and time stamps).
func (s *store) fingerprint(prior *store) string {
	had := map[string][]byte{}
	for _, f := range prior.files() {
		had[f] = prior.content(f)
	}
	var parts []string
	for _, f := range s.files() {
		b := s.content(f)
		name := digits.ReplaceAllString(f, "<n>")
		if old, ok := had[f]; ok {
			delete(had, f)
			if sha256.Sum256(old) == sha256.Sum256(b) {
				continue
			}
			parts = append(parts, fmt.Sprintf("%s:changed:%d", name, len(b)))
			continue
		}
		parts = append(parts, fmt.Sprintf("%s:new:%d", name, len(b)))
	}
	for f := range had {
		parts = append(parts, digits.ReplaceAllString(f, "<n>")+":gone")
	}
	sort.Strings(parts)
	return strings.Join(parts, " ")
}

// ---------------------------------------------------------------------------------------------
// Generation

func genFault(t *rapid.T, label string) Fault {
	var f Fault
	f.K = rapid.IntRange(0, 47).Draw(t, label+".k")
	f.Window = rapid.IntRange(0, 9).Draw(t, label+".window") < 6
	f.Kind = weighted(t, label+".kind", Kinds, []int{30, 20, 25, 25})
	if f.Kind == KindTorn {
		f.Torn = rapid.SampledFrom([]int{0, 1, 25, 50, 75, 99}).Draw(t, label+".torn")
	}
	return f
}

// genThen draws the further stages of a sampled case: none (2 of 3 cases), one, or two.
func genThen(t *rapid.T, c Case) []Stage {
	n := weighted(t, "then.n", []string{"0", "1", "2"}, []int{20, 8, 3})
	var out []Stage
	u := universe(c.IDs)
	for i := 0; i < int(n[0]-'0'); i++ {
		label := fmt.Sprintf("then%d", i)
		var st Stage
		st.W.Op = weighted(t, label+".op", []string{WAgain, WGen, WDestroyCurrent, WDestroyRotated}, []int{55, 20, 10, 15})
		if st.W.Op != WAgain {
			if rapid.IntRange(0, 9).Draw(t, label+".otherkey") < 2 {
				k := rapid.SampledFrom(u).Draw(t, label+".key")
				st.W.Key, st.W.ID = k.Kind, k.ID
			}
			if st.W.Op == WDestroyRotated {
				st.W.Index = rapid.IntRange(0, 3).Draw(t, label+".index")
			}
		}
		st.Fault = genFault(t, label+".fault")
		out = append(out, st)
	}
	return out
}

// ---------------------------------------------------------------------------------------------
// Accounting

func seqClasses(c Case, info Info) []string {
	format := strings.SplitN(c.Fixture, "/", 2)[0]
	cl := []string{"fixture:" + c.Fixture}
	if info.Skip != "" {
		return append(cl, "skipped:"+strings.SplitN(info.Skip, ":", 2)[0])
	}
	if info.Hang {
		return append(cl, "inconclusive:hang")
	}
	if info.Stopped != "" {
		return append(cl, fmt.Sprintf("seq-stopped:after-fault-%d:%s@%s", len(info.Stages), info.Stopped, format))
	}
	if len(info.Stages) == 0 {
		return append(cl, "seq-stopped:at-the-first-fault@"+format)
	}
	cl = append(cl, fmt.Sprintf("seq:faults=%d@%s", len(info.Stages)+1, c.Fixture))
	var ops, kinds, outs, left []string
	for _, s := range info.Stages {
		ops, kinds, outs, left = append(ops, s.Op), append(kinds, s.Kind), append(outs, s.Outcome), append(left, fmt.Sprint(s.Leftovers))
	}
	ops, kinds, outs, left = append(ops, info.LastOp), append(kinds, info.Fault.Kind), append(outs, info.Outcome), append(left, fmt.Sprint(info.Leftovers))
	cl = append(cl,
		"seq-ops:"+strings.Join(ops, ">")+"@"+format,
		"seq-kinds:"+strings.Join(kinds, ">")+"@"+format,
		"seq-outcomes:"+strings.Join(outs, ">")+"@"+format,
		"seq-leftover-files:"+strings.Join(left, ">")+"@"+format,
		"seq-last-call:"+info.Call+"/"+info.Fault.Kind+"@"+format,
	)
	// the second fault lands while files of the first interrupted write are still there: inside the recovery
	if info.Stages[len(info.Stages)-1].Leftovers > 0 {
		cl = append(cl, "seq-in-recovery:"+info.LastOp+"/"+info.Fault.Kind+"@"+c.Fixture)
		if info.Half {
			cl = append(cl, "seq-in-recovery-half-done:"+info.LastOp+"@"+c.Fixture)
		}
	}
	if info.FellBack {
		cl = append(cl, "seq-destroy-not-applicable-generate-instead@"+format)
	}
	if info.Fault.Kind == KindError {
		cl = append(cl, map[bool]string{true: "error-followup:fresh-handle", false: "error-followup:same-handle"}[c.Fresh])
	}
	return cl
}

// ---------------------------------------------------------------------------------------------
// TestSequences: exhaustive second fault behind every distinct half-done state of a first fault

var (
	seqStates = map[string]int{}
	seqCases  = map[string]int{}
)

// quickSeq: the operation whose sequences each shard of the quick tier enumerates.
var quickSeq = map[string][]forceW{
	"v1/cache=off": {{WGen, "sym"}, {WGen, "pair"}, {WDestroyRotated, "sym"}, {WDestroyCurrent, "pair"}, {WGen, "sym"}, {WDestroyRotated, "pair"}, {WDestroyCurrent, "sym"}},
	"v1/cache=inf": {{WDestroyRotated, "sym"}, {WGen, "pair"}, {WDestroyCurrent, "pair"}, {WDestroyCurrent, "sym"}, {WGen, "pair"}, {WGen, "sym"}, {WDestroyRotated, "pair"}},
	"v2/mem":       {{WGen, ""}, {WImport, ""}, {WDestroyRotated, ""}, {WRingGen, ""}, {WDestroyCurrent, ""}, {WImport, ""}, {WGen, ""}},
	"v2/dir":       {{WGen, ""}, {WDestroyCurrent, ""}, {WImport, ""}, {WRingGen, ""}, {WDestroyRotated, ""}, {WGen, ""}, {WImport, ""}},
}

// TestSequences generates (history, W) pairs; the faults (k, kind) of W are executed in a drawn order; for
// every DISTINCT half-done state of the storage that results (distinct = the set of files that differ from
// the prior state, with their sizes; the states equal to the prior state and to the state after the
// complete W are single-fault cases of TestEnumerate; the quick tier stops after seqStateLimit states) the
// write is run again through a fresh handle and the faults of enumerateWindow - every call of the second
// write between its first and its last storage-changing one - are executed, each followed by the whole
// follow-up.
func TestSequences(t *testing.T) {
	for _, fixture := range Fixtures {
		fixture := fixture
		t.Run(subName(fixture), func(t *testing.T) {
			name := "TestSequences/" + fixture
			R.Rule(name, "two faults in a row on the same key, the second one inside the recovery from the first: for a generated (history, W) pair the single faults (k, kind) of W are executed in an order drawn with rapid and the surviving storage of each is fingerprinted (the files that differ from the prior state, with their sizes); a storage state that is neither the prior one nor the one a complete W leaves, and has not been met before, is a half-done state (quick tier: the first 2 such states per pair on v2/mem, the first one on the other fixtures; thorough: all). Behind each half-done state W is run again through a fresh handle ('again': the same write when its key is in the old state, otherwise generate of that key): first without a fault on a copy, to measure N' and S1' - this write after a fault must succeed and give the complete new state - then with every fault k' from the first to the last storage-changing call of that second write x {error with the follow-up on the handle that saw it, crash-before, crash-after} plus torn writes for calls that carry data (quick: 50 %; thorough: 0 %, 50 %, all but one byte). Restart; oracle as for a single fault, relative to the state the first fault left (S0', itself judged old-or-new) and S1'; follow-up = all steps (W again, generate the same key, generate another key, listings, read everything), so a third write always follows the two faults. Violations found behind more than one fault carry the prefix 'fault-sequence:'. Non-trivial = the second write is half done at its fault and at least one key existed before. Classes: seq-ops, seq-kinds, seq-outcomes, seq-leftover-files (files that belong to no key after each fault, e.g. 1>2), seq-in-recovery (files of the first interrupted write were on the storage when the second fault hit). "+ruleText)
			var force forceW
			if hx.Tier() == "quick" {
				if !quickSeqRuns(fixture, hx.Shard()) {
					t.Skip("quick tier: the sequences of this fixture are enumerated on other shards")
				}
				force = quickSeq[fixture][hx.Shard()%7]
			}
			hx.Checks(1, thoroughSeqPairs[fixture])
			flag.Set("rapid.shrinktime", "2s")
			rapid.Check(t, func(rt *rapid.T) {
				if h := hung(); h != "" {
					rt.Skip("an earlier operation did not return: " + h)
				}
				c := genPair(rt, fixture, force)
				c.Follow = allFollow
				fix.Quiet()
				p, vs := prepare(c)
				defer p.close()
				if len(vs) > 0 || p.skip != "" {
					skip := p.skip
					if skip == "" {
						skip = "violation before the fault"
					}
					R.Seen(name, c, false, classes(c, Info{Skip: skip})...)
					report(rt, name, c, vs)
					return
				}
				seen := map[string]bool{"": true, p.fpNew: true}
				// what a handle does to the storage before W makes its first call (opening a key ring that does
				// not exist creates it) is no half-done state of W
				if s := p.strike(Fault{K: 0, Kind: KindCrashBefore}); s.work != nil {
					seen[s.work.fingerprint(p.base)] = true
					s.release()
				}
				var firsts []Case
				for _, fc := range enumerate(p) {
					if !fc.Fresh { // the first stage always ends with a restart
						firsts = append(firsts, fc)
					}
				}
				// the first faults are tried in a drawn order; the quick tier expands the first `limit` distinct
				// half-done states it meets, the thorough tier all of them
				limit, expanded := seqStateLimit(fixture), 0
				for _, fc := range rapid.Permutation(firsts).Draw(rt, "order of the first faults") {
					ok, exp := sequenceFrom(rt, name, p, fc, seen)
					if !ok {
						return
					}
					if exp {
						expanded++
					}
					if limit > 0 && expanded >= limit {
						break
					}
				}
			})
			enumMu.Lock()
			R.Note("TestSequences %s shard %d: %d distinct half-done storage states behind a first fault expanded, every fault of the second write between its first and last storage-changing call behind each = %d two-fault cases", fixture, hx.Shard(), seqStates[fixture], seqCases[fixture])
			enumMu.Unlock()
		})
	}
	flushN("TestSequences")
}

var thoroughSeqPairs = map[string]int{"v1/cache=off": 6, "v1/cache=inf": 4, "v2/mem": 10, "v2/dir": 3}

// quickSeqRuns spreads the fixtures over the shards of the quick tier: the in-memory back end on every
// shard; the directory back end (it syncs every write to disk) on the even shards, where TestEnumerate
// leaves it out; keystore v1 on the odd ones (with the cache on every fourth).
func quickSeqRuns(fixture string, shard int) bool {
	switch fixture {
	case "v2/mem":
		return true
	case "v2/dir":
		return shard%2 == 0
	case "v1/cache=off":
		return shard%2 == 1
	}
	return shard%4 == 1 // v1/cache=inf
}

// sequenceFrom executes the first fault of fc and, when the storage it leaves is a new half-done state,
// every fault of the write that follows. It returns false when the run must stop (hang).
func sequenceFrom(rt *rapid.T, name string, p *pair, fc Case, seen map[string]bool) (ok, expanded bool) {
	fc.Then = []Stage{{W: WriteOp{Op: WAgain}}}
	p.c = fc
	s := p.strike(fc.Fault)
	defer s.release()
	if s.info.Hang {
		R.Note("%s: INCONCLUSIVE: %s did not return within 60 s after %+v", fc.Fixture, describeW(p), s.info.Fault)
		rt.Fatalf("inconclusive: operation did not return")
		return false, false
	}
	if s.stop || len(s.vs) > 0 {
		return true, false // a single-fault matter: TestEnumerate reports it
	}
	fp := s.work.fingerprint(p.base)
	if seen[fp] {
		return true, false
	}
	seen[fp] = true
	s.closeHandle()
	fc.Fault = s.info.Fault
	first := StageInfo{Op: p.c.W.Op, Kind: s.info.Fault.Kind, Outcome: s.info.Outcome, Leftovers: s.info.Leftovers, Half: s.info.Half}
	q, qvs := p.next(s, fc.Then[0])
	if len(qvs) > 0 || q.skip != "" {
		info := s.info
		info.Stages, info.Half = []StageInfo{first}, false
		info.Stopped = "next write fails"
		if len(qvs) == 0 {
			info.Stopped = "next write: " + strings.SplitN(q.skip, ":", 2)[0]
		}
		R.Seen(name, fc, false, seqClasses(fc, info)...)
		report(rt, name, fc, dedup(tagSeq(qvs)))
		return true, true
	}
	noteN(q.c, len(q.calls))
	enumMu.Lock()
	seqStates[fc.Fixture]++
	enumMu.Unlock()
	for _, sc := range enumerateWindow(q) {
		full := fc
		full.Fresh = sc.Fresh
		full.Then = []Stage{{W: WriteOp{Op: WAgain}, Fault: sc.Fault}}
		q.c = sc
		vs, info := q.runFault(sc.Fault)
		info.Stages = append([]StageInfo{first}, info.Stages...)
		vs = dedup(tagSeq(vs))
		enumMu.Lock()
		seqCases[fc.Fixture]++
		enumMu.Unlock()
		R.Seen(name, full, nontrivial(info), seqClasses(full, info)...)
		if info.Hang {
			R.Note("%s: INCONCLUSIVE: %s did not return within 60 s after %+v", fc.Fixture, describeW(q), info.Fault)
			rt.Fatalf("inconclusive: operation did not return")
			return false, true
		}
		report(rt, name, full, vs)
	}
	return true, true
}

// seqStateLimit is the number of distinct half-done states per (history, W) pair the quick tier
// expands (0 = all).
func seqStateLimit(fixture string) int {
	if hx.Tier() != "quick" {
		return 0
	}
	if fixture == "v2/mem" {
		return 2
	}
	return 1
}

// enumerateWindow lists the faults of the second write: every call from its first to its last
// storage-changing call (a fault before the first one leaves the storage as the first fault left it, a
// fault after the last one is a completed write: both are single-fault cases with a follow-up write) x
// {error with the follow-up on the handle that saw it, crash-before, crash-after} plus torn writes for
// the calls that carry data (quick: half of the data; thorough: 0 %, 50 %, all but one byte).
func enumerateWindow(p *pair) []Case {
	var out []Case
	if p.firstMut < 0 {
		return nil
	}
	torn := []int{50}
	if hx.Tier() != "quick" {
		torn = []int{0, 50, 99}
	}
	for k := p.firstMut; k <= p.lastMut; k++ {
		for _, kind := range Kinds {
			if kind == KindTorn {
				if p.calls[k].Data {
					for _, pct := range torn {
						c := p.c
						c.Fault, c.Fresh = Fault{K: k, Kind: kind, Torn: pct}, false
						out = append(out, c)
					}
				}
				continue
			}
			c := p.c
			c.Fault, c.Fresh = Fault{K: k, Kind: kind}, false
			out = append(out, c)
		}
	}
	return out
}
