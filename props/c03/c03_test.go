// Package c03: any modification of a protected value is detected, never mis-decrypted.
package c03

import (
	"bytes"
	"encoding/binary"
	"encoding/json"
	"fmt"
	"os"
	"testing"

	"github.com/cossacklabs/themis/gothemis/keys"
	"pgregory.net/rapid"

	"github.com/cossacklabs/acra/acrablock"
	"github.com/cossacklabs/acra/acrastruct"
	"github.com/cossacklabs/acra/crypto"
	"github.com/cossacklabs/acra/decryptor/base"
	"github.com/cossacklabs/acra/hmac"

	"verif/internal/fix"
	"verif/internal/gen"
	"verif/internal/hx"
)

var R = hx.New("C03")

func TestMain(m *testing.M) { os.Exit(R.Main(m)) }

// Edit is one modification of a protected value.
type Edit struct {
	Op    string  `json:"op"`              // flip | trunc | append | field | splice | swaphash | insert
	Pos   int     `json:"pos,omitempty"`   // flip: byte index (mod len); trunc: new length (mod len); insert/splice: cut point (mod len)
	Bit   int     `json:"bit,omitempty"`   // flip: bit 0..7, or 8 = replace byte by Val
	Field string  `json:"field,omitempty"` // field: which structural field
	Val   uint64  `json:"val,omitempty"`   // field: value written (relative values resolved by the generator)
	Rel   string  `json:"rel,omitempty"`   // field: "", "real+", "real-" : Val is added to / subtracted from the real value
	Extra gen.Hex `json:"extra,omitempty"` // append/insert: bytes; splice/swaphash: plaintext of the second value
}

// Case is one protected value of a kind/form made for alice under key generation Gen, then edited.
type Case struct {
	Kind  string  `json:"kind"`
	Form  string  `json:"form"`
	Gen   int     `json:"gen"`
	Plain gen.Hex `json:"plain"`
	Edit  Edit    `json:"edit"`
}

// layout describes where the parts of a protected value of (kind, form) start.
type layout struct{ hash, cont, env int } // offsets; -1 if absent

func layoutOf(form string) layout {
	switch form {
	case fix.FormRaw:
		return layout{-1, -1, 0}
	case fix.FormContainer:
		return layout{-1, 0, 12}
	case fix.FormSearchRaw:
		return layout{0, -1, 33}
	default:
		return layout{0, 33, 45}
	}
}

type field struct {
	off, size int
}

// fields returns the structural fields of a value (absolute offsets).
func fields(kind, form string) map[string]field {
	l := layoutOf(form)
	f := map[string]field{}
	if l.hash >= 0 {
		f["hash.fn"] = field{l.hash, 1}
	}
	if l.cont >= 0 {
		f["c.tag"] = field{l.cont, 1}
		f["c.len"] = field{l.cont + 3, 8}
		f["c.id"] = field{l.cont + 11, 1}
	}
	e := l.env
	if kind == fix.KindStruct {
		f["as.tag"] = field{e, 1}
		f["as.pubtag"] = field{e + 8, 4}
		f["as.publen"] = field{e + 12, 4}
		f["as.msgtype"] = field{e + 53, 4}
		f["as.msglen"] = field{e + 57, 4}
		f["as.len"] = field{e + 137, 8}
		f["as.seal.alg"] = field{e + 145, 4}
		f["as.seal.ivlen"] = field{e + 149, 4}
		f["as.seal.taglen"] = field{e + 153, 4}
		f["as.seal.msglen"] = field{e + 157, 4}
	} else {
		f["ab.tag"] = field{e, 1}
		f["ab.rest"] = field{e + 4, 8}
		f["ab.kektype"] = field{e + 12, 1}
		f["ab.keyid"] = field{e + 13, 2}
		f["ab.dektype"] = field{e + 15, 1}
		f["ab.keylen"] = field{e + 16, 2}
		f["ab.dek.seal.msglen"] = field{e + 18 + 12, 4}
	}
	return f
}

var hostile = []uint64{0, 1, 2, 3, 4, 7, 8, 11, 12, 13, 0x7f, 0xff, 0x100, 0xfffe, 0xffff, 0x10000, 0x7fffffff, 0x80000000, 0xffffffff,
	0x7fffffffffffffff, 0x8000000000000000, 0xffffffffffffffff, 0xfffffffffffffffb, 0xfffffffffffffff3, 0xffffffffffffff76, 0xffffffffffffff6e}

func genCase(t *rapid.T) Case {
	c := Case{
		Kind:  rapid.SampledFrom(fix.Kinds).Draw(t, "kind"),
		Form:  rapid.SampledFrom(fix.Forms).Draw(t, "form"),
		Gen:   rapid.IntRange(0, 2).Draw(t, "gen"),
		Plain: gen.NonEmpty(t, "plain", 4096),
	}
	op := rapid.SampledFrom([]string{"flip", "flip", "trunc", "append", "field", "field", "field", "splice", "swaphash", "insert"}).Draw(t, "op")
	e := Edit{Op: op}
	switch op {
	case "flip":
		e.Pos = rapid.IntRange(0, 1<<20).Draw(t, "pos")
		if rapid.IntRange(0, 3).Draw(t, "headbias") == 0 {
			e.Pos = rapid.IntRange(0, 200).Draw(t, "headpos")
		}
		e.Bit = rapid.IntRange(0, 8).Draw(t, "bit")
		if e.Bit == 8 {
			e.Val = uint64(rapid.Byte().Draw(t, "byte"))
		}
	case "trunc":
		e.Pos = rapid.IntRange(0, 1<<20).Draw(t, "len")
	case "append":
		e.Extra = gen.NonEmpty(t, "suffix", 2048)
	case "insert":
		e.Pos = rapid.IntRange(0, 1<<20).Draw(t, "at")
		e.Extra = gen.NonEmpty(t, "ins", 64)
	case "field":
		fs := fields(c.Kind, c.Form)
		names := make([]string, 0, len(fs))
		for n := range fs {
			names = append(names, n)
		}
		sortStrings(names)
		e.Field = rapid.SampledFrom(names).Draw(t, "field")
		switch rapid.IntRange(0, 3).Draw(t, "valkind") {
		case 0:
			e.Rel, e.Val = "real+", uint64(rapid.IntRange(1, 300).Draw(t, "delta"))
		case 1:
			e.Rel, e.Val = "real-", uint64(rapid.IntRange(1, 300).Draw(t, "delta"))
		default:
			e.Val = rapid.SampledFrom(hostile).Draw(t, "val")
		}
	case "splice":
		e.Pos = rapid.IntRange(0, 1<<20).Draw(t, "cut")
		e.Extra = gen.NonEmpty(t, "other", 512)
	case "swaphash":
		e.Extra = gen.NonEmpty(t, "other", 512)
		if c.Form == fix.FormRaw || c.Form == fix.FormContainer {
			c.Form = rapid.SampledFrom([]string{fix.FormSearchRaw, fix.FormSearchWrapped}).Draw(t, "sform")
		}
	}
	c.Edit = e
	return c
}

func sortStrings(s []string) {
	for i := 1; i < len(s); i++ {
		for j := i; j > 0 && s[j] < s[j-1]; j-- {
			s[j], s[j-1] = s[j-1], s[j]
		}
	}
}

// apply performs the edit; returns the edited value and whether only the search hash body was touched
// (then hash-verifying entry points must refuse the value).
func apply(w *fix.World, c Case, v []byte) (out []byte, hashOnly bool, err error) {
	e := c.Edit
	l := layoutOf(c.Form)
	out = append([]byte(nil), v...)
	switch e.Op {
	case "none":
	case "flip":
		p := e.Pos % len(out)
		if e.Bit == 8 {
			out[p] = byte(e.Val)
		} else {
			out[p] ^= 1 << uint(e.Bit)
		}
		hashOnly = l.hash >= 0 && p >= 1 && p < 33
	case "trunc":
		out = out[:e.Pos%len(out)]
	case "append":
		out = append(out, e.Extra...)
	case "insert":
		p := e.Pos % (len(out) + 1)
		out = append(append(append([]byte(nil), v[:p]...), e.Extra...), v[p:]...)
	case "field":
		f, ok := fields(c.Kind, c.Form)[e.Field]
		if !ok {
			return nil, false, fmt.Errorf("no field %s", e.Field)
		}
		if f.off+f.size > len(out) {
			return out, false, nil
		}
		var buf [8]byte
		copy(buf[:], out[f.off:f.off+f.size])
		cur := binary.LittleEndian.Uint64(buf[:])
		if c.Kind == fix.KindStruct && (e.Field == "as.publen") {
			cur = uint64(binary.BigEndian.Uint32(out[f.off:]))
		}
		nv := e.Val
		switch e.Rel {
		case "real+":
			nv = cur + e.Val
		case "real-":
			nv = cur - e.Val
		}
		binary.LittleEndian.PutUint64(buf[:], nv)
		if e.Field == "as.publen" {
			binary.BigEndian.PutUint32(buf[:4], uint32(nv))
		}
		copy(out[f.off:f.off+f.size], buf[:f.size])
	case "splice":
		other, perr := w.Protect(w.Alice, c.Kind, c.Form, e.Extra, c.Gen)
		if perr != nil {
			return nil, false, perr
		}
		p := e.Pos % len(out)
		if p > len(other) {
			p = len(other)
		}
		out = append(append([]byte(nil), v[:p]...), other[p:]...)
	case "swaphash":
		if l.hash < 0 {
			return nil, false, fmt.Errorf("swaphash on a form without hash")
		}
		other, perr := w.Protect(w.Alice, c.Kind, c.Form, e.Extra, c.Gen)
		if perr != nil {
			return nil, false, perr
		}
		copy(out[:33], other[:33])
		hashOnly = true
	default:
		return nil, false, fmt.Errorf("unknown op %q", e.Op)
	}
	return out, hashOnly, nil
}

// okColumn: the column chain may deliver the value unchanged, or with an intact envelope inside it
// replaced by the original plaintext (prefix and suffix of the input kept).
func okColumn(in, out, plain []byte) bool {
	if bytes.Equal(in, out) {
		return true
	}
	// out = in[:a] + plain + in[len(in)-b:]
	if len(out) < len(plain) {
		return false
	}
	maxA := len(out) - len(plain)
	for a := 0; a <= maxA && a <= len(in); a++ {
		if a > 0 && in[a-1] != out[a-1] {
			break
		}
		b := len(out) - len(plain) - a
		if a+b > len(in) {
			continue
		}
		if bytes.Equal(out[a:a+len(plain)], plain) && bytes.Equal(out[a+len(plain):], in[len(in)-b:]) {
			return true
		}
	}
	return false
}

// Check evaluates the edited value at every reveal entry point.
func Check(c Case) (vs hx.Vs, changed bool) {
	w := fix.TheWorld()
	v, err := w.Protect(w.Alice, c.Kind, c.Form, c.Plain, c.Gen)
	if err != nil {
		vs.Add("harness:protect", "cannot make the protected value: %v", err)
		return vs, false
	}
	e, hashOnly, err := apply(w, c, v)
	if err != nil {
		vs.Add("harness:edit", "%v", err)
		return vs, false
	}
	changed = !bytes.Equal(e, v)
	if !changed {
		hashOnly = false // e.g. a byte "replaced" by the value it already had: nothing to detect
	}
	if c.Edit.Op == "swaphash" && bytes.Equal(c.Edit.Extra, c.Plain) {
		hashOnly = false // same plaintext: same hash
	}
	plain := []byte(c.Plain)
	// a splice of two valid values may legitimately be (or contain) the second value intact
	alts := [][]byte{plain}
	if c.Edit.Op == "splice" {
		alts = append(alts, []byte(c.Edit.Extra))
	}
	isOrig := func(out []byte) bool {
		for _, a := range alts {
			if bytes.Equal(out, a) {
				return true
			}
		}
		return false
	}
	intact := !changed
	dctx := func() *base.DataProcessorContext {
		return &base.DataProcessorContext{Keystore: w.KS, Context: fix.Ctx(w.Alice)}
	}
	in := func() []byte { return append([]byte(nil), e...) } // every entry point gets its own copy

	// value-returning entry points: error, or exactly the original plaintext
	reveal := func(name string, verifiesHash bool, f func() ([]byte, error)) {
		var out []byte
		var rerr error
		if hx.Guard(&vs, name, func() { out, rerr = f() }) {
			return
		}
		if rerr != nil {
			return
		}
		if verifiesHash && hashOnly {
			vs.Add("hash-mismatch-accepted:"+name, "%s accepted a value whose search hash does not match its content (edit %s)", name, c.Edit.Op)
			return
		}
		if !isOrig(out) {
			vs.Add("wrong-plaintext:"+name, "%s returned %d bytes %.40x without error, original plaintext is %d bytes %.40x (edit %+v)", name, len(out), out, len(plain), plain, c.Edit)
		}
	}
	// column entry points: unchanged, or plaintext in place of an intact envelope
	column := func(name string, verifiesHash bool, f func([]byte) ([]byte, error)) {
		var out []byte
		var rerr error
		input := in()
		if hx.Guard(&vs, name, func() { out, rerr = f(input) }) {
			return
		}
		if rerr != nil {
			return
		}
		if verifiesHash && hashOnly {
			if !bytes.Equal(out, e) {
				vs.Add("hash-mismatch-accepted:"+name, "%s changed a value whose search hash does not match its content", name)
			}
			return
		}
		okc := false
		for _, a := range alts {
			okc = okc || okColumn(e, out, a)
		}
		if !okc {
			vs.Add("wrong-column:"+name, "%s delivered %d bytes %.40x, neither the stored value unchanged (%d bytes) nor the plaintext in place of an intact envelope (edit %+v)", name, len(out), out, len(e), c.Edit)
		}
		if intact && bytes.Equal(out, e) && !verifiesHashOnlyForm(name, c.Form) {
			vs.Add("intact-not-decrypted:"+name, "%s left an unmodified value undecrypted for its owner", name)
		}
	}

	l := layoutOf(c.Form)
	isSearch := l.hash >= 0
	// library level
	if c.Kind == fix.KindStruct {
		privs := func() []*keys.PrivateKey {
			p, err := w.KS.GetServerDecryptionPrivateKeys(w.Alice)
			if err != nil {
				panic(err)
			}
			return p
		}
		if !isSearch {
			reveal("acrastruct.DecryptRotatedAcrastruct", false, func() ([]byte, error) {
				return acrastruct.DecryptRotatedAcrastruct(in(), privs(), nil)
			})
		}
		reveal("hmac.DecryptRotatedSearchableAcraStruct", true, func() ([]byte, error) {
			return hmac.DecryptRotatedSearchableAcraStruct(in(), w.HmacKey(w.Alice), privs(), nil)
		})
	} else {
		syms := func() [][]byte {
			k, err := w.KS.GetClientIDSymmetricKeys(w.Alice)
			if err != nil {
				panic(err)
			}
			return k
		}
		if !isSearch {
			reveal("acrablock.Decrypt", false, func() ([]byte, error) {
				b, err := acrablock.NewAcraBlockFromData(in())
				if err != nil {
					return nil, err
				}
				return b.Decrypt(syms(), nil)
			})
		}
		reveal("hmac.DecryptRotatedSearchableAcraBlock", true, func() ([]byte, error) {
			return hmac.DecryptRotatedSearchableAcraBlock(in(), w.HmacKey(w.Alice), syms(), nil)
		})
	}
	// handler level
	envID := byte(crypto.AcraStructEnvelopeID)
	if c.Kind == fix.KindBlock {
		envID = crypto.AcraBlockEnvelopeID
	}
	if h, herr := crypto.GetHandlerByEnvelopeID(envID); herr == nil {
		reveal("ContainerHandler.Decrypt", false, func() ([]byte, error) {
			d := in()
			if !h.MatchDataSignature(d) {
				return nil, fmt.Errorf("signature mismatch")
			}
			return h.Decrypt(d, dctx())
		})
		reveal("RegistryHandler.DecryptWithHandler", false, func() ([]byte, error) { return w.Reg.DecryptWithHandler(h, in(), dctx()) })
	}
	reveal("RegistryHandler.Process", false, func() ([]byte, error) { return w.Reg.Process(in(), dctx()) })
	reveal("hmac.NewHashProcessor", true, func() ([]byte, error) { return hmac.NewHashProcessor(w.Reg, w.KS).Process(in(), dctx()) })
	reveal("DecryptHandler.OnCryptoEnvelope", false, func() ([]byte, error) {
		d := in()
		out, err := crypto.NewDecryptHandler(w.KS, w.Reg).OnCryptoEnvelope(fix.Ctx(w.Alice), d)
		if err == nil && bytes.Equal(out, d) {
			return nil, fmt.Errorf("unchanged")
		}
		return out, err
	})
	// translator
	if c.Kind == fix.KindStruct {
		reveal("Translator.Decrypt", false, func() ([]byte, error) { return w.Svc.Decrypt(fix.Ctx(w.Alice), in(), w.Alice, nil) })
		reveal("Translator.DecryptSearchable", true, func() ([]byte, error) {
			return w.Svc.DecryptSearchable(fix.Ctx(w.Alice), in(), nil, w.Alice, nil)
		})
		if len(e) > 33 {
			reveal("Translator.DecryptSearchable/split", true, func() ([]byte, error) {
				d := in()
				return w.Svc.DecryptSearchable(fix.Ctx(w.Alice), d[33:], d[:33:33], w.Alice, nil)
			})
		}
	} else {
		reveal("Translator.DecryptSym", false, func() ([]byte, error) { return w.Svc.DecryptSym(fix.Ctx(w.Alice), in(), w.Alice, nil) })
		reveal("Translator.DecryptSymSearchable", true, func() ([]byte, error) {
			return w.Svc.DecryptSymSearchable(fix.Ctx(w.Alice), in(), nil, w.Alice, nil)
		})
		if len(e) > 33 {
			reveal("Translator.DecryptSymSearchable/split", true, func() ([]byte, error) {
				d := in()
				return w.Svc.DecryptSymSearchable(fix.Ctx(w.Alice), d[33:], d[:33:33], w.Alice, nil)
			})
		}
	}
	// transparent column chains
	column("column", false, func(d []byte) ([]byte, error) { return fix.NewChain(w.KS, nil).OnColumn(w.Alice, d) })
	column("search-column", true, func(d []byte) ([]byte, error) { return fix.NewSearchChain(w.KS, nil).OnColumn(w.Alice, d) })
	return vs, changed
}

func verifiesHashOnlyForm(name, form string) bool { return false }

func classes(c Case) []string {
	cl := []string{"op:" + c.Edit.Op, "kind:" + c.Kind, "form:" + c.Form}
	if c.Edit.Op == "field" {
		cl = append(cl, "field:"+c.Edit.Field)
	}
	return cl
}

func TestEdits(t *testing.T) {
	R.Rule("TestEdits", "a valid protected value of kind x form x key generation for alice is edited (bit/byte flip, truncation, append, insert, structural field set to hostile or real±k values, splice with a second value, swapped search hash) and fed to every reveal entry point (library, handlers, translator x4, two column chains); non-trivial = the edit changed at least one byte")
	hx.Checks(1500, 12000)
	rapid.Check(t, func(rt *rapid.T) {
		c := genCase(rt)
		vs, changed := Check(c)
		R.Seen("TestEdits", c, changed, classes(c)...)
		R.Report(rt, "TestEdits", c, vs)
	})
}

// TestIntact is the positive control: unedited values must reveal at every compatible entry point.
func TestIntact(t *testing.T) {
	R.Rule("TestIntact", "positive control: the same entry points on unedited values must return the plaintext")
	hx.Checks(150, 1000)
	rapid.Check(t, func(rt *rapid.T) {
		c := genCase(rt)
		c.Edit = Edit{Op: "none"}
		vs, _ := Check(c)
		R.Seen("TestIntact", c, false, "kind:"+c.Kind, "form:"+c.Form)
		R.Report(rt, "TestIntact", c, vs)
	})
}

// TestSweep enumerates, for one small value per kind and form, every single-bit flip, every
// truncation length and every (field, hostile value) pair.
func TestSweep(t *testing.T) {
	if hx.Shard() != 0 {
		t.Skip("sweep runs in shard 0")
	}
	R.Rule("TestSweep", "exhaustive over one 21-byte value per kind x form: every bit of every byte, every truncation length, every structural field x every hostile value")
	plain := gen.Hex("sweep-plaintext-21-by")
	step := 1
	if hx.Tier() == "quick" {
		step = 5 // quick: every 5th bit position
	}
	for _, kind := range fix.Kinds {
		for _, form := range fix.Forms {
			w := fix.TheWorld()
			v, err := w.Protect(w.Alice, kind, form, plain, 1)
			if err != nil {
				t.Fatal(err)
			}
			n := 0
			run := func(e Edit) {
				c := Case{Kind: kind, Form: form, Gen: 1, Plain: plain, Edit: e}
				vs, changed := Check(c)
				R.Seen("TestSweep", c, changed, "op:"+e.Op)
				R.Report(t, "TestSweep", c, vs)
				n++
			}
			for pos := 0; pos < len(v); pos++ {
				for bit := 0; bit < 8; bit++ {
					if (pos*8+bit)%step == 0 {
						run(Edit{Op: "flip", Pos: pos, Bit: bit})
					}
				}
			}
			for ln := 0; ln < len(v); ln++ {
				run(Edit{Op: "trunc", Pos: ln})
			}
			for name := range fields(kind, form) {
				for _, hv := range hostile {
					run(Edit{Op: "field", Field: name, Val: hv})
				}
			}
		}
	}
}

func TestReplay(t *testing.T) {
	R.Replay(t, map[string]hx.ReplayHandler{
		"TestEdits":  replayCase,
		"TestIntact": replayCase,
		"TestSweep":  replayCase,
	})
}

func replayCase(raw json.RawMessage) hx.Vs {
	var c Case
	if err := json.Unmarshal(raw, &c); err != nil {
		return hx.Vs{{Sig: "harness:decode", Msg: err.Error()}}
	}
	vs, _ := Check(c)
	return vs
}
