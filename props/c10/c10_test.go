// Package c10: tokens are format-preserving, reversible for the owner, and consistent.
package c10

import (
	"bytes"
	"encoding/json"
	"errors"
	"fmt"
	"math"
	"os"
	"regexp"
	"sort"
	"strconv"
	"strings"
	"sync"
	"testing"

	"pgregory.net/rapid"

	"verif/internal/fix"
	"verif/internal/gen"
	"verif/internal/hx"
)

var R = hx.New("C10")

func TestMain(m *testing.M) {
	fix.Quiet()
	code := R.Main(m)
	cleanupKeystore()
	os.Exit(code)
}

// Val is a typed value: I for int32/int64, B for str/bytes/email.
type Val struct {
	I int64   `json:"i,omitempty"`
	B gen.Hex `json:"b,omitempty"`
}

// Op is one step of a history.
//
//	tok     tokenize V as Type in context Ctx, Mode c(onsistent)|r(andom), through Via lib|sql|tr
//	detok   detokenize, Ref<0: the literal V; Ref>=0: the (Ref mod n)-th token issued so far in the
//	        history (its type; its own context when Own, else Ctx)
//	maint   Act disable|enable|remove-all|remove-disabled, Lim = optional acra-tokens date limit flag;
//	        Cli (BoltDB only): through the real acra-tokens subcommand instead of its visitor body
//	status  count records like `acra-tokens status`
//	reopen  close and reopen the BoltDB file
//	batch   Calls (tok in consistent mode / detok) released together from one goroutine each
type Op struct {
	Op    string `json:"op"`
	Via   string `json:"via,omitempty"`
	Ctx   int    `json:"ctx,omitempty"`
	Type  string `json:"type,omitempty"`
	Mode  string `json:"mode,omitempty"`
	V     Val    `json:"v"`
	Ref   int    `json:"ref,omitempty"`
	Own   bool   `json:"own,omitempty"`
	Act   string `json:"act,omitempty"`
	Lim   string `json:"lim,omitempty"`
	Cli   bool   `json:"cli,omitempty"`
	Calls []Op   `json:"calls,omitempty"`
}

// Case is one history over one token store.
type Case struct {
	Store string `json:"store"` // memory | bolt
	Enc   bool   `json:"enc"`   // behind the encrypting wrapper
	Ops   []Op   `json:"ops"`
}

// ---------------------------------------------------------------------------------------------
// generator

var (
	int32Bound = []int64{math.MinInt32, math.MaxInt32, 0, 1, -1, math.MinInt32 + 1, math.MaxInt32 - 1}
	int64Bound = []int64{math.MinInt64, math.MaxInt64, 0, 1, -1, math.MinInt64 + 1, math.MaxInt64 - 1, math.MinInt32, math.MaxInt32, math.MaxInt32 + 1, math.MinInt32 - 1, 1 << 32, 1<<32 + 5}
	tlds       = []string{".com", ".net", ".org", ".edu", ".info", ".au", ".de", ".io", ".museum", ".co.uk"}
)

// seed is a pool entry: one integer for each width and one byte string, used with whatever type an
// operation picks, so the same bytes meet under str, bytes and email.
type seed struct {
	I32, I64 int64
	B        gen.Hex
}

func genBytes(t *rapid.T, label string) gen.Hex {
	cls := rapid.SampledFrom([]string{"empty", "len1", "len1", "len1", "len2", "len2", "len3", "len6", "long", "nonascii", "nul", "email", "email", "email-short", "nearemail", "alnum"}).Draw(t, label+".cls")
	alnum := rapid.SampledFrom([]byte("abcxyzABZ019"))
	switch cls {
	case "empty":
		return gen.Hex{}
	case "len1":
		return gen.Hex{rapid.SampledFrom([]byte("abcdeZ09@\x00\xff")).Draw(t, label+".b")}
	case "len2":
		return gen.Hex(rapid.SliceOfN(rapid.SampledFrom([]byte("ab@.\x00\xc3\xa9")), 2, 2).Draw(t, label+".b2"))
	case "len3":
		return gen.Hex(rapid.SliceOfN(rapid.SampledFrom([]byte("ab@.c\x00")), 3, 3).Draw(t, label+".b3"))
	case "len6":
		return gen.Hex(rapid.SliceOfN(rapid.Byte(), 4, 7).Draw(t, label+".b6"))
	case "long":
		n := rapid.SampledFrom([]int{8, 9, 16, 33, 64, 255, 256, 1000, 5000}).Draw(t, label+".n")
		pat := rapid.SliceOfN(rapid.Byte(), 1, 8).Draw(t, label+".pat")
		out := make([]byte, n)
		for i := range out {
			out[i] = pat[i%len(pat)] + byte(i/len(pat))
		}
		return out
	case "nonascii":
		return gen.Hex(rapid.StringN(1, 12, -1).Draw(t, label+".s"))
	case "nul":
		return gen.Hex(bytes.Repeat([]byte{0}, rapid.IntRange(1, 9).Draw(t, label+".n")))
	case "email", "email-short":
		ln, dn := 1, 1
		tld := rapid.SampledFrom(tlds).Draw(t, label+".tld")
		if cls == "email" {
			ln = rapid.IntRange(1, 12).Draw(t, label+".ln")
			dn = rapid.IntRange(1, 10).Draw(t, label+".dn")
		} else {
			tld = rapid.SampledFrom([]string{".au", ".de", ".io", ".com"}).Draw(t, label+".stld")
			ln = rapid.IntRange(1, 2).Draw(t, label+".ln")
		}
		l := rapid.SliceOfN(alnum, ln, ln).Draw(t, label+".local")
		d := rapid.SliceOfN(alnum, dn, dn).Draw(t, label+".dom")
		return gen.Hex(string(l) + "@" + string(d) + tld)
	case "nearemail":
		return gen.Hex(rapid.SampledFrom([]string{"@", "a@", "@b", "a@b", "a@b.", "a@.au", "@.com", "a@b.c", "ab.com", "a@@b.com", "a b@c.de", "a@b@c.de"}).Draw(t, label+".ne"))
	default:
		return gen.Hex(rapid.SliceOfN(alnum, 4, 10).Draw(t, label+".al"))
	}
}

func genSeed(t *rapid.T, label string, emailBias bool) seed {
	s := seed{B: genBytes(t, label)}
	if emailBias && rapid.Bool().Draw(t, label+".eb") {
		l := rapid.SliceOfN(rapid.SampledFrom([]byte("abcxyz019._-")), 1, 10).Draw(t, label+".el")
		d := rapid.SliceOfN(rapid.SampledFrom([]byte("abcxyz019-")), 1, 8).Draw(t, label+".ed")
		s.B = gen.Hex(string(l) + "@" + string(d) + rapid.SampledFrom(tlds).Draw(t, label+".et"))
	}
	if rapid.IntRange(0, 9).Draw(t, label+".ib") < 7 {
		s.I32 = rapid.SampledFrom(int32Bound).Draw(t, label+".i32")
		s.I64 = rapid.SampledFrom(int64Bound).Draw(t, label+".i64")
	} else {
		s.I32 = int64(rapid.Int32().Draw(t, label+".u32"))
		s.I64 = rapid.Int64().Draw(t, label+".u64")
	}
	return s
}

func (s seed) val(typ string) Val {
	switch typ {
	case "int32":
		return Val{I: s.I32}
	case "int64":
		return Val{I: s.I64}
	}
	return Val{B: s.B}
}

// profile steers the operation mix of the three history tests.
type profile struct {
	vias      []string // entry points, weighted by repetition
	kinds     []string // operation kinds, weighted by repetition
	maxOps    int
	stores    []string
	batchOnly bool
}

var (
	profHistory = profile{vias: []string{"lib", "lib", "lib", "sql", "sql"}, maxOps: 25, stores: []string{"memory", "bolt"},
		kinds: []string{"tok", "tok", "tok", "tok", "tok", "tok", "tok", "tok", "detok", "detok", "detok", "detok", "detok", "maint", "maint", "status", "reopen", "batch", "batch"}}
	profTranslator = profile{vias: []string{"tr", "tr", "tr", "lib", "sql"}, maxOps: 20, stores: []string{"memory", "bolt"},
		kinds: []string{"tok", "tok", "tok", "tok", "tok", "tok", "detok", "detok", "detok", "detok", "maint", "status", "reopen", "batch"}}
	profConcurrent = profile{vias: []string{"lib", "lib", "sql", "tr"}, maxOps: 6, stores: []string{"memory", "memory", "bolt"},
		kinds: []string{"batch", "batch", "batch", "batch", "detok", "tok", "maint", "reopen"}}
)

func genCase(t *rapid.T, p profile) Case {
	c := Case{Store: rapid.SampledFrom(p.stores).Draw(t, "store"), Enc: rapid.Bool().Draw(t, "enc")}
	nctx := rapid.IntRange(2, 4).Draw(t, "nctx")
	// a case concentrates on one or two types and one context so that values meet
	focusT := []string{rapid.SampledFrom(typeNames).Draw(t, "focus1"), rapid.SampledFrom(typeNames).Draw(t, "focus2")}
	emailBias := focusT[0] == "email" || focusT[1] == "email"
	pool := make([]seed, rapid.IntRange(2, 5).Draw(t, "npool"))
	for i := range pool {
		pool[i] = genSeed(t, fmt.Sprintf("pool%d", i), emailBias)
	}
	focusC := rapid.IntRange(0, nctx-1).Draw(t, "focusctx")
	cur := t // the rapid.T the helper closures draw from (switched inside the element generators)
	pickType := func(l string) string {
		if rapid.IntRange(0, 9).Draw(cur, l+".tf") < 8 {
			return rapid.SampledFrom(focusT).Draw(cur, l+".type")
		}
		return rapid.SampledFrom(typeNames).Draw(cur, l+".anytype")
	}
	pickCtx := func(l string) int {
		if rapid.IntRange(0, 9).Draw(cur, l+".cf") < 7 {
			return focusC
		}
		return rapid.IntRange(0, nctx-1).Draw(cur, l+".ctx")
	}
	pickVal := func(l, typ string) Val {
		if rapid.IntRange(0, 9).Draw(cur, l+".vp") < 8 {
			return rapid.SampledFrom(pool).Draw(cur, l+".seed").val(typ)
		}
		return genSeed(cur, l+".fresh", typ == "email").val(typ)
	}
	pickVia := func(l string, ctx int) string {
		if ctx == zoneCtx {
			return "lib"
		}
		return rapid.SampledFrom(p.vias).Draw(cur, l+".via")
	}
	tokOp := func(l string, batch bool) Op {
		o := Op{Op: "tok", Ctx: pickCtx(l), Type: pickType(l), Mode: "c"}
		o.Via = pickVia(l, o.Ctx)
		o.V = pickVal(l, o.Type)
		if !batch && o.Via != "tr" && rapid.IntRange(0, 9).Draw(cur, l+".mode") < 4 {
			o.Mode = "r"
		}
		return o
	}
	detokOp := func(l string) Op {
		o := Op{Op: "detok", Ctx: pickCtx(l), Ref: -1}
		switch rapid.IntRange(0, 9).Draw(cur, l+".src") {
		case 0, 1: // a literal value (usually one that was tokenized: originals must come back unchanged)
			o.Type = pickType(l)
			o.V = pickVal(l, o.Type)
		case 2, 3: // an issued token presented in a chosen (usually foreign) context
			o.Ref = rapid.IntRange(0, 40).Draw(cur, l+".ref")
		default: // an issued token presented by its owner
			o.Ref = rapid.IntRange(0, 40).Draw(cur, l+".ref")
			o.Own = true
		}
		o.Via = pickVia(l, o.Ctx)
		return o
	}
	callGen := func(typ string, ctx int, v1, v2 Val) *rapid.Generator[Op] {
		return rapid.Custom(func(it *rapid.T) Op {
			prev := cur
			cur = it
			defer func() { cur = prev }()
			if rapid.IntRange(0, 9).Draw(cur, "k") >= 8 {
				return detokOp("d")
			}
			o := Op{Op: "tok", Ctx: ctx, Type: typ, Mode: "c", V: v1}
			if rapid.IntRange(0, 9).Draw(cur, "which") < 3 {
				o.V = v2
			}
			if rapid.IntRange(0, 9).Draw(cur, "stray") == 0 {
				o = tokOp("s", true)
			}
			o.Via = pickVia("c", o.Ctx)
			return o
		})
	}
	opGen := rapid.Custom(func(it *rapid.T) Op {
		prev := cur
		cur = it
		defer func() { cur = prev }()
		l := "o"
		kind := rapid.SampledFrom(p.kinds).Draw(cur, "kind")
		if kind == "reopen" && c.Store != "bolt" {
			kind = "detok"
		}
		switch kind {
		case "tok":
			return tokOp(l, false)
		case "maint":
			return Op{Op: "maint",
				Act: rapid.SampledFrom([]string{"disable", "disable", "enable", "enable", "remove-all", "remove-disabled", "remove-disabled"}).Draw(cur, "act"),
				Lim: rapid.SampledFrom([]string{"", "", "", "", "created_after", "accessed_after", "created_before", "accessed_before"}).Draw(cur, "lim"),
				Cli: c.Store == "bolt" && rapid.IntRange(0, 9).Draw(cur, "cli") < 4}
		case "status":
			return Op{Op: "status", Lim: rapid.SampledFrom([]string{"", "", "created_after", "accessed_before"}).Draw(cur, "lim")}
		case "reopen":
			return Op{Op: "reopen"}
		case "batch":
			// overlapping values: the calls of a batch share one type, context and a pair of values
			typ, ctx := pickType(l), pickCtx(l)
			v1, v2 := pickVal("v1", typ), pickVal("v2", typ)
			return Op{Op: "batch", Calls: rapid.SliceOfN(callGen(typ, ctx, v1, v2), 2, 8).Draw(cur, "calls")}
		}
		return detokOp(l)
	})
	minOps := rapid.IntRange(1, min(8, p.maxOps)).Draw(t, "minops")
	c.Ops = rapid.SliceOfN(opGen, minOps, p.maxOps).Draw(t, "ops")
	return c
}

// ---------------------------------------------------------------------------------------------
// model: per (context, type) a partial bijection, as two sets of store records

type spaceKey struct {
	ctx int
	typ string
}

type rec struct {
	v        Val // fwd: the token; rev: the original value
	disabled bool
}

type space struct {
	fwd     map[string]*rec // consistent-mode record: value -> token
	rev     map[string]*rec // token record: token -> value
	orphans map[string]bool // values for which token records unknown to the model may exist (failed / lost-race calls)
	removed map[string]bool // tokens whose record was removed by maintenance (evidence only)
}

type issued struct {
	ctx   int
	typ   string
	token Val
}

type model struct {
	spaces    map[spaceKey]*space
	orphanMax int // upper bound on the number of store records unknown to the model
	issued    []issued
}

func key(typ string, v Val) string {
	if isInt(typ) {
		return strconv.FormatInt(v.I, 10)
	}
	return string(v.B)
}

func (m *model) space(ctx int, typ string) *space {
	k := spaceKey{ctx, typ}
	s := m.spaces[k]
	if s == nil {
		s = &space{fwd: map[string]*rec{}, rev: map[string]*rec{}, orphans: map[string]bool{}, removed: map[string]bool{}}
		m.spaces[k] = s
	}
	return s
}

func (m *model) counts() (total, disabled int) {
	for _, s := range m.spaces {
		for _, r := range s.fwd {
			total++
			if r.disabled {
				disabled++
			}
		}
		for _, r := range s.rev {
			total++
			if r.disabled {
				disabled++
			}
		}
	}
	return
}

func (m *model) maintain(act string) {
	for _, s := range m.spaces {
		for i, recs := range []map[string]*rec{s.fwd, s.rev} {
			for k, r := range recs {
				switch act {
				case "disable":
					r.disabled = true
				case "enable":
					r.disabled = false
				case "remove-all", "remove-disabled":
					if act == "remove-all" || r.disabled {
						delete(recs, k)
						if i == 1 {
							s.removed[k] = true
						}
					}
				}
			}
		}
		if act == "remove-all" {
			s.orphans = map[string]bool{}
		}
	}
	if act == "remove-all" {
		m.orphanMax = 0
	}
}

// ---------------------------------------------------------------------------------------------
// shape oracle

const alphabet = "abcdefghijklmnopqrstuvwxyzABCDEFGHIJKLMNOPQRSTUVWXYZ0123456789"

// e-mail shape: one '@' with a non-empty local part, at least one non-empty domain label and an
// alphabetic top-level domain of two or more letters.
var emailRe = regexp.MustCompile(`^[^@\s]+@[^@\s.]+(\.[^@\s.]+)*\.[A-Za-z]{2,}$`)

func emailShaped(b []byte) bool { return emailRe.Match(b) }

// shape checks a token against the value it replaces.
func shape(vs *hx.Vs, entry, typ string, v, tok Val) {
	switch typ {
	case "int32":
		if tok.I < math.MinInt32 || tok.I > math.MaxInt32 {
			vs.Add("shape-int-range:"+entry, "int32 token of %d is outside the int32 range", v.I)
		}
	case "int64":
	default:
		if len(tok.B) != len(v.B) {
			vs.Add("shape-length:"+entry+"/"+typ, "%s token has %d bytes, the value has %d", typ, len(tok.B), len(v.B))
			return
		}
		if typ == "str" {
			for _, ch := range tok.B {
				if !bytes.ContainsRune([]byte(alphabet), rune(ch)) || ch >= 0x80 {
					vs.Add("shape-alphabet:"+entry, "the str token of %s has a byte outside [a-zA-Z0-9]", show("str", v))
					break
				}
			}
		}
		if typ == "email" && emailShaped(v.B) && !emailShaped(tok.B) {
			vs.Add("shape-email:"+entry, "the token of the e-mail-shaped value %q is not e-mail-shaped", v.B)
		}
	}
}

// bigSpace: the token space of the value is so large that exhaustion cannot explain an error.
func bigSpace(typ string, v Val) bool {
	switch typ {
	case "int32", "int64":
		return true
	case "str":
		return len(v.B) >= 4
	case "bytes":
		return len(v.B) >= 3
	case "email":
		return len(v.B) >= 7
	}
	return false
}

// ---------------------------------------------------------------------------------------------
// the property

type runner struct {
	c   Case
	s   *store
	m   *model
	vs  hx.Vs
	dyn map[string]bool
	lit map[string]bool // type/key of every literal value of the case
}

// descr and descrRes print values for violation messages. Messages must be the same on every run
// of a case (rapid refuses to shrink otherwise), so acra's random tokens are never printed.
func (r *runner) descr(typ string, v Val) string {
	if r.lit[typ+"/"+key(typ, v)] {
		return "the value " + show(typ, v)
	}
	if isInt(typ) {
		return "an issued " + typ + " token"
	}
	return fmt.Sprintf("an issued %d-byte %s token", len(v.B), typ)
}

func (r *runner) descrRes(typ string, res, arg Val) string {
	switch {
	case key(typ, res) == key(typ, arg):
		return "the argument unchanged"
	case r.lit[typ+"/"+key(typ, res)]:
		return "the value " + show(typ, res)
	case isInt(typ):
		return "some other " + typ
	}
	return fmt.Sprintf("some other %d-byte %s", len(res.B), typ)
}

func (r *runner) class(c string) { r.dyn[c] = true }

func via(o Op) string {
	if o.Ctx == zoneCtx || o.Via == "" {
		return "lib"
	}
	return o.Via
}

func entryTok(o Op) string {
	switch via(o) {
	case "sql":
		return "DataTokenizer.Tokenize"
	case "tr":
		return "Translator.Tokenize"
	}
	if o.Mode == "r" {
		return "Anonymize"
	}
	return "AnonymizeConsistently"
}

func entryDetok(v string) string {
	switch v {
	case "sql":
		return "DataTokenizer.Detokenize"
	case "tr":
		return "Translator.Detokenize"
	}
	return "Deanonymize"
}

func show(typ string, v Val) string {
	if isInt(typ) {
		return strconv.FormatInt(v.I, 10)
	}
	if len(v.B) > 40 {
		return fmt.Sprintf("%q…(%d bytes)", v.B[:40], len(v.B))
	}
	return fmt.Sprintf("%q", []byte(v.B))
}

// resolve turns a detok op into (context, type, argument); ok=false when it refers to an issued
// token and none has been issued yet.
func (r *runner) resolve(o Op) (ctx int, typ string, x Val, ok bool) {
	if o.Ref < 0 {
		if tokenType(o.Type) == 0 {
			return 0, "", Val{}, false
		}
		return o.Ctx, o.Type, o.V, true
	}
	if len(r.m.issued) == 0 {
		return 0, "", Val{}, false
	}
	is := r.m.issued[o.Ref%len(r.m.issued)]
	ctx = o.Ctx
	if o.Own {
		ctx = is.ctx
	}
	return ctx, is.typ, is.token, true
}

type result struct {
	v        Val
	err      error
	panicked bool
	vs       hx.Vs
}

func (r *runner) callTok(o Op) (res result) {
	res.panicked = hx.Guard(&res.vs, entryTok(o)+"/"+o.Type, func() {
		res.v, res.err = r.s.tokenize(via(o), o.Ctx, o.Type, o.Mode != "r", o.V)
	})
	return
}

func (r *runner) callDetok(v string, ctx int, typ string, x Val) (res result) {
	res.panicked = hx.Guard(&res.vs, entryDetok(v)+"/"+typ, func() {
		res.v, res.err = r.s.detokenize(v, ctx, typ, x)
	})
	return
}

// noteFailure records what a failed (or lost-race) tokenize call may have left in the store.
func (r *runner) noteFailure(sp *space, typ string, v Val, n int) {
	sp.orphans[key(typ, v)] = true
	r.m.orphanMax += n
}

// judgeTok evaluates the successful results of tokenize calls for one (context, type, value, mode)
// made while no other call on that value could change the model; toks are the non-error results.
// It returns the token now bound to the value (consistent mode).
func (r *runner) judgeNewToken(sp *space, o Op, tok Val) bool {
	entry := entryTok(o)
	shape(&r.vs, entry, o.Type, o.V, tok)
	if old, ok := sp.rev[key(o.Type, tok)]; ok {
		if key(o.Type, old.v) != key(o.Type, o.V) {
			r.vs.Add("token-shared:"+entry+"/"+o.Type, "the token issued for %s in context %d is already the token of the different value %s", show(o.Type, o.V), o.Ctx, show(o.Type, old.v))
		} else {
			r.vs.Add("token-reissued:"+entry+"/"+o.Type, "a token of %s was issued a second time although its record exists", show(o.Type, o.V))
		}
		return false
	}
	return true
}

func (r *runner) opTok(o Op) {
	if tokenType(o.Type) == 0 || o.Ctx < 0 || o.Ctx >= len(contexts) {
		return
	}
	sp := r.m.space(o.Ctx, o.Type)
	k := key(o.Type, o.V)
	entry := entryTok(o)
	res := r.callTok(o)
	r.vs = append(r.vs, res.vs...)
	if res.panicked {
		r.noteFailure(sp, o.Type, o.V, 2)
		return
	}
	consistent := o.Mode != "r"
	have := sp.fwd[k]
	if res.err != nil {
		if _, bad := res.err.(errMalformed); bad {
			r.vs.Add("malformed-token:"+entry+"/"+o.Type, "%v", res.err)
			r.noteFailure(sp, o.Type, o.V, 2)
			return
		}
		switch {
		case consistent && have != nil && have.disabled:
			r.class("tok:error-disabled")
		case consistent && have != nil:
			r.vs.Add("consistent-error:"+entry+"/"+o.Type, "value %s has an enabled token in context %d but tokenizing it again failed: %v", show(o.Type, o.V), o.Ctx, res.err)
		case bigSpace(o.Type, o.V):
			r.vs.Add("tokenize-error:"+entry+"/"+o.Type, "tokenizing %s (context %d, mode %s) failed although the token space is not exhausted: %v", show(o.Type, o.V), o.Ctx, o.Mode, res.err)
		default:
			r.class("tok:error-small-space")
		}
		r.noteFailure(sp, o.Type, o.V, 2)
		return
	}
	tok := res.v
	if consistent && have != nil {
		// (3) same (value, type, context) => same token; a disabled record may only fail, never answer differently
		if key(o.Type, have.v) != key(o.Type, tok) {
			r.vs.Add("inconsistent:"+entry+"/"+o.Type, "value %s already has a token in context %d (disabled=%v), now got a different one", show(o.Type, o.V), o.Ctx, have.disabled)
			r.noteFailure(sp, o.Type, o.V, 2)
		} else {
			r.class("tok:consistent-repeat")
		}
		return
	}
	if !r.judgeNewToken(sp, o, tok) {
		r.noteFailure(sp, o.Type, o.V, 2)
		return
	}
	sp.rev[key(o.Type, tok)] = &rec{v: o.V}
	if consistent {
		sp.fwd[k] = &rec{v: tok}
	}
	r.m.issued = append(r.m.issued, issued{o.Ctx, o.Type, tok})
	if key(o.Type, tok) == k {
		r.class("tok:token-equals-value")
	}
}

// judgeDetok compares one detokenize result with the model. extra are values whose token records
// may appear concurrently (batch) in the space.
func (r *runner) judgeDetok(v string, ctx int, typ string, x Val, res result, extra map[string]bool) {
	entry := entryDetok(v) + "/" + typ
	sp := r.m.space(ctx, typ)
	have := sp.rev[key(typ, x)]
	if res.err != nil {
		if _, bad := res.err.(errMalformed); bad {
			r.vs.Add("malformed-detok:"+entry, "%v", res.err)
			return
		}
		switch {
		case have != nil && !have.disabled:
			r.vs.Add("detok-error:"+entry, "the token issued in context %d for %s cannot be detokenized by its owner: %v", ctx, show(typ, have.v), res.err)
		case have != nil:
			r.class("detok:disabled-error")
		default:
			r.vs.Add("unknown-token-error:"+entry, "detokenizing %s, unknown in context %d, failed instead of returning it: %v", r.descr(typ, x), ctx, res.err)
		}
		return
	}
	got := key(typ, res.v)
	switch {
	case have != nil && !have.disabled:
		// (2) the owner gets the original back
		if got != key(typ, have.v) {
			r.vs.Add("wrong-original:"+entry, "the token issued in context %d for %s detokenizes to %s", ctx, show(typ, have.v), r.descrRes(typ, res.v, x))
		} else {
			r.class("detok:owner")
		}
	case have != nil:
		if got != key(typ, x) {
			r.vs.Add("disabled-token-resolved:"+entry, "the record of the token of %s is disabled but detokenizing returned %s", show(typ, have.v), r.descrRes(typ, res.v, x))
		} else {
			r.class("detok:disabled")
		}
	default:
		if got == key(typ, x) {
			if sp.removed[got] {
				r.class("detok:removed-unchanged")
			} else {
				r.class("detok:unknown-unchanged")
			}
			return
		}
		if sp.orphans[got] || extra[got] {
			r.class("detok:maybe-orphan")
			return
		}
		r.vs.Add("unknown-token-altered:"+entry, "%s is not an issued token in context %d (never issued there, or its record was removed) but detokenizes to %s", r.descr(typ, x), ctx, r.descrRes(typ, res.v, x))
	}
}

func (r *runner) opDetok(o Op) {
	ctx, typ, x, ok := r.resolve(o)
	if !ok || ctx < 0 || ctx >= len(contexts) {
		r.class("detok:skipped-no-token")
		return
	}
	v := o.Via
	if ctx == zoneCtx || v == "" {
		v = "lib"
	}
	if o.Ref >= 0 && !o.Own {
		r.class("detok:foreign-context")
	}
	res := r.callDetok(v, ctx, typ, x)
	r.vs = append(r.vs, res.vs...)
	if res.panicked {
		return
	}
	r.judgeDetok(v, ctx, typ, x, res, nil)
}

func (r *runner) opMaint(o Op) {
	cli := o.Cli && r.c.Store == "bolt"
	what := "acra-tokens." + o.Act
	if cli {
		what = "acra-tokens-cli." + o.Act
		if R.IsKnown("maintenance-effect:" + what) {
			cli, what = false, "acra-tokens."+o.Act // known defect of the tool: keep searching behind it
		}
	}
	var err error
	if hx.Guard(&r.vs, what, func() {
		if cli {
			err = r.s.cliMaintain(o.Act, o.Lim)
		} else {
			err = r.s.maintain(o.Act, o.Lim)
		}
	}) {
		return
	}
	if errors.Is(err, errInconclusive) {
		R.Note("%v", err)
		r.vs.Add("harness:inconclusive", "%v", err)
		return
	}
	if err != nil {
		r.vs.Add("maintenance-error:"+what, "%s (limit %q) failed: %v", o.Act, o.Lim, err)
		return
	}
	if limitMatches(o.Lim) {
		r.m.maintain(o.Act)
		r.class("maint:applied")
	} else {
		r.class("maint:none-selected")
	}
	if cli {
		r.class("maint:cli")
	}
	// the effect on the population of records, observed like `acra-tokens status`
	var total, disabled int
	if hx.Guard(&r.vs, "acra-tokens.status", func() { total, disabled, err = r.s.status("") }) {
		return
	}
	wt, wd := r.m.counts()
	if err != nil || total < wt || total > wt+r.m.orphanMax || disabled < wd || disabled > wd+r.m.orphanMax {
		r.vs.Add("maintenance-effect:"+what, "after %s (limit %q) the store holds %d records, %d disabled (%v); expected %d and %d (at most %d more from failed calls)", o.Act, o.Lim, total, disabled, err, wt, wd, r.m.orphanMax)
	}
}

func (r *runner) opStatus(o Op) {
	var total, disabled int
	var err error
	if hx.Guard(&r.vs, "acra-tokens.status", func() { total, disabled, err = r.s.status(o.Lim) }) {
		return
	}
	if err != nil {
		r.vs.Add("maintenance-error:status", "status failed: %v", err)
		return
	}
	wt, wd := r.m.counts()
	slack := r.m.orphanMax
	if !limitMatches(o.Lim) {
		wt, wd, slack = 0, 0, 0
	}
	if total < wt || total > wt+slack || disabled < wd || disabled > wd+slack {
		r.vs.Add("status-count:"+r.c.Store, "status (limit %q) reports %d records, %d disabled; the history accounts for %d and %d (at most %d more from failed calls)", o.Lim, total, disabled, wt, wd, slack)
	}
}

func (r *runner) opReopen() {
	var err error
	if hx.Guard(&r.vs, "reopen", func() { err = r.s.reopen() }) {
		return
	}
	if err != nil {
		r.vs.Add("harness:reopen", "%v", err)
	}
}

// opBatch releases the calls together, one goroutine each, and judges the results with an oracle
// that does not depend on the schedule.
func (r *runner) opBatch(o Op) {
	type call struct {
		o   Op
		ctx int
		typ string
		x   Val
		via string
		ok  bool
		res result
	}
	calls := make([]*call, len(o.Calls))
	for i, co := range o.Calls {
		c := &call{o: co}
		switch co.Op {
		case "tok":
			c.ok = tokenType(co.Type) != 0 && co.Ctx >= 0 && co.Ctx < len(contexts)
			c.ctx, c.typ, c.x = co.Ctx, co.Type, co.V
			c.o.Mode = "c"
		case "detok":
			c.ctx, c.typ, c.x, c.ok = r.resolve(co)
			c.ok = c.ok && c.ctx >= 0 && c.ctx < len(contexts)
			c.via = co.Via
			if c.ctx == zoneCtx || c.via == "" {
				c.via = "lib"
			}
		}
		calls[i] = c
	}
	var ready, done sync.WaitGroup
	start := make(chan struct{})
	for _, c := range calls {
		if !c.ok {
			continue
		}
		ready.Add(1)
		done.Add(1)
		go func(c *call) {
			defer done.Done()
			ready.Done()
			<-start
			if c.o.Op == "tok" {
				c.res = r.callTok(c.o)
			} else {
				c.res = r.callDetok(c.via, c.ctx, c.typ, c.x)
			}
		}(c)
	}
	ready.Wait()
	close(start)
	done.Wait()

	// tokenize calls, grouped by (context, type, value) in order of first appearance
	type group struct {
		o     Op
		calls []*call
	}
	var groups []*group
	index := map[string]*group{}
	extra := map[spaceKey]map[string]bool{}
	for _, c := range calls {
		if !c.ok || c.o.Op != "tok" {
			continue
		}
		gk := fmt.Sprintf("%d/%s/%s", c.ctx, c.typ, key(c.typ, c.x))
		g := index[gk]
		if g == nil {
			g = &group{o: c.o}
			index[gk] = g
			groups = append(groups, g)
		}
		g.calls = append(g.calls, c)
		sk := spaceKey{c.ctx, c.typ}
		if extra[sk] == nil {
			extra[sk] = map[string]bool{}
		}
		extra[sk][key(c.typ, c.x)] = true
	}
	// detokenize calls are judged against the state before the batch; a value being tokenized
	// concurrently may legitimately appear as the original of a just-created token
	for _, c := range calls {
		if !c.ok || c.o.Op != "detok" {
			continue
		}
		r.vs = append(r.vs, c.res.vs...)
		if c.res.panicked {
			continue
		}
		r.judgeDetok(c.via, c.ctx, c.typ, c.x, c.res, extra[spaceKey{c.ctx, c.typ}])
	}
	for _, g := range groups {
		o := g.o
		sp := r.m.space(o.Ctx, o.Type)
		k := key(o.Type, o.V)
		have := sp.fwd[k]
		if len(g.calls) > 1 {
			r.class("batch:same-value-race")
		}
		var toks []Val
		failures := 0
		for _, c := range g.calls {
			entry := entryTok(c.o)
			r.vs = append(r.vs, c.res.vs...)
			if c.res.panicked {
				failures++
				continue
			}
			if c.res.err != nil {
				failures++
				if _, bad := c.res.err.(errMalformed); bad {
					r.vs.Add("malformed-token:"+entry+"/"+o.Type, "%v", c.res.err)
					continue
				}
				switch {
				case have != nil && have.disabled:
					r.class("tok:error-disabled")
				case have != nil:
					r.vs.Add("consistent-error:"+entry+"/"+o.Type+"/concurrent", "value %s has an enabled token in context %d but tokenizing it again concurrently failed: %v", show(o.Type, o.V), o.Ctx, c.res.err)
				case bigSpace(o.Type, o.V):
					r.vs.Add("tokenize-error:"+entry+"/"+o.Type+"/concurrent", "one of %d concurrent consistent tokenize calls for %s (context %d) failed although the token space is not exhausted: %v", len(g.calls), show(o.Type, o.V), o.Ctx, c.res.err)
				default:
					r.class("tok:error-small-space")
				}
				continue
			}
			toks = append(toks, c.res.v)
		}
		// every successful call must have returned one and the same token
		agreed := true
		for _, tk := range toks[min(1, len(toks)):] {
			if key(o.Type, tk) != key(o.Type, toks[0]) {
				agreed = false
				r.vs.Add("inconsistent:"+entryTok(o)+"/"+o.Type+"/concurrent", "%d concurrent consistent tokenize calls for %s in context %d returned different tokens", len(g.calls), show(o.Type, o.V), o.Ctx)
				break
			}
		}
		// records the losers of the race (and failed calls) may have left behind
		if n := len(g.calls) - 1 + 2*failures; n > 0 && (have == nil || have.disabled || failures > 0) {
			r.noteFailure(sp, o.Type, o.V, n)
		}
		if len(toks) == 0 || !agreed {
			if !agreed {
				r.noteFailure(sp, o.Type, o.V, 2*len(g.calls))
			}
			continue
		}
		tok := toks[0]
		if have != nil {
			if key(o.Type, have.v) != key(o.Type, tok) {
				r.vs.Add("inconsistent:"+entryTok(o)+"/"+o.Type+"/concurrent", "value %s already has a token in context %d (disabled=%v), a concurrent call got a different one", show(o.Type, o.V), o.Ctx, have.disabled)
			}
			continue
		}
		if !r.judgeNewToken(sp, o, tok) {
			r.noteFailure(sp, o.Type, o.V, 2)
			continue
		}
		sp.rev[key(o.Type, tok)] = &rec{v: o.V}
		sp.fwd[k] = &rec{v: tok}
		r.m.issued = append(r.m.issued, issued{o.Ctx, o.Type, tok})
	}
}

// Check runs the history against a fresh store and the model. dyn are the classes observed at run time.
func Check(c Case) (vs hx.Vs, dyn []string) {
	theKeystore()
	if c.Store != "memory" && c.Store != "bolt" {
		vs.Add("harness:case", "unknown store %q", c.Store)
		return vs, nil
	}
	s, err := openStore(c.Store, c.Enc)
	if err != nil {
		vs.Add("harness:open", "%v", err)
		return vs, nil
	}
	defer s.close()
	r := &runner{c: c, s: s, m: &model{spaces: map[spaceKey]*space{}}, dyn: map[string]bool{}, lit: map[string]bool{}}
	for _, o := range c.Ops {
		r.lit[o.Type+"/"+key(o.Type, o.V)] = true
		for _, co := range o.Calls {
			r.lit[co.Type+"/"+key(co.Type, co.V)] = true
		}
	}
	for _, o := range c.Ops {
		switch o.Op {
		case "tok":
			r.opTok(o)
		case "detok":
			r.opDetok(o)
		case "maint":
			r.opMaint(o)
		case "status":
			r.opStatus(o)
		case "reopen":
			r.opReopen()
		case "batch":
			r.opBatch(o)
		}
		if len(r.vs) > 0 {
			break // the model may no longer describe the store
		}
	}
	for k := range r.dyn {
		dyn = append(dyn, k)
	}
	sort.Strings(dyn)
	return r.vs, dyn
}

// ---------------------------------------------------------------------------------------------
// evidence

func valClass(typ string, v Val) string {
	if isInt(typ) {
		switch {
		case v.I == math.MinInt32 && typ == "int32", v.I == math.MinInt64:
			return "int-min"
		case v.I == math.MaxInt32 && typ == "int32", v.I == math.MaxInt64:
			return "int-max"
		case v.I == 0:
			return "int-0"
		case v.I == 1 || v.I == -1:
			return "int-pm1"
		}
		return "int-other"
	}
	switch n := len(v.B); {
	case n == 0:
		return "len-0"
	case n <= 3:
		return fmt.Sprintf("len-%d", n)
	case n <= 7:
		return "len-4..7"
	case n <= 64:
		return "len-8..64"
	}
	return "len-long"
}

func enc(c Case) string {
	if c.Enc {
		return "enc"
	}
	return "plain"
}

// nontrivial: >= 2 distinct values of one type in one context and >= 1 detokenize; or a concurrent
// batch with a repeated value.
func nontrivial(c Case) bool {
	distinct := map[spaceKey]map[string]bool{}
	detok := false
	note := func(o Op) {
		switch o.Op {
		case "tok":
			k := spaceKey{o.Ctx, o.Type}
			if distinct[k] == nil {
				distinct[k] = map[string]bool{}
			}
			distinct[k][key(o.Type, o.V)] = true
		case "detok":
			detok = true
		}
	}
	for _, o := range c.Ops {
		note(o)
		if o.Op == "batch" {
			seen := map[string]bool{}
			for _, co := range o.Calls {
				note(co)
				if co.Op == "tok" {
					k := fmt.Sprintf("%d/%s/%s", co.Ctx, co.Type, key(co.Type, co.V))
					if seen[k] {
						return true
					}
					seen[k] = true
				}
			}
		}
	}
	if !detok {
		return false
	}
	for _, d := range distinct {
		if len(d) >= 2 {
			return true
		}
	}
	return false
}

func classes(c Case, dyn []string) []string {
	set := map[string]bool{"store:" + c.Store + "/" + enc(c): true}
	tokCl := func(o Op, conc bool) {
		mode := "consistent"
		if o.Mode == "r" {
			mode = "random"
		}
		set["tok:"+o.Type+"/"+mode+"/"+c.Store+"/"+enc(c)] = true
		set["val:"+valClass(o.Type, o.V)] = true
		set["via:"+via(o)] = true
		set[fmt.Sprintf("ctx:%d", o.Ctx)] = true
		if o.Type == "email" {
			if emailShaped(o.V.B) {
				set["val:email-shaped"] = true
			} else {
				set["val:email-unshaped"] = true
			}
		}
		if !isInt(o.Type) {
			for _, b := range o.V.B {
				if b == 0 {
					set["val:has-nul"] = true
				}
				if b >= 0x80 {
					set["val:non-ascii"] = true
				}
			}
		}
		if conc {
			set["batch:tok/"+o.Type] = true
		}
	}
	for _, o := range c.Ops {
		set["op:"+o.Op] = true
		switch o.Op {
		case "tok":
			tokCl(o, false)
		case "detok":
			if o.Ref < 0 {
				set["detok:literal-value"] = true
			} else {
				set["detok:issued-token"] = true
			}
			set["via:"+via(o)+"/detok"] = true
		case "maint":
			set["maint:"+o.Act] = true
			if o.Lim != "" {
				set["maint:with-date-limit"] = true
			}
		case "batch":
			set[fmt.Sprintf("batch:%s/%s", c.Store, enc(c))] = true
			for _, co := range o.Calls {
				if co.Op == "tok" {
					tokCl(co, true)
				} else {
					set["batch:detok"] = true
				}
			}
		}
	}
	out := make([]string, 0, len(set)+len(dyn))
	for k := range set {
		out = append(out, k)
	}
	for _, d := range dyn {
		out = append(out, "seen:"+d)
	}
	sort.Strings(out)
	return out
}

// ---------------------------------------------------------------------------------------------
// tests

func runHistories(t *testing.T, name string, p profile, quick, thorough int) {
	hx.Checks(quick, thorough)
	rapid.Check(t, func(rt *rapid.T) {
		c := genCase(rt, p)
		vs, dyn := Check(c)
		R.Seen(name, c, nontrivial(c), classes(c, dyn)...)
		R.Report(rt, name, c, vs)
	})
}

func TestTokenHistory(t *testing.T) {
	R.Rule("TestTokenHistory", "store in {memory, bolt} x {plain, encrypting wrapper}; 1-25 operations generated as data from a per-case pool of 2-5 boundary values used under every type: tokenize (consistent/random, through Pseudoanonymizer or the SQL-boundary DataTokenizer), detokenize (issued token by owner / by another context / literal value), acra-tokens disable/enable/remove/status through VisitMetadata, BoltDB reopen, concurrent batches; oracle = per-context partial-bijection model (shape, round trip, consistency, injectivity, unknown tokens returned unchanged, no unexpected error, no panic); non-trivial = >=2 distinct values of one type in one context and >=1 detokenize, or a batch with a repeated value")
	runHistories(t, "TestTokenHistory", profHistory, 500, 15000)
}

func TestTranslatorTokenize(t *testing.T) {
	R.Rule("TestTranslatorTokenize", "same histories and oracle with tokenize/detokenize mostly through TranslatorService.Tokenize/Detokenize (fix.Translator over the case's store), mixed with library and SQL-boundary calls on the same store")
	runHistories(t, "TestTranslatorTokenize", profTranslator, 125, 2000)
}

func TestConcurrent(t *testing.T) {
	R.Rule("TestConcurrent", "histories made mostly of concurrent batches (2-8 consistent tokenize / detokenize calls on one or two values of one type and context, one goroutine each, released together); built with -race, a report of the race detector during a case is a violation of that case; non-trivial = a batch with a repeated value")
	w := startRaceWatch()
	defer w.stop()
	hx.Checks(150, 1500)
	rapid.Check(t, func(rt *rapid.T) {
		c := genCase(rt, profConcurrent)
		vs, dyn := Check(c)
		if rep := w.poll(); strings.Contains(rep, "DATA RACE") {
			a, b := raceSites(rep)
			sites := []string{a, b}
			sort.Strings(sites)
			vs.Add("data-race:"+sites[0], "the race detector reports unsynchronised access between %s and %s during concurrent tokenize/detokenize calls (store %s, encrypted=%v)", sites[0], sites[1], c.Store, c.Enc)
		}
		R.Seen("TestConcurrent", c, nontrivial(c), classes(c, dyn)...)
		R.Report(rt, "TestConcurrent", c, vs)
	})
}

func replayCase(raw json.RawMessage) hx.Vs {
	var c Case
	if err := json.Unmarshal(raw, &c); err != nil {
		return hx.Vs{{Sig: "harness:decode", Msg: err.Error()}}
	}
	vs, _ := Check(c)
	return vs
}

func TestReplay(t *testing.T) {
	R.Replay(t, map[string]hx.ReplayHandler{
		"TestTokenHistory":          replayCase,
		"TestTranslatorTokenize":    replayCase,
		"TestConcurrent":            replayCase,
		"TestDataTokenizerBoundary": replayBoundary,
		"TestStoreContract":         replayStore,
		"TestTranslatorHTTPTokens": func(raw json.RawMessage) hx.Vs {
			var c HTTPTokCase
			if err := json.Unmarshal(raw, &c); err != nil {
				return hx.Vs{{Sig: "harness:decode", Msg: err.Error()}}
			}
			vs, _ := CheckHTTPTokens(c)
			return vs
		},
	})
}
