package c10

import (
	"bytes"
	"context"
	"encoding/base64"
	"encoding/json"
	"fmt"
	"io"
	"math/big"
	"net"
	"net/http"
	"os"
	"strings"
	"sync"
	"testing"
	"time"

	"pgregory.net/rapid"

	"github.com/cossacklabs/acra/cmd/acra-translator/http_api"

	"verif/internal/fix"
	"verif/internal/hx"
)

// HTTPTokCase: one value goes through AcraTranslator's HTTP API (/v2/tokenize, then /v2/detokenize of what
// came back) - the JSON boundary in front of the token service, where numbers arrive as JSON numbers of
// any size and of any JSON type.
// Oracle: a value of the token type's domain is tokenized (200) to a token of the same type and shape and
// detokenizes to exactly the value sent; anything outside the domain (an integer beyond the type's
// range, a fraction, a string where a number belongs, ...) is answered with a 4xx - never with a token
// (which would stand for another value), and a number that is no token of the type is never detokenized
// into a value.
type HTTPTokCase struct {
	Type  int    `json:"type"`  // 1 int32, 2 int64, 3 string, 4 bytes, 5 email
	Value string `json:"value"` // JSON text of the "data" member
	Class string `json:"class"`
}

var (
	httpOnce   sync.Once
	httpClient *http.Client
	httpErr    error
)

func startHTTP() {
	w := fix.TheWorld()
	svc := fix.Translator(w.KS, nil, nil)
	data := fix.TranslatorData(w.KS, nil, nil)
	hs, err := http_api.NewHTTPService(svc, data, http_api.WithContext(context.Background()))
	if err != nil {
		httpErr = err
		return
	}
	sock := fmt.Sprintf("@verif-c10-http-%d-%d", os.Getpid(), time.Now().UnixNano())
	l, err := net.Listen("unix", sock)
	if err != nil {
		httpErr = err
		return
	}
	go hs.Start(l)
	httpClient = &http.Client{Timeout: 10 * time.Second, Transport: &http.Transport{
		DialContext: func(ctx context.Context, _, _ string) (net.Conn, error) {
			return (&net.Dialer{}).DialContext(ctx, "unix", sock)
		},
	}}
}

func httpCall(path string, typ int, dataJSON string) (status int, data json.RawMessage, err error) {
	body := fmt.Sprintf(`{"data": %s, "type": %d}`, dataJSON, typ)
	req, err := http.NewRequest("POST", "http://translator"+path, strings.NewReader(body))
	if err != nil {
		return 0, nil, err
	}
	req.Header.Set("Content-Type", "application/json")
	resp, err := httpClient.Do(req)
	if err != nil {
		return 0, nil, err
	}
	defer resp.Body.Close()
	raw, _ := io.ReadAll(io.LimitReader(resp.Body, 1<<20))
	var out struct {
		Data json.RawMessage `json:"data"`
	}
	_ = json.Unmarshal(raw, &out)
	return resp.StatusCode, out.Data, nil
}

// inDomain tells whether the JSON text is a value of the token type.
func inDomain(typ int, v string) bool {
	switch typ {
	case 1, 2:
		n, ok := new(big.Int).SetString(v, 10)
		if !ok || (len(v) > 1 && (strings.HasPrefix(v, "0") || strings.HasPrefix(v, "-0"))) || v == "-0" {
			return false
		}
		bits := 31
		if typ == 2 {
			bits = 63
		}
		max := new(big.Int).Lsh(big.NewInt(1), uint(bits))
		min := new(big.Int).Neg(max)
		return n.Cmp(min) >= 0 && n.Cmp(max) < 0
	case 3, 5:
		var s string
		return json.Unmarshal([]byte(v), &s) == nil && s != ""
	case 4:
		var s string
		if json.Unmarshal([]byte(v), &s) != nil {
			return false
		}
		b, err := base64.StdEncoding.DecodeString(s)
		return err == nil && len(b) > 0
	}
	return false
}

// CheckHTTPTokens evaluates the case.
func CheckHTTPTokens(c HTTPTokCase) (vs hx.Vs, accepted bool) {
	httpOnce.Do(startHTTP)
	if httpErr != nil {
		vs.Add("harness:http", "%v", httpErr)
		return vs, false
	}
	tn := map[int]string{1: "int32", 2: "int64", 3: "str", 4: "bytes", 5: "email"}[c.Type]
	st, tok, err := httpCall("/v2/tokenize", c.Type, c.Value)
	if err != nil {
		vs.Add("harness:http", "tokenize: %v", err)
		return vs, false
	}
	if st >= 500 {
		vs.Add("handler-crashed:http-tokenize:"+tn, "tokenize of %s as %s answered %d", c.Value, tn, st)
		return vs, false
	}
	valid := inDomain(c.Type, c.Value)
	if !valid {
		if st == 200 {
			vs.Add("outside-domain-tokenized:http:"+tn, "%s is not a value of token type %s, but /v2/tokenize answered 200 with a token (which then stands for some other value)", c.Value, tn)
		}
		// and it is no token either: detokenize must not turn it into a value of the type ...
		if c.Type == 1 || c.Type == 2 {
			if n, ok := new(big.Int).SetString(c.Value, 10); ok && !inDomain(c.Type, n.String()) {
				if dst, dv, derr := httpCall("/v2/detokenize", c.Type, c.Value); derr == nil && dst == 200 && string(dv) != c.Value {
					vs.Add("outside-domain-detokenized:http:"+tn, "%s is outside token type %s, but /v2/detokenize answered 200 with %s", c.Value, tn, dv)
				}
			}
		}
		return vs, false
	}
	if st != 200 {
		// email-shaped requirement etc. are the service's business: a refusal of a domain value is only wrong for integers
		if c.Type == 1 || c.Type == 2 {
			vs.Add("domain-value-refused:http:"+tn, "tokenize of %s as %s answered %d", c.Value, tn, st)
		}
		return vs, false
	}
	if (c.Type == 1 || c.Type == 2) && !inDomain(c.Type, string(tok)) {
		vs.Add("token-shape:http:"+tn, "the token for %s is not a value of type %s", c.Value, tn)
		return vs, true
	}
	dst, back, err := httpCall("/v2/detokenize", c.Type, string(tok))
	if err != nil {
		vs.Add("harness:http", "detokenize: %v", err)
		return vs, true
	}
	if dst != 200 {
		vs.Add("detok-error:http:"+tn, "detokenize of the token just issued for %s answered %d", c.Value, dst)
		return vs, true
	}
	var a, b any
	_ = json.Unmarshal([]byte(c.Value), &a)
	_ = json.Unmarshal(back, &b)
	same := fmt.Sprint(a) == fmt.Sprint(b)
	if c.Type == 1 || c.Type == 2 {
		same = bytes.Equal(bytes.TrimSpace(back), []byte(c.Value))
	}
	if !same {
		vs.Add("roundtrip:http:"+tn, "%s was tokenized and its token detokenized to %s", c.Value, back)
	}
	return vs, true
}

func genHTTPTokCase(t *rapid.T) HTTPTokCase {
	c := HTTPTokCase{Type: rapid.SampledFrom([]int{1, 1, 1, 2, 2, 3, 4, 5}).Draw(t, "type")}
	pow := func(bits uint, d int64) string {
		return new(big.Int).Add(new(big.Int).Lsh(big.NewInt(1), bits), big.NewInt(d)).String()
	}
	switch c.Type {
	case 1, 2:
		c.Class = rapid.SampledFrom([]string{"small", "small", "boundary32", "boundary64", "beyond32", "beyond64", "wrap32", "fraction", "exponent", "string", "bool"}).Draw(t, "class")
		switch c.Class {
		case "small":
			c.Value = fmt.Sprint(rapid.IntRange(-100000, 100000).Draw(t, "n"))
		case "boundary32":
			c.Value = rapid.SampledFrom([]string{"2147483647", "-2147483648", "2147483646", "-2147483647"}).Draw(t, "v")
		case "boundary64":
			c.Value = rapid.SampledFrom([]string{"9223372036854775807", "-9223372036854775808", "9007199254740993", "-9007199254740993"}).Draw(t, "v")
		case "beyond32":
			c.Value = rapid.SampledFrom([]string{"2147483648", "-2147483649", "4294967295", "4294967296"}).Draw(t, "v")
		case "beyond64":
			c.Value = rapid.SampledFrom([]string{"9223372036854775808", "-9223372036854775809", "18446744073709551616", "340282366920938463463374607431768211456"}).Draw(t, "v")
		case "wrap32": // k * 2^32 + small: what a silent narrowing maps onto a small number
			k := rapid.IntRange(1, 5).Draw(t, "k")
			d := int64(rapid.IntRange(-50, 50).Draw(t, "d"))
			n := new(big.Int).Mul(big.NewInt(int64(k)), new(big.Int).Lsh(big.NewInt(1), 32))
			c.Value = n.Add(n, big.NewInt(d)).String()
			if rapid.Bool().Draw(t, "neg") {
				c.Value = "-" + c.Value
			}
		case "fraction":
			c.Value = rapid.SampledFrom([]string{"1.5", "0.1", "-3.25", "2147483647.5"}).Draw(t, "v")
		case "exponent":
			c.Value = rapid.SampledFrom([]string{"1e3", "1E10", "2e31", "1e-2"}).Draw(t, "v")
		case "string":
			c.Value = rapid.SampledFrom([]string{`"12"`, `"abc"`, `""`, `"2147483648"`}).Draw(t, "v")
		default:
			c.Value = rapid.SampledFrom([]string{"true", "null", "[1]", "{}"}).Draw(t, "v")
		}
		_ = pow
	case 3:
		c.Class = "string"
		s := rapid.StringN(6, 40, -1).Draw(t, "s") // not shorter: one service and one token store serve all cases of the process, and the token space of a 1-character value is a few dozen tokens (exhaustion is TestTokenHistory's subject)
		b, _ := json.Marshal(s)
		c.Value = string(b)
	case 5:
		c.Class = "email"
		b, _ := json.Marshal(rapid.StringMatching(`[a-z]{6,12}@[a-z]{4,8}\.(com|org)`).Draw(t, "e"))
		c.Value = string(b)
	default:
		c.Class = "bytes"
		raw := rapid.SliceOfN(rapid.Byte(), 6, 40).Draw(t, "b")
		b, _ := json.Marshal(base64.StdEncoding.EncodeToString(raw))
		c.Value = string(b)
	}
	return c
}

func TestTranslatorHTTPTokens(t *testing.T) {
	R.Rule("TestTranslatorHTTPTokens", "values of every JSON kind (small / boundary / beyond-range / k*2^32+small integers, fractions, exponents, strings, booleans; strings, e-mails, base64 bytes) through AcraTranslator's real HTTP service: POST /v2/tokenize then /v2/detokenize of the token; a value of the type's domain round-trips exactly through a token of the same type, everything else is answered 4xx and never turned into a token or a value; non-trivial = an integer type with a value at or beyond a range boundary")
	hx.Checks(300, 4000)
	rapid.Check(t, func(rt *rapid.T) {
		c := genHTTPTokCase(rt)
		vs, accepted := CheckHTTPTokens(c)
		cl := []string{fmt.Sprintf("type:%d", c.Type), "class:" + c.Class}
		if accepted {
			cl = append(cl, "tokenized")
		} else {
			cl = append(cl, "refused")
		}
		R.Seen("TestTranslatorHTTPTokens", c, (c.Type == 1 || c.Type == 2) && c.Class != "small", cl...)
		R.Report(rt, "TestTranslatorHTTPTokens", c, vs)
	})
}
