package c10

import (
	"context"
	"flag"
	"fmt"
	"os"
	"strconv"
	"sync"

	bolt "go.etcd.io/bbolt"

	"github.com/cossacklabs/acra/cmd/acra-tokens/tokens"
	trcommon "github.com/cossacklabs/acra/cmd/acra-translator/common"
	encbase "github.com/cossacklabs/acra/encryptor/base"
	"github.com/cossacklabs/acra/encryptor/base/config"
	"github.com/cossacklabs/acra/keystore"
	"github.com/cossacklabs/acra/keystore/filesystem"
	"github.com/cossacklabs/acra/pseudonymization"
	"github.com/cossacklabs/acra/pseudonymization/common"
	"github.com/cossacklabs/acra/pseudonymization/storage"

	"verif/internal/fix"
)

// The client contexts of all cases. Context 3 is the legacy "zone" form of TokenContext (only the
// library entry point can express it).
var contexts = []common.TokenContext{
	{ClientID: []byte("client-alpha")},
	{ClientID: []byte("client-beta")},
	{ClientID: []byte("client-alpha2")},
	{ClientID: []byte("client-alpha"), AdditionalContext: []byte("zone-one")},
}

const zoneCtx = 3

var (
	ksOnce sync.Once
	ksDir  string
	ksInst *filesystem.KeyStore
)

// theKeystore is the process-wide v1 keystore holding the symmetric keys of the three clients
// (needed by the encrypting storage wrapper and by the translator fixture).
func theKeystore() *filesystem.KeyStore {
	ksOnce.Do(func() {
		fix.Quiet()
		ksDir = fix.TempDir("c10-ks-")
		ksInst = fix.V1(ksDir, keystore.InfiniteCacheSize)
		for _, c := range contexts[:3] {
			fix.GenClientKeys(ksInst, c.ClientID)
		}
	})
	return ksInst
}

func cleanupKeystore() {
	if ksDir != "" {
		os.RemoveAll(ksDir)
	}
}

// store is the token store of one case: memory or a BoltDB file, optionally behind the encrypting
// wrapper, with the tokenizer and the three entry points built over it.
type store struct {
	kind string
	enc  bool
	path string
	db   *bolt.DB
	st   common.TokenStorage
	tok  common.Pseudoanonymizer
	dt   *pseudonymization.DataTokenizer
	qe   *pseudonymization.TokenEncryptor
	tp   *pseudonymization.TokenProcessor
	svc  *trcommon.TranslatorService
}

func openStore(kind string, enc bool) (*store, error) {
	s := &store{kind: kind, enc: enc}
	if kind == "bolt" {
		f, err := os.CreateTemp("", "c10-bolt-*.db")
		if err != nil {
			return nil, err
		}
		s.path = f.Name()
		f.Close()
	}
	if err := s.open(); err != nil {
		s.close()
		return nil, err
	}
	return s, nil
}

func (s *store) open() error { return s.openWith(nil) }

func (s *store) openWith(opts *bolt.Options) error {
	var st common.TokenStorage
	if s.kind == "bolt" {
		db, err := bolt.Open(s.path, 0o600, opts)
		if err != nil {
			return err
		}
		// no fsync per transaction: durability under a crash is not part of the property, and 16
		// shards syncing the same disk make the thorough tier I/O-bound
		db.NoSync = true
		s.db = db
		st = storage.NewBoltDBTokenStorage(db)
	} else {
		m, err := storage.NewMemoryTokenStorage()
		if err != nil {
			return err
		}
		st = m
	}
	if s.enc {
		e, err := storage.NewSCellEncryptor(theKeystore())
		if err != nil {
			return err
		}
		st = storage.WrapStorageWithEncryption(st, e)
	}
	s.st = st
	tok, err := pseudonymization.NewPseudoanonymizer(st)
	if err != nil {
		return err
	}
	s.tok = tok
	if s.dt, err = pseudonymization.NewDataTokenizer(tok); err != nil {
		return err
	}
	if s.qe, err = pseudonymization.NewTokenEncryptor(s.dt); err != nil {
		return err
	}
	if s.tp, err = pseudonymization.NewTokenProcessor(s.dt); err != nil {
		return err
	}
	s.svc = fix.Translator(theKeystore(), nil, tok)
	return nil
}

// reopen closes and reopens the same BoltDB file (no-op for memory).
func (s *store) reopen() error {
	if s.kind != "bolt" {
		return nil
	}
	if err := s.db.Close(); err != nil {
		return err
	}
	s.db = nil
	return s.open()
}

func (s *store) close() {
	if s.db != nil {
		s.db.Close()
		s.db = nil
	}
	if s.path != "" {
		os.Remove(s.path)
	}
}

var typeNames = []string{"int32", "int64", "str", "bytes", "email"}

func tokenType(name string) common.TokenType {
	switch name {
	case "int32":
		return common.TokenType_Int32
	case "int64":
		return common.TokenType_Int64
	case "str":
		return common.TokenType_String
	case "bytes":
		return common.TokenType_Bytes
	case "email":
		return common.TokenType_Email
	}
	return common.TokenType_Unknown
}

func isInt(typ string) bool { return typ == "int32" || typ == "int64" }

func bitsOf(typ string) int {
	if typ == "int32" {
		return 32
	}
	return 64
}

// toGo converts a case value to the Go value the library API expects for the type.
func toGo(typ string, v Val) interface{} {
	switch typ {
	case "int32":
		return int32(v.I)
	case "int64":
		return v.I
	case "str":
		return string(v.B)
	case "bytes":
		return append([]byte{}, v.B...)
	case "email":
		return common.Email(v.B)
	}
	return nil
}

// fromGo converts a library result back; ok=false when the dynamic type is not the one of the token type.
func fromGo(typ string, x interface{}) (Val, bool) {
	switch typ {
	case "int32":
		i, ok := x.(int32)
		return Val{I: int64(i)}, ok
	case "int64":
		i, ok := x.(int64)
		return Val{I: i}, ok
	case "str":
		s, ok := x.(string)
		return Val{B: []byte(s)}, ok
	case "bytes":
		b, ok := x.([]byte)
		return Val{B: append([]byte{}, b...)}, ok
	case "email":
		e, ok := x.(common.Email)
		return Val{B: []byte(e)}, ok
	}
	return Val{}, false
}

func toText(typ string, v Val) []byte {
	if isInt(typ) {
		return []byte(strconv.FormatInt(v.I, 10))
	}
	return append([]byte{}, v.B...)
}

// errMalformed marks a result that is not a value of the token type at all (wrong Go type, or text
// that is not a canonical in-range decimal for an integer column).
type errMalformed struct{ what string }

func (e errMalformed) Error() string { return e.what }

func fromText(typ string, b []byte) (Val, error) {
	if !isInt(typ) {
		return Val{B: append([]byte{}, b...)}, nil
	}
	i, err := strconv.ParseInt(string(b), 10, bitsOf(typ))
	if err != nil || strconv.FormatInt(i, 10) != string(b) {
		return Val{}, errMalformed{"result text is not a canonical decimal in the range of " + typ}
	}
	return Val{I: i}, nil
}

func setting(typ string, consistent bool) *config.BasicColumnEncryptionSetting {
	c := consistent
	return &config.BasicColumnEncryptionSetting{TokenType: typ, ConsistentTokenization: &c}
}

// tokenize performs one tokenize call through the chosen entry point.
//
//	lib: Pseudoanonymizer.AnonymizeConsistently / Anonymize
//	sql: TokenEncryptor.EncryptWithClientID -> DataTokenizer.Tokenize (values as column text)
//	tr:  TranslatorService.Tokenize (consistent only)
func (s *store) tokenize(via string, ctx int, typ string, consistent bool, v Val) (Val, error) {
	tc := contexts[ctx]
	switch via {
	case "sql":
		out, err := s.qe.EncryptWithClientID(tc.ClientID, toText(typ, v), setting(typ, consistent))
		if err != nil {
			return Val{}, err
		}
		return fromText(typ, out)
	case "tr":
		out, err := s.svc.Tokenize(context.Background(), toGo(typ, v), tokenType(typ), tc.ClientID, nil)
		if err != nil {
			return Val{}, err
		}
		r, ok := fromGo(typ, out)
		if !ok {
			return Val{}, errMalformed{fmt.Sprintf("result has Go type %T for token type %s", out, typ)}
		}
		return r, nil
	default:
		f := s.tok.Anonymize
		if consistent {
			f = s.tok.AnonymizeConsistently
		}
		out, err := f(toGo(typ, v), tc, tokenType(typ))
		if err != nil {
			return Val{}, err
		}
		r, ok := fromGo(typ, out)
		if !ok {
			return Val{}, errMalformed{fmt.Sprintf("result has Go type %T for token type %s", out, typ)}
		}
		return r, nil
	}
}

// detokenize performs one detokenize call through the chosen entry point
// (sql: TokenProcessor.OnColumn -> DataTokenizer.Detokenize).
func (s *store) detokenize(via string, ctx int, typ string, v Val) (Val, error) {
	tc := contexts[ctx]
	switch via {
	case "sql":
		c := encbase.NewContextWithEncryptionSetting(fix.Ctx(tc.ClientID), setting(typ, true))
		_, out, err := s.tp.OnColumn(c, toText(typ, v))
		if err != nil {
			return Val{}, err
		}
		return fromText(typ, out)
	case "tr":
		out, err := s.svc.Detokenize(context.Background(), toGo(typ, v), tokenType(typ), tc.ClientID, nil)
		if err != nil {
			return Val{}, err
		}
		r, ok := fromGo(typ, out)
		if !ok {
			return Val{}, errMalformed{fmt.Sprintf("result has Go type %T for token type %s", out, typ)}
		}
		return r, nil
	default:
		out, err := s.tok.Deanonymize(toGo(typ, v), tc, tokenType(typ))
		if err != nil {
			return Val{}, err
		}
		r, ok := fromGo(typ, out)
		if !ok {
			return Val{}, errMalformed{fmt.Sprintf("result has Go type %T for token type %s", out, typ)}
		}
		return r, nil
	}
}

// limits builds acra-tokens' own date-limit filter from command-line flags, the way the
// subcommands do (Register on a flag set, parse, Validate).
func limits(lim string) (*tokens.CommonDateParameters, error) {
	p := &tokens.CommonDateParameters{}
	fs := flag.NewFlagSet("acra-tokens", flag.ContinueOnError)
	p.Register(fs)
	var args []string
	if lim != "" {
		args = []string{"--" + lim, "2000-01-01"}
	}
	if err := fs.Parse(args); err != nil {
		return nil, err
	}
	if err := p.Validate(); err != nil {
		return nil, err
	}
	return p, nil
}

// limitMatches: every record of a case is created and accessed "now" (after 2000-01-01), so a
// limit either selects all records or none. No clock reading is involved in the oracle.
func limitMatches(lim string) bool {
	return lim == "" || lim == "created_after" || lim == "accessed_after"
}

// maintain applies one acra-tokens maintenance action to the storage through VisitMetadata, with
// the visitor bodies of cmd/acra-tokens/tokens/cmd-{disable,enable,remove}.go (predicates over
// metadata, never ids). Execute() itself cannot run in-process: it opens the BoltDB file a second
// time and never closes it.
func (s *store) maintain(act, lim string) error {
	l, err := limits(lim)
	if err != nil {
		return err
	}
	within := func(m common.TokenMetadata) bool {
		return l.AccessedWithinLimits(m.Accessed) && l.CreatedWithinLimits(m.Created)
	}
	return s.st.VisitMetadata(func(dataLength int, m common.TokenMetadata) (common.TokenAction, error) {
		if !within(m) {
			return common.TokenContinue, nil
		}
		switch act {
		case "disable":
			if !m.Disabled {
				return common.TokenDisable, nil
			}
		case "enable":
			if m.Disabled {
				return common.TokenEnable, nil
			}
		case "remove-all":
			return common.TokenRemove, nil
		case "remove-disabled":
			if m.Disabled {
				return common.TokenRemove, nil
			}
		}
		return common.TokenContinue, nil
	})
}

// status counts records the way `acra-tokens status` does.
func (s *store) status(lim string) (total, disabled int, err error) {
	l, err := limits(lim)
	if err != nil {
		return 0, 0, err
	}
	err = s.st.VisitMetadata(func(dataLength int, m common.TokenMetadata) (common.TokenAction, error) {
		if !l.AccessedWithinLimits(m.Accessed) || !l.CreatedWithinLimits(m.Created) {
			return common.TokenContinue, nil
		}
		total++
		if m.Disabled {
			disabled++
		}
		return common.TokenContinue, nil
	})
	return total, disabled, err
}
