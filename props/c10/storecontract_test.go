package c10

import (
	"bytes"
	"encoding/json"
	"fmt"
	"testing"

	"pgregory.net/rapid"

	"github.com/cossacklabs/acra/pseudonymization/common"

	"verif/internal/gen"
	"verif/internal/hx"
)

// SOp is one call of the TokenStorage contract the tokenizer relies on (documented in
// pseudonymization/common/common.go and the storage tests): context-scoped map id -> data with
// insert-if-absent Save, Get failing for absent and disabled records.
type SOp struct {
	Op   string  `json:"op"` // save | get | stat | maint | reopen
	Ctx  int     `json:"ctx,omitempty"`
	ID   int     `json:"id,omitempty"`
	Data gen.Hex `json:"data,omitempty"`
	Act  string  `json:"act,omitempty"`
}

// SCase is a history over one store.
type SCase struct {
	Store string `json:"store"`
	Enc   bool   `json:"enc"`
	Ops   []SOp  `json:"ops"`
}

var storeIDs = [][]byte{[]byte("t.id-a"), []byte("h.id-a"), []byte("t.id-b"), bytes.Repeat([]byte{0xa5}, 34), {0}}

func genSCase(t *rapid.T) SCase {
	c := SCase{Store: rapid.SampledFrom([]string{"memory", "bolt"}).Draw(t, "store"), Enc: rapid.Bool().Draw(t, "enc")}
	n := rapid.IntRange(1, 20).Draw(t, "nops")
	for i := 0; i < n; i++ {
		l := fmt.Sprintf("op%d", i)
		o := SOp{Op: rapid.SampledFrom([]string{"save", "save", "save", "get", "get", "get", "stat", "maint", "reopen"}).Draw(t, l+".op"),
			Ctx: rapid.IntRange(0, len(contexts)-1).Draw(t, l+".ctx"), ID: rapid.IntRange(0, 2).Draw(t, l+".id")}
		if rapid.IntRange(0, 9).Draw(t, l+".anyid") == 0 {
			o.ID = rapid.IntRange(0, len(storeIDs)-1).Draw(t, l+".id2")
		}
		switch o.Op {
		case "save":
			o.Data = rapid.SliceOfN(rapid.Byte(), 0, 12).Draw(t, l+".data")
		case "maint":
			o.Act = rapid.SampledFrom([]string{"disable", "enable", "remove-all", "remove-disabled"}).Draw(t, l+".act")
		case "reopen":
			if c.Store != "bolt" {
				o.Op = "get"
			}
		}
		c.Ops = append(c.Ops, o)
	}
	return c
}

// CheckStore runs the history against the store and a map model.
func CheckStore(c SCase) (vs hx.Vs) {
	theKeystore()
	if c.Store != "memory" && c.Store != "bolt" {
		vs.Add("harness:case", "unknown store %q", c.Store)
		return
	}
	s, err := openStore(c.Store, c.Enc)
	if err != nil {
		vs.Add("harness:open", "%v", err)
		return
	}
	defer s.close()
	type srec struct {
		data     []byte
		disabled bool
	}
	m := map[string]*srec{}
	where := c.Store
	for _, o := range c.Ops {
		if o.Ctx < 0 || o.Ctx >= len(contexts) || o.ID < 0 || o.ID >= len(storeIDs) {
			continue
		}
		tc, id := contexts[o.Ctx], storeIDs[o.ID]
		k := fmt.Sprintf("%d/%d", o.Ctx, o.ID)
		have := m[k]
		switch o.Op {
		case "save":
			var err error
			if hx.Guard(&vs, "Save/"+where, func() { err = s.st.Save(id, tc, append([]byte{}, o.Data...)) }) {
				return
			}
			if c.Enc && len(o.Data) == 0 && err != nil && err != common.ErrTokenExists {
				continue // empty data cannot be encrypted: rejected before the store is consulted
			}
			switch {
			case have != nil && err != common.ErrTokenExists:
				vs.Add("save-over-existing:"+where, "Save on an existing id (disabled=%v) in context %d returned %v, want ErrTokenExists", have.disabled, o.Ctx, err)
				return
			case have == nil && err != nil:
				vs.Add("save-error:"+where, "Save of a new id in context %d failed: %v", o.Ctx, err)
				return
			case have == nil:
				m[k] = &srec{data: o.Data}
			}
		case "get":
			var data []byte
			var err error
			if hx.Guard(&vs, "Get/"+where, func() { data, err = s.st.Get(id, tc) }) {
				return
			}
			switch {
			case have == nil && err != common.ErrTokenNotFound:
				vs.Add("get-absent:"+where, "Get of an id never saved in context %d (or removed) returned %x, %v; want ErrTokenNotFound", o.Ctx, data, err)
				return
			case have != nil && have.disabled && err != common.ErrTokenDisabled:
				vs.Add("get-disabled:"+where, "Get of a disabled record returned %x, %v; want ErrTokenDisabled", data, err)
				return
			case have != nil && !have.disabled && (err != nil || !bytes.Equal(data, have.data)):
				vs.Add("get-wrong-data:"+where, "Get in context %d returned %x, %v; saved %x", o.Ctx, data, err, have.data)
				return
			}
		case "stat":
			var md common.TokenMetadata
			var err error
			if hx.Guard(&vs, "Stat/"+where, func() { md, err = s.st.Stat(id, tc) }) {
				return
			}
			switch {
			case have == nil && err != common.ErrTokenNotFound:
				vs.Add("stat-absent:"+where, "Stat of an absent id returned %v", err)
				return
			case have != nil && (err != nil || md.Disabled != have.disabled):
				vs.Add("stat-wrong:"+where, "Stat returned disabled=%v, %v; want disabled=%v", md.Disabled, err, have.disabled)
				return
			}
		case "maint":
			var err error
			if hx.Guard(&vs, "acra-tokens."+o.Act, func() { err = s.maintain(o.Act, "") }) {
				return
			}
			if err != nil {
				vs.Add("maintenance-error:"+o.Act, "%v", err)
				return
			}
			for k, r := range m {
				switch o.Act {
				case "disable":
					r.disabled = true
				case "enable":
					r.disabled = false
				case "remove-all":
					delete(m, k)
				case "remove-disabled":
					if r.disabled {
						delete(m, k)
					}
				}
			}
		case "reopen":
			if err := s.reopen(); err != nil {
				vs.Add("harness:reopen", "%v", err)
				return
			}
		}
	}
	var total, disabled int
	if hx.Guard(&vs, "acra-tokens.status", func() { total, disabled, err = s.status("") }) {
		return
	}
	wd := 0
	for _, r := range m {
		if r.disabled {
			wd++
		}
	}
	if err != nil || total != len(m) || disabled != wd {
		vs.Add("status-count:"+where, "status reports %d records, %d disabled (%v); the history accounts for %d and %d", total, disabled, err, len(m), wd)
	}
	return
}

func TestStoreContract(t *testing.T) {
	R.Rule("TestStoreContract", "1-20 Save/Get/Stat/maintenance/reopen calls on 3-5 ids x 4 contexts directly on the token store (memory/bolt, plain/encrypted) against a map model: insert-if-absent, context scoping, disabled and removed records; non-trivial = a Save on an id that exists in some context")
	hx.Checks(250, 2000)
	rapid.Check(t, func(rt *rapid.T) {
		c := genSCase(rt)
		vs := CheckStore(c)
		saved := map[int]bool{}
		nt := false
		cl := map[string]bool{"store:" + c.Store: true}
		for _, o := range c.Ops {
			cl["op:"+o.Op] = true
			if o.Op == "save" {
				if saved[o.ID] {
					nt = true
				}
				saved[o.ID] = true
			}
		}
		var cls []string
		for k := range cl {
			cls = append(cls, k)
		}
		R.Seen("TestStoreContract", c, nt, cls...)
		R.Report(rt, "TestStoreContract", c, vs)
	})
}

func replayStore(raw json.RawMessage) hx.Vs {
	var c SCase
	if err := json.Unmarshal(raw, &c); err != nil {
		return hx.Vs{{Sig: "harness:decode", Msg: err.Error()}}
	}
	return CheckStore(c)
}
