package c10

import (
	"errors"
	"fmt"
	"os"
	"sync"

	"github.com/sirupsen/logrus"

	"github.com/cossacklabs/acra/cmd/acra-tokens/tokens"
)

// errInconclusive marks harness plumbing that did not work out (never a verdict).
var errInconclusive = errors.New("inconclusive")

var cliMu sync.Mutex

// cliArgs is the command line of one acra-tokens maintenance action on a BoltDB file.
func cliArgs(path, act, lim string) (tokens.Subcommand, []string) {
	args := []string{"--token_db", path}
	var sc tokens.Subcommand
	switch act {
	case "disable":
		sc = &tokens.DisableSubcommand{}
	case "enable":
		sc = &tokens.EnableSubcommand{}
	case "remove-all":
		sc = &tokens.RemoveSubcommand{}
		args = append(args, "--all")
	case "remove-disabled":
		sc = &tokens.RemoveSubcommand{}
		args = append(args, "--only_disabled")
	}
	if lim != "" {
		args = append(args, "--"+lim, "2000-01-01")
	}
	return sc, args
}

// cliMaintain runs the real acra-tokens subcommand (RegisterFlags, Parse, Execute) on the BoltDB
// file of the store. Execute() opens the file itself and never closes it (the tool exits
// afterwards); in-process that handle - and with it the file lock, which lives as long as bbolt's
// memory mapping - stays behind. The case therefore closes its own handle first and afterwards
// continues on a byte-for-byte copy of the file the tool has committed to.
func (s *store) cliMaintain(act, lim string) error {
	if s.kind != "bolt" {
		return s.maintain(act, lim)
	}
	sc, args := cliArgs(s.path, act, lim)
	if sc == nil {
		return fmt.Errorf("no subcommand for %q", act)
	}
	cliMu.Lock()
	defer cliMu.Unlock()
	if err := s.db.Close(); err != nil {
		return err
	}
	s.db = nil
	// a Fatal log of the tool must not end the test process
	std := logrus.StandardLogger()
	oldExit := std.ExitFunc
	std.ExitFunc = func(code int) { panic(fmt.Sprintf("acra-tokens %s exited with code %d", act, code)) }
	defer func() { std.ExitFunc = oldExit }()
	sc.RegisterFlags()
	perr := sc.Parse(args)
	if perr == nil {
		sc.Execute()
	}
	data, err := os.ReadFile(s.path)
	if err != nil {
		return fmt.Errorf("%w: %v", errInconclusive, err)
	}
	f, err := os.CreateTemp("", "c10-bolt-*.db")
	if err != nil {
		return fmt.Errorf("%w: %v", errInconclusive, err)
	}
	_, werr := f.Write(data)
	f.Close()
	os.Remove(s.path)
	s.path = f.Name()
	if werr != nil {
		return fmt.Errorf("%w: %v", errInconclusive, werr)
	}
	if err := s.open(); err != nil {
		return fmt.Errorf("%w: %v", errInconclusive, err)
	}
	return perr
}
