package c10

import (
	"encoding/json"
	"fmt"
	"math/big"
	"regexp"
	"testing"

	"pgregory.net/rapid"

	"github.com/cossacklabs/acra/pseudonymization"
	"github.com/cossacklabs/acra/pseudonymization/storage"

	"verif/internal/hx"
)

// BCase exercises the text <-> integer conversion of the SQL-boundary DataTokenizer: column texts
// are tokenized in order for one client, then texts are presented for detokenization.
type BCase struct {
	Type       string   `json:"type"` // int32 | int64
	Consistent bool     `json:"consistent"`
	Tok        []string `json:"tok"`
	Detok      []string `json:"detok"`
}

var decimalRe = regexp.MustCompile(`^[+-]?[0-9]+$`)

// number returns the integer a column text denotes (plain decimal with optional sign), or nil.
func number(s string) *big.Int {
	if !decimalRe.MatchString(s) {
		return nil
	}
	n, ok := new(big.Int).SetString(s, 10)
	if !ok {
		return nil
	}
	return n
}

func genIntText(t *rapid.T, label, typ string) string {
	bits := uint(bitsOf(typ))
	max := new(big.Int).Sub(new(big.Int).Lsh(big.NewInt(1), bits-1), big.NewInt(1))
	min := new(big.Int).Neg(new(big.Int).Lsh(big.NewInt(1), bits-1))
	umax := new(big.Int).Lsh(big.NewInt(1), bits)
	add := func(a *big.Int, d int64) *big.Int { return new(big.Int).Add(a, big.NewInt(d)) }
	switch rapid.SampledFrom([]string{"small", "inrange", "bound", "bound", "just-out", "wrap", "wrap", "other-width", "huge", "decorated", "nonnumeric"}).Draw(t, label+".cls") {
	case "small":
		return fmt.Sprint(rapid.IntRange(-20, 20).Draw(t, label+".n"))
	case "inrange":
		if typ == "int32" {
			return fmt.Sprint(rapid.Int32().Draw(t, label+".n"))
		}
		return fmt.Sprint(rapid.Int64().Draw(t, label+".n"))
	case "bound":
		return rapid.SampledFrom([]*big.Int{min, max, add(min, 1), add(max, -1)}).Draw(t, label+".b").String()
	case "just-out":
		return rapid.SampledFrom([]*big.Int{add(min, -1), add(max, 1), add(max, 2), add(min, -2)}).Draw(t, label+".b").String()
	case "wrap": // k + m*2^bits: equal to the small number k after truncation to the column type
		k := int64(rapid.IntRange(-20, 20).Draw(t, label+".k"))
		m := int64(rapid.SampledFrom([]int{1, 1, 2, -1, -2, 3}).Draw(t, label+".m"))
		return add(new(big.Int).Mul(umax, big.NewInt(m)), k).String()
	case "other-width":
		return rapid.SampledFrom([]string{"2147483647", "2147483648", "-2147483648", "-2147483649", "4294967295", "4294967296", "4294967301", "9223372036854775807", "9223372036854775808", "-9223372036854775808", "-9223372036854775809", "18446744073709551616", "18446744073709551621"}).Draw(t, label+".w")
	case "huge":
		return rapid.StringMatching(`-?[1-9][0-9]{19,40}`).Draw(t, label+".h")
	case "decorated": // spellings of in-range numbers a parser may or may not accept
		n := rapid.IntRange(0, 99).Draw(t, label+".n")
		return fmt.Sprintf(rapid.SampledFrom([]string{"+%d", "00%d", "-0%d", " %d", "%d ", "%d.0", "%de0", "0x%d", "%d_0", "-%d", "\t%d", "%d\n", "--%d"}).Draw(t, label+".f"), n)
	default:
		return rapid.SampledFrom([]string{"", "-", "+", "abc", "NaN", "१२", "１２", "1 2", "1,2", "\x00", "1\x002", "true", "0b1", "1e3", "٣"}).Draw(t, label+".x")
	}
}

func genBCase(t *rapid.T) BCase {
	c := BCase{Type: rapid.SampledFrom([]string{"int32", "int32", "int64"}).Draw(t, "type"), Consistent: rapid.Bool().Draw(t, "consistent")}
	n := rapid.IntRange(1, 4).Draw(t, "ntok")
	for i := 0; i < n; i++ {
		c.Tok = append(c.Tok, genIntText(t, fmt.Sprintf("tok%d", i), c.Type))
	}
	n = rapid.IntRange(0, 3).Draw(t, "ndetok")
	for i := 0; i < n; i++ {
		c.Detok = append(c.Detok, genIntText(t, fmt.Sprintf("detok%d", i), c.Type))
	}
	return c
}

// CheckBoundary: a column text is either rejected, or handled as exactly the integer it denotes:
// its token is a canonical decimal in the range of the column type and detokenizes to the same
// integer; different integers never share a token; in consistent mode equal integers share one;
// a text that is not an issued token comes back denoting the same integer (or is rejected).
func CheckBoundary(c BCase) (vs hx.Vs, cls []string) {
	if !isInt(c.Type) {
		vs.Add("harness:case", "type %q", c.Type)
		return
	}
	mem, err := storage.NewMemoryTokenStorage()
	if err != nil {
		vs.Add("harness:open", "%v", err)
		return
	}
	tok, err := pseudonymization.NewPseudoanonymizer(mem)
	if err != nil {
		vs.Add("harness:open", "%v", err)
		return
	}
	dt, _ := pseudonymization.NewDataTokenizer(tok)
	tc := contexts[0]
	set := setting(c.Type, c.Consistent)
	seen := map[string]bool{}
	class := func(s string) {
		if !seen[s] {
			seen[s] = true
			cls = append(cls, s)
		}
	}
	maxV := new(big.Int).Sub(new(big.Int).Lsh(big.NewInt(1), uint(bitsOf(c.Type))-1), big.NewInt(1))
	minV := new(big.Int).Neg(new(big.Int).Lsh(big.NewInt(1), uint(bitsOf(c.Type))-1))
	inRange := func(n *big.Int) bool { return n != nil && n.Cmp(minV) >= 0 && n.Cmp(maxV) <= 0 }
	byToken := map[string]*big.Int{} // token text -> integer it stands for
	byValue := map[string]string{}   // integer -> token text (consistent mode)
	for _, text := range c.Tok {
		n := number(text)
		switch {
		case n == nil:
			class("text:non-numeric")
		case inRange(n):
			class("text:in-range")
		default:
			class("text:out-of-range")
		}
		var out []byte
		var terr error
		if hx.Guard(&vs, "DataTokenizer.Tokenize/"+c.Type, func() { out, terr = dt.Tokenize([]byte(text), tc, set) }) {
			return
		}
		if terr != nil {
			class("tokenize:rejected")
			if n != nil && inRange(n) && text == n.String() {
				vs.Add("int-text-rejected:DataTokenizer.Tokenize/"+c.Type, "the canonical in-range text %q was rejected: %v", text, terr)
				return
			}
			continue
		}
		class("tokenize:accepted")
		if n == nil {
			vs.Add("non-numeric-accepted:DataTokenizer.Tokenize/"+c.Type, "the text %q does not denote an integer but was tokenized", text)
			return
		}
		if _, merr := fromText(c.Type, out); merr != nil {
			vs.Add("malformed-token:DataTokenizer.Tokenize/"+c.Type, "%v", merr)
			return
		}
		// round trip at the text level
		var back []byte
		if hx.Guard(&vs, "DataTokenizer.Detokenize/"+c.Type, func() { back, terr = dt.Detokenize(out, tc, set) }) {
			return
		}
		if terr != nil {
			vs.Add("detok-error:DataTokenizer.Detokenize/"+c.Type, "the token of %q cannot be detokenized: %v", text, terr)
			return
		}
		if bn := number(string(back)); bn == nil || bn.Cmp(n) != 0 {
			vs.Add("int-text-altered:DataTokenizer.Tokenize/"+c.Type, "column text %q was tokenized to a token that detokenizes to %q: the stored integer is not the one received", text, back)
			return
		}
		if prev, ok := byToken[string(out)]; ok && prev.Cmp(n) != 0 {
			vs.Add("token-shared:DataTokenizer.Tokenize/"+c.Type, "the integers %s and %s share a token", prev, n)
			return
		}
		byToken[string(out)] = n
		if c.Consistent {
			if prev, ok := byValue[n.String()]; ok && prev != string(out) {
				vs.Add("inconsistent:DataTokenizer.Tokenize/"+c.Type, "integer %s (text %q) got a different token than earlier", n, text)
				return
			}
			byValue[n.String()] = string(out)
		}
	}
	for _, text := range c.Detok {
		n := number(text)
		if n != nil {
			if _, issued := byToken[n.String()]; issued {
				class("detok:hits-issued-token")
				continue
			}
		}
		var back []byte
		var derr error
		if hx.Guard(&vs, "DataTokenizer.Detokenize/"+c.Type, func() { back, derr = dt.Detokenize([]byte(text), tc, set) }) {
			return
		}
		if derr != nil {
			class("detok:rejected")
			if n != nil && inRange(n) && text == n.String() {
				vs.Add("unknown-token-error:DataTokenizer.Detokenize/"+c.Type, "detokenizing the unknown in-range value %q failed instead of returning it: %v", text, derr)
				return
			}
			continue
		}
		class("detok:returned")
		if bn := number(string(back)); n == nil || bn == nil || bn.Cmp(n) != 0 {
			vs.Add("int-text-altered:DataTokenizer.Detokenize/"+c.Type, "column text %q is not an issued token but detokenizes to %q", text, back)
			return
		}
	}
	return
}

func TestDataTokenizerBoundary(t *testing.T) {
	R.Rule("TestDataTokenizerBoundary", "1-4 column texts tokenized for an int32/int64 token column through DataTokenizer (consistent or random), 0-3 texts detokenized; texts: in range, at the boundaries, just outside, k+m*2^bits, boundaries of the other width, 20-40 digit numbers, decorated spellings, non-numeric; oracle: rejected with an error, or the token is a canonical in-range decimal that detokenizes to the same integer, distinct integers never share a token; non-trivial = at least one text that is not a canonical in-range decimal")
	hx.Checks(750, 6000)
	rapid.Check(t, func(rt *rapid.T) {
		c := genBCase(rt)
		vs, cls := CheckBoundary(c)
		nt := false
		for _, s := range append(append([]string{}, c.Tok...), c.Detok...) {
			n := number(s)
			if n == nil || n.String() != s || len(s) > 9 {
				nt = true
			}
		}
		cl := []string{"type:" + c.Type, fmt.Sprintf("consistent:%v", c.Consistent)}
		R.Seen("TestDataTokenizerBoundary", c, nt, append(cl, cls...)...)
		R.Report(rt, "TestDataTokenizerBoundary", c, vs)
	})
}

func replayBoundary(raw json.RawMessage) hx.Vs {
	var c BCase
	if err := json.Unmarshal(raw, &c); err != nil {
		return hx.Vs{{Sig: "harness:decode", Msg: err.Error()}}
	}
	vs, _ := CheckBoundary(c)
	return vs
}
