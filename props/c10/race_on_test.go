//go:build race

package c10

const raceBuild = true
