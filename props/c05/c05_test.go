// Package c05: a statement rejected by the SQL firewall never reaches the database.
//
// Layer (a) TestVerdict: the verdict of acra-censor (configuration rendered to YAML and loaded through
// AcraCensor.LoadConfiguration) against an independent evaluation of the documented handler chain with
// this check's own matching notions (lex_test.go, derive_test.go).
// Layer (b) TestFormatting: the verdict is invariant under keyword case, insignificant white space, one
// trailing semicolon and margin comments.
// Layer (c) TestSessions: through the real PostgreSQL proxy a rejected statement never reaches the
// database, the client gets an error + ready state, and later statements are processed by their own
// column configuration.
// Layer (d) TestFirewallSessionsMySQL (my_session_test.go): the same through the real MySQL proxy against a scripted
// server whose replies are numbered: statements as COM_QUERY / COM_STMT_* / SQL-level PREPARE, mixed with protocol
// events that change the proxy's state machine.
package c05

import (
	"fmt"
	"os"
	"sort"
	"strconv"
	"strings"
	"testing"

	acracensor "github.com/cossacklabs/acra/acra-censor"
	"github.com/cossacklabs/acra/sqlparser"
	"github.com/sirupsen/logrus"

	"verif/internal/hx"
	"verif/internal/sqlgen"
)

var R = hx.New("C05")

func TestMain(m *testing.M) {
	// acra-censor logs every verdict
	logrus.SetLevel(logrus.PanicLevel)
	os.Exit(R.Main(m))
}

// dialects of this process: the default dialect is process-global, so check.json runs one group per dialect.
func processDialects() []string {
	switch os.Getenv("C05_DIALECT") {
	case sqlgen.MySQL:
		return []string{sqlgen.MySQL}
	case sqlgen.PostgreSQL:
		return []string{sqlgen.PostgreSQL}
	}
	return sqlgen.Dialects
}

// ---- the case: a statement pool, a firewall configuration built from it, the statement under test ----

// RuleQ is an exact-query rule: the text of a pool statement, possibly re-formatted.
type RuleQ struct {
	From int     `json:"from"`
	Var  []VarOp `json:"var,omitempty"`
}

// RuleT is a table rule: the Pick-th table (any depth) of a pool statement, or a literal name.
type RuleT struct {
	From    int    `json:"from"`
	Pick    int    `json:"pick"`
	Literal string `json:"literal,omitempty"`
}

// RuleP is a pattern rule: a pool statement generalised by Ops.
type RuleP struct {
	From int     `json:"from"`
	Ops  []PatOp `json:"ops"`
}

// Handler is one entry of the chain.
type Handler struct {
	Kind     string  `json:"kind"` // allow | deny | allowall | denyall | query_ignore
	Queries  []RuleQ `json:"queries,omitempty"`
	Tables   []RuleT `json:"tables,omitempty"`
	Patterns []RuleP `json:"patterns,omitempty"`
}

// Config is a firewall configuration.
type Config struct {
	IgnoreParseError bool      `json:"ignore_parse_error"`
	Handlers         []Handler `json:"handlers"`
	Style            int       `json:"yaml_style,omitempty"`
}

// StmtSel selects the statement under test: a pool statement, re-formatted and / or corrupted.
type StmtSel struct {
	From    int     `json:"from"`
	Var     []VarOp `json:"var,omitempty"`
	Corrupt int     `json:"corrupt,omitempty"` // 0 = none
	// Extra > 0: the statement under test is a relative of the pool statement - the pool statement with one
	// top-level clause added (relative_test.go); 0 = the pool statement itself.
	Extra int `json:"extra,omitempty"`
}

// ---- resolved configuration ----

type rQuery struct {
	text string
	from int
}

type rPattern struct {
	d    Derived
	from int
}

type rHandler struct {
	kind     string
	queries  []rQuery
	tables   []string
	patterns []rPattern
}

// poolInfo is what the check knows about a pool statement.
type poolInfo struct {
	text     string
	st       sqlparser.Statement // nil: the parser rejects it
	kind     string
	occs     []tableOcc
	main     []string
	faithful bool
	norm     string
	coarse   string
	qmarks   bool // holds positional `?` placeholders (the tokenizer numbers them :v1, :v2, ... in order of appearance)
}

func analyse(text string, pg bool) poolInfo {
	pi := poolInfo{text: text}
	st, err := parseLikeCensor(text, pg)
	if err != nil {
		return pi
	}
	pi.st = st
	pi.kind = stmtKind(st)
	pi.occs = tablesOf(st)
	pi.main = mainTables(st)
	pi.faithful = printerFaithful(st)
	pi.norm = normText(text, pg)
	pi.coarse = coarseText(text, pg)
	toks, _ := lex(text, pg)
	for _, t := range toks {
		if t.kind == tParam && t.text == "?" {
			pi.qmarks = true
		}
	}
	return pi
}

func stripMargins(s string, pg bool, keepSemi bool) string {
	toks, ok := lex(s, pg)
	if !ok {
		return s
	}
	start, end := 0, len(toks)
	for start < end && (toks[start].kind == tWS || (toks[start].kind == tComment && !strings.HasPrefix(toks[start].text, "/*!"))) {
		start++
	}
	// /*! ... */ is executed by MySQL: it belongs to the statement wherever it stands (in PostgreSQL it is a comment)
	for end > start && (toks[end-1].kind == tWS || (toks[end-1].kind == tComment && (pg || !strings.HasPrefix(toks[end-1].text, "/*!")))) {
		end--
	}
	if !keepSemi && end > start && toks[end-1].kind == tPunct && toks[end-1].text == ";" {
		end--
	}
	var b strings.Builder
	for _, t := range toks[start:end] {
		b.WriteString(t.text)
	}
	return b.String()
}

// resolve turns the rule descriptions of a configuration into rule texts.
func resolve(cfg Config, pool []poolInfo, pg bool, vs *hx.Vs) []rHandler {
	var out []rHandler
	at := func(i int) int {
		if len(pool) == 0 {
			return 0
		}
		i %= len(pool)
		if i < 0 {
			i += len(pool)
		}
		return i
	}
	for _, h := range cfg.Handlers {
		rh := rHandler{kind: h.Kind}
		if h.Kind == "allowall" || h.Kind == "denyall" {
			out = append(out, rh)
			continue
		}
		for _, q := range h.Queries {
			p := pool[at(q.From)]
			if p.st == nil && h.Kind != "query_ignore" {
				continue // allow / deny refuse rules they cannot parse
			}
			rh.queries = append(rh.queries, rQuery{text: applyVariant(p.text, pg, q.Var), from: at(q.From)})
		}
		if h.Kind != "query_ignore" {
			for _, t := range h.Tables {
				if t.Literal != "" {
					rh.tables = append(rh.tables, t.Literal)
					continue
				}
				p := pool[at(t.From)]
				if len(p.occs) == 0 {
					continue
				}
				k := t.Pick % len(p.occs)
				if k < 0 {
					k += len(p.occs)
				}
				if !p.occs[k].Plain {
					continue // only names a rule can spell without quoting or qualification
				}
				rh.tables = append(rh.tables, p.occs[k].Name)
			}
			for _, pr := range h.Patterns {
				p := pool[at(pr.From)]
				if p.st == nil {
					continue
				}
				src := stripMargins(p.text, pg, pr.From%3 == 0)
				d, ok := derivePattern(src, pg, pr.Ops, vs)
				if !ok {
					continue
				}
				rh.patterns = append(rh.patterns, rPattern{d: d, from: at(pr.From)})
			}
		}
		out = append(out, rh)
	}
	return out
}

// ---- YAML rendering (the real configuration path) ----

func yamlScalar(s string, style int) string {
	plainOK := len(s) > 0 && s[0] >= 'A' && s[0] <= 'z' && s[len(s)-1] != ' '
	if plainOK {
		for i := 0; i < len(s); i++ {
			c := s[i]
			if !(c >= 'a' && c <= 'z' || c >= 'A' && c <= 'Z' || c >= '0' && c <= '9' || strings.IndexByte(" _,=.*()<>+", c) >= 0) {
				plainOK = false
				break
			}
		}
		switch strings.ToLower(s) {
		case "null", "true", "false", "yes", "no", "on", "off", "y", "n", "~":
			plainOK = false
		}
	}
	if plainOK && style%3 == 0 {
		return s
	}
	if style%3 == 1 && !strings.ContainsAny(s, "\n\r\t\x00") && isPrintable(s) {
		return "'" + strings.ReplaceAll(s, "'", "''") + "'"
	}
	return strconv.Quote(s)
}

func isPrintable(s string) bool {
	for _, r := range s {
		if r < 0x20 || r == 0x7f || r == 0xfffd || r == 0x85 || r == 0x2028 || r == 0x2029 || r == 0xfeff {
			return false
		}
	}
	return true
}

func renderYAML(ipe bool, hs []rHandler, style int) string {
	var b strings.Builder
	fmt.Fprintf(&b, "version: 0.85.0\n")
	if ipe || style%2 == 1 {
		fmt.Fprintf(&b, "ignore_parse_error: %v\n", ipe)
	}
	b.WriteString("handlers:\n")
	for _, h := range hs {
		fmt.Fprintf(&b, "  - handler: %s\n", h.kind)
		if len(h.queries) > 0 {
			b.WriteString("    queries:\n")
			for _, q := range h.queries {
				fmt.Fprintf(&b, "      - %s\n", yamlScalar(q.text, style))
			}
		}
		if len(h.tables) > 0 {
			b.WriteString("    tables:\n")
			for _, t := range h.tables {
				fmt.Fprintf(&b, "      - %s\n", yamlScalar(t, style))
			}
		}
		if len(h.patterns) > 0 {
			b.WriteString("    patterns:\n")
			for _, p := range h.patterns {
				fmt.Fprintf(&b, "      - %s\n", yamlScalar(p.d.Text, style))
			}
		}
	}
	return b.String()
}

// ---- the code under test ----

// loadCensor loads a configuration through the real path. A panic is a violation.
func loadCensor(vs *hx.Vs, yaml string) (c *acracensor.AcraCensor, err error) {
	c = acracensor.NewAcraCensor()
	if hx.Guard(vs, "LoadConfiguration", func() { err = c.LoadConfiguration([]byte(yaml)) }) {
		return nil, fmt.Errorf("panic")
	}
	if err != nil {
		return nil, err
	}
	return c, nil
}

// acraVerdict asks acra-censor; allowed = HandleQuery returned nil.
func acraVerdict(vs *hx.Vs, c *acracensor.AcraCensor, stmt string) (allowed, ok bool) {
	var err error
	if hx.Guard(vs, "HandleQuery", func() { err = c.HandleQuery(stmt) }) {
		return false, false
	}
	return err == nil, true
}

type tri int

const (
	noMatch tri = iota
	match
	unsure
)

func (t tri) String() string { return [...]string{"no-match", "match", "unsure"}[t] }

func terminatorFor(kind string) string {
	if kind == "deny" {
		return "allowall"
	}
	return "denyall"
}

// isolated evaluates one handler alone in front of the opposite terminator: matched = the verdict is
// not the terminator's.
func isolated(vs *hx.Vs, h rHandler, ipe bool, stmt string) (matched, ok bool, yaml string) {
	term := terminatorFor(h.kind)
	yaml = renderYAML(ipe, []rHandler{h, {kind: term}}, 2)
	c, err := loadCensor(vs, yaml)
	if err != nil {
		return false, false, yaml
	}
	defer c.ReleaseAll()
	allowed, ok := acraVerdict(vs, c, stmt)
	if !ok {
		return false, false, yaml
	}
	return allowed != (term == "allowall"), true, yaml
}

// loadable tells whether acra accepts a single rule (patterns / queries the parser rejects make the
// whole configuration unusable: they are dropped from the case and counted).
func loadable(h rHandler) bool {
	var vs hx.Vs
	c, err := loadCensor(&vs, renderYAML(false, []rHandler{h}, 2))
	if err != nil {
		return false
	}
	c.ReleaseAll()
	return true
}

// chainRef evaluates the documented chain semantics on per-handler match flags.
func chainRef(hs []rHandler, matched []bool, unparseable, ipe bool) (allowed bool) {
	if unparseable && !ipe {
		return false
	}
	for i, h := range hs {
		switch h.kind {
		case "query_ignore", "allow":
			if matched[i] {
				return true
			}
		case "deny":
			if matched[i] {
				return false
			}
		case "allowall":
			return true
		case "denyall":
			return false
		}
	}
	return true
}

// ---- reference matching ----

// xInfo describes the statement under test.
type xInfo struct {
	text string
	info poolInfo
	from int // pool index it was made from; -1 when corrupted
	// extra names the clause that was added to pool statement `from` ("" = none): the statement is a
	// structurally different relative of that pool statement
	extra string
}

func refQuery(ruleText string, rulePool poolInfo, x xInfo, pg bool, handlerKind string) tri {
	if x.info.st == nil {
		// an unparsed statement can only be matched by query_ignore, by its text
		if handlerKind != "query_ignore" {
			return noMatch
		}
		if ruleText == x.text {
			return match
		}
		if normText(ruleText, pg) == normText(x.text, pg) {
			return unsure // formatting-equivalent spellings of text nobody can parse
		}
		return noMatch
	}
	rn, rc := normText(ruleText, pg), coarseText(ruleText, pg)
	if rn == x.info.norm {
		return match
	}
	if rc == x.info.coarse {
		return unsure
	}
	return noMatch
}

func looselyListed(o tableOcc, names []string) bool {
	for _, n := range names {
		if strings.EqualFold(n, o.Name) || strings.EqualFold(n, o.Qual+"."+o.Name) {
			return true
		}
	}
	return false
}

func strictlyListed(o tableOcc, names []string) bool {
	if !o.Plain {
		return false
	}
	for _, n := range names {
		if n == o.Name {
			return true
		}
	}
	return false
}

func assertedRoot(kind string) bool {
	switch kind {
	case "select", "union", "insert", "replace", "paren-select":
		return true
	}
	return false
}

func supportedShape(s string) bool { return s == "top-from" || s == "insert-target" }

// refTables is the reference notion of a table rule. shape names the path that leads to the deciding
// table when acra is known not to look there.
func refTables(handlerKind string, names []string, x xInfo) (res tri, shape string) {
	if x.info.st == nil {
		return noMatch, ""
	}
	occs := x.info.occs
	if handlerKind == "deny" {
		anyLoose := false
		best := ""
		for _, o := range occs {
			if o.Virtual {
				continue
			}
			if looselyListed(o, names) {
				anyLoose = true
			}
			if strictlyListed(o, names) && assertedRoot(x.info.kind) && o.Shape != "update" && o.Shape != "delete" {
				if best == "" || supportedShape(o.Shape) {
					best = o.Shape
				}
			}
		}
		switch {
		case best != "":
			return match, best
		case !anyLoose:
			return noMatch, ""
		}
		return unsure, ""
	}
	// allow: every table the statement uses must be listed
	real := 0
	for _, o := range occs {
		if !o.Virtual {
			real++
		}
	}
	if real == 0 {
		return unsure, "" // a statement that uses no table at all
	}
	allStrict, unlistedShape, firstUnsupported := true, "", ""
	unlisted := false
	for _, o := range occs {
		if o.Virtual {
			if o.Shape == "dual" {
				allStrict = false // whether `dual` has to be listed is not asserted
			} else if firstUnsupported == "" {
				firstUnsupported = o.Shape
			}
			continue
		}
		if !strictlyListed(o, names) {
			allStrict = false
		}
		if !looselyListed(o, names) {
			unlisted = true
			if unlistedShape == "" || !supportedShape(o.Shape) {
				unlistedShape = o.Shape
			}
		}
		if !supportedShape(o.Shape) && firstUnsupported == "" {
			firstUnsupported = o.Shape
		}
	}
	if unlisted {
		return noMatch, unlistedShape
	}
	if !assertedRoot(x.info.kind) {
		return unsure, ""
	}
	if allStrict {
		if firstUnsupported == "" {
			firstUnsupported = "top-from"
		}
		return match, firstUnsupported
	}
	return unsure, ""
}

func sameStrings(a, b []string) bool {
	if len(a) != len(b) {
		return false
	}
	for i := range a {
		if a[i] != b[i] {
			return false
		}
	}
	return true
}

func refWhole(phKind, xKind string) tri {
	norm := func(k string) string {
		if k == "replace" {
			return "insert"
		}
		return k
	}
	if phKind == xKind {
		return match
	}
	if norm(phKind) == norm(xKind) {
		return unsure
	}
	sel := map[string]bool{"select": true, "union": true, "paren-select": true}
	if sel[phKind] && sel[xKind] {
		return unsure
	}
	return noMatch
}

// refPattern is the reference notion of a pattern rule.
func refPattern(p rPattern, src poolInfo, x xInfo) tri {
	if x.info.st == nil {
		return noMatch
	}
	if p.d.Whole != "" {
		return refWhole(p.d.Whole, x.info.kind)
	}
	if p.from == x.from && x.extra != "" {
		// the pattern was made from the statement WITHOUT the added clause and has no placeholder for it.
		// Exception: %%WHERE%% in a SELECT stands for the WHERE clause and whatever follows it - acra's own
		// TestConfigurationProvider expects `... FROM EMPLOYEE %%WHERE%%` (configs/acra-censor.example.yaml)
		// to deny `... WHERE CITY = 'Seattle' ORDER BY EMP_ID`; clauses behind WHERE are not asserted then.
		if has(p.d.Applied, "where") {
			switch x.extra {
			case "select+limit", "select+order-by", "select+for-update", "select+having", "select+group-by":
				return unsure
			}
		}
		return noMatch
	}
	if p.from == x.from {
		if p.d.Printed && !src.faithful {
			return unsure
		}
		// a placeholder that swallows a positional `?` renumbers the ones after it (:v2 becomes :v1): not asserted
		if x.info.qmarks {
			for _, a := range p.d.Applied {
				if a == "subquery" || a == "where" || a == "list" {
					return unsure
				}
			}
		}
		return match
	}
	if src.kind != x.info.kind || !sameStrings(src.main, x.info.main) {
		return noMatch
	}
	return unsure
}

// ---- helpers shared by the tests ----

func sortedKeys(m map[string]bool) []string {
	out := make([]string, 0, len(m))
	for k := range m {
		out = append(out, k)
	}
	sort.Strings(out)
	return out
}

func opsName(applied []string) string {
	set := map[string]bool{}
	for _, a := range applied {
		set[a] = true
	}
	return strings.Join(sortedKeys(set), "+")
}
