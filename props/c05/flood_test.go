package c05

import (
	"fmt"
	"regexp"
	"strings"
	"testing"
	"time"

	"github.com/jackc/pgx/v5/pgproto3"
	"pgregory.net/rapid"

	"github.com/cossacklabs/acra/pseudonymization"
	"github.com/cossacklabs/acra/pseudonymization/storage"

	"verif/internal/fix"
	"verif/internal/hx"
	"verif/internal/pgprog"
	"verif/internal/pgsess"
	"verif/internal/racewatch"
	"verif/internal/sqlgen"
)

// Layer (d): the firewall while the database side of the proxy is at work. The two directions of a proxied
// connection are served by two goroutines that share the session's protocol state; a client whose previous
// result is still streaming, LISTEN/NOTIFY, warnings and parameter-status messages all make the database side
// handle messages at the moment the client side judges a statement. Here the fake database sends NoticeResponse
// messages back to back for the whole session and the client sends a long run of short statements:
// rejected ones on table `forbidden` and accepted ones on `freetab` (whose column `secret` is configured for
// transparent encryption), each with a number of its own, in the simple protocol or as an extended-protocol
// cycle with the unnamed statement.
//
// Oracle (independent of the schedule): the database received no statement on `forbidden`; it received every
// accepted statement exactly once, in order, and with the value of `secret` encrypted (the statement was
// processed as what it is); every rejected statement was answered with ErrorResponse and exactly one
// ReadyForQuery, every accepted one without an error; the session lived to the end.

// FloodCase is one session of layer (d).
type FloodCase struct {
	Steps []int `json:"steps"` // 0 rejected/simple, 1 accepted/simple, 2 rejected/extended, 3 accepted/extended
	Quiet bool  `json:"quiet,omitempty"`
}

func genFloodCase(t *rapid.T) FloodCase {
	n := rapid.IntRange(150, 400).Draw(t, "n")
	if racewatch.Enabled {
		n = n / 4
	}
	c := FloodCase{}
	for i := 0; i < n; i++ {
		c.Steps = append(c.Steps, rapid.SampledFrom([]int{0, 0, 1, 2, 2, 3}).Draw(t, "step"))
	}
	c.Quiet = rapid.IntRange(0, 9).Draw(t, "quiet") == 0
	return c
}

const floodBase = 1468013000

var floodID = regexp.MustCompile(`(?i)VALUES\s*\(\s*(\d+)\s*,`)

func floodSQL(kind, i int) (sql, secret string) {
	k := floodBase + i
	secret = fmt.Sprintf("PLAINTEXT-%d-ZZ", k)
	if kind == 0 || kind == 2 {
		return fmt.Sprintf("SELECT id FROM forbidden WHERE id = %d", k), ""
	}
	return fmt.Sprintf("INSERT INTO freetab (id, secret) VALUES (%d, '%s')", k, secret), secret
}

// CheckFlood runs the session.
func CheckFlood(c FloodCase) (vs hx.Vs, classes []string, nontrivial bool) {
	sqlgen.SetDialect(sqlgen.PostgreSQL)
	w := fix.TheWorld()
	tables := []pgprog.TableSpec{
		{Name: "forbidden", Cols: []pgprog.ColSpec{{Name: "id", Kind: pgprog.KPlainInt}}},
		{Name: "freetab", Configured: true, Cols: []pgprog.ColSpec{{Name: "id", Kind: pgprog.KPlainInt}, {Name: "secret", Kind: pgprog.KEnc}}},
	}
	yaml := renderYAML(false, []rHandler{{kind: "deny", tables: []string{"forbidden"}}}, 0)
	censor, err := loadCensor(&vs, yaml)
	if err != nil {
		vs.Add("harness:censor-config", "%v\n%s", err, yaml)
		return
	}
	defer censor.ReleaseAll()
	tstore, err := storage.NewMemoryTokenStorage()
	if err != nil {
		vs.Add("harness:tokens", "%v", err)
		return
	}
	tok, err := pseudonymization.NewPseudoanonymizer(tstore)
	if err != nil {
		vs.Add("harness:tokens", "%v", err)
		return
	}
	cfg := pgsess.Config{SchemaYAML: pgprog.SchemaYAML(tables), KeyStore: w.KS, ClientID: w.Alice, Tables: pgprog.Defs(tables), Tokenizer: tok, Censor: censor, Timeout: 10 * time.Second}
	if !c.Quiet {
		// bursts: the proxy's database side works through 16 messages back to back, then pauses; an unpaced
		// stream would starve the client (every reply queues behind the notices in the socket buffers)
		cfg.NoticeEvery, cfg.NoticeBurst = 50*time.Microsecond, 16
		if racewatch.Enabled {
			cfg.NoticeEvery, cfg.NoticeBurst = time.Millisecond, 4 // the race detector needs concurrency, not density
		}
	}
	s, err := pgsess.Start(cfg)
	if err != nil {
		vs.Add("harness:start", "%v", err)
		return
	}
	defer s.Close()
	rejected, accepted := 0, 0
	var wantSQL []string // numbers of the accepted statements in order
	pendingSQL := ""     // number of the admitted statement a deadline hit (inconclusive run), if any
	for i, kind := range c.Steps {
		sql, _ := floodSQL(kind, i)
		var rep *pgsess.Reply
		var err error
		proto := "simple"
		if kind >= 2 {
			proto = "extended"
			err = s.SendMessages(&pgproto3.Parse{Query: sql}, &pgproto3.Bind{}, &pgproto3.Describe{ObjectType: 'P'}, &pgproto3.Execute{}, &pgproto3.Sync{})
			if err == nil {
				rep, err = s.Collect()
			}
		} else {
			rep, err = s.Simple(sql)
		}
		if err != nil {
			if ps := s.Panics(); len(ps) > 0 {
				vs.Add("handler-panic:"+hx.PanicFunc(ps[0]), "statement %d (%s) made the connection handler panic: %.1500s", i, sql, ps[0])
				return
			}
			if err == pgsess.ErrTimeout {
				// a deadline under this load is inconclusive (wedged sessions are TestSessions' subject, against a quiet database)
				R.Note("TestFirewallUnderDatabaseTraffic: inconclusive: no reply within 10 s to statement %d of %d (%s)", i, len(c.Steps), proto)
				classes = append(classes, "inconclusive:deadline")
				if kind == 1 || kind == 3 {
					pendingSQL = fmt.Sprint(floodBase + i) // admitted statement without an answer in time: it may or may not have reached the database
				}
				break
			}
			pe := s.ProxyErrors()
			for j := 0; j < 40 && len(pe) == 0; j++ {
				time.Sleep(5 * time.Millisecond)
				pe = s.ProxyErrors()
			}
			vs.Add("session-closed:under-database-traffic:"+proto, "statement %d of %d (%s, %s): %v; the proxy loop ended with %v", i, len(c.Steps), sql, proto, err, pe)
			break
		}
		msgs := strings.Join(rep.Msgs, "")
		if kind == 0 || kind == 2 {
			rejected++
			if msgs != "EZ" {
				vs.Add("rejected-reply-shape:under-database-traffic:"+proto, "statement %d (%s, %s) is rejected by the firewall; the client got %q instead of ErrorResponse, ReadyForQuery", i, sql, proto, msgs)
				break
			}
		} else {
			accepted++
			wantSQL = append(wantSQL, fmt.Sprint(floodBase+i))
			if len(rep.Errors) > 0 || !strings.HasSuffix(msgs, "Z") || strings.Count(msgs, "Z") != 1 {
				vs.Add("accepted-reply-shape:under-database-traffic:"+proto, "statement %d (%s, %s) is admitted by the firewall; the client got %q, errors %v", i, sql, proto, msgs, rep.Errors)
				break
			}
		}
	}
	// what the database got
	var gotSQL []string
	for _, r := range s.DB.Received() {
		if r.Kind != "Q" && r.Kind != "P" {
			continue
		}
		if strings.Contains(r.SQL, "forbidden") {
			vs.Add("rejected-statement-reached-database:under-database-traffic", "the database received %q (%s), which the firewall configuration rejects (deny on table forbidden)", r.SQL, r.Kind)
			break
		}
		if strings.Contains(r.SQL, "PLAINTEXT-") {
			vs.Add("accepted-statement-not-processed:under-database-traffic", "the database received %q (%s): the value of the encrypted column secret arrived in clear", r.SQL, r.Kind)
			break
		}
		// the statement's own number: first value of the INSERT (the encrypted value is a hex string, which may contain any digits)
		if m := floodID.FindStringSubmatch(r.SQL); m != nil {
			gotSQL = append(gotSQL, m[1])
		} else {
			gotSQL = append(gotSQL, fmt.Sprintf("?(%.60s)", r.SQL))
		}
	}
	if pendingSQL != "" && len(gotSQL) == len(wantSQL)+1 && gotSQL[len(gotSQL)-1] == pendingSQL {
		gotSQL = gotSQL[:len(gotSQL)-1] // the statement whose answer did not arrive within the deadline was forwarded: fine either way
	}
	if len(vs) == 0 && strings.Join(gotSQL, ",") != strings.Join(wantSQL, ",") {
		vs.Add("accepted-statements-at-database:under-database-traffic", "the database received the statements numbered %v, the accepted statements in order are %v", gotSQL, wantSQL)
	}
	if c.Quiet {
		classes = append(classes, "db:quiet")
	} else {
		classes = append(classes, "db:notices-back-to-back")
		if s.Notices < 50 {
			classes = append(classes, "db:few-notices")
		}
	}
	return vs, classes, !c.Quiet && rejected > 0 && accepted > 0 && s.Notices >= 50
}

func TestFirewallUnderDatabaseTraffic(t *testing.T) {
	if len(processDialects()) == 1 && processDialects()[0] == sqlgen.MySQL {
		t.Skip("runs through the PostgreSQL proxy")
	}
	R.Rule("TestFirewallUnderDatabaseTraffic", "a session of 150-400 short statements (rejected ones on table forbidden, accepted INSERTs with a transparently encrypted column; simple protocol or an extended cycle with the unnamed statement) through acra's real PostgreSQL proxy while the fake database sends NoticeResponse messages back to back (1 session in 10 against a quiet database): no statement on forbidden at the database, every accepted statement there once, in order and with the protected value encrypted, rejected ones answered ErrorResponse + one ReadyForQuery, session alive. Schedule-dependent (the Go runtime owns the interleaving of the proxy's two goroutines); the group pg-traffic-race runs the same sessions in a -race build, where a report of the race detector during a session is a violation (data-race:pg-proxy); non-trivial = rejected and accepted statements and >= 50 notices relayed during the session")
	watch := racewatch.Start() // -race build (group pg-traffic-race): a report of the race detector during a session is a violation of it
	defer watch.Stop()
	if racewatch.Enabled {
		hx.Checks(4, 60)
	} else {
		hx.Checks(12, 400)
	}
	rapid.Check(t, func(rt *rapid.T) {
		c := genFloodCase(rt)
		vs, classes, nt := CheckFlood(c)
		if rep := watch.Poll(); strings.Contains(rep, "DATA RACE") {
			a, b := racewatch.Sites(rep)
			if a > b {
				a, b = b, a
			}
			if i := strings.Index(rep, "WARNING: DATA RACE"); i >= 0 {
				rep = rep[i:]
			}
			vs.Add("data-race:pg-proxy:"+a, "the race detector reports unsynchronised access between %s and %s while the two sides of the PostgreSQL proxy work at the same time: %.2500s", a, b, rep)
		}
		classes = append(classes, fmt.Sprintf("race-detector:%v", racewatch.Enabled))
		R.Seen("TestFirewallUnderDatabaseTraffic", c, nt, classes...)
		R.Report(rt, "TestFirewallUnderDatabaseTraffic", c, vs)
	})
}
