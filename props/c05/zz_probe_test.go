package c05

import (
	"fmt"
	"testing"

	acracensor "github.com/cossacklabs/acra/acra-censor"
	"verif/internal/sqlgen"
)

func TestZZProbe(t *testing.T) {
	sqlgen.SetDialect(sqlgen.MySQL)
	c := acracensor.NewAcraCensor()
	if err := c.LoadConfiguration([]byte("version: 0.85.0\nhandlers:\n  - handler: deny\n    tables:\n      - forbidden\n")); err != nil {
		t.Fatal(err)
	}
	for _, q := range []string{
		"select * from forbidden",
		"select 1; select * from forbidden",
		"select 1 from t1; select * from forbidden",
		"select 1;",
		"select 1; garbage here",
		"prepare s1 from 'select * from forbidden'",
		"PREPARE s1 FROM 'select * from t1'",
		"prepare s1 from @v",
		"execute s1",
		"execute s1 using @a, @b",
		"deallocate prepare s1",
		"set @v = 'select * from forbidden'",
		"/*! select * from forbidden */",
		"select 1 /*! union select * from forbidden */",
		"qwerty",
	} {
		fmt.Printf("%-60q -> %v\n", q, c.HandleQuery(q))
	}
}
