package c05

import (
	"fmt"
	"sort"
	"strings"
	"testing"

	"pgregory.net/rapid"

	"verif/internal/hx"
)

func genFormattingCase(t *rapid.T) Case {
	c := genCase(t)
	c.Stmt.Corrupt = 0
	n := rapid.IntRange(1, 3).Draw(t, "nvariants")
	for i := 0; i < n; i++ {
		c.Variants = append(c.Variants, genVarOps(t, fmt.Sprintf("variant%d", i), 3))
	}
	return c
}

func opNames(ops []VarOp) string {
	set := map[string]bool{}
	for _, o := range ops {
		set[o.Op] = true
	}
	return strings.Join(sortedKeys(set), "+")
}

// CheckFormatting is layer (b): the verdict on a statement equals the verdict on each of its formatting variants.
func CheckFormatting(c Case) (vs hx.Vs, ev evidence) {
	ev.classes = map[string]bool{}
	p, ok := prepare(c, &vs, &ev)
	if !ok {
		return vs, ev
	}
	x := p.x
	ev.class("dialect:%s", c.Dialect)
	if x.info.st == nil {
		ev.class("skipped:statement-not-parseable")
		return vs, ev
	}
	ipe := c.Cfg.IgnoreParseError
	full, err := loadCensor(&vs, p.fullYAML)
	if err != nil {
		if len(vs) == 0 {
			vs.Add("harness:config-rejected", "configuration whose rules load one by one is rejected: %v\n%s", err, p.fullYAML)
		}
		return vs, ev
	}
	defer full.ReleaseAll()
	base, ok := acraVerdict(&vs, full, x.text)
	if !ok {
		return vs, ev
	}
	ev.class("stmt:%s", x.info.kind)
	ev.class("verdict:%s", map[bool]string{true: "allowed", false: "denied"}[base])
	for _, h := range p.hs {
		ev.class("handler:%s", h.kind)
		for _, q := range h.queries {
			if normText(q.text, p.pg) == x.info.norm {
				ev.nontrivial = true
				ev.class("rule-on-this-statement:%s/queries", h.kind)
			}
		}
		for _, pt := range h.patterns {
			if pt.from == x.from {
				ev.nontrivial = true
				ev.class("rule-on-this-statement:%s/patterns", h.kind)
			}
		}
		if len(h.tables) > 0 {
			if r, _ := refTables(h.kind, h.tables, x); r == match {
				ev.nontrivial = true
				ev.class("rule-on-this-statement:%s/tables", h.kind)
			}
		}
	}
	differs := func(ops []VarOp) (text string, got bool, bad bool) {
		text = applyVariant(x.text, p.pg, ops)
		v, ok := acraVerdict(&vs, full, text)
		if !ok {
			return text, false, true
		}
		return text, v, v != base
	}
	for _, ops := range c.Variants {
		for _, o := range ops {
			ev.class("variant:%s", o.Op)
		}
		text := applyVariant(x.text, p.pg, ops)
		if normText(text, p.pg) != x.info.norm {
			vs.Add("harness:variant-not-equivalent", "formatting variant %q of %q has another normal form", text, x.text)
			return vs, ev
		}
		if text == x.text {
			ev.class("variant:identity")
			continue
		}
		_, got, bad := differs(ops)
		if len(vs) > 0 {
			return vs, ev
		}
		if !bad {
			continue
		}
		// smallest set of changes that still flips the verdict
		min := append([]VarOp(nil), ops...)
		for i := 0; i < len(min) && len(min) > 1; {
			trial := append(append([]VarOp(nil), min[:i]...), min[i+1:]...)
			if _, _, b := differs(trial); b {
				min = trial
			} else {
				i++
			}
		}
		vtext, _, _ := differs(min)
		// which handler / rule kind changed its mind?
		who := "none"
		if _, err := parseLikeCensor(vtext, p.pg); err != nil {
			who = "variant-not-parsed"
		} else {
			for _, h := range p.hs {
				if h.kind == "allowall" || h.kind == "denyall" {
					continue
				}
				parts := map[string]rHandler{
					"queries":  {kind: h.kind, queries: h.queries},
					"tables":   {kind: h.kind, tables: h.tables},
					"patterns": {kind: h.kind, patterns: h.patterns},
				}
				keys := []string{"queries", "tables", "patterns"}
				sort.Strings(keys)
				found := false
				for _, k := range keys {
					ph := parts[k]
					if len(ph.queries)+len(ph.tables)+len(ph.patterns) == 0 {
						continue
					}
					a, ok1, _ := isolated(&vs, ph, ipe, x.text)
					b, ok2, _ := isolated(&vs, ph, ipe, vtext)
					if ok1 && ok2 && a != b {
						who = h.kind + "/" + k
						found = true
						break
					}
				}
				if found {
					break
				}
			}
		}
		vs.Add("formatting-changes-verdict:"+who+":"+opNames(min), "statement %q: allowed=%v; its spelling %q (changes: %s): allowed=%v\n%s", x.text, base, vtext, opNames(min), got, p.fullYAML)
		return vs, ev
	}
	return vs, ev
}

func TestFormatting(t *testing.T) {
	R.Rule("TestFormatting", "case as TestVerdict (parseable statement) + 1-3 formatting variants of the statement, each made of 1-3 changes: keyword case (upper/lower/alternating on a subset of reserved words), white space (existing white space replaced by blanks/tabs/newlines, added after commas and inside parentheses), one trailing semicolon added or removed, leading / trailing /* */ comments, leading / trailing white space; the verdict of the full chain must not change; a change is attributed to the first handler and rule kind whose isolated match differs and to a minimal set of changes. Non-trivial = a rule of the configuration concerns the statement")
	hx.Checks(334, 8000)
	rapid.Check(t, func(rt *rapid.T) {
		c := genFormattingCase(rt)
		vs, ev := CheckFormatting(c)
		R.Seen("TestFormatting", c, ev.nontrivial, sortedKeys(ev.classes)...)
		R.Report(rt, "TestFormatting", c, vs)
	})
}
