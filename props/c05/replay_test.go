package c05

import (
	"encoding/json"
	"testing"

	"verif/internal/hx"
)

func TestReplay(t *testing.T) {
	R.Replay(t, map[string]hx.ReplayHandler{
		"TestVerdict": func(raw json.RawMessage) hx.Vs {
			c, bad := decodeCase(raw)
			if bad != nil {
				return bad
			}
			if !dialectOfThisProcess(c.Dialect) {
				return nil
			}
			vs, _ := CheckVerdict(c)
			return vs
		},
		"TestFormatting": func(raw json.RawMessage) hx.Vs {
			c, bad := decodeCase(raw)
			if bad != nil {
				return bad
			}
			if !dialectOfThisProcess(c.Dialect) {
				return nil
			}
			vs, _ := CheckFormatting(c)
			return vs
		},
		"TestSessions": func(raw json.RawMessage) hx.Vs {
			var c SessCase
			if err := json.Unmarshal(raw, &c); err != nil {
				return hx.Vs{{Sig: "harness:decode", Msg: err.Error()}}
			}
			if !dialectOfThisProcess("postgresql") {
				return nil
			}
			vs, _, _ := CheckSession(c)
			return vs
		},
		"TestFirewallUnderDatabaseTraffic": func(raw json.RawMessage) hx.Vs {
			var c FloodCase
			if err := json.Unmarshal(raw, &c); err != nil {
				return hx.Vs{{Sig: "harness:decode", Msg: err.Error()}}
			}
			if !dialectOfThisProcess("postgresql") {
				return nil
			}
			// schedule-dependent: the saved session is run a few times
			for i := 0; i < 5; i++ {
				if vs, _, _ := CheckFlood(c); len(vs) > 0 {
					return vs
				}
			}
			return nil
		},
		"TestFirewallSessionsMySQL": func(raw json.RawMessage) hx.Vs {
			var c MyFwCase
			if err := json.Unmarshal(raw, &c); err != nil {
				return hx.Vs{{Sig: "harness:decode", Msg: err.Error()}}
			}
			if !myFwReplayHere() {
				return nil
			}
			vs, _, _ := CheckMyFwSession(c)
			return vs
		},
	})
}

// dialectOfThisProcess: the default dialect is process-global; a saved case is replayed by the group of its dialect.
func dialectOfThisProcess(d string) bool {
	for _, x := range processDialects() {
		if x == d {
			return true
		}
	}
	return false
}
