package c05

// Layer (c): sessions through acra's real PostgreSQL proxy with a firewall loaded from generated YAML.

import (
	"bytes"
	"encoding/binary"
	"errors"
	"fmt"
	"os"
	"strconv"
	"strings"
	"testing"
	"time"

	"pgregory.net/rapid"

	acracensor "github.com/cossacklabs/acra/acra-censor"
	"github.com/cossacklabs/acra/pseudonymization"
	"github.com/cossacklabs/acra/pseudonymization/storage"

	"verif/internal/fix"
	"verif/internal/hx"
	"verif/internal/pgprog"
	"verif/internal/pgsess"
	"verif/internal/sqlgen"
)

// SessStep is one statement of the session.
type SessStep struct {
	pgprog.Step
	Mark    bool `json:"mark,omitempty"`    // the firewall rules of the modes that list statements are built from marked steps
	Unnamed bool `json:"unnamed,omitempty"` // extended protocol: use the unnamed prepared statement
}

// SessCase is a session program with a firewall mode.
type SessCase struct {
	Tables []pgprog.TableSpec `json:"tables"` // the last but one table is `forbidden`, the last `freetab`
	Mode   string             `json:"mode"`   // deny-table | allow-tables | deny-query | deny-pattern | allow-queries
	Steps  []SessStep         `json:"steps"`
	Style  int                `json:"yaml_style,omitempty"`
	// Noisy: the database sends asynchronous NoticeResponse messages all the time (about every 30 microseconds):
	// the database side of the proxy is at work while the client side judges and rejects statements
	Noisy bool `json:"noisy,omitempty"`
}

var sessModes = []string{"deny-table", "deny-table", "allow-tables", "deny-query", "deny-pattern", "allow-queries"}

// markerBase: numbers from here on occur only in marked statements. The digits are chosen so that they do not
// show up in hex dumps of envelope headers (0x19000000-like length fields made 1900000002 appear by chance).
const markerBase = 1357924000

func genSessCase(t *rapid.T) SessCase {
	c := SessCase{Mode: rapid.SampledFrom(sessModes).Draw(t, "mode"), Style: rapid.IntRange(0, 5).Draw(t, "yamlstyle")}
	ts := pgprog.GenTables(t, pgprog.AllKinds, "alice")
	free := ts[len(ts)-1]
	ts = ts[:len(ts)-1]
	forb := pgprog.TableSpec{Name: "forbidden", Configured: rapid.Bool().Draw(t, "forbidden.configured"), Cols: []pgprog.ColSpec{{Name: "id", Kind: pgprog.KPlainInt}}}
	nc := rapid.IntRange(1, 3).Draw(t, "forbidden.ncols")
	for j := 0; j < nc; j++ {
		kinds := pgprog.AllKinds
		if !forb.Configured {
			kinds = []string{pgprog.KPlainText, pgprog.KPlainBytea, pgprog.KPlainInt}
		}
		forb.Cols = append(forb.Cols, pgprog.GenCol(t, fmt.Sprintf("cf_%d", j), kinds, "alice"))
	}
	ts = append(ts, forb, free)
	c.Tables = ts
	forbIdx := len(ts) - 2
	next := make([]int64, len(ts))
	for i := range next {
		next[i] = 1
	}
	n := rapid.IntRange(3, 10).Draw(t, "nsteps")
	for i := 0; i < n; i++ {
		label := fmt.Sprintf("s%d", i)
		var st SessStep
		onForbidden := chance(t, label+".forbidden", 35)
		if i == 0 {
			onForbidden = false
		}
		// draw the step over one table so that the table choice is ours
		var tbl int
		if onForbidden {
			tbl = forbIdx
		} else {
			cands := []int{}
			for j := range ts {
				if j != forbIdx {
					cands = append(cands, j)
				}
			}
			tbl = rapid.SampledFrom(cands).Draw(t, label+".tbl")
		}
		one := []pgprog.TableSpec{ts[tbl]}
		nid := []int64{next[tbl]}
		st.Step = pgprog.GenStep(t, one, nid, label)
		next[tbl] = nid[0]
		st.Step.Table = tbl
		st.Mark = onForbidden || chance(t, label+".mark", 25)
		st.Unnamed = rapid.Bool().Draw(t, label+".unnamed")
		// statements that may be rejected carry a unique number so that they can be searched for
		if st.Mark {
			m := int64(markerBase + i)
			switch st.Op {
			case "select", "update":
				st.WhereID = &m
			case "insert":
				cols := st.Cols
				pos := 0
				for k, cidx := range cols {
					if cidx == 0 {
						pos = k
					}
				}
				for r := range st.Rows {
					st.Rows[r][pos] = pgprog.Val{B: []byte(fmt.Sprint(m + int64(r)*1000))}
				}
			}
		}
		c.Steps = append(c.Steps, st)
	}
	c.Noisy = rapid.IntRange(0, 2).Draw(t, "noisy") == 0
	return c
}

// ---- what the client checks about rows (as props/c04) ----

func expectedOID(c pgprog.ColSpec) uint32 {
	switch c.Kind {
	case pgprog.KEnc:
		return 17
	case pgprog.KSearch, pgprog.KMask:
		if c.DataType == "" {
			return 17
		}
	}
	return c.Logical().OID()
}

func sameVal(a, b pgprog.Val) bool {
	if a.Null || b.Null {
		return a.Null == b.Null
	}
	return bytes.Equal(a.B, b.B)
}

type sessObs struct {
	vs      hx.Vs
	classes map[string]bool
	// tainted names the protocol of the first rejected statement of the session: whatever goes wrong after it is
	// reported under one signature per protocol (the symptoms of a reply queue that lost its alignment are many)
	tainted string
}

// add records an anomaly observed while the session runs.
func (o *sessObs) add(sig, format string, args ...any) {
	if o.tainted != "" {
		o.vs.Add("diverges-after-rejection:"+o.tainted, "[%s] %s", sig, fmt.Sprintf(format, args...))
		return
	}
	o.vs.Add(sig, format, args...)
}

func (o *sessObs) class(format string, args ...any) { o.classes[fmt.Sprintf(format, args...)] = true }

func (o *sessObs) checkRows(what string, afterRejection bool, tb pgprog.TableSpec, cols []int, want [][]pgprog.Val, rep *pgsess.Reply, resultFmt int16) {
	tag := what
	if afterRejection {
		tag += "-after-rejection"
	}
	if len(rep.Errors) > 0 {
		o.add("statement-error:"+tag, "%s on %s answered with error %q", what, tb.Name, rep.Errors)
		return
	}
	if len(rep.Rows) != len(want) {
		o.add("row-count:"+tag, "%s on %s returned %d rows, model has %d (messages %v)", what, tb.Name, len(rep.Rows), len(want), rep.Msgs)
		return
	}
	if len(want) > 0 && !rep.HaveFields {
		o.add("no-row-description:"+tag, "%s on %s returned rows without a RowDescription", what, tb.Name)
		return
	}
	for ri, row := range rep.Rows {
		if len(row) != len(cols) {
			o.add("column-count:"+tag, "%s on %s row has %d columns, want %d", what, tb.Name, len(row), len(cols))
			return
		}
		for ci, raw := range row {
			col := tb.Cols[cols[ci]]
			exp := want[ri][cols[ci]]
			oid := uint32(25)
			if ci < len(rep.Fields) {
				oid = rep.Fields[ci].DataTypeOID
			}
			got, _, err := pgprog.Decode(raw, oid, resultFmt)
			if err != nil {
				o.add("undecodable:"+tag+":"+col.Kind, "%s column %s (%s, oid %d, format %d): %v", what, col.Name, col.Kind, oid, resultFmt, err)
				continue
			}
			if tb.Configured && col.Protected() && oid != expectedOID(col) {
				o.add("wrong-type-described:"+tag+":"+col.Kind, "%s column %s (%s %s) described with oid %d, want %d", what, col.Name, col.Kind, col.DataType+col.TokenType, oid, expectedOID(col))
			}
			if !sameVal(got, exp) {
				sig := "owner-read-differs:"
				if !col.Protected() || !tb.Configured {
					sig = "uncovered-column-changed:"
				}
				o.add(sig+tag+":"+col.Kind, "%s column %s.%s (%s): got %.60q want %.60q (row %d, format %d, oid %d)", what, tb.Name, col.Name, col.Kind, got.B, exp.B, ri, resultFmt, oid)
			}
		}
	}
}

// sessionCensorYAML builds the firewall configuration of the mode from the rendered statements.
func sessionCensorYAML(c SessCase, sqls []string, finals []string, vs *hx.Vs) string {
	forbIdx := len(c.Tables) - 2
	var hs []rHandler
	switch c.Mode {
	case "deny-table":
		hs = []rHandler{{kind: "deny", tables: []string{"forbidden"}}}
	case "allow-tables":
		var names []string
		for i, tb := range c.Tables {
			if i != forbIdx {
				names = append(names, tb.Name)
			}
		}
		hs = []rHandler{{kind: "allow", tables: names}, {kind: "denyall"}}
	case "deny-query":
		h := rHandler{kind: "deny"}
		for i, st := range c.Steps {
			if st.Mark && loadable(rHandler{kind: "deny", queries: []rQuery{{text: sqls[i]}}}) {
				h.queries = append(h.queries, rQuery{text: sqls[i]})
			}
		}
		hs = []rHandler{h}
	case "deny-pattern":
		h := rHandler{kind: "deny"}
		for i, st := range c.Steps {
			// INSERT patterns are left to TestVerdict
			if st.Mark && st.Op != "insert" {
				if d, ok := derivePattern(sqls[i], true, []PatOp{{Op: "value", Idx: 0}, {Op: "value", Idx: 0}, {Op: "value", Idx: 0}, {Op: "value", Idx: 0}}, vs); ok && loadable(rHandler{kind: "deny", patterns: []rPattern{{d: d}}}) {
					h.patterns = append(h.patterns, rPattern{d: d})
				}
			}
		}
		hs = []rHandler{h}
	case "allow-queries":
		h := rHandler{kind: "allow"}
		for i, st := range c.Steps {
			// a statement acra's parser does not accept cannot be listed (it is rejected as unparseable)
			if !st.Mark && loadable(rHandler{kind: "allow", queries: []rQuery{{text: sqls[i]}}}) {
				h.queries = append(h.queries, rQuery{text: sqls[i]})
			}
		}
		for _, f := range finals {
			h.queries = append(h.queries, rQuery{text: f})
		}
		hs = []rHandler{h, {kind: "denyall"}}
	}
	return renderYAML(false, hs, c.Style)
}

// containsStatement looks for sql as a whole protocol string: NUL-terminated, and either the body of a Query
// message or preceded by the NUL that ends a statement name in Parse (a rejected statement may well be a
// prefix of an accepted one).
func containsStatement(raw []byte, sql string) bool {
	needle := append([]byte(sql), 0)
	for from := 0; ; {
		i := bytes.Index(raw[from:], needle)
		if i < 0 {
			return false
		}
		i += from
		if i >= 1 && raw[i-1] == 0 && i >= 2 {
			return true
		}
		if i >= 5 && raw[i-5] == 'Q' && int(binary.BigEndian.Uint32(raw[i-4:i])) == len(needle)+4 {
			return true
		}
		from = i + 1
	}
}

// stepMarkers lists the unique numbers a marked statement carries.
func stepMarkers(st SessStep) []int64 {
	var out []int64
	if !st.Mark {
		return nil
	}
	if st.WhereID != nil && *st.WhereID >= markerBase {
		out = append(out, *st.WhereID)
	}
	for _, row := range st.Rows {
		for _, v := range row {
			if n, err := strconv.ParseInt(string(v.B), 10, 64); err == nil && !v.Null && n >= markerBase && n < markerBase+100000 {
				out = append(out, n)
			}
		}
	}
	return out
}

func markerBytes(m int64) [][]byte {
	var b [4]byte
	binary.BigEndian.PutUint32(b[:], uint32(m))
	return [][]byte{[]byte(fmt.Sprint(m)), b[:]}
}

type sessResult struct {
	vs           hx.Vs
	classes      map[string]bool
	nontrivial   bool
	timeout      bool // an i/o deadline fired
	afterReject  bool // ... after a rejection in the same session
	timeoutWhere string
	rejProto     string
}

// runSession runs the program once.
func runSession(c SessCase) sessResult {
	sqlgen.SetDialect(sqlgen.PostgreSQL)
	w := fix.TheWorld()
	o := &sessObs{classes: map[string]bool{}}
	res := sessResult{classes: o.classes}
	// whenever the session is given up, first look at what the database got so far
	var dbSide func(final bool) hx.Vs
	fail := func() sessResult {
		if dbSide != nil {
			res.vs = append(dbSide(false), o.vs...)
		} else {
			res.vs = o.vs
		}
		return res
	}
	defs := pgprog.Defs(c.Tables)
	schema := pgprog.SchemaYAML(c.Tables)
	// render everything first: the firewall rules of some modes are made of the statements
	rendered := make([]pgprog.Rendered, len(c.Steps))
	sqls := make([]string, len(c.Steps))
	for i, st := range c.Steps {
		rendered[i] = pgprog.Render(c.Tables, st.Step)
		sqls[i] = rendered[i].SQL
	}
	var finals []string
	var finalCols [][]int
	for _, tb := range c.Tables {
		var names []string
		var cols []int
		for i, col := range tb.Cols {
			cols = append(cols, i)
			names = append(names, col.Name)
		}
		finals = append(finals, "SELECT "+strings.Join(names, ", ")+" FROM "+tb.Name)
		finalCols = append(finalCols, cols)
	}
	yaml := sessionCensorYAML(c, sqls, finals, &o.vs)
	censor, err := loadCensor(&o.vs, yaml)
	if err != nil {
		o.vs.Add("harness:censor-config", "%v\n%s", err, yaml)
		return fail()
	}
	defer censor.ReleaseAll()
	oracle := acracensor.NewAcraCensor() // second instance: the verdict layer (a) checks
	if err := oracle.LoadConfiguration([]byte(yaml)); err != nil {
		o.vs.Add("harness:censor-config", "%v", err)
		return fail()
	}
	defer oracle.ReleaseAll()
	tstore, err := storage.NewMemoryTokenStorage()
	if err != nil {
		o.vs.Add("harness:tokens", "%v", err)
		return fail()
	}
	tok, err := pseudonymization.NewPseudoanonymizer(tstore)
	if err != nil {
		o.vs.Add("harness:tokens", "%v", err)
		return fail()
	}
	var noise time.Duration
	if c.Noisy {
		noise = 30 * time.Microsecond
	}
	s, err := pgsess.Start(pgsess.Config{SchemaYAML: schema, KeyStore: w.KS, ClientID: w.Alice, Tables: defs, Tokenizer: tok, Censor: censor, Timeout: 5 * time.Second, NoticeEvery: noise})
	if err != nil {
		o.vs.Add("harness:start", "%v\n%s", err, schema)
		return fail()
	}
	// the proxy loops report their end on ProxyErrs; acra-server then closes the connection
	var proxyErr error
	stop, watcherDone := make(chan struct{}), make(chan struct{})
	go func() {
		defer close(watcherDone)
		select {
		case pe := <-s.ProxyErrs:
			proxyErr = fmt.Errorf("%v", pe)
			s.Close()
		case <-stop:
		}
	}()
	defer func() {
		close(stop)
		<-watcherDone
		s.Close()
	}()
	o.class("mode:%s", c.Mode)
	if c.Noisy {
		o.class("db:asynchronous-notices")
	}

	rows := make([][][]pgprog.Val, len(c.Tables)) // model of what the client wrote
	var rejectedSQL []string
	var rejectedMarkers []int64
	accepted, acceptedExt := 0, 0
	readyExpected := 1 // start-up
	rejSeen := false
	debug := os.Getenv("VERIF_DEBUG") != ""

	handleErr := func(err error, where string, sql string) bool {
		if err == nil {
			return false
		}
		if ps := s.Panics(); len(ps) > 0 {
			o.add("handler-panic:"+hx.PanicFunc(ps[0]), "%s (%.160s) made the connection handler panic: %.1500s", where, sql, ps[0])
			return true
		}
		// a closed connection: wait for the watcher's word on why
		if !errors.Is(err, pgsess.ErrTimeout) {
			select {
			case <-watcherDone:
			case <-time.After(2 * time.Second):
			}
		}
		select {
		case <-watcherDone:
			if proxyErr != nil {
				if o.tainted != "" {
					o.vs.Add("proxy-stopped-after-rejection:"+o.tainted, "%s (%.160s): the proxy loop ended with %q after a statement was rejected: acra-server closes the connection", where, sql, proxyErr)
				} else {
					o.vs.Add("proxy-stopped", "%s (%.160s): the proxy loop ended with %q", where, sql, proxyErr)
				}
				return true
			}
		default:
		}
		if errors.Is(err, pgsess.ErrTimeout) {
			res.timeout, res.afterReject, res.timeoutWhere = true, o.tainted != "", fmt.Sprintf("%s (%.120s); first rejection over the %s protocol", where, sql, o.tainted)
			res.rejProto = o.tainted
			return true
		}
		o.vs.Add("session-broken:"+where, "%s (%.120s): %v", where, sql, err)
		return true
	}

	dbSide = func(final bool) (vs hx.Vs) {
		raw := s.DB.Raw()
		recv := s.DB.Received()
		nStmt, nBind := 0, 0
		for _, rc := range recv {
			switch rc.Kind {
			case "Q", "P":
				nStmt++
				for _, bad := range rejectedSQL {
					if rc.SQL == bad {
						vs.Add("rejected-statement-reached-database:"+rc.Kind, "the database received the rejected statement %q", bad)
						return vs
					}
				}
			case "B":
				nBind++
			}
		}
		for _, bad := range rejectedSQL {
			if containsStatement(raw, bad) {
				vs.Add("rejected-statement-reached-database:bytes", "bytes sent to the database contain the rejected statement %q", bad)
				return vs
			}
		}
		for _, m := range rejectedMarkers {
			// the 4-byte binary form is only looked for as a whole bound parameter (random ciphertext bytes could hold it)
			for _, rc := range recv {
				for _, pv := range rc.Params {
					if rc.Kind == "B" && bytes.Equal(pv.Data, markerBytes(m)[1]) {
						vs.Add("rejected-statement-reached-database:marker", "the database received a Bind with the number %d (binary) that occurs only in a rejected statement", m)
						return vs
					}
				}
			}
			for _, enc := range markerBytes(m)[:1] {
				if i := bytes.Index(raw, enc); i >= 0 {
					lo, hi := i-48, i+len(enc)+48
					if lo < 0 {
						lo = 0
					}
					if hi > len(raw) {
						hi = len(raw)
					}
					vs.Add("rejected-statement-reached-database:marker", "bytes sent to the database contain the number %d that occurs only in a rejected statement: ...%q...", m, raw[lo:hi])
					return vs
				}
			}
		}
		if !final {
			return vs
		}
		if nStmt != accepted {
			vs.Add("database-statement-count", "the database received %d statements, the session had %d accepted ones (and %d rejected)", nStmt, accepted, len(rejectedSQL))
		}
		if nBind != acceptedExt {
			vs.Add("database-bind-count", "the database executed %d Bind messages, the session had %d accepted extended-protocol statements: the messages that follow a rejected Parse were run against another statement", nBind, acceptedExt)
		}
		return vs
	}

	for si, st := range c.Steps {
		tb := c.Tables[st.Table]
		r := rendered[si]
		allowed := oracle.HandleQuery(r.SQL) == nil
		proto := "simple"
		name := fmt.Sprintf("st%d", si)
		if st.Ext {
			proto = "ext-named"
			if st.Unnamed {
				name, proto = "", "ext-unnamed"
			}
		}
		firstRejection := !allowed && o.tainted == ""
		if firstRejection {
			o.tainted = proto
		}
		if !allowed {
			rejectedSQL = append(rejectedSQL, r.SQL)
			rejectedMarkers = append(rejectedMarkers, stepMarkers(st)...)
		}
		var rep *pgsess.Reply
		var err error
		if st.Ext {
			rep, err = s.Extended(pgprog.ExtOf(st.Step, r, name))
		} else {
			rep, err = s.Simple(r.SQL)
		}
		readyExpected++
		if debug {
			fmt.Printf("STEP %d %s allowed=%v %s\n", si, proto, allowed, r.SQL)
			if rep != nil {
				fmt.Printf("   reply msgs=%v errs=%v rows=%.200q\n", rep.Msgs, rep.Errors, rep.Rows)
			}
		}
		if handleErr(err, fmt.Sprintf("step-%s", st.Op), r.SQL) {
			return fail()
		}
		if len(rep.Msgs) == 0 || rep.Msgs[len(rep.Msgs)-1] != "Z" {
			o.add("no-ready:"+st.Op, "step %d did not end with ReadyForQuery: %v", si, rep.Msgs)
		}
		o.class("protocol:%s/%s", proto, map[bool]string{true: "accepted", false: "rejected"}[allowed])
		o.class("op:%s/%s", st.Op, map[bool]string{true: "accepted", false: "rejected"}[allowed])
		if !allowed {
			// (ii) the client is told, and only that
			report := o.add
			if firstRejection {
				report = o.vs.Add
			}
			if len(rep.Errors) == 0 {
				report("rejected-without-error:"+proto, "step %d (%.160s) is rejected by the firewall but the client got %v", si, r.SQL, rep.Msgs)
			} else if strings.Join(rep.Msgs, "") != "EZ" {
				report("rejected-reply-shape:"+proto, "step %d (%.160s) is rejected by the firewall; the client got %v instead of ErrorResponse, ReadyForQuery", si, r.SQL, rep.Msgs)
			}
			rejSeen = true
			if tb.Name == "forbidden" {
				o.class("rejected-on:forbidden")
			} else {
				o.class("rejected-on:ordinary-table")
			}
			continue
		}
		accepted++
		if st.Ext {
			acceptedExt++
		}
		resFmt := int16(0)
		if st.Ext {
			resFmt = st.ResultFmt
		}
		allCols := func() []int {
			var a []int
			for i := range tb.Cols {
				a = append(a, i)
			}
			return a
		}
		switch st.Op {
		case "insert":
			cols := st.Cols
			if cols == nil {
				cols = allCols()
			}
			var added [][]pgprog.Val
			for _, row := range st.Rows {
				full := make([]pgprog.Val, len(tb.Cols))
				for i := range full {
					full[i] = pgprog.Val{Null: true}
				}
				for i, cidx := range cols {
					full[cidx] = row[i]
				}
				added = append(added, full)
			}
			rows[st.Table] = append(rows[st.Table], added...)
			if len(rep.Errors) > 0 {
				o.add("statement-error:insert", "step %d %.200s: %q", si, r.SQL, rep.Errors)
			}
			if len(st.Returning) > 0 {
				o.checkRows("insert-returning", rejSeen, tb, st.Returning, added, rep, resFmt)
			}
		case "update":
			var touched [][]pgprog.Val
			for ri, row := range rows[st.Table] {
				if st.WhereID != nil && string(row[0].B) != fmt.Sprint(*st.WhereID) {
					continue
				}
				nr := append([]pgprog.Val(nil), row...)
				for i, cidx := range st.Set {
					nr[cidx] = st.SetVals[i]
				}
				rows[st.Table][ri] = nr
				touched = append(touched, nr)
			}
			if len(rep.Errors) > 0 {
				o.add("statement-error:update", "step %d %.200s: %q", si, r.SQL, rep.Errors)
			}
			if len(st.Returning) > 0 {
				o.checkRows("update-returning", rejSeen, tb, st.Returning, touched, rep, resFmt)
			}
		case "select":
			cols := st.Cols
			if cols == nil {
				cols = allCols()
			}
			var want [][]pgprog.Val
			for _, row := range rows[st.Table] {
				if st.WhereID != nil && string(row[0].B) != fmt.Sprint(*st.WhereID) {
					continue
				}
				want = append(want, row)
			}
			if rejSeen && len(want) > 0 && tb.Configured && hasProtected(tb, cols) {
				res.nontrivial = true
				o.class("read-after-rejection:select-step")
			}
			o.checkRows("select", rejSeen, tb, cols, want, rep, resFmt)
		}
		if len(o.vs) > 0 {
			return fail()
		}
	}
	// every table is read once more in the same session: alignment of replies and own column settings
	for ti, tb := range c.Tables {
		allowed := oracle.HandleQuery(finals[ti]) == nil
		rep, err := s.Simple(finals[ti])
		readyExpected++
		if handleErr(err, "final-read", finals[ti]) {
			return fail()
		}
		if !allowed {
			if len(rep.Errors) == 0 {
				o.add("rejected-without-error:simple", "final read %q is rejected by the firewall but the client got %v", finals[ti], rep.Msgs)
			}
			rejectedSQL = append(rejectedSQL, finals[ti])
			rejSeen = true
			if o.tainted == "" {
				o.tainted = "simple"
			}
			o.class("final-read:rejected")
			continue
		}
		accepted++
		if rejSeen && len(rows[ti]) > 0 && tb.Configured && hasProtected(tb, finalCols[ti]) {
			res.nontrivial = true
			o.class("read-after-rejection:final-read")
		}
		o.class("final-read:accepted")
		o.checkRows("final-read", rejSeen, tb, finalCols[ti], rows[ti], rep, 0)
		if len(o.vs) > 0 {
			return fail()
		}
	}
	// (i) the database never received a rejected statement
	o.vs = append(o.vs, dbSide(true)...)
	// every request got exactly one ready state
	_, crecv := s.ClientStreams()
	if z := countReady(crecv); z != readyExpected {
		o.vs.Add("ready-count", "the client received %d ReadyForQuery messages for %d requests (incl. start-up): replies no longer pair with requests", z, readyExpected)
	}
	if rejSeen {
		o.class("session-with-rejection")
	}
	res.vs = o.vs
	return res
}

func hasProtected(tb pgprog.TableSpec, cols []int) bool {
	for _, c := range cols {
		if tb.Cols[c].Protected() {
			return true
		}
	}
	return false
}

// countReady walks the typed messages the client received and counts ReadyForQuery.
func countReady(b []byte) int {
	n := 0
	for len(b) >= 5 {
		l := int(binary.BigEndian.Uint32(b[1:5]))
		if l < 4 || 1+l > len(b) {
			break
		}
		if b[0] == 'Z' {
			n++
		}
		b = b[1+l:]
	}
	return n
}

// CheckSession is layer (c). A deadline that fires is re-tried once: twice in a row after a rejection is a
// violation of its own (the session wedged), anything else is inconclusive.
func CheckSession(c SessCase) (vs hx.Vs, classes map[string]bool, nontrivial bool) {
	r := runSession(c)
	if !r.timeout {
		return r.vs, r.classes, r.nontrivial
	}
	r2 := runSession(c)
	if !r2.timeout {
		R.Note("inconclusive: a session deadline fired once and not on re-run (%s)", r.timeoutWhere)
		r2.classes["inconclusive:deadline-once"] = true
		return r2.vs, r2.classes, r2.nontrivial
	}
	if r.afterReject && r2.afterReject {
		vs = append(vs, r2.vs...)
		vs.Add("no-reply-after-rejection:"+r2.rejProto, "no reply within 5 s, twice, after a statement was rejected: %s", r2.timeoutWhere)
		return vs, r2.classes, r2.nontrivial
	}
	R.Note("inconclusive: a session deadline fired twice without a rejection before it (%s)", r2.timeoutWhere)
	r2.classes["inconclusive:deadline-twice"] = true
	return r2.vs, r2.classes, false
}

func TestSessions(t *testing.T) {
	if len(processDialects()) == 1 && processDialects()[0] == sqlgen.MySQL {
		t.Skip("sessions run through the PostgreSQL proxy")
	}
	R.Rule("TestSessions", "session program = generated encryptor configuration (1-2 configured tables, a table `forbidden` with its own column configuration, a plain table) + a firewall (deny on table forbidden | allow on the other tables + denyall | deny on the exact text of marked statements | deny on patterns generalised from marked statements | allow on the text of unmarked statements + denyall) rendered to YAML and loaded into the proxy + 3-10 statements (INSERT/UPDATE/SELECT, simple or extended protocol with named or unnamed prepared statements) + a final read of every table, through acra's real PostgreSQL proxy and a typed fake database. A statement the firewall rejects (verdict of a second censor instance; the verdict itself is TestVerdict's subject) must never reach the database (statement text, unique number, statement and Bind counts), the client gets ErrorResponse + one ReadyForQuery, and every accepted statement returns what the model says, decoded by its own column configuration. Non-trivial = a rejection followed by an accepted read of a protected column")
	hx.Checks(50, 4000)
	rapid.Check(t, func(rt *rapid.T) {
		c := genSessCase(rt)
		vs, classes, nt := CheckSession(c)
		R.Seen("TestSessions", c, nt, sortedKeys(classes)...)
		R.Report(rt, "TestSessions", c, vs)
	})
}
