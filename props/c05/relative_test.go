package c05

import (
	"strings"

	"github.com/cossacklabs/acra/sqlparser"
)

// Relatives of a pool statement: the statement with ONE clause added (or one statement-level modifier
// changed) at its top level, printed by acra's printer. A rule pattern that was obtained from the pool
// statement by generalising literals / lists / columns / its WHERE / a sub-select has no placeholder that
// could stand for the added clause, so it must not match the relative: a firewall whose allow pattern
// `select a from t %%WHERE%%` also admits `select a from t where .. limit 1000000 for update`, or whose
// pattern `insert into t (a) values (%%VALUE%%)` also admits `insert .. returning ..`, admits statements
// "not admitted by the allow rules in front of a deny-all terminator". Only table-free additions are made,
// so the table rules see the same tables.

type relative struct {
	name  string
	apply func(st sqlparser.Statement) bool           // false: clause already there / not applicable
	kept  func(st sqlparser.Statement) bool           // the re-parsed relative really carries the addition
}

func one() sqlparser.Expr { return sqlparser.NewIntVal([]byte("1")) }

func limitOf(n string) *sqlparser.Limit { return &sqlparser.Limit{Rowcount: sqlparser.NewIntVal([]byte(n))} }

func orderByOne() sqlparser.OrderBy {
	return sqlparser.OrderBy{&sqlparser.Order{Expr: one(), Direction: sqlparser.AscScr}}
}

func returningOne() sqlparser.Returning {
	return sqlparser.Returning{&sqlparser.AliasedExpr{Expr: one()}}
}

var relatives = []relative{
	{"select+limit", func(st sqlparser.Statement) bool {
		s, ok := st.(*sqlparser.Select)
		if !ok || s.Limit != nil {
			return false
		}
		s.Limit = limitOf("7")
		return true
	}, func(st sqlparser.Statement) bool { s, ok := st.(*sqlparser.Select); return ok && s.Limit != nil }},
	{"select+order-by", func(st sqlparser.Statement) bool {
		s, ok := st.(*sqlparser.Select)
		if !ok || len(s.OrderBy) != 0 {
			return false
		}
		s.OrderBy = orderByOne()
		return true
	}, func(st sqlparser.Statement) bool { s, ok := st.(*sqlparser.Select); return ok && len(s.OrderBy) == 1 }},
	{"select+for-update", func(st sqlparser.Statement) bool {
		s, ok := st.(*sqlparser.Select)
		if !ok || s.Lock != "" {
			return false
		}
		s.Lock = sqlparser.ForUpdateStr
		return true
	}, func(st sqlparser.Statement) bool { s, ok := st.(*sqlparser.Select); return ok && s.Lock != "" }},
	{"select+distinct", func(st sqlparser.Statement) bool {
		s, ok := st.(*sqlparser.Select)
		if !ok || s.Distinct != "" {
			return false
		}
		s.Distinct = sqlparser.DistinctStr
		return true
	}, func(st sqlparser.Statement) bool { s, ok := st.(*sqlparser.Select); return ok && s.Distinct != "" }},
	{"select+having", func(st sqlparser.Statement) bool {
		s, ok := st.(*sqlparser.Select)
		if !ok || s.Having != nil {
			return false
		}
		s.Having = &sqlparser.Where{Type: sqlparser.HavingStr, Expr: &sqlparser.ComparisonExpr{Operator: sqlparser.EqualStr, Left: one(), Right: one()}}
		return true
	}, func(st sqlparser.Statement) bool { s, ok := st.(*sqlparser.Select); return ok && s.Having != nil }},
	{"select+group-by", func(st sqlparser.Statement) bool {
		s, ok := st.(*sqlparser.Select)
		if !ok || len(s.GroupBy) != 0 {
			return false
		}
		s.GroupBy = sqlparser.GroupBy{one()}
		return true
	}, func(st sqlparser.Statement) bool { s, ok := st.(*sqlparser.Select); return ok && len(s.GroupBy) == 1 }},
	{"union-type", func(st sqlparser.Statement) bool {
		u, ok := st.(*sqlparser.Union)
		if !ok {
			return false
		}
		switch u.Type {
		case sqlparser.UnionStr:
			u.Type = sqlparser.UnionAllStr
		case sqlparser.UnionAllStr:
			u.Type = sqlparser.UnionStr
		default:
			return false
		}
		return true
	}, func(st sqlparser.Statement) bool { _, ok := st.(*sqlparser.Union); return ok }},
	{"union+limit", func(st sqlparser.Statement) bool {
		u, ok := st.(*sqlparser.Union)
		if !ok || u.Limit != nil {
			return false
		}
		u.Limit = limitOf("7")
		return true
	}, func(st sqlparser.Statement) bool { u, ok := st.(*sqlparser.Union); return ok && u.Limit != nil }},
	{"insert+returning", func(st sqlparser.Statement) bool {
		s, ok := st.(*sqlparser.Insert)
		if !ok || len(s.Returning) != 0 {
			return false
		}
		s.Returning = returningOne()
		return true
	}, func(st sqlparser.Statement) bool { s, ok := st.(*sqlparser.Insert); return ok && len(s.Returning) == 1 }},
	{"insert+ignore", func(st sqlparser.Statement) bool {
		s, ok := st.(*sqlparser.Insert)
		if !ok || s.Ignore != "" || !strings.EqualFold(s.Action, sqlparser.InsertStr) {
			return false
		}
		s.Ignore = "ignore "
		return true
	}, func(st sqlparser.Statement) bool { s, ok := st.(*sqlparser.Insert); return ok && s.Ignore != "" }},
	{"update+returning", func(st sqlparser.Statement) bool {
		s, ok := st.(*sqlparser.Update)
		if !ok || len(s.Returning) != 0 {
			return false
		}
		s.Returning = returningOne()
		return true
	}, func(st sqlparser.Statement) bool { s, ok := st.(*sqlparser.Update); return ok && len(s.Returning) == 1 }},
	{"update+limit", func(st sqlparser.Statement) bool {
		s, ok := st.(*sqlparser.Update)
		if !ok || s.Limit != nil {
			return false
		}
		s.Limit = limitOf("7")
		return true
	}, func(st sqlparser.Statement) bool { s, ok := st.(*sqlparser.Update); return ok && s.Limit != nil }},
	{"delete+returning", func(st sqlparser.Statement) bool {
		s, ok := st.(*sqlparser.Delete)
		if !ok || len(s.Returning) != 0 {
			return false
		}
		s.Returning = returningOne()
		return true
	}, func(st sqlparser.Statement) bool { s, ok := st.(*sqlparser.Delete); return ok && len(s.Returning) == 1 }},
	{"delete+limit", func(st sqlparser.Statement) bool {
		s, ok := st.(*sqlparser.Delete)
		if !ok || s.Limit != nil {
			return false
		}
		s.Limit = limitOf("7")
		return true
	}, func(st sqlparser.Statement) bool { s, ok := st.(*sqlparser.Delete); return ok && s.Limit != nil }},
}

// makeRelative returns the n-th applicable relative of the statement (n >= 1), as printed by acra and
// accepted again by its parser with the addition in place. ok is false when no relative applies.
func makeRelative(text string, pg bool, n int) (out, name string, ok bool) {
	var fit []relative
	for _, r := range relatives {
		st, err := parseLikeCensor(text, pg)
		if err != nil {
			return "", "", false
		}
		if r.apply(st) {
			fit = append(fit, r)
		}
	}
	if len(fit) == 0 {
		return "", "", false
	}
	for k := 0; k < len(fit); k++ {
		r := fit[(n-1+k)%len(fit)]
		st, err := parseLikeCensor(text, pg)
		if err != nil || !r.apply(st) {
			continue
		}
		printed, pok := safePrint(st)
		if !pok {
			continue
		}
		back, err := parseStrict(printed)
		if err != nil || !r.kept(back) {
			continue // the grammar of this dialect has no place for the addition (or the printer lost it: C13's subject)
		}
		if again, aok := safePrint(back); !aok || again != printed {
			continue
		}
		return printed, r.name, true
	}
	return "", "", false
}

func has(xs []string, x string) bool {
	for _, y := range xs {
		if y == x {
			return true
		}
	}
	return false
}
