package c05

// Tools over acra's parse tree owned by this check: the reference table walker ("statement reads
// from or inserts into table T" at any depth) and the derivation of patterns from a statement by
// generalising nodes (literals, IN lists, columns, WHERE, sub-selects, the whole statement).

import (
	"fmt"
	"reflect"
	"regexp"
	"strings"

	"github.com/cossacklabs/acra/sqlparser"

	"verif/internal/hx"
)

var strictParser = sqlparser.New(sqlparser.ModeStrict)

// parseStrict parses s with the process default dialect; a parser panic is returned as an error
// (parser crashes are C14's subject).
func parseStrict(s string) (st sqlparser.Statement, err error) {
	defer func() {
		if p := recover(); p != nil {
			st, err = nil, fmt.Errorf("parser panic: %v", p)
		}
	}()
	st, err = strictParser.Parse(s)
	if err == nil && st == nil {
		err = fmt.Errorf("no statement")
	}
	return
}

// parseLikeCensor strips what acra-censor strips before parsing (margin comments, one trailing `;`),
// using this check's own lexer.
func parseLikeCensor(s string, pg bool) (sqlparser.Statement, error) {
	toks, ok := lex(s, pg)
	if !ok {
		return nil, fmt.Errorf("unterminated token")
	}
	// cut margins on the token list, keep interior text byte-exact
	start, end := 0, len(toks)
	for start < end && (toks[start].kind == tWS || (toks[start].kind == tComment && !strings.HasPrefix(toks[start].text, "/*!"))) {
		start++
	}
	// /*! ... */ is executed by MySQL: it belongs to the statement wherever it stands (in PostgreSQL it is a comment)
	for end > start && (toks[end-1].kind == tWS || (toks[end-1].kind == tComment && (pg || !strings.HasPrefix(toks[end-1].text, "/*!")))) {
		end--
	}
	if end > start && toks[end-1].kind == tPunct && toks[end-1].text == ";" {
		end--
	}
	var b strings.Builder
	for _, t := range toks[start:end] {
		b.WriteString(t.text)
	}
	return parseStrict(b.String())
}

func safePrint(n sqlparser.SQLNode) (s string, ok bool) {
	defer func() {
		if recover() != nil {
			s, ok = "", false
		}
	}()
	return sqlparser.String(n), true
}

func stmtKind(st sqlparser.Statement) string {
	switch x := st.(type) {
	case *sqlparser.Select:
		return "select"
	case *sqlparser.Union:
		return "union"
	case *sqlparser.ParenSelect:
		return "paren-select"
	case *sqlparser.Insert:
		if strings.EqualFold(x.Action, "replace") {
			return "replace"
		}
		return "insert"
	case *sqlparser.Update:
		return "update"
	case *sqlparser.Delete:
		return "delete"
	}
	return strings.ToLower(strings.TrimPrefix(fmt.Sprintf("%T", st), "*sqlparser."))
}

// ---- reference table walker ----

type tableOcc struct {
	Name    string // as written, without quotes
	Qual    string
	Plain   bool   // unqualified, needs no quoting, was not quoted
	Virtual bool   // no table: a derived table that reads none (kept for the shape only)
	Shape   string // top-from | union-arm | derived-table | subselect-in-expression | insert-target | insert-select | paren-select | update | delete
}

var plainNameRE = regexp.MustCompile(`^[A-Za-z_][A-Za-z0-9_]*$`)

func occOf(tn sqlparser.TableName, shape string) (tableOcc, bool) {
	name := tn.Name.RawValue() // without the quotes a PostgreSQL quoted identifier keeps in String()
	if name == "" {
		return tableOcc{}, false
	}
	if strings.EqualFold(name, "dual") && tn.Qualifier.IsEmpty() {
		// the parser gives every SELECT without FROM the table `dual`: not a table, but acra's table rules see it
		return tableOcc{Shape: "dual", Virtual: true}, true
	}
	o := tableOcc{Name: name, Qual: tn.Qualifier.RawValue(), Shape: shape}
	if o.Qual == "" && plainNameRE.MatchString(name) {
		if p, ok := safePrint(tn); ok && p == name {
			o.Plain = true
		}
	}
	return o, true
}

// allTables collects every table reference below v, whatever the nesting.
func allTables(v reflect.Value, shape string, out *[]tableOcc) {
	if !v.IsValid() {
		return
	}
	switch v.Kind() {
	case reflect.Interface, reflect.Ptr:
		if v.IsNil() {
			return
		}
		if v.Kind() == reflect.Ptr && v.CanInterface() {
			if at, ok := v.Interface().(*sqlparser.AliasedTableExpr); ok {
				if tn, ok := at.Expr.(sqlparser.TableName); ok {
					if o, ok := occOf(tn, shape); ok {
						*out = append(*out, o)
					}
				}
			}
		}
		allTables(v.Elem(), shape, out)
	case reflect.Struct:
		if v.CanInterface() {
			if ins, ok := v.Interface().(sqlparser.Insert); ok {
				if o, ok := occOf(ins.Table, shape); ok {
					*out = append(*out, o)
				}
			}
		}
		for i := 0; i < v.NumField(); i++ {
			if v.Type().Field(i).PkgPath != "" {
				continue
			}
			allTables(v.Field(i), shape, out)
		}
	case reflect.Slice:
		if v.Type().Elem().Kind() == reflect.Uint8 {
			return
		}
		for i := 0; i < v.Len(); i++ {
			allTables(v.Index(i), shape, out)
		}
	}
}

func fromTables(te sqlparser.TableExpr, out *[]tableOcc) {
	switch x := te.(type) {
	case *sqlparser.AliasedTableExpr:
		switch e := x.Expr.(type) {
		case sqlparser.TableName:
			if o, ok := occOf(e, "top-from"); ok {
				*out = append(*out, o)
			}
		case *sqlparser.Subquery:
			n := len(*out)
			allTables(reflect.ValueOf(e), "derived-table", out)
			if len(*out) == n {
				// a derived table that reads no table itself: still a FROM item that is not a table name
				*out = append(*out, tableOcc{Shape: "derived-table", Virtual: true})
			}
		}
	case *sqlparser.JoinTableExpr:
		fromTables(x.LeftExpr, out)
		fromTables(x.RightExpr, out)
		allTables(reflect.ValueOf(x.Condition), "subselect-in-expression", out)
	case *sqlparser.ParenTableExpr:
		for _, e := range x.Exprs {
			fromTables(e, out)
		}
	}
}

// tablesOf lists every table the statement reads from or writes to, with the shape of the path that leads to it.
func tablesOf(st sqlparser.Statement) []tableOcc {
	var out []tableOcc
	switch x := st.(type) {
	case *sqlparser.Select:
		for _, te := range x.From {
			fromTables(te, &out)
		}
		rest := *x
		rest.From = nil
		allTables(reflect.ValueOf(&rest), "subselect-in-expression", &out)
	case *sqlparser.Union:
		allTables(reflect.ValueOf(x), "union-arm", &out)
	case *sqlparser.ParenSelect:
		allTables(reflect.ValueOf(x), "paren-select", &out)
	case *sqlparser.Insert:
		if o, ok := occOf(x.Table, "insert-target"); ok {
			out = append(out, o)
		}
		if _, isValues := x.Rows.(sqlparser.Values); isValues {
			allTables(reflect.ValueOf(x.Rows), "subselect-in-expression", &out)
		} else {
			allTables(reflect.ValueOf(&x.Rows), "insert-select", &out)
		}
		allTables(reflect.ValueOf(x.OnDup), "subselect-in-expression", &out)
		allTables(reflect.ValueOf(x.Returning), "subselect-in-expression", &out)
	case *sqlparser.Update:
		allTables(reflect.ValueOf(x), "update", &out)
	case *sqlparser.Delete:
		allTables(reflect.ValueOf(x), "delete", &out)
	}
	return out
}

// mainTables is the ordered list of table names a pattern has to repeat literally: no placeholder
// generalises a table name outside sub-selects and WHERE.
func mainTables(st sqlparser.Statement) []string {
	var out []string
	var from func(te sqlparser.TableExpr)
	from = func(te sqlparser.TableExpr) {
		switch x := te.(type) {
		case *sqlparser.AliasedTableExpr:
			switch e := x.Expr.(type) {
			case sqlparser.TableName:
				if strings.EqualFold(e.Name.RawValue(), "dual") && e.Qualifier.IsEmpty() {
					return
				}
				out = append(out, strings.ToLower(e.Qualifier.RawValue()+"."+e.Name.RawValue()))
			case *sqlparser.Subquery:
				out = append(out, "(subquery)")
			}
		case *sqlparser.JoinTableExpr:
			from(x.LeftExpr)
			from(x.RightExpr)
		case *sqlparser.ParenTableExpr:
			for _, e := range x.Exprs {
				from(e)
			}
		}
	}
	var sel func(s sqlparser.SelectStatement)
	sel = func(s sqlparser.SelectStatement) {
		switch x := s.(type) {
		case *sqlparser.Select:
			for _, te := range x.From {
				from(te)
			}
		case *sqlparser.Union:
			sel(x.Left)
			out = append(out, "|")
			sel(x.Right)
		case *sqlparser.ParenSelect:
			sel(x.Select)
		}
	}
	switch x := st.(type) {
	case *sqlparser.Select, *sqlparser.Union, *sqlparser.ParenSelect:
		sel(x.(sqlparser.SelectStatement))
	case *sqlparser.Insert:
		out = append(out, strings.ToLower(x.Table.Qualifier.RawValue()+"."+x.Table.Name.RawValue()))
		if s, ok := x.Rows.(sqlparser.SelectStatement); ok {
			out = append(out, ">")
			sel(s)
		}
	case *sqlparser.Update:
		for _, te := range x.TableExprs {
			from(te)
		}
	case *sqlparser.Delete:
		for _, te := range x.Targets {
			from(te)
		}
		out = append(out, ">")
		for _, te := range x.TableExprs {
			from(te)
		}
	}
	return out
}

// ---- pattern derivation ----

// PatOp is one generalisation step. Idx selects among the candidates of that kind (modulo their number).
type PatOp struct {
	Op  string `json:"op"` // value | list | column | where | subquery | whole | raw
	Idx int    `json:"idx"`
	Arg int    `json:"arg,omitempty"`
}

const (
	valueReplacer  = "value_877452131373673274532373116"
	listReplacer   = "list_of_values_980254824737236160411017007"
	columnReplacer = "column_443112402399486586659464580"
	whereMarker    = "c05wheremarker"
	subqMarker     = "c05subquerymarker"
)

var exprType = reflect.TypeOf((*sqlparser.Expr)(nil)).Elem()

// exprSlots visits every settable slot of static type Expr below v, in tree order.
func exprSlots(v reflect.Value, f func(slot reflect.Value)) {
	if !v.IsValid() {
		return
	}
	switch v.Kind() {
	case reflect.Interface:
		if v.IsNil() {
			return
		}
		if v.Type() == exprType && v.CanSet() {
			f(v)
		}
		exprSlots(v.Elem(), f)
	case reflect.Ptr:
		if v.IsNil() {
			return
		}
		exprSlots(v.Elem(), f)
	case reflect.Struct:
		for i := 0; i < v.NumField(); i++ {
			if v.Type().Field(i).PkgPath != "" {
				continue
			}
			exprSlots(v.Field(i), f)
		}
	case reflect.Slice:
		if v.Type().Elem().Kind() == reflect.Uint8 {
			return
		}
		for i := 0; i < v.Len(); i++ {
			exprSlots(v.Index(i), f)
		}
	}
}

func isLiteralVal(e sqlparser.Expr) bool {
	v, ok := e.(*sqlparser.SQLVal)
	if !ok {
		return false
	}
	if v.Type == sqlparser.StrVal && (string(v.Val) == valueReplacer || string(v.Val) == listReplacer) {
		return false // already a placeholder
	}
	switch v.Type {
	case sqlparser.StrVal, sqlparser.IntVal, sqlparser.FloatVal, sqlparser.HexNum, sqlparser.HexVal, sqlparser.BitVal, sqlparser.PgEscapeString:
		return true
	}
	return false
}

func isSimpleValue(e sqlparser.Expr) bool {
	switch e.(type) {
	case *sqlparser.NullVal, sqlparser.BoolVal:
		return true
	}
	_, ok := e.(*sqlparser.SQLVal)
	return ok
}

type cand struct {
	apply func(arg int)
}

// candidates lists what op can generalise in st.
func candidates(st sqlparser.Statement, op string) []cand {
	var out []cand
	root := reflect.ValueOf(st)
	switch op {
	case "value":
		exprSlots(root, func(slot reflect.Value) {
			e := slot.Interface().(sqlparser.Expr)
			if isLiteralVal(e) {
				old := e.(*sqlparser.SQLVal)
				out = append(out, cand{func(int) {
					slot.Set(reflect.ValueOf(&sqlparser.SQLVal{Type: sqlparser.StrVal, Val: []byte(valueReplacer), CastType: old.CastType}))
				}})
			}
		})
	case "list":
		exprSlots(root, func(slot reflect.Value) {
			cmp, ok := slot.Interface().(*sqlparser.ComparisonExpr)
			if !ok || (cmp.Operator != sqlparser.InStr && cmp.Operator != sqlparser.NotInStr) {
				return
			}
			tup, ok := cmp.Right.(sqlparser.ValTuple)
			if !ok || len(tup) == 0 {
				return
			}
			for _, e := range tup {
				if !isSimpleValue(e) {
					return
				}
			}
			out = append(out, cand{func(arg int) {
				keep := arg % len(tup) // elements kept in front of the list placeholder
				nt := append(sqlparser.ValTuple{}, tup[:keep]...)
				nt = append(nt, &sqlparser.SQLVal{Type: sqlparser.StrVal, Val: []byte(listReplacer)})
				cmp.Right = nt
			}})
		})
	case "column":
		var sels []*sqlparser.Select
		topSelects(st, &sels)
		for _, s := range sels {
			s := s
			col := func(e sqlparser.Expr, set func(sqlparser.Expr)) {
				if c, ok := e.(*sqlparser.ColName); ok && c.Qualifier.IsEmpty() {
					out = append(out, cand{func(int) { set(&sqlparser.ColName{Name: sqlparser.NewColIdent(columnReplacer)}) }})
				}
			}
			for _, se := range s.SelectExprs {
				if ae, ok := se.(*sqlparser.AliasedExpr); ok && ae.As.IsEmpty() {
					ae := ae
					col(ae.Expr, func(n sqlparser.Expr) { ae.Expr = n })
				}
			}
			for i := range s.GroupBy {
				i := i
				col(s.GroupBy[i], func(n sqlparser.Expr) { s.GroupBy[i] = n })
			}
			for _, o := range s.OrderBy {
				o := o
				col(o.Expr, func(n sqlparser.Expr) { o.Expr = n })
			}
		}
	case "where":
		var sels []*sqlparser.Select
		topSelects(st, &sels)
		for _, s := range sels {
			s := s
			if s.Where != nil {
				out = append(out, cand{func(int) {
					s.Where = &sqlparser.Where{Type: sqlparser.WhereStr, Expr: &sqlparser.ColName{Name: sqlparser.NewColIdent(whereMarker)}}
				}})
			}
		}
	case "subquery":
		var visit func(v reflect.Value)
		visit = func(v reflect.Value) {
			if !v.IsValid() {
				return
			}
			switch v.Kind() {
			case reflect.Interface, reflect.Ptr:
				if v.IsNil() {
					return
				}
				if v.Kind() == reflect.Ptr && v.CanInterface() {
					if sq, ok := v.Interface().(*sqlparser.Subquery); ok {
						out = append(out, cand{func(int) {
							sq.Select = &sqlparser.Select{
								SelectExprs: sqlparser.SelectExprs{&sqlparser.AliasedExpr{Expr: &sqlparser.ColName{Name: sqlparser.NewColIdent(subqMarker)}}},
								From:        sqlparser.TableExprs{&sqlparser.AliasedTableExpr{Expr: sqlparser.TableName{Name: sqlparser.NewTableIdent("dual")}}},
							}
						}})
						// nested sub-selects remain candidates as well
					}
				}
				visit(v.Elem())
			case reflect.Struct:
				for i := 0; i < v.NumField(); i++ {
					if v.Type().Field(i).PkgPath == "" {
						visit(v.Field(i))
					}
				}
			case reflect.Slice:
				if v.Type().Elem().Kind() == reflect.Uint8 {
					return
				}
				for i := 0; i < v.Len(); i++ {
					visit(v.Index(i))
				}
			}
		}
		visit(root)
	}
	return out
}

// topSelects lists the plain SELECTs that make up the statement at the top level (the statement itself or its union arms).
func topSelects(st sqlparser.SQLNode, out *[]*sqlparser.Select) {
	switch x := st.(type) {
	case *sqlparser.Select:
		*out = append(*out, x)
	case *sqlparser.Union:
		topSelects(x.Left, out)
		topSelects(x.Right, out)
	case *sqlparser.ParenSelect:
		topSelects(x.Select, out)
	}
}

var (
	whereRE = regexp.MustCompile(`(?i)where\s+` + whereMarker)
	subqRE  = regexp.MustCompile(`(?i)select\s+` + subqMarker + `(\s+from\s+dual)?`)
)

// Derived is a pattern derived from a statement.
type Derived struct {
	Text    string
	Applied []string // ops that found a candidate
	Whole   string   // "" or the statement kind a whole-statement placeholder stands for
	Printed bool     // the text went through acra's printer
}

func wholePlaceholder(kind string) string {
	switch kind {
	case "select":
		return "%%SELECT%%"
	case "union":
		return "%%UNION%%"
	case "insert", "replace":
		return "%%INSERT%%"
	case "update":
		return "%%UPDATE%%"
	case "delete":
		return "%%DELETE%%"
	}
	return ""
}

// derivePattern applies ops to a fresh parse of src (already stripped of margins by the caller's
// parse function) and renders the pattern text. vs collects printer panics.
func derivePattern(src string, pg bool, ops []PatOp, vs *hx.Vs) (Derived, bool) {
	d := Derived{}
	// raw: the statement text itself is the pattern
	onlyRaw := true
	for _, op := range ops {
		if op.Op != "raw" {
			onlyRaw = false
		}
	}
	if onlyRaw {
		d.Text = src
		d.Applied = []string{"raw"}
		return d, true
	}
	st, err := parseLikeCensor(src, pg)
	if err != nil {
		return d, false
	}
	kind := stmtKind(st)
	for _, op := range ops {
		switch op.Op {
		case "raw":
			continue
		case "whole":
			if ph := wholePlaceholder(kind); ph != "" {
				d.Text = ph
				d.Whole = kind
				d.Applied = []string{"whole"}
				return d, true
			}
			continue
		}
		cs := candidates(st, op.Op)
		if len(cs) == 0 {
			continue
		}
		idx := op.Idx % len(cs)
		if idx < 0 {
			idx += len(cs)
		}
		cs[idx].apply(op.Arg)
		d.Applied = append(d.Applied, op.Op)
	}
	text, ok := safePrint(st)
	if !ok {
		return d, false
	}
	d.Printed = true
	text = strings.ReplaceAll(text, "'"+valueReplacer+"'", "%%VALUE%%")
	text = strings.ReplaceAll(text, "'"+listReplacer+"'", "%%LIST_OF_VALUES%%")
	text = strings.ReplaceAll(text, columnReplacer, "%%COLUMN%%")
	text = whereRE.ReplaceAllString(text, "%%WHERE%%")
	text = subqRE.ReplaceAllString(text, "%%SUBQUERY%%")
	if strings.Contains(text, "c05") && (strings.Contains(text, whereMarker) || strings.Contains(text, subqMarker)) {
		return d, false
	}
	if len(d.Applied) == 0 {
		d.Applied = []string{"printed"}
	}
	d.Text = text
	return d, true
}

// printerFaithful tells whether acra's printer reproduces st: parse(print(st)) prints the same text
// again and has the same shape. Statements for which it does not (C13's subject) are not used as
// sources of printed patterns.
func printerFaithful(st sqlparser.Statement) bool {
	p1, ok := safePrint(st)
	if !ok {
		return false
	}
	st2, err := parseStrict(p1)
	if err != nil {
		return false
	}
	p2, ok := safePrint(st2)
	if !ok || p1 != p2 {
		return false
	}
	return shapeOf(reflect.ValueOf(st)) == shapeOf(reflect.ValueOf(st2))
}

// shapeOf is a structural fingerprint of a tree: node types, literal types and values, identifier
// values (case preserved), in order. Unexported caches are not part of it.
func shapeOf(v reflect.Value) string {
	var b strings.Builder
	var walk func(v reflect.Value)
	walk = func(v reflect.Value) {
		if !v.IsValid() {
			return
		}
		switch v.Kind() {
		case reflect.Interface, reflect.Ptr:
			if v.IsNil() {
				b.WriteString("~")
				return
			}
			if v.CanInterface() {
				switch x := v.Interface().(type) {
				case sqlparser.ColIdent:
					fmt.Fprintf(&b, "C<%s>", x.String())
					return
				case sqlparser.TableIdent:
					fmt.Fprintf(&b, "T<%s>", x.String())
					return
				}
			}
			walk(v.Elem())
		case reflect.Struct:
			if v.CanInterface() {
				switch x := v.Interface().(type) {
				case sqlparser.ColIdent:
					fmt.Fprintf(&b, "C<%s>", x.String())
					return
				case sqlparser.TableIdent:
					fmt.Fprintf(&b, "T<%s>", x.String())
					return
				}
			}
			b.WriteString(v.Type().Name())
			b.WriteString("{")
			for i := 0; i < v.NumField(); i++ {
				if v.Type().Field(i).PkgPath != "" {
					continue
				}
				walk(v.Field(i))
				b.WriteString(";")
			}
			b.WriteString("}")
		case reflect.Slice:
			if v.Type().Elem().Kind() == reflect.Uint8 {
				fmt.Fprintf(&b, "%q", v.Bytes())
				return
			}
			b.WriteString("[")
			for i := 0; i < v.Len(); i++ {
				walk(v.Index(i))
				b.WriteString(",")
			}
			b.WriteString("]")
		case reflect.String:
			fmt.Fprintf(&b, "%q", strings.ToLower(v.String()))
		default:
			if v.CanInterface() {
				fmt.Fprintf(&b, "%v", v.Interface())
			}
		}
	}
	walk(v)
	return b.String()
}
