package c05

import (
	"encoding/json"
	"fmt"
	"reflect"
	"strings"
	"testing"

	"pgregory.net/rapid"

	"github.com/cossacklabs/acra/sqlparser"

	"verif/internal/hx"
	"verif/internal/sqlgen"
)

// Case of layers (a) and (b).
type Case struct {
	Dialect string   `json:"dialect"`
	Pool    []string `json:"pool"`
	Cfg     Config   `json:"config"`
	Stmt    StmtSel  `json:"stmt"`
	// Variants (layer b only): formatting changes applied to the statement under test.
	Variants [][]VarOp `json:"variants,omitempty"`
}

// ---- generators ----

func chance(t *rapid.T, label string, pct int) bool {
	return rapid.IntRange(0, 99).Draw(t, label) >= 100-pct
}

func weighted(t *rapid.T, label string, w ...int) int {
	total := 0
	for _, x := range w {
		total += x
	}
	r := rapid.IntRange(0, total-1).Draw(t, label)
	for i, x := range w {
		if r < x {
			return i
		}
		r -= x
	}
	return len(w) - 1
}

// cleanSelect removes the statement margins sqlgen adds, so that the text can be nested.
func cleanSelect(s string) string {
	s = strings.TrimSpace(s)
	s = strings.TrimPrefix(s, "/* lead */ ")
	s = strings.TrimSuffix(s, " /* trail */")
	s = strings.TrimSuffix(s, ";")
	return strings.TrimSpace(s)
}

var boosterTables = []string{"t1", "secret", "tbl", "Abc", "users"}

// genStatement draws one pool statement: the grammar generator, a corpus statement, or a generated
// SELECT nested into one of the shapes the table rules have to see through.
func genStatement(t *rapid.T, dialect, label string) string {
	depth := rapid.SampledFrom([]int{1, 1, 1, 2, 2, 3}).Draw(t, label+".depth")
	o := sqlgen.Opts{Dialect: dialect, MaxDepth: depth, NoPlaceholders: chance(t, label+".noph", 50)}
	switch weighted(t, label+".src", 50, 24, 10, 16) {
	case 0:
		return sqlgen.Statement(t, o)
	case 3:
		return genPlain(t, label)
	case 1:
		o.MaxDepth = 1
		inner := cleanSelect(sqlgen.Select(t, o))
		tb := rapid.SampledFrom(boosterTables).Draw(t, label+".bt")
		shapes := 9
		if dialect == sqlgen.MySQL {
			shapes = 13 // plus ON DUPLICATE KEY UPDATE and the forms in which part of the statement stands in a MySQL executable comment
		}
		switch rapid.IntRange(0, shapes).Draw(t, label+".shape") {
		case 12:
			return "select a from " + tb + " /*! union " + inner + " */"
		case 13:
			return "insert into " + tb + " (a) values (1) on duplicate key update a = (" + inner + ")"
		case 11:
			return "select a /*! , (" + inner + ") */ from " + tb
		case 9:
			// a table read inside a row value of INSERT ... VALUES
			return "insert into " + tb + " (a, b) values (1, (" + inner + "))"
		case 10:
			return "select a from " + tb + " /*!50000 union " + inner + " */ "
		case 8:
			return "insert into " + tb + " (a) values ((" + inner + ")), (2)"
		case 0:
			return "select * from (" + inner + ") as sub1"
		case 1:
			return "select a from " + tb + " where a in (" + inner + ")"
		case 2:
			return "select a, (" + inner + ") from " + tb
		case 3:
			return inner + " union select 1"
		case 4:
			return "select a from " + tb + " union " + inner
		case 5:
			return "insert into " + tb + " " + inner
		case 6:
			return "select a from " + tb + " where exists (" + inner + ")"
		default:
			return "select a from " + tb + " join (" + inner + ") as j on j.a = " + tb + ".a"
		}
	default:
		corpus := sqlgen.DMLCorpus(dialect)
		return corpus[rapid.IntRange(0, len(corpus)-1).Draw(t, label+".corpus")]
	}
}

var plainTemplates = []string{
	"select C, D from T where C in (L, L, L) and D = L",
	"select C from T where D = L order by C limit 10",
	"select * from T where C = L",
	"select C from T where C = (select max(D) from U where D > L)",
	"select C from T where D in (select D from U where C = L) and C <> L",
	"insert into T (C, D) values (L, L)",
	"insert into T values (L, L), (L, L)",
	"update T set C = L where D = L",
	"update T set C = L, D = L where C in (L, L)",
	"delete from T where C in (L, L)",
	"delete from T where C = L and D > L",
	"select C, count(*) from T where D between L and L group by C having count(*) > L",
	"select T.C, U.D from T join U on T.C = U.C where U.D = L",
	"select C from T where D = L union select C from U where D = L",
}

var plainLiterals = []string{"1", "2", "42", "-5", "1.5", "'x'", "'abc'", "'O''Reilly'", "null", "true", "0x1f", "'2020-01-01'"}
var plainCols = []string{"a", "b", "id", "name1", "user_id"}

// genPlain draws a statement of the everyday shapes firewall patterns are written for.
func genPlain(t *rapid.T, label string) string {
	tpl := rapid.SampledFrom(plainTemplates).Draw(t, label+".tpl")
	tb := rapid.SampledFrom(boosterTables).Draw(t, label+".T")
	ub := rapid.SampledFrom(boosterTables).Draw(t, label+".U")
	c := rapid.SampledFrom(plainCols).Draw(t, label+".C")
	d := rapid.SampledFrom(plainCols).Draw(t, label+".D")
	var b strings.Builder
	k := 0
	for i := 0; i < len(tpl); i++ {
		ch := tpl[i]
		bare := (i == 0 || !isWordPart(tpl[i-1])) && (i+1 == len(tpl) || !isWordPart(tpl[i+1]))
		switch {
		case ch == 'T' && bare:
			b.WriteString(tb)
		case ch == 'U' && bare:
			b.WriteString(ub)
		case ch == 'C' && bare:
			b.WriteString(c)
		case ch == 'D' && bare:
			b.WriteString(d)
		case ch == 'L' && bare:
			b.WriteString(rapid.SampledFrom(plainLiterals).Draw(t, fmt.Sprintf("%s.L%d", label, k)))
			k++
		default:
			b.WriteByte(ch)
		}
	}
	return b.String()
}

func genVarOps(t *rapid.T, label string, max int) []VarOp {
	n := rapid.IntRange(1, max).Draw(t, label+".n")
	var ops []VarOp
	for i := 0; i < n; i++ {
		ops = append(ops, VarOp{Op: rapid.SampledFrom(varOpNames).Draw(t, fmt.Sprintf("%s.op%d", label, i)), Arg: rapid.IntRange(0, 1<<12).Draw(t, fmt.Sprintf("%s.arg%d", label, i))})
	}
	return ops
}

var patOpNames = []string{"value", "value", "value", "list", "list", "column", "column", "where", "subquery", "subquery", "whole", "raw"}
var literalTables = []string{"zz_unused", "t1", "a", "secret", "tbl"}

func genRules(t *rapid.T, h *Handler, npool int, label string) {
	from := func(l string) int { return rapid.IntRange(0, npool-1).Draw(t, label+l) }
	if chance(t, label+".empty", 6) {
		return
	}
	nq := weighted(t, label+".nq", 3, 5, 2)
	for i := 0; i < nq; i++ {
		q := RuleQ{From: from(fmt.Sprintf(".q%d", i))}
		if chance(t, fmt.Sprintf("%s.q%dvar", label, i), 50) {
			q.Var = genVarOps(t, fmt.Sprintf("%s.q%dv", label, i), 2)
		}
		h.Queries = append(h.Queries, q)
	}
	if h.Kind == "query_ignore" {
		if nq == 0 {
			h.Queries = append(h.Queries, RuleQ{From: from(".q")})
		}
		return
	}
	nt := weighted(t, label+".nt", 4, 4, 3)
	for i := 0; i < nt; i++ {
		r := RuleT{From: from(fmt.Sprintf(".t%d", i)), Pick: rapid.IntRange(0, 5).Draw(t, fmt.Sprintf("%s.t%dpick", label, i))}
		if chance(t, fmt.Sprintf("%s.t%dlit", label, i), 15) {
			r.Literal = rapid.SampledFrom(literalTables).Draw(t, fmt.Sprintf("%s.t%dname", label, i))
		}
		h.Tables = append(h.Tables, r)
	}
	np := weighted(t, label+".np", 2, 5, 3, 1)
	for i := 0; i < np; i++ {
		p := RuleP{From: from(fmt.Sprintf(".p%d", i))}
		nops := rapid.IntRange(0, 3).Draw(t, fmt.Sprintf("%s.p%dn", label, i))
		for j := 0; j < nops; j++ {
			p.Ops = append(p.Ops, PatOp{
				Op:  rapid.SampledFrom(patOpNames).Draw(t, fmt.Sprintf("%s.p%dop%d", label, i, j)),
				Idx: rapid.IntRange(0, 7).Draw(t, fmt.Sprintf("%s.p%didx%d", label, i, j)),
				Arg: rapid.IntRange(0, 3).Draw(t, fmt.Sprintf("%s.p%darg%d", label, i, j)),
			})
		}
		h.Patterns = append(h.Patterns, p)
	}
}

var handlerKinds = []string{"allow", "deny", "query_ignore", "allowall", "denyall"}

func genConfig(t *rapid.T, npool int) Config {
	cfg := Config{IgnoreParseError: chance(t, "ipe", 35), Style: rapid.IntRange(0, 5).Draw(t, "yamlstyle")}
	n := rapid.IntRange(1, 5).Draw(t, "nhandlers")
	for i := 0; i < n; i++ {
		h := Handler{Kind: handlerKinds[weighted(t, fmt.Sprintf("h%d.kind", i), 4, 5, 2, 1, 1)]}
		if i == n-1 && n > 1 && chance(t, "terminated", 55) {
			h.Kind = rapid.SampledFrom([]string{"allowall", "denyall", "denyall"}).Draw(t, "terminator")
		}
		if h.Kind != "allowall" && h.Kind != "denyall" {
			genRules(t, &h, npool, fmt.Sprintf("h%d", i))
		}
		cfg.Handlers = append(cfg.Handlers, h)
	}
	return cfg
}

func genCase(t *rapid.T) Case {
	c := Case{Dialect: rapid.SampledFrom(processDialects()).Draw(t, "dialect")}
	npool := rapid.IntRange(1, 4).Draw(t, "npool")
	for i := 0; i < npool; i++ {
		c.Pool = append(c.Pool, genStatement(t, c.Dialect, fmt.Sprintf("pool%d", i)))
	}
	c.Cfg = genConfig(t, npool)
	c.Stmt = StmtSel{From: rapid.IntRange(0, npool-1).Draw(t, "stmt.from")}
	if chance(t, "stmt.var", 30) {
		c.Stmt.Var = genVarOps(t, "stmt.v", 3)
	}
	if chance(t, "stmt.corrupt", 12) {
		c.Stmt.Corrupt = rapid.IntRange(1, 5).Draw(t, "stmt.corruption")
	} else if chance(t, "stmt.relative", 20) {
		c.Stmt.Extra = rapid.IntRange(1, 16).Draw(t, "stmt.extra")
	}
	return c
}

// corrupt damages a statement so that (most likely) no parser accepts it.
func corrupt(s string, kind int, pg bool) string {
	switch kind {
	case 1:
		return s + " )))((("
	case 2:
		toks, _ := lex(stripMargins(s, pg, false), pg)
		idx := nonWSIndex(toks)
		if len(idx) < 2 {
			return "qwerty"
		}
		var b strings.Builder
		for _, t := range toks[:idx[len(idx)-1]] {
			b.WriteString(t.text)
		}
		return strings.TrimSpace(b.String()) + " from from"
	case 3:
		return "qwerty " + s
	case 4:
		return "selec " + s
	default:
		return s + " 'unterminated"
	}
}

// ---- the property ----

type evidence struct {
	classes    map[string]bool
	nontrivial bool
}

func (e *evidence) class(format string, args ...any) { e.classes[fmt.Sprintf(format, args...)] = true }

// prepared is everything both layers need about a case.
type prepared struct {
	pg       bool
	pool     []poolInfo
	hs       []rHandler
	x        xInfo
	fullYAML string
}

func prepare(c Case, vs *hx.Vs, ev *evidence) (p prepared, ok bool) {
	sqlgen.SetDialect(c.Dialect)
	p.pg = c.Dialect == sqlgen.PostgreSQL
	if len(c.Pool) == 0 {
		return p, false
	}
	for _, s := range c.Pool {
		p.pool = append(p.pool, analyse(s, p.pg))
	}
	hs := resolve(c.Cfg, p.pool, p.pg, vs)
	// rules the loader refuses (a generalised text the grammar does not accept, ...) are dropped and counted
	for i := range hs {
		h := &hs[i]
		var qs []rQuery
		for _, q := range h.queries {
			if loadable(rHandler{kind: h.kind, queries: []rQuery{q}}) {
				qs = append(qs, q)
			} else {
				ev.class("dropped:query-refused-by-loader")
			}
		}
		h.queries = qs
		var ps []rPattern
		for _, pt := range h.patterns {
			if loadable(rHandler{kind: h.kind, patterns: []rPattern{pt}}) {
				ps = append(ps, pt)
			} else {
				ev.class("dropped:pattern-refused-by-loader:%s", opsName(pt.d.Applied))
			}
		}
		h.patterns = ps
	}
	p.hs = hs
	from := c.Stmt.From % len(p.pool)
	if from < 0 {
		from += len(p.pool)
	}
	base, extra := p.pool[from].text, ""
	if c.Stmt.Extra > 0 && c.Stmt.Corrupt == 0 && p.pool[from].st != nil {
		if rel, name, rok := makeRelative(base, p.pg, c.Stmt.Extra); rok {
			base, extra = rel, name
		}
	}
	text := applyVariant(base, p.pg, c.Stmt.Var)
	if c.Stmt.Corrupt != 0 {
		text = corrupt(text, c.Stmt.Corrupt, p.pg)
		from = -1
	}
	p.x = xInfo{text: text, info: analyse(text, p.pg), from: from, extra: extra}
	if extra != "" {
		if want := analyse(base, p.pg).norm; p.x.info.norm != want {
			vs.Add("harness:variant-not-equivalent", "formatting variant %q of %q has another normal form", text, base)
			return p, false
		}
	} else if from >= 0 && p.pool[from].st != nil && p.x.info.norm != p.pool[from].norm {
		vs.Add("harness:variant-not-equivalent", "formatting variant %q of %q has another normal form", text, p.pool[from].text)
		return p, false
	}
	if from >= 0 && p.pool[from].st == nil {
		p.x.from = -1
	}
	p.fullYAML = renderYAML(c.Cfg.IgnoreParseError, hs, c.Cfg.Style)
	return p, true
}

// ruleOutcome is acra's and the reference's answer for one rule.
type ruleOutcome struct {
	kind  string // queries | tables | patterns
	desc  string
	acra  bool
	ref   tri
	shape string
	pat   *rPattern
}

// evalHandler evaluates every rule of a handler in isolation, acra against the reference.
func evalHandler(vs *hx.Vs, p prepared, h rHandler, ipe bool, stmt xInfo) (outs []ruleOutcome, ok bool) {
	for _, q := range h.queries {
		m, ok, _ := isolated(vs, rHandler{kind: h.kind, queries: []rQuery{q}}, ipe, stmt.text)
		if !ok {
			return nil, false
		}
		outs = append(outs, ruleOutcome{kind: "queries", desc: q.text, acra: m, ref: refQuery(q.text, p.pool[q.from], stmt, p.pg, h.kind)})
	}
	if len(h.tables) > 0 {
		// a table list is one rule: deny = any listed table is used, allow = only listed tables are used
		m, ok, _ := isolated(vs, rHandler{kind: h.kind, tables: h.tables}, ipe, stmt.text)
		if !ok {
			return nil, false
		}
		r, shape := refTables(h.kind, h.tables, stmt)
		outs = append(outs, ruleOutcome{kind: "tables", desc: strings.Join(h.tables, ","), acra: m, ref: r, shape: shape})
	}
	for i := range h.patterns {
		pt := h.patterns[i]
		m, ok, _ := isolated(vs, rHandler{kind: h.kind, patterns: []rPattern{pt}}, ipe, stmt.text)
		if !ok {
			return nil, false
		}
		outs = append(outs, ruleOutcome{kind: "patterns", desc: pt.d.Text, acra: m, ref: refPattern(pt, p.pool[pt.from], stmt), pat: &h.patterns[i]})
	}
	return outs, true
}

// culprit names the smallest expression of the statement that a pattern made of it does not match
// ("" when every expression matches itself: then the statement level is at fault).
func culprit(p prepared, x xInfo) string {
	if x.info.st == nil {
		return ""
	}
	st, err := parseLikeCensor(x.text, p.pg)
	if err != nil {
		return ""
	}
	best, bestLen := "", 1<<30
	seen := map[string]bool{}
	exprSlots(reflect.ValueOf(st), func(slot reflect.Value) {
		e := slot.Interface().(sqlparser.Expr)
		txt, ok := safePrint(e)
		if !ok || seen[txt] || len(txt) >= bestLen {
			return
		}
		seen[txt] = true
		mini := "select " + txt + " from t1"
		if _, err := parseStrict(mini); err != nil {
			return
		}
		h := rHandler{kind: "deny", patterns: []rPattern{{d: Derived{Text: mini}}}}
		if !loadable(h) {
			return
		}
		var vs hx.Vs
		m, ok, _ := isolated(&vs, h, false, mini)
		if len(vs) > 0 {
			best, bestLen = fmt.Sprintf("%T[panics]", e), len(txt)
			return
		}
		if ok && !m {
			best, bestLen = fmt.Sprintf("%T", e), len(txt)
		}
	})
	return strings.TrimPrefix(strings.TrimPrefix(best, "*"), "sqlparser.")
}

// CheckVerdict is layer (a).
func CheckVerdict(c Case) (vs hx.Vs, ev evidence) {
	ev.classes = map[string]bool{}
	p, ok := prepare(c, &vs, &ev)
	if !ok {
		return vs, ev
	}
	ipe := c.Cfg.IgnoreParseError
	x := p.x
	unparseable := x.info.st == nil
	ev.class("dialect:%s", c.Dialect)
	ev.class("ignore_parse_error:%v", ipe)
	if unparseable {
		ev.class("stmt:unparseable/ignore_parse_error:%v", ipe)
	} else {
		ev.class("stmt:%s", x.info.kind)
		for _, o := range x.info.occs {
			if o.Virtual {
				continue
			}
			ev.class("table-shape:%s", o.Shape)
		}
	}
	if len(c.Stmt.Var) > 0 && c.Stmt.Corrupt == 0 {
		ev.class("stmt:formatting-variant-of-rule-source")
	}
	if x.extra != "" {
		ev.class("stmt:relative:%s", x.extra)
	}
	full, err := loadCensor(&vs, p.fullYAML)
	if err != nil {
		if len(vs) == 0 {
			vs.Add("harness:config-rejected", "configuration whose rules load one by one is rejected: %v\n%s", err, p.fullYAML)
		}
		return vs, ev
	}
	defer full.ReleaseAll()
	verdict, ok := acraVerdict(&vs, full, x.text)
	if !ok {
		return vs, ev
	}
	ev.class("verdict:%s", map[bool]string{true: "allowed", false: "denied"}[verdict])
	if unparseable && !ipe {
		if verdict {
			vs.Add("unparseable-admitted", "statement %q cannot be parsed and ignore_parse_error is off, yet it was admitted by\n%s", x.text, p.fullYAML)
		}
		return vs, ev
	}
	matched := make([]bool, len(p.hs))
	for i, h := range p.hs {
		ev.class("handler:%s", h.kind)
		if h.kind == "allowall" || h.kind == "denyall" {
			matched[i] = true
			continue
		}
		if len(h.queries)+len(h.tables)+len(h.patterns) == 0 {
			ev.class("handler:%s/no-rules", h.kind)
		}
		hm, ok, hy := isolated(&vs, h, ipe, x.text)
		if !ok {
			return vs, ev
		}
		matched[i] = hm
		outs, ok := evalHandler(&vs, p, h, ipe, x)
		if !ok {
			return vs, ev
		}
		any := false
		for _, o := range outs {
			any = any || o.acra
			ev.class("rule:%s/%s/ref:%s", h.kind, o.kind, o.ref)
			if o.pat != nil {
				for _, a := range o.pat.d.Applied {
					ev.class("placeholder:%s", a)
				}
				if o.pat.from == x.from && x.extra == "" {
					ev.nontrivial = true
					ev.class("pattern-source-under-test:%s", x.info.kind)
				}
				if o.pat.from == x.from && x.extra != "" && o.pat.d.Whole == "" {
					ev.nontrivial = true
					ev.class("pattern-source-with-added-clause-under-test:%s", x.extra)
				}
			}
			if o.ref == match {
				ev.nontrivial = true
			}
			if o.ref == unsure || (o.ref == match) == o.acra {
				continue
			}
			// acra and the reference disagree on this rule
			switch o.kind {
			case "queries":
				if o.ref == match {
					vs.Add("query-rule-misses-equivalent-spelling:"+h.kind, "%s rule on query %q does not match statement %q (same statement up to keyword case / white space / `;` / margin comments)", h.kind, o.desc, x.text)
				} else {
					vs.Add("query-rule-matches-other-statement:"+h.kind, "%s rule on query %q matches the different statement %q", h.kind, o.desc, x.text)
				}
			case "tables":
				switch {
				case h.kind == "deny" && o.ref == match:
					vs.Add("table-rule-misses:"+o.shape, "deny rule on tables [%s] does not match %q, which uses a listed table (%s)", o.desc, x.text, o.shape)
				case h.kind == "deny":
					vs.Add("table-rule-matches-unused-table", "deny rule on tables [%s] matches %q, which uses none of them", o.desc, x.text)
				case o.ref == match:
					vs.Add("table-rule-misses:"+o.shape, "allow rule on tables [%s] does not admit %q, which uses only listed tables (%s)", o.desc, x.text, o.shape)
				default:
					vs.Add("allow-table-rule-admits-unlisted:"+o.shape, "allow rule on tables [%s] admits %q, which also uses a table that is not listed (%s)", o.desc, x.text, o.shape)
				}
			case "patterns":
				if o.ref == match {
					who := x.info.kind
					if o.pat.d.Whole == "" {
						if cu := culprit(p, x); cu != "" {
							who = cu
						} else if len(o.pat.d.Applied) > 0 && o.pat.d.Applied[0] != "raw" && o.pat.d.Applied[0] != "printed" {
							// does the statement match itself without placeholders?
							self := rHandler{kind: "deny", patterns: []rPattern{{d: Derived{Text: stripMargins(x.text, p.pg, false)}}}}
							var tmp hx.Vs
							if m, ok, _ := isolated(&tmp, self, false, x.text); ok && m {
								who += ":" + opsName(o.pat.d.Applied)
							}
						}
					} else {
						who += ":whole"
					}
					vs.Add("pattern-misses-own-statement:"+who, "%s rule on pattern %q (derived from the statement by %s) does not match statement %q", h.kind, o.desc, opsName(o.pat.d.Applied), x.text)
				} else {
					why := "other-tables"
					if o.pat.d.Whole != "" || p.pool[o.pat.from].kind != x.info.kind {
						why = "other-kind"
					}
					if o.pat.from == x.from && x.extra != "" {
						why = "added-clause:" + x.extra
						if has(o.pat.d.Applied, "where") {
							why += "/where-placeholder"
						}
					}
					vs.Add("pattern-matches-different-statement:"+why, "%s rule on pattern %q (derived from %q) matches the structurally different statement %q", h.kind, o.desc, p.pool[o.pat.from].text, x.text)
				}
			}
		}
		if any != hm {
			vs.Add("handler-not-union-of-its-rules:"+h.kind, "%s handler matched=%v on %q but its rules one by one matched=%v\n%s", h.kind, hm, x.text, any, hy)
		}
	}
	want := chainRef(p.hs, matched, unparseable, ipe)
	if want != verdict {
		var ks []string
		for i, h := range p.hs {
			ks = append(ks, fmt.Sprintf("%s(matched=%v)", h.kind, matched[i]))
		}
		vs.Add(fmt.Sprintf("chain-verdict:want-%s", map[bool]string{true: "allowed", false: "denied"}[want]),
			"chain %s must give allowed=%v for %q, acra-censor says allowed=%v\n%s", strings.Join(ks, " -> "), want, x.text, verdict, p.fullYAML)
	}
	return vs, ev
}

func TestVerdict(t *testing.T) {
	R.Rule("TestVerdict", "case = dialect + pool of 1-4 statements (grammar generator, corpus, SELECTs nested as union arm / derived table / sub-select in expression / INSERT..SELECT) + chain of 1-5 handlers whose query, table and pattern rules are derived from pool statements (patterns by generalising literals, IN lists, columns, WHERE, sub-selects, the whole statement) + the statement under test (a pool statement, re-formatted or corrupted); the configuration is rendered to YAML and loaded by AcraCensor.LoadConfiguration; every rule is evaluated in isolation against the reference matcher and the full verdict against the documented chain semantics. Non-trivial = a rule matches per the reference or the statement is the source of a pattern")
	hx.Checks(500, 20000)
	rapid.Check(t, func(rt *rapid.T) {
		c := genCase(rt)
		vs, ev := CheckVerdict(c)
		R.Seen("TestVerdict", c, ev.nontrivial, sortedKeys(ev.classes)...)
		R.Report(rt, "TestVerdict", c, vs)
	})
}

func decodeCase(raw json.RawMessage) (Case, hx.Vs) {
	var c Case
	if err := json.Unmarshal(raw, &c); err != nil {
		return c, hx.Vs{{Sig: "harness:decode", Msg: err.Error()}}
	}
	return c, nil
}
