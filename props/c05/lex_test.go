package c05

// A small SQL lexer owned by this check. It is used for two things only:
//   - the reference notion of "normalised text" of the query rules (N): margin comments, one trailing
//     semicolon and white space dropped, reserved words lower-cased, everything else byte-exact;
//   - building formatting variants of a statement (layer b): keyword case, white space, `;`, margin comments.
// It never decides a verdict by itself.

import (
	"strings"
)

type tokKind int

const (
	tWS tokKind = iota
	tComment
	tWord   // bare word: keyword or identifier (may start with @)
	tNumber // 12, 1.5, .5e3, 0x1f
	tString // '..', E'..', X'..', b'..' and, in the MySQL dialect, ".."
	tQuoted // quoted identifier: `..` (MySQL) / ".." (PostgreSQL)
	tParam  // ?, $1, :name, ::list
	tOp     // operators of one or more characters
	tPunct  // ( ) , ; .
)

type token struct {
	kind tokKind
	text string
}

func isWordStart(c byte) bool {
	return c >= 'a' && c <= 'z' || c >= 'A' && c <= 'Z' || c == '_' || c == '@' || c >= 0x80
}
func isDigitB(c byte) bool   { return c >= '0' && c <= '9' }
func isWordPart(c byte) bool { return isWordStart(c) || isDigitB(c) || c == '$' }

var multiOps = []string{"<=>", "->>", "<=", ">=", "<>", "!=", "<<", ">>", "->", "::", "||", "&&", ":="}

// lex splits s into tokens; concatenating the token texts gives s back. ok is false when the text
// ends inside a string, quoted identifier or comment.
func lex(s string, pg bool) (out []token, ok bool) {
	ok = true
	i := 0
	n := len(s)
	scanQuoted := func(start int, q byte, backslash bool) int {
		j := start + 1
		for j < n {
			c := s[j]
			if backslash && c == '\\' && j+1 < n {
				j += 2
				continue
			}
			if c == q {
				if j+1 < n && s[j+1] == q {
					j += 2
					continue
				}
				return j + 1
			}
			j++
		}
		ok = false
		return n
	}
	for i < n {
		c := s[i]
		switch {
		case c == ' ' || c == '\t' || c == '\n' || c == '\r' || c == '\f' || c == '\v':
			j := i
			for j < n && (s[j] == ' ' || s[j] == '\t' || s[j] == '\n' || s[j] == '\r' || s[j] == '\f' || s[j] == '\v') {
				j++
			}
			out = append(out, token{tWS, s[i:j]})
			i = j
		case c == '/' && i+1 < n && s[i+1] == '*':
			j := strings.Index(s[i+2:], "*/")
			if j < 0 {
				ok = false
				out = append(out, token{tComment, s[i:]})
				i = n
				break
			}
			out = append(out, token{tComment, s[i : i+2+j+2]})
			i = i + 2 + j + 2
		case c == '-' && i+1 < n && s[i+1] == '-':
			// acra's tokenizer starts a comment at every `--` (MySQL itself wants white space after it)
			j := strings.IndexByte(s[i:], '\n')
			if j < 0 {
				j = n - i
			} else {
				j++
			}
			out = append(out, token{tComment, s[i : i+j]})
			i += j
		case c == '#' || (c == '/' && i+1 < n && s[i+1] == '/'):
			j := strings.IndexByte(s[i:], '\n')
			if j < 0 {
				j = n - i
			} else {
				j++
			}
			out = append(out, token{tComment, s[i : i+j]})
			i += j
		case c == '\'':
			j := scanQuoted(i, '\'', true)
			out = append(out, token{tString, s[i:j]})
			i = j
		case c == '"':
			if pg {
				j := scanQuoted(i, '"', false)
				out = append(out, token{tQuoted, s[i:j]})
				i = j
			} else {
				j := scanQuoted(i, '"', true)
				out = append(out, token{tString, s[i:j]})
				i = j
			}
		case c == '`':
			j := scanQuoted(i, '`', false)
			out = append(out, token{tQuoted, s[i:j]})
			i = j
		case isWordStart(c):
			// string prefixes: X'..' x'..' B'..' b'..' E'..' e'..' N'..'
			if i+1 < n && s[i+1] == '\'' && strings.IndexByte("XxBbEeNn", c) >= 0 {
				j := scanQuoted(i+1, '\'', c == 'E' || c == 'e' || c == 'N' || c == 'n')
				out = append(out, token{tString, s[i:j]})
				i = j
				break
			}
			j := i + 1
			for j < n && isWordPart(s[j]) {
				j++
			}
			out = append(out, token{tWord, s[i:j]})
			i = j
		case isDigitB(c) || (c == '.' && i+1 < n && isDigitB(s[i+1])):
			j := i
			if c == '0' && i+1 < n && (s[i+1] == 'x' || s[i+1] == 'X') {
				j = i + 2
				for j < n && (isDigitB(s[j]) || s[j] >= 'a' && s[j] <= 'f' || s[j] >= 'A' && s[j] <= 'F') {
					j++
				}
			} else {
				for j < n && isDigitB(s[j]) {
					j++
				}
				if j < n && s[j] == '.' {
					j++
					for j < n && isDigitB(s[j]) {
						j++
					}
				}
				if j < n && (s[j] == 'e' || s[j] == 'E') {
					k := j + 1
					if k < n && (s[k] == '+' || s[k] == '-') {
						k++
					}
					if k < n && isDigitB(s[k]) {
						for k < n && isDigitB(s[k]) {
							k++
						}
						j = k
					}
				}
			}
			out = append(out, token{tNumber, s[i:j]})
			i = j
		case c == '?':
			out = append(out, token{tParam, "?"})
			i++
		case c == '$' && i+1 < n && isDigitB(s[i+1]):
			j := i + 1
			for j < n && isDigitB(s[j]) {
				j++
			}
			out = append(out, token{tParam, s[i:j]})
			i = j
		case c == ':' && i+1 < n && (isWordStart(s[i+1]) || (s[i+1] == ':' && i+2 < n && isWordStart(s[i+2]) && (i == 0 || !endsOperand(out)))):
			// :name bind variable, ::list argument (a list argument never follows an operand; `x::int` is a cast)
			j := i + 1
			if s[j] == ':' {
				j++
			}
			for j < n && (isWordPart(s[j]) || s[j] == '.') {
				j++
			}
			out = append(out, token{tParam, s[i:j]})
			i = j
		case c == '(' || c == ')' || c == ',' || c == ';' || c == '.':
			out = append(out, token{tPunct, s[i : i+1]})
			i++
		default:
			matched := false
			for _, op := range multiOps {
				if strings.HasPrefix(s[i:], op) {
					out = append(out, token{tOp, op})
					i += len(op)
					matched = true
					break
				}
			}
			if !matched {
				out = append(out, token{tOp, s[i : i+1]})
				i++
			}
		}
	}
	return out, ok
}

// endsOperand tells whether the last significant token can end an operand (so that a following
// `::name` is a cast rather than a list argument).
func endsOperand(toks []token) bool {
	for i := len(toks) - 1; i >= 0; i-- {
		t := toks[i]
		if t.kind == tWS || t.kind == tComment {
			continue
		}
		switch t.kind {
		case tWord:
			return !reserved[strings.ToLower(t.text)] || strings.EqualFold(t.text, "null") || strings.EqualFold(t.text, "true") || strings.EqualFold(t.text, "false")
		case tNumber, tString, tQuoted, tParam:
			return true
		case tPunct:
			return t.text == ")"
		}
		return false
	}
	return false
}

// reserved lists words that are keywords wherever they appear bare (not next to a dot): acra's and
// the databases' lexers treat them case-insensitively. Words that the statement generator also uses
// as bare identifiers (status, date, offset, mode, ...) and function / type names are deliberately
// absent: flipping the case of an identifier is not a formatting change.
var reserved = map[string]bool{}

func init() {
	for _, w := range strings.Fields(`select from where and or not in is null like between union all distinct insert into values
		update set delete order by group having limit join inner outer cross natural straight_join on using as exists case when then else end
		asc desc true false default ignore key returning for lock interval div regexp rlike escape collate ilike xor`) {
		reserved[w] = true
	}
}

// significant returns the tokens without white space, with margin comments and one trailing semicolon removed.
func significant(toks []token) []token {
	var out []token
	for _, t := range toks {
		if t.kind != tWS {
			out = append(out, t)
		}
	}
	// leading comments
	for len(out) > 0 && out[0].kind == tComment && !strings.HasPrefix(out[0].text, "/*!") {
		out = out[1:]
	}
	// trailing comments, then one semicolon, then (comments in front of the semicolon are interior: kept)
	for len(out) > 0 && out[len(out)-1].kind == tComment && !strings.HasPrefix(out[len(out)-1].text, "/*!") {
		out = out[:len(out)-1] // (a MySQL executable comment is part of the statement)
	}
	if len(out) > 0 && out[len(out)-1].kind == tPunct && out[len(out)-1].text == ";" {
		out = out[:len(out)-1]
	}
	return out
}

// nearDot tells whether token i (in a list without white space) touches a dot: then a bare word is an identifier.
func nearDot(toks []token, i int) bool {
	return (i > 0 && toks[i-1].kind == tPunct && toks[i-1].text == ".") || (i+1 < len(toks) && toks[i+1].kind == tPunct && toks[i+1].text == ".")
}

// normText is the reference normal form N of the query rules.
func normText(s string, pg bool) string {
	toks, _ := lex(s, pg)
	sig := significant(toks)
	parts := make([]string, 0, len(sig))
	for i, t := range sig {
		x := t.text
		if t.kind == tWord && reserved[strings.ToLower(x)] && !nearDot(sig, i) {
			x = strings.ToLower(x)
		}
		parts = append(parts, x)
	}
	return strings.Join(parts, " ")
}

// coarseText is a much coarser form: statements whose coarse forms differ cannot be equal under any
// reasonable normalisation; statements with equal coarse but different normal forms are "unsure".
func coarseText(s string, pg bool) string {
	toks, _ := lex(s, pg)
	var b strings.Builder
	for _, t := range toks {
		switch t.kind {
		case tWS, tComment:
			continue
		case tPunct:
			if t.text == "(" || t.text == ")" || t.text == ";" {
				continue
			}
		case tWord:
			w := strings.ToLower(t.text)
			if w == "into" || w == "as" || w == "outer" || w == "inner" || w == "all" || w == "asc" {
				continue
			}
			b.WriteString(w)
			b.WriteByte(' ')
			continue
		case tQuoted:
			x := t.text[1 : len(t.text)-1]
			b.WriteString(strings.ToLower(x))
			b.WriteByte(' ')
			continue
		case tNumber:
			x := strings.TrimLeft(strings.ToLower(t.text), "0")
			b.WriteString(x)
			b.WriteByte(' ')
			continue
		case tOp:
			if t.text == "!=" {
				b.WriteString("<> ")
				continue
			}
			if t.text == "&&" {
				b.WriteString("and ")
				continue
			}
			if t.text == "||" {
				b.WriteString("or ")
				continue
			}
			if t.text == "+" || t.text == "-" {
				continue // signs fold into literals
			}
		}
		b.WriteString(strings.ToLower(t.text))
		b.WriteByte(' ')
	}
	return b.String()
}

// ---- formatting variants (layer b) ----

// VarOp is one formatting change; Arg selects where / how (reduced modulo the number of candidates).
type VarOp struct {
	Op  string `json:"op"` // kwcase | ws | semi | lead | trail | margin-ws
	Arg int    `json:"arg"`
}

var wsChoices = []string{" ", "\n", "\t", "  ", " \n ", "\r\n"}
var commentChoices = []string{"/* c */", "/* two words */", "/**/", "/* select 1; */", "/*x*/"}

// applyVariant applies ops to s. The result differs from s only in keyword case, white space between
// tokens, one trailing semicolon and margin comments.
func applyVariant(s string, pg bool, ops []VarOp) string {
	for _, op := range ops {
		toks, ok := lex(s, pg)
		if !ok {
			return s
		}
		switch op.Op {
		case "kwcase":
			// flip reserved words chosen by the bits of Arg: mode = Arg%3 (upper / lower / alternating), mask from Arg/3
			mode := op.Arg % 3
			mask := op.Arg / 3
			k := 0
			noWS := nonWSIndex(toks)
			for pos, i := range noWS {
				t := toks[i]
				if t.kind != tWord || !reserved[strings.ToLower(t.text)] {
					continue
				}
				if (pos > 0 && toks[noWS[pos-1]].text == ".") || (pos+1 < len(noWS) && toks[noWS[pos+1]].text == ".") {
					continue
				}
				// adjacent (no white space) to a dot on either side also counts
				if (i > 0 && toks[i-1].text == ".") || (i+1 < len(toks) && toks[i+1].text == ".") {
					continue
				}
				sel := mask == 0 || (mask>>(uint(k)%16))&1 == 1
				k++
				if !sel {
					continue
				}
				switch mode {
				case 0:
					toks[i].text = strings.ToUpper(t.text)
				case 1:
					toks[i].text = strings.ToLower(t.text)
				default:
					b := []byte(strings.ToLower(t.text))
					for j := range b {
						if j%2 == 0 && b[j] >= 'a' && b[j] <= 'z' {
							b[j] -= 32
						}
					}
					toks[i].text = string(b)
				}
			}
		case "ws":
			// widen / change existing white space, add white space after commas and inside parentheses
			choice := wsChoices[op.Arg%len(wsChoices)]
			mask := op.Arg / len(wsChoices)
			k := 0
			var out []token
			for i, t := range toks {
				pick := func() bool {
					sel := mask == 0 || (mask>>(uint(k)%16))&1 == 1
					k++
					return sel
				}
				switch {
				case t.kind == tWS:
					if pick() {
						t.text = choice
					}
					out = append(out, t)
				case t.kind == tPunct && (t.text == "," || t.text == "("):
					out = append(out, t)
					if i+1 < len(toks) && toks[i+1].kind != tWS && pick() {
						out = append(out, token{tWS, choice})
					}
				case t.kind == tPunct && t.text == ")":
					if i > 0 && toks[i-1].kind != tWS && pick() {
						out = append(out, token{tWS, choice})
					}
					out = append(out, t)
				default:
					out = append(out, t)
				}
			}
			toks = out
		case "semi":
			sig := nonWSIndex(toks)
			// position of the last token that is not a trailing comment
			end := len(sig) - 1
			for end >= 0 && toks[sig[end]].kind == tComment && !strings.HasPrefix(toks[sig[end]].text, "/*!") {
				end-- // (a MySQL executable comment is part of the statement: the semicolon goes behind it)
			}
			if end < 0 {
				break
			}
			last := sig[end]
			if toks[last].kind == tPunct && toks[last].text == ";" {
				// already there: drop it
				toks = append(toks[:last:last], toks[last+1:]...)
			} else {
				ins := []token{{tPunct, ";"}}
				if op.Arg%2 == 1 {
					ins = []token{{tWS, " "}, {tPunct, ";"}}
				}
				toks = append(toks[:last+1:last+1], append(ins, toks[last+1:]...)...)
			}
		case "lead":
			c := commentChoices[op.Arg%len(commentChoices)]
			sep := wsChoices[(op.Arg/len(commentChoices))%len(wsChoices)]
			toks = append([]token{{tComment, c}, {tWS, sep}}, toks...)
		case "trail":
			c := commentChoices[op.Arg%len(commentChoices)]
			sep := wsChoices[(op.Arg/len(commentChoices))%len(wsChoices)]
			toks = append(toks, token{tWS, sep}, token{tComment, c})
		case "margin-ws":
			a := wsChoices[op.Arg%len(wsChoices)]
			b := wsChoices[(op.Arg/len(wsChoices))%len(wsChoices)]
			switch (op.Arg / 36) % 3 {
			case 0:
				toks = append([]token{{tWS, a}}, toks...)
			case 1:
				toks = append(toks, token{tWS, b})
			default:
				toks = append(append([]token{{tWS, a}}, toks...), token{tWS, b})
			}
		}
		var b strings.Builder
		for _, t := range toks {
			b.WriteString(t.text)
		}
		s = b.String()
	}
	return s
}

func nonWSIndex(toks []token) []int {
	var out []int
	for i, t := range toks {
		if t.kind != tWS {
			out = append(out, i)
		}
	}
	return out
}

var varOpNames = []string{"kwcase", "ws", "semi", "lead", "trail", "margin-ws"}
