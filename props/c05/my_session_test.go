package c05

// Layer (d): sessions through acra's real MySQL proxy (internal/mysess) with a firewall loaded from a generated
// configuration (the rule generator of TestVerdict) and a scripted MySQL server. The twin of TestSessions.
//
// Every reply of the scripted server carries the number of the packet it answers (`mk<N>x`, the statement id of a
// COM_STMT_PREPARE_OK is 1000+N), so that the client can tell whose reply it reads; what the proxy answers by itself
// (the ERR packet of a rejected statement) carries none.

import (
	"bytes"
	"encoding/binary"
	"errors"
	"fmt"
	"net"
	"os"
	"regexp"
	"strconv"
	"strings"
	"sync"
	"testing"
	"time"

	"pgregory.net/rapid"

	acracensor "github.com/cossacklabs/acra/acra-censor"
	"github.com/cossacklabs/acra/sqlparser"

	"verif/internal/fix"
	"verif/internal/gen"
	"verif/internal/hx"
	"verif/internal/mysess"
	"verif/internal/sqlgen"
)

const (
	comChangeUser   byte   = 0x11
	myDirectStmtID  uint32 = 0xFFFFFFFF
	myStmtIDBase    uint32 = 1000
	myFwTimeout            = 3 * time.Second
	myFwSchema             = "schemas:\n  - table: zz_protected\n    columns:\n      - id\n      - a\n    encrypted:\n      - column: a\n"
	myAuthPlugin           = "mysql_native_password"
	myUnknownStmtID uint32 = 777777
)

// ---- the case ------------------------------------------------------------------------------------------------

// MyStmt selects the text of a statement: a pool statement, re-formatted, corrupted, partly moved into a MySQL
// executable comment, or followed by a second statement.
type MyStmt struct {
	From    int     `json:"from"`
	Var     []VarOp `json:"var,omitempty"`
	Corrupt int     `json:"corrupt,omitempty"`
	Wrap    string  `json:"wrap,omitempty"` // exec-split: the tokens from At on stand in /*! ... */ (At = 0: the whole statement) | multi: `; <pool statement With>` follows
	At      int     `json:"at,omitempty"`
	Ver     bool    `json:"ver,omitempty"` // /*!50000 ... */
	With    int     `json:"with,omitempty"`
}

// MyFwStep is one step of the session.
type MyFwStep struct {
	Kind string `json:"kind"` // query | stmt | sqlprep | event
	Stmt MyStmt `json:"stmt"`
	DB   string `json:"db,omitempty"` // how the scripted server answers (the statement, the COM_STMT_PREPARE, the PREPARE ... FROM, the event)
	// stmt: COM_STMT_PREPARE, then
	Execs  []string `json:"execs,omitempty"`  // one COM_STMT_EXECUTE per entry (= the server's answer); from the second on the parameter types are not repeated
	Direct bool     `json:"direct,omitempty"` // the first execution uses MariaDB's statement id -1 ("the statement prepared last"); sent even when the PREPARE failed, as a pipelining client does
	Reset  bool     `json:"reset,omitempty"`  // COM_STMT_RESET afterwards
	Close  bool     `json:"close,omitempty"`  // COM_STMT_CLOSE (+ COM_PING) afterwards
	// sqlprep: COM_QUERY `PREPARE s<i> FROM '<statement>'`, then
	Exec    bool `json:"exec,omitempty"`    // `EXECUTE s<i> [USING @p0, ...]`
	Dealloc bool `json:"dealloc,omitempty"` // `DEALLOCATE PREPARE s<i>`
	Upper   bool `json:"upper,omitempty"`   // keywords in capitals
	// event
	Event string  `json:"event,omitempty"` // ping | init-db | statistics | set-option | reset-connection | change-user | execute-unknown | execute-direct | execute-old | close-unknown
	Auth  gen.Hex `json:"auth,omitempty"`  // change-user: the client's answer to an authentication switch request
	Pick  int     `json:"pick,omitempty"`  // execute-old: which of the statements prepared so far
}

// MyFwCase is a firewall configuration and a session.
type MyFwCase struct {
	Pool         []string   `json:"pool"`
	Cfg          Config     `json:"config"`
	DeprecateEOF bool       `json:"deprecate_eof,omitempty"`
	Steps        []MyFwStep `json:"steps"`
}

var myStmtAnswers = []string{"ok", "rows", "err", "rows-err", "empty"}
var myEvents = []string{"ping", "init-db", "statistics", "set-option", "reset-connection", "change-user", "execute-unknown", "execute-direct", "execute-old", "close-unknown"}

// first bytes of an authentication answer that are command bytes as well
var myAuthFirst = []int{0x01, 0x02, 0x03, 0x0e, 0x11, 0x16, 0x17, 0x19, 0x1a, 0x1f, 0x00, 0xfe, 0xff, -1, -1, -1}

func genMyStmt(t *rapid.T, npool int, label string) MyStmt {
	st := MyStmt{From: rapid.IntRange(0, npool-1).Draw(t, label+".from")}
	if chance(t, label+".var", 30) {
		st.Var = genVarOps(t, label+".v", 2)
	}
	if chance(t, label+".corrupt", 10) {
		st.Corrupt = rapid.IntRange(1, 5).Draw(t, label+".corruption")
	}
	switch weighted(t, label+".wrap", 76, 15, 9) {
	case 1:
		st.Wrap, st.At, st.Ver = "exec-split", rapid.SampledFrom([]int{0, 0, 0, 0, 1, 2, 3, 4, 5, 6, 8, 10, 12}).Draw(t, label+".at"), rapid.Bool().Draw(t, label+".ver")
	case 2:
		st.Wrap, st.With = "multi", rapid.IntRange(0, npool-1).Draw(t, label+".with")
	}
	return st
}

func genMyAnswer(t *rapid.T, label string) string {
	return myStmtAnswers[weighted(t, label, 4, 4, 2, 2, 1)]
}

func genMyFwStep(t *rapid.T, npool int, label string, forceStmt bool) MyFwStep {
	w := []int{36, 26, 12, 26}
	if forceStmt {
		w = []int{55, 30, 15, 0}
	}
	st := MyFwStep{Kind: []string{"query", "stmt", "sqlprep", "event"}[weighted(t, label+".kind", w...)]}
	switch st.Kind {
	case "query":
		st.Stmt = genMyStmt(t, npool, label)
		st.DB = genMyAnswer(t, label+".db")
		if st.Stmt.Wrap == "multi" {
			st.DB = "multi"
		}
	case "stmt":
		st.Stmt = genMyStmt(t, npool, label)
		st.DB = []string{"ok", "ok", "ok", "err"}[rapid.IntRange(0, 3).Draw(t, label+".db")]
		for i, n := 0, weighted(t, label+".nexec", 2, 5, 3); i < n; i++ {
			st.Execs = append(st.Execs, genMyAnswer(t, fmt.Sprintf("%s.exec%d", label, i)))
		}
		st.Direct = chance(t, label+".direct", 25)
		if st.Direct && len(st.Execs) == 0 {
			st.Execs = []string{genMyAnswer(t, label+".exec0")}
		}
		st.Reset = chance(t, label+".reset", 20)
		st.Close = chance(t, label+".close", 35)
	case "sqlprep":
		st.Stmt = genMyStmt(t, npool, label)
		st.Stmt.Wrap = ""
		st.DB = []string{"ok", "ok", "ok", "err"}[rapid.IntRange(0, 3).Draw(t, label+".db")]
		st.Exec = chance(t, label+".exec", 80)
		st.Dealloc = chance(t, label+".dealloc", 30)
		st.Upper = rapid.Bool().Draw(t, label+".upper")
	case "event":
		st.Event = myEvents[weighted(t, label+".event", 2, 2, 2, 2, 4, 8, 2, 3, 4, 2)]
		st.DB = []string{"ok", "ok", "err"}[rapid.IntRange(0, 2).Draw(t, label+".db")]
		switch st.Event {
		case "change-user":
			st.DB = []string{"ok", "err", "err", "switch-ok", "switch-err"}[rapid.IntRange(0, 4).Draw(t, label+".auth-db")]
			if strings.HasPrefix(st.DB, "switch") {
				n := rapid.SampledFrom([]int{20, 20, 20, 0, 32}).Draw(t, label+".auth-len")
				a := make([]byte, n)
				for i := range a {
					a[i] = rapid.Byte().Draw(t, fmt.Sprintf("%s.auth%d", label, i))
				}
				if f := rapid.SampledFrom(myAuthFirst).Draw(t, label+".auth-first"); f >= 0 && n > 0 {
					a[0] = byte(f)
				}
				st.Auth = a
			}
		case "execute-direct", "execute-old":
			st.DB = genMyAnswer(t, label+".db2")
			st.Pick = rapid.IntRange(0, 7).Draw(t, label+".pick")
		}
	}
	return st
}

func genMyFwCase(t *rapid.T) MyFwCase {
	c := MyFwCase{DeprecateEOF: rapid.Bool().Draw(t, "deprecate_eof")}
	npool := rapid.IntRange(1, 4).Draw(t, "npool")
	for i := 0; i < npool; i++ {
		c.Pool = append(c.Pool, genStatement(t, sqlgen.MySQL, fmt.Sprintf("pool%d", i)))
	}
	c.Cfg = genConfig(t, npool)
	n := rapid.IntRange(2, 10).Draw(t, "nsteps")
	for i := 0; i < n; i++ {
		// a protocol event is most interesting when a statement follows it
		force := i > 0 && c.Steps[i-1].Kind == "event" && chance(t, fmt.Sprintf("s%d.after-event", i), 60)
		c.Steps = append(c.Steps, genMyFwStep(t, npool, fmt.Sprintf("s%d", i), force))
	}
	if chance(t, "tail", 30) {
		// a history aimed at what the proxy remembers about prepares across other commands: two prepares that are not
		// executed (which of them the firewall rejects depends on the configuration), a statement, and the execution
		// of "the statement prepared last"
		prep := func(label string) MyFwStep {
			return MyFwStep{Kind: "stmt", Stmt: MyStmt{From: rapid.IntRange(0, npool-1).Draw(t, label+".from")}, DB: "ok"}
		}
		c.Steps = append(c.Steps, prep("tail.p0"), prep("tail.p1"))
		for i, n := 0, rapid.IntRange(1, 2).Draw(t, "tail.nq"); i < n; i++ {
			c.Steps = append(c.Steps, MyFwStep{Kind: "query", Stmt: MyStmt{From: rapid.IntRange(0, npool-1).Draw(t, fmt.Sprintf("tail.q%d.from", i))}, DB: genMyAnswer(t, fmt.Sprintf("tail.q%d.db", i))})
		}
		c.Steps = append(c.Steps, MyFwStep{Kind: "event", Event: "execute-direct", DB: genMyAnswer(t, "tail.db"), Pick: rapid.IntRange(0, 7).Draw(t, "tail.pick")})
	}
	return c
}

// ---- statement texts -------------------------------------------------------------------------------------------

func modIdx(i, n int) int {
	if n <= 0 {
		return 0
	}
	i %= n
	if i < 0 {
		i += n
	}
	return i
}

// myBaseText is the statement without wrapping (what SQL-level PREPARE quotes).
func myBaseText(pool []poolInfo, st MyStmt) string {
	text := applyVariant(pool[modIdx(st.From, len(pool))].text, false, st.Var)
	if st.Corrupt != 0 {
		text = corrupt(text, st.Corrupt, false)
	}
	return text
}

func myStmtText(pool []poolInfo, st MyStmt) string {
	text := myBaseText(pool, st)
	switch st.Wrap {
	case "exec-split":
		toks, ok := lex(text, false)
		idx := nonWSIndex(toks)
		if !ok || len(idx) == 0 {
			return text
		}
		k := idx[modIdx(st.At, len(idx))]
		var head, tail strings.Builder
		for _, tk := range toks[:k] {
			head.WriteString(tk.text)
		}
		for _, tk := range toks[k:] {
			tail.WriteString(tk.text)
		}
		open := "/*! "
		if st.Ver {
			open = "/*!50000 "
		}
		return head.String() + open + tail.String() + " */"
	case "multi":
		return text + "; " + pool[modIdx(st.With, len(pool))].text
	}
	return text
}

// myQuote writes s as a MySQL string literal.
func myQuote(s string) string {
	return "'" + strings.NewReplacer(`\`, `\\`, `'`, `''`).Replace(s) + "'"
}

// myUnquote decodes a MySQL string literal token ('..' or ".."), as the server does (NO_BACKSLASH_ESCAPES off).
func myUnquote(tok string) (string, bool) {
	if len(tok) < 2 || (tok[0] != '\'' && tok[0] != '"') || tok[len(tok)-1] != tok[0] {
		return "", false
	}
	q := tok[0]
	body := tok[1 : len(tok)-1]
	var b strings.Builder
	for i := 0; i < len(body); i++ {
		c := body[i]
		switch {
		case c == q && i+1 < len(body) && body[i+1] == q:
			b.WriteByte(q)
			i++
		case c == '\\' && i+1 < len(body):
			i++
			switch e := body[i]; e {
			case '0':
				b.WriteByte(0)
			case 'b':
				b.WriteByte('\b')
			case 'n':
				b.WriteByte('\n')
			case 'r':
				b.WriteByte('\r')
			case 't':
				b.WriteByte('\t')
			case 'Z':
				b.WriteByte(26)
			case '%', '_':
				b.WriteByte('\\')
				b.WriteByte(e)
			default:
				b.WriteByte(e)
			}
		default:
			b.WriteByte(c)
		}
	}
	return b.String(), true
}

// mySQLPrepForm recognises the SQL syntax for prepared statements in a COM_QUERY text.
func mySQLPrepForm(text string) (kind, name, inner string) {
	toks, ok := lex(text, false)
	if !ok {
		return "", "", ""
	}
	var sig []token
	for _, tk := range toks {
		if tk.kind != tWS && tk.kind != tComment {
			sig = append(sig, tk)
		}
	}
	if n := len(sig); n > 0 && sig[n-1].kind == tPunct && sig[n-1].text == ";" {
		sig = sig[:n-1]
	}
	word := func(i int, w string) bool {
		return i < len(sig) && sig[i].kind == tWord && strings.EqualFold(sig[i].text, w)
	}
	nameAt := func(i int) (string, bool) {
		if i >= len(sig) {
			return "", false
		}
		switch sig[i].kind {
		case tWord:
			return strings.ToLower(sig[i].text), true
		case tQuoted:
			return strings.ToLower(strings.Trim(sig[i].text, "`")), true
		}
		return "", false
	}
	switch {
	case word(0, "prepare") && word(2, "from") && len(sig) == 4 && sig[3].kind == tString:
		if n, ok := nameAt(1); ok {
			if in, ok := myUnquote(sig[3].text); ok {
				return "prepare", n, in
			}
		}
	case word(0, "execute"):
		if n, ok := nameAt(1); ok {
			return "execute", n, ""
		}
	case (word(0, "deallocate") || word(0, "drop")) && word(1, "prepare") && len(sig) == 3:
		if n, ok := nameAt(2); ok {
			return "deallocate", n, ""
		}
	}
	return "", "", ""
}

// mySameStatement: the proxy may re-serialise a statement (it does so with the SQL syntax for prepared statements);
// the two texts must be the same statement in the normal form of the query rules, or the same PREPARE / EXECUTE /
// DEALLOCATE of the same name over the same statement.
func mySameStatement(got, sent string) bool {
	if normText(got, false) == normText(sent, false) {
		return true
	}
	k1, n1, i1 := mySQLPrepForm(got)
	k2, n2, i2 := mySQLPrepForm(sent)
	if k1 == "" || k1 != k2 || n1 != n2 || normText(i1, false) != normText(i2, false) {
		return false
	}
	if k1 != "execute" {
		return true
	}
	// EXECUTE name USING @a, @b: the same variables
	return strings.EqualFold(normText(got, false), normText(sent, false))
}

// myPlaceholderCount counts the ? placeholders of a statement with this check's lexer.
func myPlaceholderCount(text string) int {
	toks, _ := lex(text, false)
	n := 0
	for _, tk := range toks {
		if tk.kind == tParam && tk.text == "?" {
			n++
		}
	}
	return n
}

func myLooksLikeSelect(text string) bool {
	toks, _ := lex(text, false)
	for _, tk := range toks {
		if tk.kind == tWS || tk.kind == tComment || tk.kind == tPunct {
			continue
		}
		return tk.kind == tWord && strings.EqualFold(tk.text, "select")
	}
	return false
}

// ---- the scripted server ---------------------------------------------------------------------------------------

// myFwRec is one packet the scripted server received after the connection phase.
type myFwRec struct {
	N      int
	Seq    byte
	Auth   bool   // the answer to an authentication switch request (not a command)
	Cmd    byte   // command byte
	Body   []byte // payload after the command byte (the whole payload of an authentication answer)
	Ran    string // COM_STMT_EXECUTE: the text of the statement the server executed ("" = none: unknown id)
	Behave string
}

type myFwDB struct {
	mu     sync.Mutex
	behave string
	recs   []myFwRec
}

func (d *myFwDB) set(b string) { d.mu.Lock(); d.behave = b; d.mu.Unlock() }
func (d *myFwDB) count() int   { d.mu.Lock(); defer d.mu.Unlock(); return len(d.recs) }
func (d *myFwDB) since(n int) []myFwRec {
	d.mu.Lock()
	defer d.mu.Unlock()
	if n > len(d.recs) {
		return nil
	}
	return append([]myFwRec(nil), d.recs[n:]...)
}

func myMarker(n int) string { return fmt.Sprintf("mk%dx", n) }

var myMarkerRE = regexp.MustCompile(`mk([0-9]+)x`)

func (d *myFwDB) serve(conn net.Conn) {
	defer conn.Close()
	caps := uint32(mysess.DefaultCaps | mysess.CapDeprecateEOF)
	hs := mysess.Handshake{ServerVersion: "8.0.33-verif", ConnID: 55, AuthData: []byte("abcdefghijklmnopqrst"), Caps: caps, Charset: 45,
		Status: mysess.StatusAutocommit, AuthPlugin: myAuthPlugin}
	b, _ := mysess.AppendPacket(nil, 0, hs.Encode())
	if _, err := conn.Write(b); err != nil {
		return
	}
	p, err := mysess.ReadPacket(conn)
	if err != nil {
		return
	}
	resp, err := mysess.DecodeHandshakeResponse(p.Payload)
	if err != nil {
		return
	}
	eff := resp.Caps & caps
	var buf []byte
	seq := p.Seq + byte(p.Frames)
	add := func(payload []byte) { buf, seq = mysess.AppendPacket(buf, seq, payload) }
	flush := func() bool {
		_, err := conn.Write(buf)
		buf = buf[:0]
		return err == nil
	}
	add(mysess.OK{Status: mysess.StatusAutocommit}.Encode(eff))
	if !flush() {
		return
	}
	deprecate := eff&mysess.CapDeprecateEOF != 0
	status := mysess.StatusAutocommit
	colDefs := func() {
		for _, name := range []string{"c1", "c2"} {
			add(mysess.ColumnDef{Schema: "verif", Table: "zzt", OrgTable: "zzt", Name: name, OrgName: name, Charset: 45, Length: 255, Type: mysess.TypeVarString}.Encode())
		}
		if !deprecate {
			add(mysess.EOF{Status: status}.Encode(eff))
		}
	}
	endRows := func(st uint16) {
		if deprecate {
			add(mysess.OK{Header: 0xfe, Status: st}.Encode(eff))
		} else {
			add(mysess.EOF{Status: st}.Encode(eff))
		}
	}
	row := func(binaryProto bool, vals ...mysess.Value) {
		if binaryProto {
			add(mysess.EncodeBinaryRow([]byte{mysess.TypeVarString, mysess.TypeVarString}, vals))
		} else {
			add(mysess.EncodeTextRow(vals))
		}
	}
	result := func(behave string, n int, binaryProto bool) {
		mk := []byte(myMarker(n))
		switch behave {
		case "err":
			add(mysess.Err{Code: 1146, State: "42S02", Message: "Table 'verif.nowhere' doesn't exist " + string(mk)}.Encode(eff))
		case "rows", "rows-err", "empty", "multi":
			add(mysess.AppendLenEncInt(nil, 2))
			colDefs()
			if behave != "empty" {
				row(binaryProto, mysess.Value{B: mk}, mysess.Value{B: []byte("7")})
			}
			switch behave {
			case "rows-err":
				add(mysess.Err{Code: 1317, State: "70100", Message: "Query execution was interrupted " + string(mk)}.Encode(eff))
			case "multi":
				row(binaryProto, mysess.Value{Null: true}, mysess.Value{B: mk})
				endRows(status | mysess.StatusMoreResultsExists)
				add(mysess.OK{AffectedRows: 2, Status: status, Info: mk}.Encode(eff))
			case "empty":
				// the marker travels in the name of ... nothing: an empty result set is told by its position only
				endRows(status)
			default:
				row(binaryProto, mysess.Value{Null: true}, mysess.Value{B: mk})
				endRows(status)
			}
		default:
			add(mysess.OK{AffectedRows: 1, Status: status, Info: mk}.Encode(eff))
		}
	}
	simple := func(behave string, n int) {
		if behave == "err" || strings.HasSuffix(behave, "-err") {
			add(mysess.Err{Code: 1045, State: "28000", Message: "Access denied " + myMarker(n)}.Encode(eff))
			return
		}
		add(mysess.OK{Status: status, Info: []byte(myMarker(n))}.Encode(eff))
	}
	stmts := map[uint32]string{}
	var last uint32
	haveLast := false
	record := func(p mysess.Packet, auth bool) int {
		d.mu.Lock()
		defer d.mu.Unlock()
		r := myFwRec{N: len(d.recs), Seq: p.Seq, Auth: auth, Behave: d.behave}
		if auth {
			r.Body = append([]byte(nil), p.Payload...)
		} else {
			r.Cmd, r.Body = p.Payload[0], append([]byte(nil), p.Payload[1:]...)
		}
		d.recs = append(d.recs, r)
		return r.N
	}
	for {
		p, err := mysess.ReadPacket(conn)
		if err != nil || len(p.Payload) == 0 {
			return
		}
		seq = p.Seq + byte(p.Frames)
		n := record(p, false)
		d.mu.Lock()
		behave := d.behave
		d.mu.Unlock()
		cmd, body := p.Payload[0], p.Payload[1:]
		switch cmd {
		case mysess.ComQuit:
			return
		case mysess.ComQuery:
			result(behave, n, false)
		case mysess.ComStmtPrepare:
			if behave == "err" {
				add(mysess.Err{Code: 1064, State: "42000", Message: "You have an error in your SQL syntax " + myMarker(n)}.Encode(eff))
				haveLast = false
				break
			}
			id := myStmtIDBase + uint32(n)
			text := string(body)
			stmts[id] = text
			last, haveLast = id, true
			np, nc := myPlaceholderCount(text), 0
			if myLooksLikeSelect(text) {
				nc = 2
			}
			add(mysess.PrepareOK{StmtID: id, Columns: uint16(nc), Params: uint16(np)}.Encode())
			for i := 0; i < np; i++ {
				add(mysess.ColumnDef{Name: "?", Charset: 63, Type: mysess.TypeVarString, Flags: mysess.FlagBinary}.Encode())
			}
			if np > 0 && !deprecate {
				add(mysess.EOF{Status: status}.Encode(eff))
			}
			if nc > 0 {
				colDefs()
			}
		case mysess.ComStmtExecute:
			id := uint32(0)
			if len(body) >= 4 {
				id = binary.LittleEndian.Uint32(body)
			}
			if id == myDirectStmtID && haveLast {
				id = last
			}
			text, ok := stmts[id]
			if !ok {
				add(mysess.Err{Code: 1243, State: "HY000", Message: "Unknown prepared statement handler given to mysqld_stmt_execute " + myMarker(n)}.Encode(eff))
				break
			}
			d.mu.Lock()
			d.recs[n].Ran = text
			d.mu.Unlock()
			result(behave, n, true)
		case mysess.ComStmtClose:
			if len(body) >= 4 {
				delete(stmts, binary.LittleEndian.Uint32(body))
			}
			continue
		case mysess.ComStmtSendLong:
			continue
		case mysess.ComStatistics:
			add([]byte("Uptime: 12  Threads: 1  Questions: " + strconv.Itoa(n) + "  Slow queries: 0  " + myMarker(n)))
		case mysess.ComResetConn:
			if behave != "err" {
				stmts, haveLast = map[uint32]string{}, false
			}
			simple(behave, n)
		case comChangeUser:
			if strings.HasPrefix(behave, "switch") {
				add(append(append([]byte{0xfe}, myAuthPlugin...), append([]byte{0}, "ABCDEFGHIJKLMNOPQRST\x00"...)...))
				if !flush() {
					return
				}
				ap, err := mysess.ReadPacket(conn)
				if err != nil {
					return
				}
				seq = ap.Seq + byte(ap.Frames)
				n = record(ap, true)
			}
			if behave == "ok" || behave == "switch-ok" {
				stmts, haveLast = map[uint32]string{}, false
			}
			simple(behave, n)
		default:
			simple(behave, n)
		}
		if !flush() {
			return
		}
	}
}

// ---- the scripted client ---------------------------------------------------------------------------------------

// myReply is what the client read for one command.
type myReply struct {
	pkts    []mysess.Packet
	errs    []mysess.Err
	seqBad  string // first packet whose sequence id does not continue the exchange
	stmtID  uint32 // COM_STMT_PREPARE_OK
	nparams int
	prepOK  bool
	sets    int
}

// markers lists the numbers of the server's packets the reply claims to answer.
func (r *myReply) markers() []int {
	var out []int
	for _, p := range r.pkts {
		for _, m := range myMarkerRE.FindAllSubmatch(p.Payload, -1) {
			n, _ := strconv.Atoi(string(m[1]))
			out = append(out, n)
		}
	}
	if r.prepOK {
		out = append(out, int(r.stmtID)-int(myStmtIDBase))
	}
	return out
}

// proxyError: the reply is a single ERR packet that does not come from the scripted server.
func (r *myReply) proxyError() bool {
	return len(r.pkts) == 1 && len(r.errs) == 1 && len(r.markers()) == 0
}

func (r *myReply) shape() string {
	var b []string
	for _, p := range r.pkts {
		switch {
		case len(p.Payload) == 0:
			b = append(b, "empty")
		case p.Payload[0] == 0xff:
			b = append(b, "ERR")
		case p.Payload[0] == 0x00:
			b = append(b, "OK")
		case p.Payload[0] == 0xfe:
			b = append(b, "EOF")
		default:
			b = append(b, fmt.Sprintf("%d bytes", len(p.Payload)))
		}
	}
	return "[" + strings.Join(b, ", ") + "]"
}

type myCli struct {
	s    *mysess.Session
	next byte
}

func (c *myCli) send(payload []byte) error {
	c.next = 1
	return c.s.SendCommand(payload)
}

func (c *myCli) read(r *myReply) (mysess.Packet, error) {
	p, err := c.s.ReadPacketWithin(myFwTimeout)
	if err != nil {
		return p, err
	}
	if p.Seq != c.next && r.seqBad == "" {
		r.seqBad = fmt.Sprintf("packet %d of the reply has sequence id %d, the exchange is at %d", len(r.pkts), p.Seq, c.next)
	}
	c.next = p.Seq + byte(p.Frames)
	r.pkts = append(r.pkts, p)
	return p, nil
}

var errMyMalformed = errors.New("malformed reply")

func myBad(format string, args ...any) error {
	return fmt.Errorf("%w: %s", errMyMalformed, fmt.Sprintf(format, args...))
}

// readDefs reads n column definitions (+ EOF).
func (c *myCli) readDefs(r *myReply, n int) ([]byte, error) {
	caps := c.s.Caps
	var types []byte
	for i := 0; i < n; i++ {
		p, err := c.read(r)
		if err != nil {
			return nil, err
		}
		cd, err := mysess.DecodeColumnDef(p.Payload)
		if err != nil {
			return nil, myBad("column definition %d: %v", i, err)
		}
		types = append(types, cd.Type)
	}
	if n > 0 && caps&mysess.CapDeprecateEOF == 0 {
		p, err := c.read(r)
		if err != nil {
			return nil, err
		}
		if _, err := mysess.DecodeEOF(p.Payload, caps); err != nil {
			return nil, myBad("after %d column definitions: %v", n, err)
		}
	}
	return types, nil
}

// readResult reads the reply to COM_QUERY / COM_STMT_EXECUTE: OK, ERR or result sets.
func (c *myCli) readResult(r *myReply, binaryProto bool) error {
	caps := c.s.Caps
	for {
		p, err := c.read(r)
		if err != nil {
			return err
		}
		b := p.Payload
		if len(b) == 0 {
			return myBad("empty packet")
		}
		more := false
		switch b[0] {
		case 0x00:
			ok, err := mysess.DecodeOK(b, caps)
			if err != nil {
				return myBad("%v", err)
			}
			more = ok.Status&mysess.StatusMoreResultsExists != 0
		case 0xff:
			e, err := mysess.DecodeErr(b, caps)
			if err != nil {
				return myBad("%v", err)
			}
			r.errs = append(r.errs, e)
		default:
			n, _, used, _, err := mysess.ReadLenEncInt(b)
			if err != nil || used != len(b) || n == 0 || n > 64 {
				return myBad("column count packet % x", b)
			}
			types, err := c.readDefs(r, int(n))
			if err != nil {
				return err
			}
			for {
				p, err := c.read(r)
				if err != nil {
					return err
				}
				if mysess.IsResultSetEnd(p.Payload, caps) {
					switch {
					case p.Payload[0] == 0xff:
						e, err := mysess.DecodeErr(p.Payload, caps)
						if err != nil {
							return myBad("%v", err)
						}
						r.errs = append(r.errs, e)
					case caps&mysess.CapDeprecateEOF != 0:
						ok, err := mysess.DecodeOK(p.Payload, caps)
						if err != nil {
							return myBad("%v", err)
						}
						more = ok.Status&mysess.StatusMoreResultsExists != 0
					default:
						e, err := mysess.DecodeEOF(p.Payload, caps)
						if err != nil {
							return myBad("%v", err)
						}
						more = e.Status&mysess.StatusMoreResultsExists != 0
					}
					break
				}
				if binaryProto {
					_, err = mysess.DecodeBinaryRow(p.Payload, types)
				} else {
					_, err = mysess.DecodeTextRow(p.Payload, len(types))
				}
				if err != nil {
					return myBad("row: %v", err)
				}
			}
		}
		r.sets++
		if !more {
			return nil
		}
	}
}

// readPrepare reads the reply to COM_STMT_PREPARE.
func (c *myCli) readPrepare(r *myReply) error {
	p, err := c.read(r)
	if err != nil {
		return err
	}
	if len(p.Payload) > 0 && p.Payload[0] == 0xff {
		e, err := mysess.DecodeErr(p.Payload, c.s.Caps)
		if err != nil {
			return myBad("%v", err)
		}
		r.errs = append(r.errs, e)
		return nil
	}
	ok, err := mysess.DecodePrepareOK(p.Payload)
	if err != nil {
		return myBad("%v", err)
	}
	r.prepOK, r.stmtID, r.nparams = true, ok.StmtID, int(ok.Params)
	if _, err := c.readDefs(r, int(ok.Params)); err != nil {
		return err
	}
	_, err = c.readDefs(r, int(ok.Columns))
	return err
}

// readOne reads a one-packet reply (OK, ERR, the text of COM_STATISTICS, an authentication switch request).
func (c *myCli) readOne(r *myReply) error {
	p, err := c.read(r)
	if err != nil {
		return err
	}
	if len(p.Payload) > 0 && p.Payload[0] == 0xff {
		e, err := mysess.DecodeErr(p.Payload, c.s.Caps)
		if err != nil {
			return myBad("%v", err)
		}
		r.errs = append(r.errs, e)
	}
	return nil
}

// ---- the check -------------------------------------------------------------------------------------------------

// myExchange is one command and what is expected of it.
type myExchange struct {
	what     string // names the command in signatures
	payload  []byte
	read     string // result | result-binary | prepare | one
	behave   string
	rejected bool   // the reference verdict rejects the statement: the proxy answers with an error and forwards nothing
	either   bool   // not decided by the property: an error of the proxy (nothing forwarded) and forwarding are both accepted
	silent   []byte // a command without reply that was sent just before: the server received it first
	base     int    // with silent: the number of packets the server had received before the silent command was sent
	text     string
}

type myFwResult struct {
	vs         hx.Vs
	classes    map[string]bool
	nontrivial bool
	timeout    bool
	where      string
}

// myLive is a prepared statement as the client knows it.
type myLive struct {
	id      uint32
	nparams int
	text    string
}

func myParams(n int) []mysess.Param {
	out := make([]mysess.Param, n)
	for i := range out {
		switch i % 3 {
		case 0:
			out[i] = mysess.Param{Type: mysess.TypeLongLong, B: mysess.IntBytes(mysess.TypeLongLong, int64(i+1))}
		case 1:
			out[i] = mysess.Param{Type: mysess.TypeVarString, B: []byte(fmt.Sprintf("p%d", i))}
		default:
			out[i] = mysess.Param{Type: mysess.TypeNull, Null: true}
		}
	}
	return out
}

// runMyFwSession runs the session once.
func runMyFwSession(c MyFwCase) (res myFwResult) {
	res.classes = map[string]bool{}
	class := func(format string, args ...any) { res.classes[fmt.Sprintf(format, args...)] = true }
	var vs hx.Vs
	defer func() { res.vs = vs }()
	if len(c.Pool) == 0 || len(c.Steps) == 0 {
		return res
	}
	ev := evidence{classes: map[string]bool{}}
	p, ok := prepare(Case{Dialect: sqlgen.MySQL, Pool: c.Pool, Cfg: c.Cfg}, &vs, &ev)
	if !ok {
		return res
	}
	censor, err := loadCensor(&vs, p.fullYAML)
	if err != nil {
		if len(vs) == 0 {
			vs.Add("harness:config-rejected", "configuration whose rules load one by one is rejected: %v\n%s", err, p.fullYAML)
		}
		return res
	}
	defer censor.ReleaseAll()
	oracle := acracensor.NewAcraCensor() // second instance: the reference verdict (its correctness is TestVerdict's subject)
	if err := oracle.LoadConfiguration([]byte(p.fullYAML)); err != nil {
		vs.Add("harness:censor-config", "%v", err)
		return res
	}
	defer oracle.ReleaseAll()
	verdicts := map[string]bool{}
	admitted := func(text string) bool {
		if v, ok := verdicts[text]; ok {
			return v
		}
		v, ok := acraVerdict(&vs, oracle, text)
		if !ok {
			v = false
		}
		verdicts[text] = v
		return v
	}
	class("ignore_parse_error:%v", c.Cfg.IgnoreParseError)
	for _, h := range p.hs {
		class("handler:%s", h.kind)
	}
	caps := uint32(mysess.DefaultCaps)
	if c.DeprecateEOF {
		caps |= mysess.CapDeprecateEOF
		class("caps:deprecate-eof")
	} else {
		class("caps:eof-packets")
	}
	w := fix.TheWorld()
	db := &myFwDB{behave: "ok"}
	s, err := mysess.Start(mysess.Config{SchemaYAML: myFwSchema, KeyStore: w.KS, ClientID: w.Alice, Censor: censor, Timeout: myFwTimeout,
		ClientCaps: caps, DBHandler: db.serve})
	if err != nil {
		if errors.Is(err, mysess.ErrTimeout) {
			res.timeout, res.where = true, "connection phase"
			return res
		}
		vs.Add("harness:start", "%v", err)
		return res
	}
	defer s.Close()
	cli := &myCli{s: s}
	debug := os.Getenv("VERIF_DEBUG") != ""

	// ---- the database side: what the server received, judged by the reference verdict (1) ----
	judged := 0
	sqlNames := map[string]string{} // SQL-level prepared statements the server holds: name -> text
	dbSide := func() {
		recs := db.since(judged)
		for _, rc := range recs {
			judged++
			if rc.Auth {
				continue
			}
			switch rc.Cmd {
			case mysess.ComQuery, mysess.ComStmtPrepare:
				text := string(rc.Body)
				how := map[byte]string{mysess.ComQuery: "query", mysess.ComStmtPrepare: "prepare"}[rc.Cmd]
				if !admitted(text) {
					vs.Add("rejected-statement-reached-database:"+how, "the database received (packet %d, %s) the statement %q, which the firewall configuration rejects\n%s", rc.N, how, text, p.fullYAML)
					return
				}
				if rc.Cmd != mysess.ComQuery || rc.Behave == "err" {
					break
				}
				switch kind, name, inner := mySQLPrepForm(text); kind {
				case "prepare":
					if _, err := parseLikeCensor(text, false); err != nil {
						// a PREPARE acra's parser does not take (of a UNION, say) is a statement that cannot be parsed: it got
						// here because the configuration tolerates those, and with them whatever they hold
						class("sql-prepare:unparseable-and-tolerated (statement inside not judged)")
						delete(sqlNames, name)
						break
					}
					sqlNames[name] = inner
				case "deallocate":
					delete(sqlNames, name)
				case "execute":
					if inner, ok := sqlNames[name]; ok && !admitted(inner) {
						vs.Add("rejected-statement-executed:sql-execute", "the database executed (packet %d, %q) the statement %q prepared with PREPARE ... FROM, which the firewall configuration rejects\n%s", rc.N, text, inner, p.fullYAML)
						return
					}
				}
			case mysess.ComStmtExecute:
				if rc.Ran != "" && !admitted(rc.Ran) {
					vs.Add("rejected-statement-executed:stmt-execute", "the database executed (packet %d, COM_STMT_EXECUTE) the statement %q, which the firewall configuration rejects", rc.N, rc.Ran)
					return
				}
			case mysess.ComResetConn:
				if rc.Behave != "err" {
					sqlNames = map[string]string{}
				}
			case comChangeUser:
				if rc.Behave == "ok" || rc.Behave == "switch-ok" {
					sqlNames = map[string]string{}
				}
			}
		}
	}

	// ---- one exchange ----
	broken := false // the session is over (a violation was recorded or a deadline fired)
	lastRejected := false
	sawRejected, sawAdmittedAfter := false, false
	fail := func(sig, format string, args ...any) {
		// whatever went wrong: a rejected statement at the database explains it and is reported first
		time.Sleep(20 * time.Millisecond)
		dbSide()
		vs.Add(sig, format, args...)
		broken = true
	}
	ioFailure := func(x myExchange, r *myReply, err error) {
		broken = true
		if ps := s.Panics(); len(ps) > 0 {
			dbSide()
			vs.Add("handler-panic:"+hx.PanicFunc(ps[0]), "%s (%.200q) made the connection handler panic: %.1500s", x.what, x.text, ps[0])
			return
		}
		switch {
		case errors.Is(err, mysess.ErrTimeout):
			dbSide()
			res.timeout, res.where = true, fmt.Sprintf("%s (%.160q), read so far %s", x.what, x.text, r.shape())
		case errors.Is(err, errMyMalformed):
			fail("reply-malformed:"+x.what, "%s (%.200q): %v; packets %s", x.what, x.text, err, r.shape())
		default:
			time.Sleep(20 * time.Millisecond)
			fail("session-closed:"+x.what, "%s (%.200q) ended the session: %v; the proxy reported %q", x.what, x.text, err, s.ProxyErrors())
		}
	}
	// do runs one exchange and returns "" (session over), "rejected" (answered by the proxy) or "forwarded"
	do := func(x myExchange) (string, *myReply) {
		r := &myReply{}
		if broken {
			return "", r
		}
		base := db.count()
		if x.silent != nil {
			base = x.base
		}
		db.set(x.behave)
		if err := cli.send(x.payload); err != nil {
			ioFailure(x, r, err)
			return "", r
		}
		switch x.read {
		case "result":
			err = cli.readResult(r, false)
		case "result-binary":
			err = cli.readResult(r, true)
		case "prepare":
			err = cli.readPrepare(r)
		default:
			err = cli.readOne(r)
		}
		if debug {
			fmt.Printf("  %-16s rejected=%v either=%v db=%s %.100q -> %s markers %v err %v\n", x.what, x.rejected, x.either, x.behave, x.text, r.shape(), r.markers(), err)
		}
		if err != nil {
			ioFailure(x, r, err)
			return "", r
		}
		recs := db.since(base)
		dbSide()
		if len(vs) > 0 {
			broken = true
			return "", r
		}
		if x.silent != nil {
			if len(recs) == 0 || recs[0].Auth || !bytes.Equal(append([]byte{recs[0].Cmd}, recs[0].Body...), x.silent) {
				fail("admitted-not-forwarded:"+x.what+"-silent", "the command without reply sent before %s (% x) did not reach the database: it received %d packets since", x.what, x.silent, len(recs))
				return "", r
			}
			recs = recs[1:]
		}
		if r.proxyError() {
			// the proxy answered by itself
			if len(recs) > 0 {
				fail("error-and-forwarded:"+x.what, "%s (%.200q) was answered with an error by the proxy and forwarded to the database as well", x.what, x.text)
				return "", r
			}
			if !x.rejected && !x.either {
				fail("admitted-not-forwarded:"+x.what, "%s (%.200q) is admitted by the firewall configuration but the proxy answered %q and forwarded nothing\n%s", x.what, x.text, r.errs[0].Message, p.fullYAML)
				return "", r
			}
			if r.seqBad != "" {
				fail("rejected-reply-sequence:"+x.what, "%s (%.200q) is rejected; the error packet does not continue the sequence of the command, a client drops the connection as out of sync: %s", x.what, x.text, r.seqBad)
				return "", r
			}
			return "rejected", r
		}
		// the reply comes from the database (or from nowhere)
		if x.rejected {
			// the database-side check above found no rejected statement: the reply belongs to something else
			if len(r.errs) == 0 {
				fail("rejected-without-error:"+x.what, "%s (%.200q) is rejected by the firewall configuration but the client got %s", x.what, x.text, r.shape())
			} else {
				fail("rejected-reply-shape:"+x.what, "%s (%.200q) is rejected by the firewall configuration; the client got %s (markers %v) instead of a single error packet of the proxy", x.what, x.text, r.shape(), r.markers())
			}
			return "", r
		}
		if len(recs) != 1 || recs[0].Auth {
			fail("database-packet-count:"+x.what, "%s (%.200q): the database received %d packets for it, the client got %s (markers %v)", x.what, x.text, len(recs), r.shape(), r.markers())
			return "", r
		}
		if got := append([]byte{recs[0].Cmd}, recs[0].Body...); !bytes.Equal(got, x.payload) {
			if x.text == "" || recs[0].Cmd != x.payload[0] || !mySameStatement(string(recs[0].Body), x.text) {
				fail("admitted-statement-changed:"+x.what, "%s: the client sent %.300q, the database received %.300q", x.what, x.payload, got)
				return "", r
			}
			class("forwarded:re-spelled")
		}
		ms := r.markers()
		if len(ms) == 0 && x.behave != "empty" {
			fail("reply-misaligned:"+x.what, "%s (%.200q): the reply %s carries no marker of the scripted server (the database's reply to this command has marker %d)", x.what, x.text, r.shape(), recs[0].N)
			return "", r
		}
		for _, m := range ms {
			if m != recs[0].N {
				fail("reply-misaligned:"+x.what, "%s (%.200q): the client got the reply to the database's packet %d, its command is packet %d: replies no longer pair with requests", x.what, x.text, m, recs[0].N)
				return "", r
			}
		}
		if r.seqBad != "" {
			fail("reply-sequence:"+x.what, "%s (%.200q): %s", x.what, x.text, r.seqBad)
			return "", r
		}
		return "forwarded", r
	}
	// statement runs an exchange that carries a statement and keeps the books of the classes
	statement := func(x myExchange, proto string) (string, *myReply) {
		out, r := do(x)
		if out == "" {
			return out, r
		}
		class("verdict:%s/%s", proto, map[bool]string{true: "rejected", false: "admitted"}[out == "rejected"])
		if out == "rejected" {
			sawRejected, lastRejected = true, true
		} else {
			if sawRejected {
				sawAdmittedAfter = true
				class("seq:rejected-then-admitted")
			}
			if lastRejected {
				class("seq:rejected-directly-followed-by-admitted")
			}
			lastRejected = false
			class("db:%s", x.behave)
			if len(r.errs) > 0 && x.behave == "rows-err" {
				class("db:error-in-the-middle-of-a-result-set")
			}
		}
		return out, r
	}

	var live []myLive // statements the client holds (the server may have dropped them: reset / change user)
	lastEvent := ""   // the protocol event directly before this step
	lastPrepRejected := false
	var lastPrepText string // the statement of the last COM_STMT_PREPARE the client sent
	stmtAttrs := func(text string, st MyStmt) {
		if st.Corrupt != 0 {
			class("stmt:corrupted")
		}
		if st.Wrap != "" {
			class("stmt:%s", st.Wrap)
		}
		if strings.Contains(text, "/*!") {
			class("stmt:executable-comment")
			if strings.HasPrefix(strings.TrimSpace(text), "/*!") {
				class("stmt:executable-comment-at-the-front-margin")
			}
			if strings.HasSuffix(strings.TrimSpace(text), "*/") {
				class("stmt:executable-comment-at-the-back-margin")
			}
		}
		if _, err := parseLikeCensor(text, false); err != nil {
			class("stmt:unparseable/%s", map[bool]string{true: "admitted", false: "rejected"}[admitted(text)])
		}
	}
	afterEvent := func(rejected bool) {
		if lastEvent == "" {
			return
		}
		v := map[bool]string{true: "rejected", false: "admitted"}[rejected]
		class("seq:%s-then-%s", lastEvent, v)
	}
	execute := func(id uint32, nparams int, first bool, behave, what, text string, either bool) (string, *myReply) {
		e := mysess.Execute{StmtID: id, NewParams: first, Params: myParams(nparams)}
		return do(myExchange{what: what, payload: e.Encode(), read: "result-binary", behave: behave, text: text, either: either})
	}

	// executeRejected: an execution that stands for a statement the firewall rejected (direct execution after a rejected prepare)
	executeRejected := func(id uint32, nparams int, behave, what, text string) (string, *myReply) {
		e := mysess.Execute{StmtID: id, NewParams: true, Params: myParams(nparams)}
		return do(myExchange{what: what, payload: e.Encode(), read: "result-binary", behave: behave, text: text, rejected: true})
	}

	// COM_CHANGE_USER answered with an authentication switch request: the client's next packet is authentication
	// data, not a command
	changeUserSwitch := func(st MyFwStep, payload []byte) {
		x := myExchange{what: "change-user-switch", payload: payload, behave: st.DB, text: fmt.Sprintf("authentication answer % x", []byte(st.Auth))}
		r := &myReply{}
		base := db.count()
		db.set(st.DB)
		if err := cli.send(payload); err != nil {
			ioFailure(x, r, err)
			return
		}
		pk, err := cli.read(r)
		if err != nil {
			ioFailure(x, r, err)
			return
		}
		if len(pk.Payload) == 0 || pk.Payload[0] != 0xfe || r.seqBad != "" {
			fail("reply-misaligned:change-user", "COM_CHANGE_USER: the server sent an authentication switch request, the client got %s %s", r.shape(), r.seqBad)
			return
		}
		seq := cli.next
		cli.next = seq + 1
		if err := s.SendPacket(seq, st.Auth); err != nil {
			ioFailure(x, r, err)
			return
		}
		r2 := &myReply{}
		err = cli.readOne(r2)
		if debug {
			fmt.Printf("  change-user-switch db=%s auth=% x -> %s markers %v err %v\n", st.DB, []byte(st.Auth), r2.shape(), r2.markers(), err)
		}
		if err != nil {
			ioFailure(x, r2, err)
			return
		}
		recs := db.since(base)
		dbSide()
		if len(vs) > 0 {
			broken = true
			return
		}
		if r2.proxyError() {
			fail("authentication-answer-taken-for-a-command:change-user", "the client's answer to the authentication switch request after COM_CHANGE_USER (% x) was answered by the proxy itself with %q; the database received %d packets", []byte(st.Auth), r2.errs[0].Message, len(recs))
			return
		}
		if len(recs) != 2 || !recs[1].Auth || !bytes.Equal(recs[1].Body, st.Auth) || !bytes.Equal(append([]byte{recs[0].Cmd}, recs[0].Body...), payload) {
			fail("database-packet-count:change-user-switch", "COM_CHANGE_USER with authentication switch: the database received %d packets (%+v)", len(recs), recs)
			return
		}
		for _, m := range r2.markers() {
			if m != recs[1].N {
				fail("reply-misaligned:change-user-switch", "the client got the reply to the database's packet %d, its authentication answer is packet %d", m, recs[1].N)
				return
			}
		}
		if len(r2.markers()) == 0 || r2.seqBad != "" {
			fail("reply-misaligned:change-user-switch", "the reply to the authentication answer is %s %s", r2.shape(), r2.seqBad)
		}
	}

	for si, st := range c.Steps {
		if broken {
			break
		}
		if debug {
			fmt.Printf("STEP %d %s %s\n", si, st.Kind, st.Event)
		}
		switch st.Kind {
		case "query":
			text := myStmtText(p.pool, st.Stmt)
			rej := !admitted(text)
			stmtAttrs(text, st.Stmt)
			afterEvent(rej)
			statement(myExchange{what: "query", payload: append([]byte{mysess.ComQuery}, text...), read: "result", behave: st.DB, rejected: rej, text: text}, "query")
			lastEvent = ""
		case "stmt":
			text := myStmtText(p.pool, st.Stmt)
			rej := !admitted(text)
			stmtAttrs(text, st.Stmt)
			afterEvent(rej)
			out, r := statement(myExchange{what: "prepare", payload: append([]byte{mysess.ComStmtPrepare}, text...), read: "prepare", behave: st.DB, rejected: rej, text: text}, "prepare")
			lastEvent = ""
			if out == "" {
				break
			}
			lastPrepRejected, lastPrepText = out == "rejected", text
			if out == "rejected" || !r.prepOK {
				if out == "rejected" {
					class("prepare:rejected")
				} else {
					class("prepare:refused-by-database")
				}
				if st.Direct && len(st.Execs) > 0 {
					// a pipelining client (mariadb_stmt_execute_direct) has sent the execution already. Which statement the
					// database runs then is not the property's business as long as it is not a rejected one.
					class("seq:%s-prepare-then-execute-direct", map[bool]string{true: "rejected", false: "refused"}[out == "rejected"])
					n := myPlaceholderCount(text)
					if n != myASTPlaceholders(text) {
						class("direct:placeholder-count-ambiguous (not sent)")
						break
					}
					if out == "rejected" {
						// for the client the COM_STMT_PREPARE failed: MariaDB runs id -1 only "if no COM_STMT_PREPARE has failed
						// since", so the execution of the rejected statement is answered with an error and nothing is forwarded
						// (what the database would run instead - the statement prepared before - is not what the client asked for)
						executeRejected(myDirectStmtID, n, st.Execs[0], "execute-direct", text)
					} else {
						execute(myDirectStmtID, n, true, st.Execs[0], "execute-direct", text, true)
					}
				} else if out == "rejected" && len(live) > 0 {
					// the statements prepared before are still there
					lv := live[modIdx(st.Stmt.From+si, len(live))]
					class("seq:rejected-prepare-then-execute")
					execute(lv.id, lv.nparams, true, "rows", "execute", lv.text, false)
				}
				break
			}
			lv := myLive{id: r.stmtID, nparams: r.nparams, text: text}
			live = append(live, lv)
			class("prepare:ok/params:%s", map[bool]string{true: "some", false: "none"}[lv.nparams > 0])
			for i, eb := range st.Execs {
				id, what := lv.id, "execute"
				if i == 0 && st.Direct {
					if lv.nparams != myASTPlaceholders(text) {
						class("direct:placeholder-count-ambiguous (not sent)")
						continue
					}
					id, what = myDirectStmtID, "execute-direct"
					class("execute:direct")
				}
				// a re-execution does not repeat the parameter types - unless the first one went by the id -1: acra keeps
				// the types by the id of the packet and closes the session when an execution without types comes for an id
				// it has none for (proposed open finding direct-execute-then-reexecute; VERIF_C05_DIRECT_REEXEC=1 generates it)
				withTypes := i == 0 || (i == 1 && st.Direct && os.Getenv("VERIF_C05_DIRECT_REEXEC") == "")
				if !withTypes {
					class("execute:again-without-types")
				}
				if out, _ := execute(id, lv.nparams, withTypes, eb, what, text, false); out == "forwarded" {
					class("db-execute:%s", eb)
				}
			}
			if st.Reset {
				class("stmt:reset")
				do(myExchange{what: "stmt-reset", payload: mysess.StmtIDCommand(mysess.ComStmtReset, lv.id), read: "one", behave: "ok"})
			}
			if st.Close && !broken {
				class("stmt:close")
				closeCmd := mysess.StmtIDCommand(mysess.ComStmtClose, lv.id)
				base := db.count()
				db.set("ok")
				if err := cli.send(closeCmd); err != nil {
					ioFailure(myExchange{what: "stmt-close"}, &myReply{}, err)
					break
				}
				live = live[:len(live)-1]
				do(myExchange{what: "ping", payload: []byte{mysess.ComPing}, read: "one", behave: "ok", silent: closeCmd, base: base})
			}
		case "sqlprep":
			inner := myBaseText(p.pool, st.Stmt)
			name := fmt.Sprintf("s%d", si)
			kw := func(s string) string {
				if st.Upper {
					return strings.ToUpper(s)
				}
				return s
			}
			text := kw("prepare ") + name + kw(" from ") + myQuote(inner)
			innerRej := !admitted(inner)
			rej := !admitted(text)
			stmtAttrs(inner, st.Stmt)
			afterEvent(rej || innerRej)
			class("sql-prepare:outer-%s/inner-%s", map[bool]string{true: "rejected", false: "admitted"}[rej], map[bool]string{true: "rejected", false: "admitted"}[innerRej])
			// a PREPARE whose statement is rejected: the statement itself must never be executed; whether the PREPARE is
			// refused already is left open
			out, _ := statement(myExchange{what: "sql-prepare", payload: append([]byte{mysess.ComQuery}, text...), read: "result", behave: st.DB, rejected: rej, either: innerRej, text: text}, "sql-prepare")
			lastEvent = ""
			if out == "" {
				break
			}
			if st.Exec {
				ex := kw("execute ") + name
				if n := myPlaceholderCount(inner); n > 0 {
					var vars []string
					for i := 0; i < n; i++ {
						vars = append(vars, fmt.Sprintf("@p%d", i))
					}
					ex += kw(" using ") + strings.Join(vars, ", ")
				}
				if innerRej {
					class("seq:sql-prepare-of-rejected-statement-then-execute")
				}
				statement(myExchange{what: "sql-execute", payload: append([]byte{mysess.ComQuery}, ex...), read: "result", behave: genAnswerFor(si, st), rejected: !admitted(ex), text: ex}, "sql-execute")
			}
			if st.Dealloc && !broken {
				de := kw("deallocate prepare ") + name
				statement(myExchange{what: "sql-deallocate", payload: append([]byte{mysess.ComQuery}, de...), read: "result", behave: "ok", rejected: !admitted(de), text: de}, "sql-deallocate")
			}
		case "event":
			class("event:%s/%s", st.Event, st.DB)
			if lastRejected {
				class("seq:rejected-then-event")
			}
			ev := st.Event
			switch st.Event {
			case "ping":
				do(myExchange{what: "ping", payload: []byte{mysess.ComPing}, read: "one", behave: st.DB})
			case "init-db":
				do(myExchange{what: "init-db", payload: append([]byte{mysess.ComInitDB}, "verif2"...), read: "one", behave: st.DB})
			case "statistics":
				do(myExchange{what: "statistics", payload: []byte{mysess.ComStatistics}, read: "one", behave: "ok"})
			case "set-option":
				do(myExchange{what: "set-option", payload: []byte{mysess.ComSetOption, 0, 0}, read: "one", behave: st.DB})
			case "reset-connection":
				out, r := do(myExchange{what: "reset-connection", payload: []byte{mysess.ComResetConn}, read: "one", behave: st.DB})
				if out == "forwarded" && len(r.errs) == 0 {
					live = nil
				}
			case "change-user":
				payload := append([]byte{comChangeUser}, "other\x00"...)
				payload = append(payload, 20)
				payload = append(payload, bytes.Repeat([]byte{0x6b}, 20)...)
				payload = append(payload, "verif\x00"...)
				payload = append(payload, 45, 0)
				payload = append(payload, myAuthPlugin...)
				payload = append(payload, 0)
				if !strings.HasPrefix(st.DB, "switch") {
					out, r := do(myExchange{what: "change-user", payload: payload, read: "one", behave: st.DB})
					if out == "forwarded" && len(r.errs) == 0 {
						live = nil
					}
					if st.DB == "err" {
						ev = "change-user-failed"
					}
					break
				}
				ev = map[string]string{"switch-ok": "change-user-switch", "switch-err": "change-user-switch-failed"}[st.DB]
				if len(st.Auth) > 0 {
					class("auth-answer:first-byte-0x%02x", st.Auth[0])
				} else {
					class("auth-answer:empty")
				}
				changeUserSwitch(st, payload)
				if !broken && st.DB == "switch-ok" {
					live = nil
				}
			case "execute-unknown":
				execute(myUnknownStmtID, 0, true, st.DB, "execute-unknown", "", false)
			case "execute-direct":
				// the statement prepared last, as far as the client knows; without one the database answers with an error
				if lastPrepText == "" {
					execute(myDirectStmtID, 0, true, st.DB, "execute-direct", "", false)
					class("execute-direct:nothing-prepared")
					break
				}
				n := myPlaceholderCount(lastPrepText)
				if n != myASTPlaceholders(lastPrepText) {
					class("direct:placeholder-count-ambiguous (not sent)")
					break
				}
				if lastPrepRejected {
					class("seq:rejected-prepare-then-execute-direct")
				}
				if lastPrepRejected {
					// whatever commands came in between: the client's last COM_STMT_PREPARE failed (see above)
					executeRejected(myDirectStmtID, n, st.DB, "execute-direct", lastPrepText)
				} else {
					execute(myDirectStmtID, n, true, st.DB, "execute-direct", lastPrepText, false)
				}
			case "execute-old":
				if len(live) == 0 {
					class("execute-old:nothing-prepared")
					execute(myUnknownStmtID+1, 0, true, st.DB, "execute-unknown", "", false)
					break
				}
				lv := live[modIdx(st.Pick, len(live))]
				if lastPrepRejected {
					class("seq:rejected-prepare-then-execute")
				}
				if out, _ := execute(lv.id, lv.nparams, true, st.DB, "execute", lv.text, false); out == "forwarded" {
					class("execute:old-statement")
				}
			case "close-unknown":
				closeCmd := mysess.StmtIDCommand(mysess.ComStmtClose, myUnknownStmtID)
				base := db.count()
				db.set("ok")
				if err := cli.send(closeCmd); err != nil {
					ioFailure(myExchange{what: "stmt-close"}, &myReply{}, err)
					break
				}
				do(myExchange{what: "ping", payload: []byte{mysess.ComPing}, read: "one", behave: "ok", silent: closeCmd, base: base})
			}
			lastEvent = ev
		}
	}
	// a last exchange: everything the proxy forwarded before it has reached the server when its reply arrives
	if !broken {
		do(myExchange{what: "final-ping", payload: []byte{mysess.ComPing}, read: "one", behave: "ok"})
	}
	if !broken {
		dbSide()
		if ps := s.Panics(); len(ps) > 0 {
			vs.Add("handler-panic:"+hx.PanicFunc(ps[0]), "a connection handler panicked during the session: %.1500s", ps[0])
		}
	}
	if sawRejected {
		class("session-with-rejection")
	}
	res.nontrivial = sawAdmittedAfter
	return res
}

// genAnswerFor picks the server's answer to the EXECUTE of a sqlprep step (derived from the step, not drawn: the
// case stays small).
func genAnswerFor(si int, st MyFwStep) string {
	return myStmtAnswers[(si+len(st.Stmt.Var)+st.Stmt.From)%len(myStmtAnswers)]
}

// myASTPlaceholders counts the placeholders acra's parser sees (-1: it does not parse the statement). MariaDB's
// direct execution is only generated for statements on whose parameter count this check's lexer and acra's parser
// agree (a generator precondition, not an oracle).
func myASTPlaceholders(text string) (n int) {
	st, err := parseStrict(text)
	if err != nil {
		return -1
	}
	defer func() {
		if recover() != nil {
			n = -1
		}
	}()
	_ = sqlparser.Walk(func(node sqlparser.SQLNode) (bool, error) {
		if v, ok := node.(*sqlparser.SQLVal); ok && v.Type == sqlparser.ValArg {
			n++
		}
		return true, nil
	}, st)
	return n
}

// myFwReplayHere: saved MySQL sessions are replayed by the group that runs them (and by `./check --replay`), not by
// every group of the MySQL dialect.
func myFwReplayHere() bool {
	switch os.Getenv("VERIF_GROUP") {
	case "", "replay", "mysql-sessions":
		return dialectOfThisProcess(sqlgen.MySQL)
	}
	return false
}

// CheckMyFwSession is layer (d). A deadline that fires is re-tried once: twice in a row means a reply never came (a
// violation: the session is wedged), once is inconclusive.
func CheckMyFwSession(c MyFwCase) (vs hx.Vs, classes map[string]bool, nontrivial bool) {
	sqlgen.SetDialect(sqlgen.MySQL)
	r := runMyFwSession(c)
	if !r.timeout {
		return r.vs, r.classes, r.nontrivial
	}
	r2 := runMyFwSession(c)
	if !r2.timeout {
		R.Note("inconclusive: a MySQL session deadline fired once and not on re-run (%s)", r.where)
		r2.classes["inconclusive:deadline-once"] = true
		return r2.vs, r2.classes, r2.nontrivial
	}
	vs = append(vs, r2.vs...)
	vs.Add("no-reply", "no reply within %v, twice: %s", myFwTimeout, r2.where)
	return vs, r2.classes, r2.nontrivial
}

func TestFirewallSessionsMySQL(t *testing.T) {
	if !dialectOfThisProcess(sqlgen.MySQL) {
		t.Skip("MySQL sessions run in the MySQL groups")
	}
	R.Rule("TestFirewallSessionsMySQL", "a firewall configuration from the rule generator of TestVerdict (pool of 1-4 MySQL statements; chain of 1-5 handlers allow / deny / allowall / denyall / query_ignore with queries, tables and patterns derived from the pool; ignore_parse_error on / off; rendered to YAML and loaded) + a session of 2-10 steps through acra's real MySQL proxy (internal/mysess) against a scripted MySQL server, with / without CLIENT_DEPRECATE_EOF. Steps: a statement (a pool statement, re-formatted, corrupted into an unparseable text, with its tail or the whole of it in a MySQL executable comment /*! */ or /*!50000 */ - also at the margins -, or followed by `; <second statement>`) sent as COM_QUERY, or as COM_STMT_PREPARE [+ 0-2 COM_STMT_EXECUTE, the later ones without parameter types; the first one optionally with MariaDB's statement id -1, sent even when the PREPARE failed, as a pipelining client does; COM_STMT_RESET; COM_STMT_CLOSE], or quoted in the SQL syntax PREPARE s FROM '...' [+ EXECUTE s [USING @p..], DEALLOCATE PREPARE s]; or a protocol event: COM_PING, COM_INIT_DB, COM_STATISTICS, COM_SET_OPTION, COM_RESET_CONNECTION, COM_CHANGE_USER answered with OK / ERR / an authentication switch request followed by OK / ERR (the client's answer = 0, 20 or 32 generated bytes whose first byte is often a command byte), COM_STMT_EXECUTE of an unknown id / of id -1 / of a statement prepared earlier, COM_STMT_CLOSE of an unknown id. The server answers as the step says (OK, ERR, result set, ERR in the middle of a result set, empty result set, two result sets) and puts the number of the packet it answers into every reply. Oracle, from the server's log and the client's packets: (1) no COM_QUERY / COM_STMT_PREPARE text the server received is rejected by the reference verdict (a second censor instance loaded from the same YAML - the verdict itself is TestVerdict's subject), no COM_STMT_EXECUTE ran such a statement, no EXECUTE s ran a statement quoted in a (parseable) PREPARE that the verdict rejects; (2) a rejected statement is answered with exactly one ERR packet of the proxy, numbered after the client's packet; (3) an admitted command arrives once, byte-identical (or re-serialised to the same statement); (4) every reply the client reads carries the number of the server packet that holds its own command; (5) no handler panic, no session closed, no reply missing (a deadline that fires twice). Non-trivial = a rejected statement followed by an admitted one that is forwarded and answered")
	hx.Checks(150, 4000)
	rapid.Check(t, func(rt *rapid.T) {
		c := genMyFwCase(rt)
		vs, classes, nt := CheckMyFwSession(c)
		R.Seen("TestFirewallSessionsMySQL", c, nt, sortedKeys(classes)...)
		R.Report(rt, "TestFirewallSessionsMySQL", c, vs)
	})
}
