package c05

import (
	"fmt"
	"testing"

	"pgregory.net/rapid"
	"verif/internal/hx"
)

func TestProbe(t *testing.T) {
	sigs := map[string]int{}
	first := map[string]string{}
	classes := map[string]int{}
	n := 0
	hx.Checks(1500, 1500)
	rapid.Check(t, func(rt *rapid.T) {
		c := genCase(rt)
		vs, ev := CheckVerdict(c)
		n++
		for k := range ev.classes {
			classes[k]++
		}
		for _, v := range vs {
			sigs[v.Sig]++
			if first[v.Sig] == "" {
				first[v.Sig] = v.Msg
			}
		}
	})
	fmt.Println("cases", n)
	for _, k := range sortedKeysInt(classes) {
		fmt.Printf("  class %-60s %d\n", k, classes[k])
	}
	for _, k := range sortedKeysInt(sigs) {
		fmt.Printf("SIG %-60s %d\n    %.600s\n", k, sigs[k], first[k])
	}
}

func sortedKeysInt(m map[string]int) []string {
	b := map[string]bool{}
	for k := range m {
		b[k] = true
	}
	return sortedKeys(b)
}
