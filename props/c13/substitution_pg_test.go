package c13

import (
	"context"
	"encoding/json"
	"fmt"
	"sort"
	"strings"
	"testing"

	pg_query "github.com/cossacklabs/pg_query_go/v5"
	"pgregory.net/rapid"

	decryptor "github.com/cossacklabs/acra/decryptor/base"
	"github.com/cossacklabs/acra/encryptor/base/config"
	encpg "github.com/cossacklabs/acra/encryptor/postgresql"

	"verif/internal/hx"
)

// PGSubCase is one PostgreSQL INSERT / UPDATE for the PostgreSQL QueryDataEncryptor, which parses
// with pg_query, substitutes the literals of protected columns in the tree and deparses the tree.
// Oracle 5: the emitted text parses (pg_query) to the tree of the statement received, except below
// the value nodes that sit at positions of protected columns (VALUES item, SET item, ON CONFLICT
// DO UPDATE SET item); an unchanged statement is forwarded as its original text.
type PGSubCase struct {
	Table      string      `json:"table"`
	Form       string      `json:"form"` // insert-cols | insert-nocols | update
	Cols       []string    `json:"cols,omitempty"`
	Rows       [][]string  `json:"rows"`
	OnConflict [][2]string `json:"on_conflict,omitempty"`
	Where      string      `json:"where,omitempty"`
	Returning  string      `json:"returning,omitempty"`
	Tag        string      `json:"tag"`
}

func (c PGSubCase) assemble() string {
	var b strings.Builder
	rows := make([]string, len(c.Rows))
	for i, r := range c.Rows {
		rows[i] = "(" + strings.Join(r, ", ") + ")"
	}
	switch c.Form {
	case "insert-cols":
		fmt.Fprintf(&b, "INSERT INTO %s (%s) VALUES %s", c.Table, strings.Join(c.Cols, ", "), strings.Join(rows, ", "))
	case "insert-nocols":
		fmt.Fprintf(&b, "INSERT INTO %s VALUES %s", c.Table, strings.Join(rows, ", "))
	default:
		parts := make([]string, len(c.Cols))
		for i, col := range c.Cols {
			parts[i] = col + " = " + c.Rows[0][i]
		}
		fmt.Fprintf(&b, "UPDATE %s SET %s", c.Table, strings.Join(parts, ", "))
		if c.Where != "" {
			b.WriteString(" WHERE " + c.Where)
		}
	}
	if len(c.OnConflict) > 0 && c.Form != "update" {
		parts := make([]string, len(c.OnConflict))
		for i, a := range c.OnConflict {
			parts[i] = a[0] + " = " + a[1]
		}
		b.WriteString(" ON CONFLICT (id) DO UPDATE SET " + strings.Join(parts, ", "))
	}
	if c.Returning != "" {
		b.WriteString(" RETURNING " + c.Returning)
	}
	return b.String()
}

// pgTree parses a statement and returns its tree as generic JSON without source positions.
func pgTree(sql string) (any, error) {
	js, err := pg_query.ParseToJSON(sql)
	if err != nil {
		return nil, err
	}
	var v any
	if err := json.Unmarshal([]byte(js), &v); err != nil {
		return nil, err
	}
	return stripLocations(v), nil
}

func stripLocations(v any) any {
	switch x := v.(type) {
	case map[string]any:
		for _, k := range []string{"location", "stmt_len", "stmt_location"} {
			delete(x, k)
		}
		for k, e := range x {
			x[k] = stripLocations(e)
		}
	case []any:
		for i, e := range x {
			x[i] = stripLocations(e)
		}
	}
	return v
}

func dig(v any, path ...any) any {
	for _, p := range path {
		switch k := p.(type) {
		case string:
			m, ok := v.(map[string]any)
			if !ok {
				return nil
			}
			v = m[k]
		case int:
			l, ok := v.([]any)
			if !ok || k >= len(l) {
				return nil
			}
			v = l[k]
		}
	}
	return v
}

func pgBare(s string) string { return strings.ToLower(strings.Trim(s, `"`)) }

// pgProtectedPaths lists the JSON paths (as strings) below which the encryptor may change the tree.
func pgProtectedPaths(tree any) map[string]bool {
	out := map[string]bool{}
	stmt := dig(tree, "stmts", 0, "stmt")
	table := func(rel any) string {
		name, _ := dig(rel, "relname").(string)
		return strings.ToLower(name)
	}
	setItems := func(list any, prefix string, enc map[string]bool) {
		items, _ := list.([]any)
		for i := range items {
			name, _ := dig(items[i], "ResTarget", "name").(string)
			if enc[strings.ToLower(name)] {
				out[fmt.Sprintf("%s/%d/ResTarget/val", prefix, i)] = true
			}
		}
	}
	if ins := dig(stmt, "InsertStmt"); ins != nil {
		t := table(dig(ins, "relation"))
		enc := encCols[t]
		if enc == nil {
			return out
		}
		var cols []string
		if cl, ok := dig(ins, "cols").([]any); ok {
			for i := range cl {
				n, _ := dig(cl[i], "ResTarget", "name").(string)
				cols = append(cols, strings.ToLower(n))
			}
		} else {
			cols = schemaCols[t]
		}
		if lists, ok := dig(ins, "selectStmt", "SelectStmt", "valuesLists").([]any); ok {
			for r := range lists {
				items, _ := dig(lists[r], "List", "items").([]any)
				for j := range items {
					if j < len(cols) && enc[cols[j]] {
						out[fmt.Sprintf("/stmts/0/stmt/InsertStmt/selectStmt/SelectStmt/valuesLists/%d/List/items/%d", r, j)] = true
					}
				}
			}
		}
		setItems(dig(ins, "onConflictClause", "targetList"), "/stmts/0/stmt/InsertStmt/onConflictClause/targetList", enc)
	}
	if upd := dig(stmt, "UpdateStmt"); upd != nil {
		if enc := encCols[table(dig(upd, "relation"))]; enc != nil {
			setItems(dig(upd, "targetList"), "/stmts/0/stmt/UpdateStmt/targetList", enc)
		}
	}
	return out
}

// pgDiff returns the first difference outside the allowed paths.
func pgDiff(a, b any, path string, allowed map[string]bool) (string, string, bool) {
	if allowed[path] {
		return "", "", false
	}
	switch x := a.(type) {
	case map[string]any:
		y, ok := b.(map[string]any)
		if !ok {
			return path, fmt.Sprintf("%s: %s became %s", path, short(a), short(b)), true
		}
		keys := map[string]bool{}
		for k := range x {
			keys[k] = true
		}
		for k := range y {
			keys[k] = true
		}
		sorted := make([]string, 0, len(keys))
		for k := range keys {
			sorted = append(sorted, k)
		}
		sort.Strings(sorted)
		for _, k := range sorted {
			av, aok := x[k]
			bv, bok := y[k]
			if aok != bok {
				return path + "/" + k, fmt.Sprintf("%s/%s: %s became %s", path, k, short(av), short(bv)), true
			}
			if p, m, d := pgDiff(av, bv, path+"/"+k, allowed); d {
				return p, m, true
			}
		}
		return "", "", false
	case []any:
		y, ok := b.([]any)
		if !ok || len(x) != len(y) {
			return path, fmt.Sprintf("%s: %s became %s", path, short(a), short(b)), true
		}
		for i := range x {
			if p, m, d := pgDiff(x[i], y[i], fmt.Sprintf("%s/%d", path, i), allowed); d {
				return p, m, true
			}
		}
		return "", "", false
	}
	if fmt.Sprint(a) != fmt.Sprint(b) {
		return path, fmt.Sprintf("%s: %s became %s", path, short(a), short(b)), true
	}
	return "", "", false
}

func short(v any) string {
	if v == nil {
		return "<absent>"
	}
	js, _ := json.Marshal(v)
	if len(js) > 160 {
		return string(js[:160]) + "..."
	}
	return string(js)
}

// pathClass turns a JSON path into a signature: indexes dropped, only the last three steps kept.
func pathClass(p string) string {
	var parts []string
	for _, s := range strings.Split(p, "/") {
		if s == "" || (s[0] >= '0' && s[0] <= '9') || s == "stmts" || s == "stmt" {
			continue
		}
		parts = append(parts, s)
	}
	if len(parts) > 3 {
		parts = parts[len(parts)-3:]
	}
	return strings.Join(parts, "/")
}

var pgSchemaStore *config.MapTableSchemaStore

type pgSubInfo struct {
	changed, errored bool
	protected        int
	nonLiteralProt   bool // a protected column is set to something that is not a literal (placeholder, DEFAULT, expression)
}

// CheckSubstitutionPG is oracle 5.
func CheckSubstitutionPG(c PGSubCase) (vs hx.Vs, info pgSubInfo) {
	if pgSchemaStore == nil {
		st, err := config.MapTableSchemaStoreFromConfig([]byte(subSchema), config.UsePostgreSQL)
		if err != nil {
			vs.Add("harness:schema", "%v", err)
			return vs, info
		}
		pgSchemaStore = st
	}
	sql := c.assemble()
	t0, err := pgTree(sql)
	if err != nil {
		return vs, info // outside the domain: PostgreSQL's own parser rejects the generated text
	}
	allowed := pgProtectedPaths(t0)
	info.protected = len(allowed)
	for p := range allowed {
		var steps []any
		for _, s := range strings.Split(strings.TrimPrefix(p, "/"), "/") {
			if s[0] >= '0' && s[0] <= '9' {
				n := 0
				fmt.Sscan(s, &n)
				steps = append(steps, n)
			} else {
				steps = append(steps, s)
			}
		}
		node := dig(t0, steps...)
		if dig(node, "A_Const") == nil && dig(node, "TypeCast", "arg", "A_Const") == nil {
			info.nonLiteralProt = true
		}
	}
	qe, err := encpg.NewQueryEncryptor(pgSchemaStore, stubEncryptor{binary: c.Tag == "binary"})
	if err != nil {
		vs.Add("harness:encryptor", "%v", err)
		return vs, info
	}
	ctx := decryptor.SetAccessContextToContext(context.Background(), decryptor.NewAccessContext(decryptor.WithClientID([]byte("client"))))
	ctx = decryptor.SetClientSessionToContext(ctx, &session{data: map[string]interface{}{}})
	var out encpg.OnQueryObject
	var changed bool
	if hx.Guard(&vs, "pg.QueryDataEncryptor.OnQuery", func() {
		out, changed, err = qe.OnQuery(ctx, encpg.NewOnQueryObjectFromQuery(sql))
	}) {
		return vs, info
	}
	if err != nil {
		info.errored = true
		return vs, info
	}
	info.changed = changed
	var emitted string
	var qerr error
	if hx.Guard(&vs, "pg.OnQueryObject.Query", func() { emitted, qerr = out.Query() }) {
		return vs, info
	}
	if qerr != nil {
		vs.Add("substituted-deparse-fails:pg", "the rewritten tree cannot be deparsed (%v): %q", qerr, sql)
		return vs, info
	}
	if !changed {
		if emitted != sql {
			vs.Add("unchanged-but-rewritten:pg.QueryDataEncryptor", "OnQuery reported no change but the statement text differs: %q -> %q", sql, emitted)
		}
		return vs, info
	}
	t3, err := pgTree(emitted)
	if err != nil {
		vs.Add("substituted-reparse-fails:pg", "emitted text no longer parses (%v): %q (from %q)", err, emitted, sql)
		return vs, info
	}
	if p, m, d := pgDiff(t0, t3, "", allowed); d {
		vs.Add("substitution-alters:pg:"+pathClass(p), "after the PostgreSQL QueryDataEncryptor the statement differs outside the values of protected columns: %s | original %q | emitted %q", m, sql, emitted)
	}
	return vs, info
}

var pgSubValues = []string{"'abc'", "'it''s'", `E'esc\\n'`, "'Ünï'", "''", "42", "-7", "0", "1.5", "NULL", "$1", "$2", "DEFAULT", "now()", "upper('x')", `'\x4142'::bytea`, "'abc'::text", "other", "1 + 2", "(1)", "'enc<abc>'",
	"concat('a', 'b')", "true", "'a' || 'b'", "(select 1)", "coalesce(other, 'd')", "B'01'", "X'4142'", "'2020-01-01'::date", "CAST('z' AS text)", "$1::text", "$3::bytea", "-(3)"}

func genPGSubCase(t *rapid.T) PGSubCase {
	c := PGSubCase{Tag: rapid.SampledFrom([]string{"text", "binary"}).Draw(t, "tag")}
	c.Table = rapid.SampledFrom([]string{"t_enc", "t_enc", "t_enc", "t_nocols", `"t_enc"`, "public.t_enc", "plain_t", "T_ENC"}).Draw(t, "table")
	c.Form = rapid.SampledFrom([]string{"insert-cols", "insert-cols", "insert-nocols", "update", "update", "update"}).Draw(t, "form")
	colNames := []string{"id", "data", "other", "data2", `"data"`, "extra", `"other"`, "DATA2"}
	val := func(label string) string { return rapid.SampledFrom(pgSubValues).Draw(t, label) }
	width := rapid.IntRange(1, 5).Draw(t, "width")
	if c.Form != "insert-nocols" {
		seen := map[string]bool{}
		for i := 0; i < width; i++ {
			col := rapid.SampledFrom(colNames).Draw(t, "col")
			if seen[pgBare(col)] {
				continue
			}
			seen[pgBare(col)] = true
			c.Cols = append(c.Cols, col)
		}
		width = len(c.Cols)
	}
	rows := 1
	if c.Form != "update" {
		rows = rapid.IntRange(1, 3).Draw(t, "rows")
	}
	for r := 0; r < rows; r++ {
		row := make([]string, width)
		for j := range row {
			row[j] = val("val")
		}
		c.Rows = append(c.Rows, row)
	}
	if c.Form != "update" && rapid.IntRange(0, 2).Draw(t, "onconflict") == 0 {
		k := rapid.IntRange(1, 3).Draw(t, "ocn")
		seen := map[string]bool{}
		for i := 0; i < k; i++ {
			col := rapid.SampledFrom(colNames).Draw(t, "occol")
			if seen[pgBare(col)] {
				continue
			}
			seen[pgBare(col)] = true
			v := val("ocval")
			if v == "DEFAULT" && rapid.Bool().Draw(t, "excluded") {
				v = "excluded.other"
			}
			c.OnConflict = append(c.OnConflict, [2]string{col, v})
		}
	}
	if c.Form == "update" && rapid.IntRange(0, 2).Draw(t, "where") > 0 {
		c.Where = rapid.SampledFrom([]string{"id = 1", "id = $4 AND other <> 'x'", "other IN ('a', 'b') OR id > 5", "data IS NULL", "id IN (SELECT id FROM plain_t WHERE note = 'n')"}).Draw(t, "wtext")
	}
	c.Returning = rapid.SampledFrom([]string{"", "", "", "id", "*", "id, data, 'lit' AS l", "other, data2"}).Draw(t, "returning")
	return c
}

func TestSubstitutionPG(t *testing.T) {
	R.Rule("TestSubstitutionPG", "PostgreSQL INSERT (column list / none, multi-row, ON CONFLICT DO UPDATE SET, RETURNING) and UPDATE statements over the configured schema (protected columns data, data2), values of every kind in every position (literals, E'' and bytea spellings, casts, placeholders, DEFAULT, function calls, expressions, sub-selects, other columns), run through the PostgreSQL QueryDataEncryptor (pg_query parse - substitute - deparse) with an invertible stub encryptor; oracle 5: the emitted text parses to the received tree except below the value nodes of protected columns; non-trivial = the statement was rewritten and has >= 2 value positions")
	hx.Checks(2500, 20000)
	rapid.Check(t, func(rt *rapid.T) {
		c := genPGSubCase(rt)
		vs, info := CheckSubstitutionPG(c)
		cl := []string{"form:" + c.Form, "tag:" + c.Tag, "table:" + c.Table}
		switch {
		case info.errored:
			cl = append(cl, "encryptor-refused")
		case info.changed:
			cl = append(cl, "rewritten")
		default:
			cl = append(cl, "left-alone")
		}
		if info.nonLiteralProt {
			cl = append(cl, "protected-column-set-to-non-literal")
		}
		if len(c.OnConflict) > 0 {
			cl = append(cl, "on-conflict")
		}
		if c.Returning != "" {
			cl = append(cl, "returning")
		}
		positions := len(c.OnConflict)
		for _, r := range c.Rows {
			positions += len(r)
		}
		R.Seen("TestSubstitutionPG", c, info.changed && positions >= 2, cl...)
		R.Report(rt, "TestSubstitutionPG", c, vs)
	})
}
