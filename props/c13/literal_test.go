package c13

import (
	"fmt"
	"sort"
	"strings"
	"testing"

	"pgregory.net/rapid"

	"verif/internal/hx"
	"verif/internal/sqlgen"
)

// LitCase is a MySQL string literal assembled from spelling segments, in a statement template.
// Oracle: the literal in the re-serialised statement denotes, under MySQL's own lexical rules
// (default sql_mode), the same bytes as the literal that was received. Parse/print/parse equality
// cannot see a change made by the first parse; this oracle reads the texts the way the database does.
type LitCase struct {
	Quote    string   `json:"quote"` // ' or "
	Segs     []string `json:"segs"`
	Template int      `json:"template"`
}

var litTemplates = []string{"select %s from t", "select * from t where a like %s", "insert into t (a) values (%s)", "update t set a = %s where b = 1"}

// spelling segments; {q} stands for the doubled quote of the literal's own quote character
var litSegments = []string{"a", "b", " ", "%", "_", "{q}", `\'`, `\"`, `\\`, `\\x`, `\\x41`, `\x`, `\X`, "x", `\n`, `\t`, `\0`, `\Z`, `\b`, `\r`, `\%`, `\_`, `\a`, `\N`, "é", "{other}", "1", "-"}

func (c LitCase) spelling() string {
	other := `"`
	if c.Quote == `"` {
		other = "'"
	}
	var b strings.Builder
	b.WriteString(c.Quote)
	for _, s := range c.Segs {
		switch s {
		case "{q}":
			b.WriteString(c.Quote + c.Quote)
		case "{other}":
			b.WriteString(other)
		default:
			b.WriteString(s)
		}
	}
	b.WriteString(c.Quote)
	return b.String()
}

// mysqlString reads one quoted string literal at the start of s the way MySQL does (backslash
// escapes on, doubled quote = quote, \% and \_ keep their backslash). It returns the bytes the
// literal denotes and the length of its text.
func mysqlString(s string) (val []byte, n int, ok bool) {
	if len(s) == 0 || (s[0] != '\'' && s[0] != '"') {
		return nil, 0, false
	}
	q := s[0]
	for i := 1; i < len(s); i++ {
		ch := s[i]
		switch {
		case ch == q:
			if i+1 < len(s) && s[i+1] == q {
				val = append(val, q)
				i++
				continue
			}
			return val, i + 1, true
		case ch == '\\' && i+1 < len(s):
			i++
			switch e := s[i]; e {
			case '0':
				val = append(val, 0)
			case 'b':
				val = append(val, '\b')
			case 'n':
				val = append(val, '\n')
			case 'r':
				val = append(val, '\r')
			case 't':
				val = append(val, '\t')
			case 'Z':
				val = append(val, 26)
			case '%', '_':
				val = append(val, '\\', e)
			default:
				val = append(val, e)
			}
		default:
			val = append(val, ch)
		}
	}
	return nil, 0, false
}

// knownBackslashX models the one recorded deviation (known_findings.json, literal-meaning-changed:backslash-x):
// acra's tokenizer keeps the escape \x / \X as two bytes when it is the first special character of the literal
// (scanString, "specific case for postgresql"; the pinned sqlparser tests require '\x0102'::bytea to print back
// unchanged in the default dialect) and the printer writes a leading `\x` of any value raw. Under MySQL's rules
// the value gains a backslash for such an escape that is not at the start, and a value that starts with
// backslash-x (spelled '\\x..') loses its backslash. It returns what the re-serialised literal denotes then.
func knownBackslashX(lit string) []byte {
	const mark = "\x00BSX\x00"
	q := lit[0]
	kept := ""
	spelled := lit
	for i := 1; i < len(lit); i++ {
		if lit[i] == q {
			break
		}
		if lit[i] == '\\' {
			if i+1 < len(lit) && (lit[i+1] == 'x' || lit[i+1] == 'X') {
				kept = lit[i : i+2]
				spelled = lit[:i] + mark + lit[i+2:]
			}
			break
		}
	}
	v, _, ok := mysqlString(spelled)
	if !ok {
		return nil
	}
	if kept != "" {
		v = []byte(strings.Replace(string(v), mark, kept, 1))
	}
	if strings.HasPrefix(string(v), `\x`) {
		v = v[1:]
	}
	return v
}

func litMeaningKept(c LitCase) (ok bool, detail string, vs hx.Vs) {
	lit := c.spelling()
	want, n, wellFormed := mysqlString(lit)
	if !wellFormed || n != len(lit) {
		return true, "", nil // not one literal under MySQL rules (cannot happen with the segment vocabulary)
	}
	sql := fmt.Sprintf(litTemplates[c.Template%len(litTemplates)], lit)
	st, isDML, err := parseDML(&vs, "parse", sql)
	if len(vs) > 0 {
		return false, "", vs
	}
	if err != nil || !isDML {
		return true, "", nil // outside the domain: not accepted
	}
	out, printed := printStmt(&vs, "print", st)
	if !printed {
		return false, "", vs
	}
	i := strings.IndexAny(out, `'"`)
	if i < 0 {
		return false, fmt.Sprintf("the literal %s vanished: %q -> %q", lit, sql, out), nil
	}
	got, _, wellFormed := mysqlString(out[i:])
	if !wellFormed {
		return false, fmt.Sprintf("the printed literal is not a MySQL string: %q -> %q", sql, out), nil
	}
	if string(got) != string(want) && string(got) == string(knownBackslashX(lit)) {
		return false, "known:" + fmt.Sprintf("literal %s denotes %q, after re-serialisation %q denotes %q (%q -> %q)", lit, want, out[i:], got, sql, out), nil
	}
	if string(got) != string(want) {
		return false, fmt.Sprintf("literal %s denotes %q, after re-serialisation %q denotes %q (%q -> %q)", lit, want, out[i:], got, sql, out), nil
	}
	return true, "", nil
}

// CheckLiteral evaluates the literal oracle and names the spelling segments that fail on their own.
func CheckLiteral(c LitCase) (vs hx.Vs) {
	sqlgen.SetDialect(sqlgen.MySQL)
	ok, detail, pvs := litMeaningKept(c)
	if len(pvs) > 0 {
		return pvs
	}
	if ok {
		return nil
	}
	if strings.HasPrefix(detail, "known:") {
		vs.Add("literal-meaning-changed:backslash-x", "%s", strings.TrimPrefix(detail, "known:"))
		return vs
	}
	var bad []string
	seen := map[string]bool{}
	for _, s := range c.Segs {
		if seen[s] {
			continue
		}
		seen[s] = true
		if single, _, _ := litMeaningKept(LitCase{Quote: c.Quote, Segs: []string{s}, Template: 0}); !single {
			bad = append(bad, s)
		}
	}
	sort.Strings(bad)
	who := "combination"
	if len(bad) > 0 {
		who = strings.Join(bad, " ")
	}
	vs.Add("literal-meaning-changed:"+who, "%s", detail)
	return vs
}

func TestLiteral(t *testing.T) {
	R.Rule("TestLiteral", "MySQL string literals assembled from spelling segments (plain, doubled quote, every backslash escape incl. \\% and \\_, the other quote character) in single and double quotes, in SELECT / LIKE / INSERT / UPDATE templates; oracle: the literal of the re-serialised text denotes the same bytes under MySQL's lexical rules as the literal received; non-trivial = at least two segments one of which is an escape")
	hx.Checks(2000, 15000)
	rapid.Check(t, func(rt *rapid.T) {
		c := LitCase{Quote: rapid.SampledFrom([]string{"'", "'", `"`}).Draw(rt, "quote"), Template: rapid.IntRange(0, len(litTemplates)-1).Draw(rt, "template")}
		c.Segs = rapid.SliceOfN(rapid.SampledFrom(litSegments), 0, 6).Draw(rt, "segs")
		vs := CheckLiteral(c)
		escapes := 0
		cl := []string{"quote:" + c.Quote, fmt.Sprintf("template:%d", c.Template)}
		for _, s := range c.Segs {
			if len(s) > 1 {
				escapes++
			}
			cl = append(cl, "seg:"+s)
		}
		R.Seen("TestLiteral", c, len(c.Segs) >= 2 && escapes >= 1, cl...)
		R.Report(rt, "TestLiteral", c, vs)
	})
}
