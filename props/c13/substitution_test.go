package c13

import (
	"bytes"
	"context"
	"encoding/hex"
	"fmt"
	"io"
	"net"
	"strings"
	"testing"

	"github.com/sirupsen/logrus"
	"pgregory.net/rapid"

	decryptor "github.com/cossacklabs/acra/decryptor/base"
	"github.com/cossacklabs/acra/encryptor/base/config"
	encmysql "github.com/cossacklabs/acra/encryptor/mysql"

	"verif/internal/hx"
	"verif/internal/sqlgen"
)

func init() { logrus.SetOutput(io.Discard) }

// SubCase is one statement for the MySQL QueryDataEncryptor, described structurally so that the
// check knows which literal positions belong to protected columns.
type SubCase struct {
	Table  string      `json:"table"`  // table spelling in the statement
	Form   string      `json:"form"`   // insert-cols | insert-nocols | insert-set | update
	Action string      `json:"action"` // insert | replace
	Cols   []string    `json:"cols,omitempty"`
	Rows   [][]string  `json:"rows"` // value texts, row major (one row for insert-set / update)
	OnDup  [][2]string `json:"ondup,omitempty"`
	Where  string      `json:"where,omitempty"`
	Tail   string      `json:"tail,omitempty"`
	Tag    string      `json:"tag"` // text | binary: shape of the stub encryptor's output
}

const subSchema = `
schemas:
  - table: t_enc
    columns: ["id", "data", "other", "data2"]
    encrypted:
      - column: "data"
      - column: "data2"
  - table: t_nocols
    encrypted:
      - column: "data"
`

var (
	schemaCols = map[string][]string{"t_enc": {"id", "data", "other", "data2"}, "t_nocols": nil}
	encCols    = map[string]map[string]bool{"t_enc": {"data": true, "data2": true}, "t_nocols": {"data": true}}
)

var (
	textTagL, textTagR = []byte("enc<"), []byte(">")
	binTag             = []byte{0xff, 0xfe, 'T'}
)

type stubEncryptor struct{ binary bool }

func (s stubEncryptor) EncryptWithClientID(clientID, data []byte, _ config.ColumnEncryptionSetting) ([]byte, error) {
	if s.binary {
		return append(append([]byte{}, binTag...), data...), nil
	}
	return append(append(append([]byte{}, textTagL...), data...), textTagR...), nil
}

func untag(b []byte) ([]byte, bool) {
	if bytes.HasPrefix(b, binTag) {
		return b[len(binTag):], true
	}
	if bytes.HasPrefix(b, textTagL) && bytes.HasSuffix(b, textTagR) && len(b) >= len(textTagL)+len(textTagR) {
		return b[len(textTagL) : len(b)-len(textTagR)], true
	}
	return nil, false
}

// session is a minimal decryptor.ClientSession.
type session struct{ data map[string]interface{} }

func (s *session) Context() context.Context             { return context.Background() }
func (s *session) ClientConnection() net.Conn           { return nil }
func (s *session) DatabaseConnection() net.Conn         { return nil }
func (s *session) ProtocolState() interface{}           { return nil }
func (s *session) SetProtocolState(state interface{})   {}
func (s *session) GetData(k string) (interface{}, bool) { v, ok := s.data[k]; return v, ok }
func (s *session) SetData(k string, v interface{})      { s.data[k] = v }
func (s *session) DeleteData(k string)                  { delete(s.data, k) }
func (s *session) HasData(k string) bool                { _, ok := s.data[k]; return ok }

func (c SubCase) assemble() string {
	var b strings.Builder
	assign := func(cols []string, vals []string) string {
		parts := make([]string, 0, len(cols))
		for i, col := range cols {
			v := "null"
			if i < len(vals) {
				v = vals[i]
			}
			parts = append(parts, col+" = "+v)
		}
		return strings.Join(parts, ", ")
	}
	rows := func() string {
		rs := make([]string, len(c.Rows))
		for i, r := range c.Rows {
			rs[i] = "(" + strings.Join(r, ", ") + ")"
		}
		return strings.Join(rs, ", ")
	}
	first := []string{}
	if len(c.Rows) > 0 {
		first = c.Rows[0]
	}
	switch c.Form {
	case "insert-cols":
		fmt.Fprintf(&b, "%s into %s (%s) values %s", c.Action, c.Table, strings.Join(c.Cols, ", "), rows())
	case "insert-nocols":
		fmt.Fprintf(&b, "%s into %s values %s", c.Action, c.Table, rows())
	case "insert-set":
		fmt.Fprintf(&b, "%s into %s set %s", c.Action, c.Table, assign(c.Cols, first))
	default:
		fmt.Fprintf(&b, "update %s set %s", c.Table, assign(c.Cols, first))
	}
	if len(c.OnDup) > 0 && c.Form != "update" {
		parts := make([]string, len(c.OnDup))
		for i, a := range c.OnDup {
			parts[i] = a[0] + " = " + a[1]
		}
		b.WriteString(" on duplicate key update " + strings.Join(parts, ", "))
	}
	if c.Form == "update" {
		if c.Where != "" {
			b.WriteString(" where " + c.Where)
		}
		if c.Tail != "" {
			b.WriteString(" " + c.Tail)
		}
	}
	return b.String()
}

// bareName strips quoting and qualifiers from an identifier spelling and lowers it.
func bareName(s string) string {
	if i := strings.LastIndex(s, "."); i >= 0 {
		s = s[i+1:]
	}
	return strings.ToLower(strings.Trim(s, "`"))
}

// litBytes decodes a canonical literal into the byte strings it may stand for.
func litBytes(c *cn) [][]byte {
	if c == nil || c.K != "Lit" {
		return nil
	}
	i := strings.Index(c.A, ":")
	if i < 0 {
		return nil
	}
	typ, rest := c.A[:i], c.A[i+1:]
	if j := strings.Index(rest, "|"); j >= 0 {
		rest = rest[:j]
	}
	raw, err := hex.DecodeString(rest)
	if err != nil {
		return nil
	}
	out := [][]byte{raw}
	switch typ {
	case "hexval":
		if d, err := hex.DecodeString(string(raw)); err == nil {
			out = append(out, d)
		}
	case "hexnum":
		if len(raw) >= 2 {
			if d, err := hex.DecodeString(string(raw[2:])); err == nil {
				out = append(out, d)
			}
		}
	}
	return out
}

// unwrap descends through the wrappers the encryptor looks through: ( ... ) and _binary.
func unwrap(c *cn) *cn {
	for c != nil && len(c.C) == 1 && (c.K == "Paren" || (c.K == "Unary" && c.A == "_binary")) {
		c = c.C[0]
	}
	return c
}

func child(c *cn, kind string) *cn {
	if c == nil {
		return nil
	}
	for _, k := range c.C {
		if k.K == kind {
			return k
		}
	}
	return nil
}

// configured marks the literal nodes of the original tree that sit at positions of protected columns.
func (c SubCase) configured(root *cn) map[*cn]bool {
	marked := map[*cn]bool{}
	table := bareName(c.Table)
	enc := encCols[table]
	if enc == nil {
		return marked
	}
	mark := func(v *cn) {
		if v = unwrap(v); v != nil && v.K == "Lit" {
			marked[v] = true
		}
	}
	assigns := func(list *cn) {
		if list == nil {
			return
		}
		for _, a := range list.C {
			if a.K != "Assign" || len(a.C) != 2 || a.C[0].K != "ColName" || !enc[bareName(a.C[0].A)] {
				continue
			}
			// a qualified column belongs to the statement's table only if the qualifier names it
			if parts := strings.Split(a.C[0].A, "."); len(parts) == 3 && strings.ToLower(parts[1]) != table {
				continue
			}
			mark(a.C[1])
		}
	}
	switch root.K {
	case "Insert":
		var cols []string
		if cl := child(root, "Columns"); cl != nil {
			for _, id := range cl.C {
				cols = append(cols, strings.ToLower(id.A))
			}
		} else {
			cols = schemaCols[table]
		}
		if vals := child(root, "Values"); vals != nil {
			for _, row := range vals.C {
				for j, v := range row.C {
					if j < len(cols) && enc[cols[j]] {
						mark(v)
					}
				}
			}
		}
		assigns(child(root, "OnDup"))
	case "Update":
		assigns(child(root, "Set"))
	}
	return marked
}

// diffAllow is diff with a licence: allow(a, b) may accept a differing pair of sub-trees.
func diffAllow(a, b *cn, path string, allow func(a, b *cn) bool) (string, string, bool) {
	if allow(a, b) {
		return "", "", false
	}
	here := path + "/" + a.K
	if a.K != b.K || a.A != b.A || len(a.C) != len(b.C) {
		return diff(a, b, path)
	}
	for i := range a.C {
		if p, m, d := diffAllow(a.C[i], b.C[i], here, allow); d {
			return p, m, true
		}
	}
	return "", "", false
}

type subInfo struct {
	changed     bool
	substituted int
	configured  int
	errored     bool
}

var schemaStore *config.MapTableSchemaStore

// CheckSubstitution is oracle 3.
func CheckSubstitution(c SubCase) (vs hx.Vs, info subInfo) {
	sqlgen.SetDialect(sqlgen.MySQL)
	if schemaStore == nil {
		st, err := config.MapTableSchemaStoreFromConfig([]byte(subSchema), config.UseMySQL)
		if err != nil {
			vs.Add("harness:schema", "%v", err)
			return vs, info
		}
		schemaStore = st
	}
	sql := c.assemble()
	t0, ok, err := parseDML(&vs, "parse", sql)
	if len(vs) > 0 {
		return vs, info
	}
	if err != nil || !ok {
		vs.Add("harness:substitution-generator", "generated statement rejected (%v): %s", err, sql)
		return vs, info
	}
	c0 := (&walker{}).stmt(t0)
	marked := c.configured(c0)
	info.configured = len(marked)

	qe, err := encmysql.NewQueryEncryptor(schemaStore, strict, stubEncryptor{binary: c.Tag == "binary"})
	if err != nil {
		vs.Add("harness:encryptor", "%v", err)
		return vs, info
	}
	ctx := decryptor.SetAccessContextToContext(context.Background(), decryptor.NewAccessContext(decryptor.WithClientID([]byte("client"))))
	ctx = decryptor.SetClientSessionToContext(ctx, &session{data: map[string]interface{}{}})
	var out encmysql.OnQueryObject
	var changed bool
	if hx.Guard(&vs, "QueryDataEncryptor.OnQuery", func() {
		out, changed, err = qe.OnQuery(ctx, encmysql.NewOnQueryObjectFromQuery(sql, strict))
	}) {
		return vs, info
	}
	if err != nil {
		info.errored = true // the statement is refused, nothing is forwarded re-serialised
		return vs, info
	}
	info.changed = changed
	var emitted string
	if hx.Guard(&vs, "OnQueryObject.Query", func() { emitted = out.Query() }) {
		return vs, info
	}
	if !changed && emitted != sql {
		vs.Add("unchanged-but-rewritten:QueryDataEncryptor", "OnQuery reported no change but the statement text differs: %q -> %q", sql, emitted)
		return vs, info
	}
	t3, ok, err := parseDML(&vs, "reparse", emitted)
	if len(vs) > 0 {
		return vs, info
	}
	if err != nil || !ok {
		vs.Add("substituted-reparse-fails:"+culpritOr(false, t0, "QueryDataEncryptor"), "emitted text no longer parses as DML (%v): %q (from %q)", err, emitted, sql)
		return vs, info
	}
	c3 := (&walker{}).stmt(t3)
	done := map[*cn]bool{}
	allow := func(a, b *cn) bool {
		if !marked[a] || b.K != "Lit" {
			return false
		}
		for _, nb := range litBytes(b) {
			orig, tagged := untag(nb)
			if !tagged {
				continue
			}
			for _, ob := range litBytes(a) {
				if bytes.Equal(ob, orig) {
					info.substituted++
					done[a] = true
					return true
				}
			}
		}
		return false
	}
	if p, m, d := diffAllow(c0, c3, "", allow); d {
		vs.Add("substitution-alters:"+culpritOr(false, t0, tail(p)), "after QueryDataEncryptor the statement differs outside protected literals: %s | original %q | emitted %q", m, sql, emitted)
		return vs, info
	}
	// strict part, only for the plain shape: every non-empty plain literal at a protected position was substituted
	if c.Table == "t_enc" || c.Table == "t_nocols" {
		for lit := range marked {
			bs := litBytes(lit)
			if len(bs) == 0 || len(bs[0]) == 0 || strings.Contains(lit.A, "|cast=") {
				continue
			}
			typ := lit.A[:strings.Index(lit.A, ":")]
			if typ != "str" && typ != "int" && typ != "hexval" {
				continue
			}
			if !done[lit] {
				vs.Add("substitution-missed:"+typ, "literal %s sits at a protected position but was forwarded as it is: %q -> %q", lit, sql, emitted)
				return vs, info
			}
		}
	}
	return vs, info
}

var subValues = []string{"'abc'", "'it''s'", `'back\\slash'`, `"double quoted"`, "'Ünï'", "''", "42", "-7", "0", "X'4142'", "x'ff00'", "0x4142", "1.5", "null", "?", "default",
	"('par')", "_binary 'bin'", "concat('a', 'b')", "now()", "true", "b'01'", "1 + 2", "'x' 'y'", "'enc<abc>'", "'%'", `'\''`, "(1)", "((('deep')))", "values(other)", "other", "-(3)", "'a' collate utf8_bin"}

func genSubCase(t *rapid.T) SubCase {
	c := SubCase{Action: "insert", Tag: rapid.SampledFrom([]string{"text", "binary"}).Draw(t, "tag")}
	c.Table = rapid.SampledFrom([]string{"t_enc", "t_enc", "t_enc", "t_nocols", "T_ENC", "`t_enc`", "db.t_enc", "plain_t", "`T_enc`"}).Draw(t, "table")
	c.Form = rapid.SampledFrom([]string{"insert-cols", "insert-cols", "insert-nocols", "insert-set", "update", "update"}).Draw(t, "form")
	if c.Form != "update" && rapid.IntRange(0, 5).Draw(t, "replace") == 0 {
		c.Action = "replace"
	}
	colNames := []string{"id", "data", "other", "data2", "DATA", "`data`", "`Other`", "t_enc.data", "extra", "`data2`"}
	val := func(label string) string {
		v := rapid.SampledFrom(subValues).Draw(t, label)
		if v == "'x' 'y'" || v == "values(other)" && c.Form == "update" {
			return "'xy'"
		}
		return v
	}
	width := rapid.IntRange(1, 5).Draw(t, "width")
	if c.Form != "insert-nocols" {
		seen := map[string]bool{}
		for i := 0; i < width; i++ {
			col := rapid.SampledFrom(colNames).Draw(t, "col")
			if (c.Form == "insert-cols") && strings.Contains(col, ".") {
				col = "data"
			}
			if seen[bareName(col)] {
				continue
			}
			seen[bareName(col)] = true
			c.Cols = append(c.Cols, col)
		}
		width = len(c.Cols)
	}
	rows := 1
	if strings.HasPrefix(c.Form, "insert-") && c.Form != "insert-set" {
		rows = rapid.IntRange(1, 3).Draw(t, "rows")
	}
	for r := 0; r < rows; r++ {
		row := make([]string, width)
		for j := range row {
			row[j] = val("val")
		}
		c.Rows = append(c.Rows, row)
	}
	if c.Form != "update" && rapid.IntRange(0, 2).Draw(t, "ondup") == 0 {
		k := rapid.IntRange(1, 3).Draw(t, "ondupn")
		for i := 0; i < k; i++ {
			c.OnDup = append(c.OnDup, [2]string{rapid.SampledFrom(colNames).Draw(t, "dupcol"), val("dupval")})
		}
	}
	if c.Form == "update" {
		if rapid.IntRange(0, 3).Draw(t, "where") > 0 {
			c.Where = sqlgen.Expr(t, sqlgen.Opts{RawByteNames: true, Dialect: sqlgen.MySQL}, rapid.IntRange(1, 3).Draw(t, "wheredepth"))
		}
		c.Tail = rapid.SampledFrom([]string{"", "", "limit 3", "order by id desc limit 1", "order by data"}).Draw(t, "tail")
	}
	return c
}

func TestSubstitution(t *testing.T) {
	R.Rule("TestSubstitution", "INSERT / REPLACE / INSERT..SET / UPDATE statements over a configured schema (protected columns data, data2), literals of every spelling plus generated WHERE expressions, run through the MySQL QueryDataEncryptor with an invertible stub encryptor (text tag or binary tag); oracle 3; non-trivial = at least one literal was substituted and the statement has >= 2 clauses or nesting depth >= 2")
	hx.Checks(2500, 20000)
	rapid.Check(t, func(rt *rapid.T) {
		c := genSubCase(rt)
		vs, info := CheckSubstitution(c)
		cl := []string{"form:" + c.Form, "tag:" + c.Tag, "table:" + c.Table}
		switch {
		case info.errored:
			cl = append(cl, "encryptor-refused")
		case info.changed:
			cl = append(cl, "rewritten")
		default:
			cl = append(cl, "left-alone")
		}
		if info.substituted > 1 {
			cl = append(cl, "substituted:many")
		} else if info.substituted == 1 {
			cl = append(cl, "substituted:one")
		}
		if len(c.OnDup) > 0 {
			cl = append(cl, "on-duplicate-key")
		}
		R.Seen("TestSubstitution", c, info.substituted > 0 && (len(c.Rows) > 1 || len(c.OnDup) > 0 || c.Where != "" || len(c.Cols) > 1), cl...)
		R.Report(rt, "TestSubstitution", c, vs)
	})
}
